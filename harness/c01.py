"""C01 — returned composition is the LTE equilibrium (mass action / Saha laws hold)."""
import json
import math
import random

import numpy as np

import common
import gen
import solver
import solverchecks as sc
from minplascalc import units as u

def defect_limit(x):
    """|mass-action defect| / kT allowed for a species of mole fraction x (property text): sharp above 1e-5, looser down to 1e-7,
    nothing demanded below.  By the Newton residual identity (theorem) the defect of a species at exit IS its own last relative
    Newton change, which the stopping rule bounds by rtol = 1e-10 for every species above 1e-7 of the most abundant one;
    observed on the unchanged tree: <= 2e-10 and <= 3e-9."""
    return None if x <= 1e-7 else (1e-8 if x > 1e-5 else 1e-6)


def mass_action_defect(m, nd):
    """defect of mu/kT against its weighted least-squares projection on the column space of the constraint
    matrix; mu evaluated by the EXTRACTED model kernels (not by the code under test) at the returned densities"""
    sps = list(m.species)
    solver.set_elements(sps)
    Ni = np.asarray(nd, dtype=float) * 1.0       # any positive multiple: mu depends on densities only (theorem)
    V = 1.0
    N = Ni * V
    toks = [common.fhex(m.T), common.fhex(m.P), str(len(sps))]
    for s in sps:
        toks += common.enc_species(s)
    toks += common.enc_list(list(m.x0)) + [common.fhex(0.5)] + common.enc_list(list(N)) + common.enc_list(list(N)) + common.enc_list([0.0] * (len(sc.constraint_matrix(m)[0]) + 1))
    out = common.run_driver("mix", ["step " + " ".join(toks)])[0]
    n = len(sps)
    mu = np.array([common.unhex(t) for t in out[:n]])
    kT = u.k_b * m.T
    names, A = sc.constraint_matrix(m)
    x = nd / nd.sum()
    w = np.sqrt(np.maximum(x, 1e-300))
    lam, *_ = np.linalg.lstsq(A * w[:, None], -(mu / kT) * w, rcond=None)
    return (mu / kT + A @ lam), x


def documented_defect(m, nd):
    """the same projection with chemical potentials built from the DOCUMENTED partition functions (c07.spec_Zint / spec_Ztr, written from
    the documentation, sharing no code with the library or with the regenerated kernels) and the reference energies / lowerings the
    solver used (tied to their documented chains by the reference-energy correspondence)"""
    import c07
    E0 = np.asarray(getattr(m, "_LTE__E0"), dtype=float)
    dE = np.asarray(getattr(m, "_LTE__dE"), dtype=float)
    kT = u.k_b * m.T
    mu = np.array([e0 / kT - math.log(c07.spec_Ztr(sp, m.T) * c07.spec_Zint(sp, m.T, de) / n)
                   for sp, n, e0, de in zip(m.species, nd, E0, dE)])
    names, A = sc.constraint_matrix(m)
    x = nd / nd.sum()
    w = np.sqrt(np.maximum(x, 1e-300))
    lam, *_ = np.linalg.lstsq(A * w[:, None], -mu * w, rcond=None)
    return (mu + A @ lam), x


def judge(m, nd):
    if not np.all(np.isfinite(nd)) or not np.all(nd > 0):
        return None     # C02's business
    d, x = mass_action_defect(m, nd)
    if not np.all(np.isfinite(d)):
        return None
    try:
        d2, _ = documented_defect(m, nd)
        if np.all(np.isfinite(d2)):
            d = np.where(np.abs(d2) > np.abs(d), d2, d)      # the larger of the two defects, per species
    except (ValueError, ZeroDivisionError, OverflowError):
        pass
    worst = None
    for di, xi, sp in zip(d, x, m.species):
        lim = defect_limit(xi)
        if lim is not None and abs(di) > lim:
            if worst is None or abs(di) / lim > worst[0]:
                worst = (abs(di) / lim, sp.name, float(di), float(xi))
    return worst


def check(run):
    rng = random.Random(run.seed)
    thorough = run.tier == "thorough"
    n = 1200 if thorough else 150
    run.cov["rule"] = ("same mixture generator as C02; for every un-warned run the chemical potentials are evaluated by the extracted model kernels "
                       "at the returned densities and projected (mole-fraction weighted least squares) on the span of the element and charge columns; "
                       "judged at 1e-8 (x > 1e-5) and 1e-6 (1e-7 < x <= 1e-5) in mu/kT; distinct = (species names in order, T, P)")
    run.cov["trusted_base"] = common.TRUSTED_COMMON + [
        "hand-written step / reference-energy models tied to calculate_composition by recorded iterations",
        "NOT proved: that the floating-point iteration reaches the fixed point (the stopping rule inspects only the most abundant species); "
        "the residuals of the returned compositions are tested below, with mu from the extracted kernels as independent oracle"]
    broken = []
    res = common.prove("thm/C01.v")
    run.add_proof(res, "make -f Makefile.coq thm/C01.vo")
    if not res["ok"]:
        broken.append({"stage": "proof", "detail": res["error"]})
        run.note(f"proof obligation failed: {res['error']}")
    # the chemical potentials of the theorems are built from the regenerated partition-function kernels; that these ARE the documented
    # sums is C07's theorem file, a proof obligation of this property too
    res7 = common.prove("thm/C07.v")
    if not res7["ok"]:
        broken.append({"stage": "proof", "detail": {"prerequisite": "thm/C07.v (partition-function kernels = documented sums)", "error": res7["error"]}})
        run.note(f"prerequisite proof obligation failed (thm/C07.v): {res7['error']}")
    ok, refusals, _ = common.regenerate(["species", "mixture"])
    if not ok:
        broken.append({"stage": "translator", "detail": refusals})
    okd, dlog = common.build_driver("mix")
    runs, found, hist = [], None, {}
    worst_seen = 0.0
    # dense, hot Si-C-O: the Stewart-Pyatt lowering reaches half of an ionisation energy there
    dense = [([gen.shipped(nm) for nm in gen.SICO], gen.sico_x0(f), Tp, Pp, "dense")
             for f, Tp, Pp in ((0.5, 20000.0, 8e6), (0.2, 26000.0, 1e7), (0.8, 16000.0, 6e6))]
    for sps, x0, T, P, kind in dense + sc.cases(rng, n):
        m, nd, warned = solver.traced(sps, x0, T, P)
        runs.append((m, nd, warned))
        outcome = "warned" if warned is True else (warned if warned else "ok")
        hist[f"{kind}:{outcome}"] = hist.get(f"{kind}:{outcome}", 0) + 1
        run.count(1, distinct_key=(tuple(s.name for s in sps), round(T, 3), round(P, 3)), nontrivial=not warned)
        if not warned and okd:
            w = judge(m, nd)
            if w:
                worst_seen = max(worst_seen, w[0])
                if found is None:
                    found = {"kind": "input", "what": f"mass-action defect of {w[1]} is {w[2]:.3e} kT at mole fraction {w[3]:.3e}",
                             "case": sc.describe(sps, x0, T, P)}
        run.sample({"species": [s.name for s in sps], "T": T, "P": P, "outcome": outcome}, cap=4)
    run.cov["outcome_histogram"] = hist
    if not okd:
        broken.append({"stage": "extraction", "detail": dlog[-600:]})
    else:
        dis = sc.trace_correspondence(run, runs)
        run.cov["correspondence_disagreements"] = len(dis)
        if dis:
            broken.append({"stage": "correspondence", "detail": dis[:3]})
            run.note(f"step model and implementation disagree: {dis[0]['what']}")
    if found:
        found["broken"] = broken
        run.violation(found)
    elif broken:
        run.violation({"kind": "broken-obligation", "broken": broken,
                       "what": "theorem / correspondence for C01 no longer checks; no failing input found"}, no_input=True)


def replay(path):
    d = json.load(open(path))
    if d.get("kind") != "input":
        print("replay names a broken obligation:", json.dumps(d.get("broken"), indent=1, default=str)[:2000])
        return 1
    common.build_driver("mix")
    sps, x0, T, P, ctl = sc.rebuild(d["case"])
    m, nd, warned = solver.traced(sps, x0, T, P, ctl)
    w = None if warned else judge(m, nd)
    print("warned" if warned else (f"mass-action defect: {w}" if w else "mass action holds above the floor"))
    return 1 if w else 0
