"""Engine shared by the solver-level checks (C01, C02, C04, C05, C06): generated mixtures, traced runs, and the
correspondence of the hand-written step / reference-energy / control models with recorded iterations."""
import math
import random

import numpy as np

import common
import gen
import solver
from minplascalc import units as u

TOL_MU = 1e-11        # mu, E0, dE: relative to max(|value|, kT)
TOL_RES = 1e-12       # model residual vs implementation matrix: scaled by |M||v| + |rhs|
TOL_STEP = 1e-12      # relaxation factor, stopping quantity, next iterate


def constraint_matrix(m):
    names = sorted({e for sp in m.species for e in sp.stoichiometry})
    A = np.array([[sp.stoichiometry.get(el, 0) for el in names] + [sp.charge_number] for sp in m.species], dtype=float)
    return names, A


def describe(sps, x0, T, P, controls=solver.DEFAULT_CONTROLS):
    return {"species": [gen.species_summary(s) | {"kind_extra": {k: getattr(s, k) for k in ("polarisability", "multiplicity") if hasattr(s, k)}}
                        if False else full_species(s) for s in sps],
            "x0": list(map(float, x0)), "T": T, "P": P, "controls": list(controls)}


def full_species(s):
    d = dict(s.__dict__)
    d["__class__"] = type(s).__name__
    return d


def rebuild_species(d):
    from minplascalc import species as _sp
    d = dict(d)
    cls = getattr(_sp, d.pop("__class__"))
    sp = cls.__new__(cls)
    sp.__dict__.update(d)
    return sp


def rebuild(case):
    return [rebuild_species(d) for d in case["species"]], case["x0"], case["T"], case["P"], tuple(case["controls"])


def cases(rng, n, Trange=(1000.0, 30000.0), Prange=(1e3, 1e7), kinds=None):
    out = []
    for _ in range(n):
        sps, x0, kind = gen.rand_mixture_spec(rng, rng.choice(kinds) if kinds else None)
        # now and then a temperature from a small grid, so that different species of the same name meet at the same T
        grid = [t for t in (1500.0, 3000.0, 4000.0, 6000.0, 10000.0, 15000.0, 20000.0) if Trange[0] <= t <= Trange[1]]
        T = rng.choice(grid) if (grid and rng.random() < 0.3) else gen.log_uniform(rng, *Trange)
        out.append((sps, x0, T, gen.log_uniform(rng, *Prange), kind))
    return out


def trace_correspondence(run, runs, per_run=3):
    """runs: list of (m, nd, warned).  Compare the extracted step model with recorded iterations.
    Returns list of disagreement dicts."""
    dis = []
    lines, where = [], []
    for ri, (m, nd, warned) in enumerate(runs):
        tr = getattr(m, "_verif_trace", [])
        if not tr:
            continue
        solver.set_elements(list(m.species))
        idx = sorted({0, len(tr) // 2, len(tr) - 1})[:per_run]
        for i in idx:
            if not all(np.isfinite(tr[i][1])) or not all(np.isfinite(tr[i][2])):
                continue
            lines.append(solver.step_case(m, tr[i]))
            where.append((ri, i))
    if not lines:
        return dis
    outs = common.run_driver("mix", lines)
    for (ri, i), o in zip(where, outs):
        m, nd, warned = runs[ri]
        tr = m._verif_trace
        gi, Ni, Nn, lam, r_i, rt_i, E0, dE, mu_i, M, rhs = tr[i]
        n, nc = len(m.species), len(lam)
        if o and o[0] == "ERROR":
            dis.append({"what": "model error", "detail": " ".join(o)})
            continue
        mu, rs, rc, r, stop, nx, dens = solver.decode_step(o, n, nc)
        kT = u.k_b * m.T
        v = np.concatenate([Nn, lam])
        res = M @ v - rhs
        scale = np.abs(M) @ np.abs(v) + np.abs(rhs)
        mres = np.array(list(rs) + list(rc))
        bad = None
        if not np.all(np.isfinite(mu_i)):
            continue
        e_mu = max(abs(a - b) / max(abs(b), kT) for a, b in zip(mu, mu_i))
        e_res = float(np.max(np.abs(mres - res) / np.where(scale > 0, scale, 1.0)))
        nxt = tr[i + 1][1] if i + 1 < len(tr) and tr[i + 1][0] == gi else (getattr(m, "_LTE__Ni") if i + 1 == len(tr) else None)
        if e_mu > TOL_MU:
            bad = ("chemical potential / reference energies", e_mu)
        elif e_res > TOL_RES:
            bad = ("linear system (matrix or right-hand side)", e_res)
        elif abs(r - r_i) > TOL_STEP:
            bad = ("relaxation factor", abs(r - r_i))
        elif math.isfinite(rt_i) and abs(stop - rt_i) > TOL_STEP * max(abs(rt_i), 1e-300) and abs(stop - rt_i) > 1e-300:
            bad = ("stopping quantity", abs(stop - rt_i))
        elif nxt is not None and np.all(np.isfinite(nxt)) and max(abs(a - b) / max(abs(b), 1e-300) for a, b in zip(nx, nxt)) > TOL_STEP:
            bad = ("relaxed iterate", max(abs(a - b) / max(abs(b), 1e-300) for a, b in zip(nx, nxt)))
        elif i + 1 == len(tr) and nd is not None and np.all(np.isfinite(nd)) and \
                max(abs(a - b) / max(abs(b), 1e-300) for a, b in zip(dens, nd)) > TOL_STEP:
            bad = ("number densities from particle numbers", 0.0)
        run.cov["traces_validated_against_impl"] += 1
        if bad:
            dis.append({"what": bad[0], "error": float(bad[1]), "iteration": i, "T": m.T, "P": m.P,
                        "species": [s.name for s in m.species], "x0": list(m.x0)})
    return dis


def control_correspondence(runs):
    """replay the recorded stopping quantities through the extracted Retry model"""
    lines, where = [], []
    for ri, (m, nd, warned) in enumerate(runs):
        tr = getattr(m, "_verif_trace", None)
        if tr is None or warned not in (True, False):
            continue
        toks = [str(int(m.gfe_max_iter)), str(len(tr))]
        for e in tr:
            rt = e[5]
            o = 2 if not math.isfinite(rt) else (0 if rt > m.gfe_rtol else 1)
            toks += [str(int(e[0])), str(o)]
        lines.append("control " + " ".join(toks))
        where.append(ri)
    dis = []
    if not lines:
        return dis, 0
    outs = common.run_driver("mix", lines)
    for ri, o in zip(where, outs):
        m, nd, warned = runs[ri]
        tr = m._verif_trace
        per_gov = {}
        for e in tr:
            per_gov[int(e[0])] = per_gov.get(int(e[0]), 0) + 1
        impl = " ".join(f"{'C' if (g == max(per_gov) and m._verif_success) else 'F'}{per_gov[g]}" for g in sorted(per_gov))
        impl += " | " + ("warn" if warned else "ok")
        model = " ".join(o)
        if model != impl:
            dis.append({"what": "control flow (governor attempts, iteration counts, warning)", "impl": impl, "model": model,
                        "T": m.T, "P": m.P, "species": [s.name for s in m.species], "x0": list(m.x0),
                        "controls": [m.gfe_initial_particles, m.gfe_rtol, m.gfe_max_iter]})
    return dis, len(lines)
