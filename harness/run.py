"""Entry point of ./check."""
import argparse
import importlib
import os
import sys
import traceback

import common


def main():
    ap = argparse.ArgumentParser()
    ap.add_argument("prop")
    ap.add_argument("--tier", default=os.environ.get("VERIF_TIER", "quick"), choices=["quick", "thorough"])
    ap.add_argument("--replay", default=None)
    a = ap.parse_args()
    seed = int(os.environ.get("VERIF_SEED", "20260930"))
    mod = importlib.import_module(a.prop.lower())
    if a.replay:
        sys.exit(mod.replay(a.replay))
    run = common.Run(a.prop, a.tier, seed)
    # every check starts from models regenerated from /repo's current working tree (never from a stale file)
    common.regenerate([])
    try:
        mod.check(run)
    except Exception as e:  # a crash of the machinery must not pass silently
        traceback.print_exc()
        run.violation({"kind": "broken-obligation", "what": f"check machinery raised {type(e).__name__}: {e}"}, no_input=True)
    sys.exit(run.finish())


if __name__ == "__main__":
    main()
