"""C09 — density, enthalpy and heat capacity follow the documented formulae."""
import json
import math
import random

import numpy as np

import common
import gen
import solver
import solverchecks as sc
import minplascalc as mpc
from minplascalc import units as u

TOL_K = 1e-12
TOL_V = 1e-10


def oracle_E0(species, dE):
    """documented chains, written independently: neutral atoms 0, neutral molecules -D; ion of charge z>0 = stage z-1 + IE(z-1) - dE(z-1);
    ion of charge z<0 = stage z+1 - IE(z) + dE(z).  None when a chain has a gap / no neutral parent (the documentation is silent there)."""
    key = {}
    for i, sp in enumerate(species):
        key[(tuple(sorted(sp.stoichiometry.items())), sp.charge_number)] = i
    out = [None] * len(species)

    def get(i):
        if out[i] is not None:
            return out[i]
        sp = species[i]
        st = tuple(sorted(sp.stoichiometry.items()))
        z = sp.charge_number
        if sp.name == "e":
            out[i] = 0.0
        elif z == 0:
            out[i] = -sp.dissociation_energy if sum(sp.stoichiometry.values()) >= 2 else 0.0
        elif z > 0:
            j = key.get((st, z - 1))
            if j is None or (st, 0) not in key:
                raise KeyError
            out[i] = get(j) + species[j].ionisation_energy - dE[j]
        else:
            j = key.get((st, z + 1))
            if j is None or (st, 0) not in key:
                raise KeyError
            out[i] = get(j) - sp.ionisation_energy + dE[i]
        return out[i]

    try:
        return [get(i) for i in range(len(species))]
    except KeyError:
        return None


def state(sps, x0, T, P):
    m, nd, warned = solver.traced(sps, x0, T, P)
    return m, nd, warned


def independent_H(m, nd):
    """sum n_i h_i / rho with h_i = U_i + E0_i + kT, E0 from the independent chain oracle"""
    sps = list(m.species)
    dE = np.array(getattr(m, "_LTE__dE"))
    E0 = oracle_E0(sps, dE)
    if E0 is None:
        return None
    h = np.array([sp.internal_energy(m.T, d) + e + u.k_b * m.T for sp, d, e in zip(sps, dE, E0)])
    M = np.array([sp.molar_mass for sp in sps])
    rho = float(np.sum(nd * M) / u.N_a)
    return float(np.sum(nd * h) / rho), rho, h, np.array(E0)


def check(run):
    rng = random.Random(run.seed)
    thorough = run.tier == "thorough"
    n = 800 if thorough else 120
    run.cov["rule"] = ("same mixture generator as C02 (negative ions, polyatomics, several elements, random order); each converged state is compared with "
                       "(K) the extracted kernels fed the state's composition / E0 / dE, and (V) an independent evaluation: density sum n M / N_A, species "
                       "enthalpies with E0 from an independent implementation of the documented chains, enthalpy differences between two temperatures, "
                       "heat capacity against the centred difference on fresh mixtures (default and explicit relative steps), and the regenerated heat_capacity model on the enthalpies and "
                       "temperatures recorded inside calculate_heat_capacity; distinct = (species names in order, T, P)")
    run.cov["trusted_base"] = common.TRUSTED_COMMON + [
        "composition, E0 and dE enter the generated kernels as parameters (their freshness is C03's theorem)",
        "reference-energy model RefEnergy.v hand-written, tied by recorded iterations; its chain recursion is restated as theorems; "
        "agreement with the documented recursion on gap-free species sets is tested against an independent oracle",
        "constant-shift clause: proved under the hypothesis that the shift N_A E0_min / M_min is the same in both states (checked per pair)"]
    broken = []
    ok, refusals, _ = common.regenerate(["species", "mixture", "effects"])
    if not ok:
        broken.append({"stage": "translator", "detail": refusals})
        run.note(f"translator refused: {refusals}")
    res = common.prove("thm/C09.v")
    run.add_proof(res, "make -f Makefile.coq thm/C09.vo")
    if not res["ok"]:
        broken.append({"stage": "proof", "detail": res["error"]})
        run.note(f"proof obligation failed: {res['error']}")
    okd, dlog = common.build_driver("mix")
    found, hist, runs, klines, kwhere = None, {}, [], [], []
    hlines, hwhere = [], []
    for sps, x0, T, P, kind in sc.cases(rng, n):
        m, nd, warned = state(sps, x0, T, P)
        outcome = "warned" if warned is True else (warned if warned else "ok")
        hist[f"{kind}:{outcome}"] = hist.get(f"{kind}:{outcome}", 0) + 1
        run.count(1, distinct_key=(tuple(s.name for s in sps), round(T, 3), round(P, 3)), nontrivial=not warned)
        if warned:
            continue
        runs.append((solver.Snapshot(m), nd, warned))
        if not np.all(np.isfinite(getattr(m, "_LTE__E0"))):
            continue
        rho = float(m.calculate_density())
        hs = np.array(m.calculate_species_enthalpies())
        H = float(m.calculate_enthalpy())
        e0_state, de_state = list(getattr(m, "_LTE__E0")), list(getattr(m, "_LTE__dE"))   # before anything perturbs T
        ind = independent_H(m, nd)
        M = np.array([sp.molar_mass for sp in m.species])
        bad = None
        if common.relerr(rho, float(np.sum(nd * M) / u.N_a)) > TOL_V:
            bad = ("density != sum n_i M_i / N_A", rho, float(np.sum(nd * M) / u.N_a))
        elif ind is not None:
            Hind, rho_i, h, E0o = ind
            E0c = np.array(getattr(m, "_LTE__E0"))
            scale = max(np.max(np.abs(E0o)), u.k_b * T)
            if np.max(np.abs(E0c - E0o)) > 1e-10 * scale:
                k = int(np.argmax(np.abs(E0c - E0o)))
                bad = (f"reference energy of {m.species[k].name} differs from the documented chain", float(E0c[k]), float(E0o[k]))
            else:
                hs_exp = h / (M / u.N_a)
                if np.max(np.abs(hs - hs_exp) / np.maximum(np.abs(hs_exp), 1.0)) > TOL_V:
                    k = int(np.argmax(np.abs(hs - hs_exp) / np.maximum(np.abs(hs_exp), 1.0)))
                    bad = (f"species enthalpy of {m.species[k].name} != (U + E0 + kT)/(M/N_A)", float(hs[k]), float(hs_exp[k]))
                else:
                    # enthalpy difference to a second temperature
                    T2 = T * rng.uniform(1.02, 1.5)
                    m2, nd2, w2 = state(sps, x0, T2, P)
                    if not w2 and np.all(np.isfinite(getattr(m2, "_LTE__E0"))):
                        H2 = float(m2.calculate_enthalpy())
                        ind2 = independent_H(m2, nd2)
                        i1, i2 = int(np.argmin(getattr(m, "_LTE__E0"))), int(np.argmin(getattr(m2, "_LTE__E0")))
                        s1 = getattr(m, "_LTE__E0")[i1] / m.species[i1].molar_mass
                        s2 = getattr(m2, "_LTE__E0")[i2] / m2.species[i2].molar_mass
                        if ind2 is not None and s1 == s2:
                            dcode, dind = H2 - H, ind2[0] - Hind
                            if abs(dcode - dind) > 1e-9 * max(abs(H), abs(H2), abs(dind)):
                                bad = ("enthalpy difference between two temperatures differs from the independent formula", dcode, dind)
                        elif ind2 is not None and s1 != s2:
                            hist["shift_changed_between_states"] = hist.get("shift_changed_between_states", 0) + 1
        if bad is None and rng.random() < 0.25:
            # the relative step: mostly the documented default (argument omitted), sometimes an explicit other value
            d = 0.001 if rng.random() < 0.6 else float(rng.choice([0.01, 2e-4, 0.003]))
            import warnings
            seen_H = []
            orig_H = m.calculate_enthalpy

            def recording_H(_m=m, _o=orig_H, _s=seen_H):
                t_at = float(_m.T)
                v = _o()
                _s.append((t_at, float(v)))
                return v
            m.calculate_enthalpy = recording_H   # instance attribute: calculate_heat_capacity's own calls go through it
            with warnings.catch_warnings(record=True) as wcp:
                warnings.simplefilter("always")
                try:
                    cp = float(m.calculate_heat_capacity() if d == 0.001 else m.calculate_heat_capacity(d))
                except Exception:  # noqa: BLE001
                    # an exception after the solver announced non-convergence at a perturbed temperature is an announced failure (C06), not a formula defect
                    if not any("Minimiser could not find" in str(x.message) for x in wcp):
                        raise
                    cp = float("nan")
                finally:
                    del m.calculate_enthalpy
            if any("Minimiser could not find" in str(x.message) for x in wcp):
                hist["heat_capacity_solver_warned"] = hist.get("heat_capacity_solver_warned", 0) + 1
                cp = float("nan")
            if math.isfinite(cp):
                # K: the regenerated `heat_capacity` (extracted, at doubles) on the enthalpies the implementation itself obtained
                if len(seen_H) != 2:
                    bad = ("calculate_heat_capacity evaluated the enthalpy %d times, the model twice" % len(seen_H), len(seen_H), 2)
                else:
                    (t_a, h_a), (t_b, h_b) = sorted(seen_H)
                    hlines.append("heat_capacity " + " ".join(common.fhex(v) for v in (T, d, h_a, h_b)))
                    hwhere.append((cp, t_a, t_b, d, [s.name for s in sps], T, P))
            exp = float("nan")
            if math.isfinite(cp):
                lo = mpc.mixture.LTE(sps, x0, T * (1 - d), P, *solver.DEFAULT_CONTROLS)
                hi = mpc.mixture.LTE(sps, x0, T * (1 + d), P, *solver.DEFAULT_CONTROLS)
                with warnings.catch_warnings(record=True) as wex:
                    warnings.simplefilter("always")
                    try:
                        exp = (float(hi.calculate_enthalpy()) - float(lo.calculate_enthalpy())) / (2 * d * T)
                    except Exception:  # noqa: BLE001
                        if not any("Minimiser could not find" in str(x.message) for x in wex):
                            raise
                    if any("Minimiser could not find" in str(x.message) for x in wex):
                        exp = float("nan")
            if math.isfinite(exp) and math.isfinite(cp) and common.relerr(cp, exp) > TOL_V:
                bad = ("heat capacity != centred temperature difference of the enthalpy", cp, exp)
            if m.T != T:
                bad = ("calculate_heat_capacity did not restore T", m.T, T)
        if bad and found is None:
            found = {"kind": "input", "what": bad[0], "observed": bad[1], "expected": bad[2], "case": sc.describe(sps, x0, T, P)}
        # K: generated kernels at this state
        if okd:
            solver.set_elements(list(m.species))
            spt = [str(len(m.species))]
            for s in m.species:
                spt += common.enc_species(s)
            e0, de = e0_state, de_state
            klines.append("density " + " ".join(spt + common.enc_list(list(nd))))
            klines.append("species_enthalpies " + " ".join([common.fhex(T)] + spt + common.enc_list(list(nd)) + common.enc_list(e0) + common.enc_list(de)))
            klines.append("enthalpy " + " ".join([common.fhex(T)] + spt + common.enc_list(list(nd)) + common.enc_list(e0) + common.enc_list(de)))
            kwhere.append((rho, hs, H, [s.name for s in m.species], T, P))
        run.sample({"species": [s.name for s in sps], "T": T, "P": P, "rho": rho, "H": H}, cap=3)
    run.cov["outcome_histogram"] = hist
    if not okd:
        broken.append({"stage": "extraction", "detail": dlog[-600:]})
    else:
        dis = sc.trace_correspondence(run, runs, per_run=2)
        outs = common.run_driver("mix", klines) if klines else []
        for k, (rho, hs, H, names, T, P) in enumerate(kwhere):
            o = outs[3 * k:3 * k + 3]
            mrho = common.unhex(o[0][0])
            mhs = [common.unhex(t) for t in o[1]]
            mH = common.unhex(o[2][0])
            run.cov["traces_validated_against_impl"] += 1
            e = max([common.relerr(rho, mrho), common.relerr(H, mH, scale=abs(H) * 1e-3)] + [common.relerr(a, b) for a, b in zip(hs, mhs)])
            if e > TOL_K * 100:
                dis.append({"what": "generated density / enthalpy kernels", "error": e, "species": names, "T": T, "P": P})
        # heat capacity: regenerated model on the implementation's own two enthalpies; the model must ask its oracle at exactly
        # the temperatures the implementation set, and return the implementation's number; documented default step
        houts = common.run_driver("mix", hlines) if hlines else []
        for (cp, t_a, t_b, d, names, T, P), o in zip(hwhere, houts):
            mcp, mdef, mt_a, mt_b = (common.unhex(t) for t in o[:4])
            run.cov["traces_validated_against_impl"] += 1
            if mdef != 0.001:
                dis.append({"what": "default relative temperature step of calculate_heat_capacity", "model": mdef, "documented": 0.001})
            if (mt_a, mt_b) != (t_a, t_b):
                dis.append({"what": "temperatures at which calculate_heat_capacity evaluates the enthalpy", "impl": [t_a, t_b], "model": [mt_a, mt_b],
                            "species": names, "T": T, "P": P, "rel_delta_T": d})
            elif common.relerr(cp, mcp) > 1e-13:
                dis.append({"what": "generated heat_capacity kernel", "impl": cp, "model": mcp, "species": names, "T": T, "P": P, "rel_delta_T": d})
        run.cov["heat_capacity_model_cases"] = len(hwhere)
        run.cov["correspondence_disagreements"] = len(dis)
        if dis:
            broken.append({"stage": "correspondence", "detail": dis[:3]})
            run.note(f"model and implementation disagree: {dis[0]}")
    if found:
        found["broken"] = broken
        run.violation(found)
    elif broken:
        run.violation({"kind": "broken-obligation", "broken": broken,
                       "what": "theorem / correspondence for C09 no longer checks; no failing input found"}, no_input=True)


def replay(path):
    d = json.load(open(path))
    if d.get("kind") != "input":
        print("replay names a broken obligation:", json.dumps(d.get("broken"), indent=1, default=str)[:2000])
        return 1
    print(d["what"], "observed", d.get("observed"), "expected", d.get("expected"))
    return 1
