"""Structured generators of species and mixtures (all randomness from one random.Random)."""
from __future__ import annotations

import glob
import math
import os

import minplascalc as mpc
from minplascalc import species as _sp

EV = 1.602176634e-19
SHIPPED = sorted(os.path.basename(p)[:-5] for p in glob.glob(os.path.join(str(_sp.SPECIES_PATH), "*.json")))


def shipped(name):
    return _sp.from_name(name)


def rand_levels(rng, ie, n, order):
    """n levels, roughly 70 % below the ionisation energy and 30 % at/above it, J integer or half-integer."""
    lv = []
    for k in range(n):
        if k == 0:   # every physical level table contains the ground level E = 0
            e = 0.0
        elif rng.random() < 0.7:
            e = ie * rng.random() ** 0.5 * 0.999
        else:
            e = ie * (1.0 + rng.random() * 0.3)
        j = rng.choice([0.0, 0.5, 1.0, 1.5, 2.0, 2.5, 3.0, 4.0, 4.5])
        lv.append([j, e])
    if order == "sorted":
        lv.sort(key=lambda p: p[1])
    elif order == "reversed":
        lv.sort(key=lambda p: -p[1])
    elif order == "shuffled":
        rng.shuffle(lv)
    elif order == "one_late":          # sorted except one bound level listed after an unbound one
        lv.sort(key=lambda p: p[1])
        bound = [p for p in lv if p[1] < ie]
        if bound and len(bound) < len(lv):
            p = bound[-1]
            lv.remove(p)
            lv.append(p)
    return lv


def rand_lines(rng, n, ie):
    return [[rng.uniform(100e-9, 1000e-9), 10 ** rng.uniform(5, 10), ie * rng.uniform(0.3, 0.99)] for _ in range(n)]


def rand_ecs(rng):
    r = rng.random()
    if r < 0.3:
        return 10 ** rng.uniform(-21, -19)
    if r < 0.8:
        d = [10 ** rng.uniform(-21, -19), 10 ** rng.uniform(-22, -19) * rng.choice([1, -0.1]), rng.uniform(0.0, 3.0), 10 ** rng.uniform(-3, 0)]
        return tuple(d) if rng.random() < 0.5 else list(d)
    return None


def rand_monatomic(rng, name="X", element="X", charge=None, nlev=None, order=None, nlines=None):
    charge = rng.choice([0, 0, 1, 1, 2, -1]) if charge is None else charge
    ie = rng.uniform(1.0, 50.0) * EV
    nlev = rng.choice([1, 2, 3, 5, 8, 13, 30]) if nlev is None else nlev
    order = rng.choice(["sorted", "reversed", "shuffled", "one_late"]) if order is None else order
    lv = rand_levels(rng, ie, nlev, order)
    nlines = rng.choice([0, 0, 1, 3, 10]) if nlines is None else nlines
    return _sp.Monatomic(name, {element: 1}, rng.uniform(1e-3, 0.2), charge, ie, lv,
                         10 ** rng.uniform(-31, -29), rng.choice([1, 2, 3, 4]),
                         rng.choice([None, rng.uniform(1, 8)]) if charge != 0 else rng.uniform(1, 8),
                         rand_ecs(rng) if charge == 0 else None,
                         rand_lines(rng, nlines, ie), ["synthetic"])


def rand_diatomic(rng, name="XY", stoich=None, charge=None, nlines=None):
    charge = rng.choice([0, 0, 1]) if charge is None else charge
    stoich = stoich or rng.choice([{"X": 2}, {"X": 1, "Y": 1}])
    ie = rng.uniform(5.0, 20.0) * EV
    nlines = rng.choice([0, 0, 2]) if nlines is None else nlines
    return _sp.Diatomic(name, stoich, rng.uniform(2e-3, 0.3), charge, ie, rng.uniform(1.0, 11.0) * EV,
                        rng.choice([1, 2]), rng.choice([1, 2, 3, 4]), rng.uniform(0.02, 0.5) * EV,
                        rng.uniform(1e-5, 8e-3) * EV, 10 ** rng.uniform(-31, -29), rng.choice([1, 2, 3]),
                        rng.uniform(2, 12), rand_ecs(rng) if charge == 0 else None, rand_lines(rng, nlines, ie),
                        ["synthetic"])


def rand_polyatomic(rng, name="XYZ", stoich=None, charge=None, linear=None, nmodes=None):
    charge = rng.choice([0, 0, 1]) if charge is None else charge
    stoich = stoich or rng.choice([{"X": 1, "Y": 2}, {"X": 3}, {"X": 2, "Y": 1, "Z": 1}, {"X": 4, "Y": 4}])
    linear = (rng.random() < 0.5) if linear is None else linear
    nmodes = rng.randint(1, 12) if nmodes is None else nmodes
    ie = rng.uniform(5.0, 20.0) * EV
    return _sp.Polyatomic(name, stoich, rng.uniform(1e-2, 0.4), charge, ie, rng.uniform(1.0, 20.0) * EV, linear,
                          rng.choice([1, 2, 3, 6, 12]), rng.choice([1, 2, 3]),
                          degenerate_modes(rng, nmodes),
                          [rng.uniform(1e-5, 8e-3) * EV for _ in range(3)],
                          10 ** rng.uniform(-31, -29), rng.choice([1, 2, 3]), rng.uniform(2, 20),
                          rand_ecs(rng) if charge == 0 else None, [], ["synthetic"])


def degenerate_modes(rng, nmodes):
    """vibrational frequencies; real data lists a degenerate mode once per degeneracy (CO2 bend twice, CH4 E and F2 modes)"""
    ws = []
    while len(ws) < nmodes:
        w = rng.uniform(0.02, 0.5) * EV
        ws += [w] * rng.choice([1, 1, 1, 2, 3])
    ws = ws[:nmodes]
    rng.shuffle(ws)
    return ws


def rand_species(rng, cls=None):
    cls = cls or rng.choice(["mono", "mono", "di", "poly"])
    if cls == "mono":
        return rand_monatomic(rng)
    if cls == "di":
        return rand_diatomic(rng)
    if cls == "poly":
        return rand_polyatomic(rng)
    return _sp.Electron()


def log_uniform(rng, lo, hi):
    return math.exp(rng.uniform(math.log(lo), math.log(hi)))


def species_summary(sp):
    d = {"class": type(sp).__name__, "name": sp.name}
    for k in ("charge_number", "molar_mass", "ionisation_energy", "dissociation_energy", "energy_levels", "g0", "w_e",
              "b_e", "sigma_s", "linear_yn", "wi_e", "abc_e", "stoichiometry"):
        if hasattr(sp, k):
            d[k] = getattr(sp, k)
    return d


def species_from_summary(d):
    cls = d["class"]
    if cls == "Monatomic":
        return _sp.Monatomic(d["name"], d["stoichiometry"], d["molar_mass"], d["charge_number"], d["ionisation_energy"],
                             d["energy_levels"], 1e-30, 1, 1.0, None, [], [])
    if cls == "Diatomic":
        return _sp.Diatomic(d["name"], d["stoichiometry"], d["molar_mass"], d["charge_number"], d["ionisation_energy"],
                            d["dissociation_energy"], d["sigma_s"], d["g0"], d["w_e"], d["b_e"], 1e-30, 1, 1.0, None, [], [])
    if cls == "Polyatomic":
        return _sp.Polyatomic(d["name"], d["stoichiometry"], d["molar_mass"], d["charge_number"], d["ionisation_energy"],
                              d["dissociation_energy"], d["linear_yn"], d["sigma_s"], d["g0"], d["wi_e"], d["abc_e"],
                              1e-30, 1, 1.0, None, [], [])
    return _sp.Electron()


# the two shipped mixtures, listed as in the documentation / tests (each element's species by ascending charge)
OXY = ["O2", "O2+", "O", "O-", "O+", "O++"]
OXY_X0 = [1, 0, 0, 0, 0, 0]
SICO = ["O2", "O2+", "O", "O+", "O++", "CO", "CO+", "C", "C+", "C++", "SiO", "SiO+", "Si", "Si+", "Si++"]
SICO_X0 = [0, 0, 0, 0, 0, 0.5, 0, 0, 0, 0, 0.5, 0, 0, 0, 0]


def sico_x0(f_co):
    x = [0.0] * 15
    x[5], x[10] = f_co, 1.0 - f_co
    return x


# ---------------------------------------------------------------------------------------------------------------
# synthetic chemistry for solver-level properties: elements X, Y with atoms, ions, negative ions, molecules
def synth_element(rng, el, with_neg=None, max_charge=None):
    """species of one element: el, el+, el++ (, el-) with increasing ionisation energies"""
    M = rng.uniform(4e-3, 0.06)
    ie = [rng.uniform(6, 14) * EV, rng.uniform(18, 35) * EV, rng.uniform(40, 70) * EV]
    max_charge = rng.choice([1, 2, 2]) if max_charge is None else max_charge
    out = {}
    for z in range(0, max_charge + 1):
        # level tables as users write them: ascending, or grouped by configuration (a level above the limit before lower ones)
        lv = rand_levels(rng, ie[z], rng.choice([1, 3, 6, 10]), rng.choice(["sorted", "sorted", "shuffled", "one_late", "reversed"]))
        nm = el + "+" * z
        out[nm] = _sp.Monatomic(nm, {el: 1}, M - z * 5.4858e-7, z, ie[z], lv, 10 ** rng.uniform(-30.5, -29.5), rng.choice([1, 2, 3]),
                                rng.uniform(2, 8) if z == 0 else None, rand_ecs(rng) if z == 0 else None, [], ["synthetic"])
    if with_neg if with_neg is not None else rng.random() < 0.4:
        out[el + "-"] = _sp.Monatomic(el + "-", {el: 1}, M + 5.4858e-7, -1, rng.uniform(0.5, 3.0) * EV, [[0.5, 0.0]],
                                      10 ** rng.uniform(-30.5, -29.5), 2, None, None, [], ["synthetic"])
        if rng.random() < 0.35:   # a doubly negative ion: the negative reference-energy chain has two links
            out[el + "--"] = _sp.Monatomic(el + "--", {el: 1}, M + 2 * 5.4858e-7, -2, rng.uniform(0.1, 1.0) * EV, [[0.0, 0.0]],
                                           10 ** rng.uniform(-30.5, -29.5), 1, None, None, [], ["synthetic"])
    return out, M


def synth_molecule(rng, name, stoich, masses, charge=0):
    if charge != 0 and len(stoich) > 1 and rng.random() < 0.5:
        stoich = dict(reversed(list(stoich.items())))      # same stoichiometry, elements written in another order than in the parent record
    M = sum(masses[e] * c for e, c in stoich.items()) - charge * 5.4858e-7
    n = sum(stoich.values())
    ie = rng.uniform(8, 16) * EV if charge <= 0 else float("inf")
    if charge < 0:
        ie = rng.uniform(0.3, 2.5) * EV
    de = rng.uniform(2, 11) * EV
    common_args = (10 ** rng.uniform(-30.5, -29.5), rng.choice([1, 2, 3]), rng.uniform(4, 16) if charge == 0 else None,
                   rand_ecs(rng) if charge == 0 else None, [], ["synthetic"])
    if n == 2:
        return _sp.Diatomic(name, stoich, M, charge, ie, de, 2 if len(stoich) == 1 else 1, rng.choice([1, 2, 3]),
                            rng.uniform(0.05, 0.4) * EV, rng.uniform(1e-4, 3e-3) * EV, *common_args)
    linear = rng.random() < 0.5
    nmodes = 3 * n - (5 if linear else 6)
    return _sp.Polyatomic(name, stoich, M, charge, ie, de * (n - 1) / 1.5, linear, rng.choice([1, 2, 3]), rng.choice([1, 2]),
                          degenerate_modes(rng, min(nmodes, 12)), [rng.uniform(1e-4, 3e-3) * EV for _ in range(3)], *common_args)


def rand_mixture_spec(rng, kind=None):
    """-> (species list (heavy, any order), x0, description).  kinds: shipped oxygen / Si-C-O subsets in random order,
    synthetic one- and two-element sets with negative ions, gaps in charge chains, diatomic and polyatomic molecules."""
    kind = kind or rng.choice(["oxy", "sico", "synth1", "synth2", "synth2"])
    if kind == "oxy":
        names = list(OXY)
        if rng.random() < 0.5:
            names = [n for n in names if n not in rng.sample(["O-", "O++", "O2+"], rng.randint(0, 2))]
        rng.shuffle(names)
        sps = [shipped(n) for n in names]
        x0 = [rng.random() if s.charge_number == 0 else 0.0 for s in sps]
    elif kind == "sico":
        names = list(SICO)
        drop = rng.sample(["O++", "C++", "Si++", "O2+", "CO+", "SiO+", "O2"], rng.randint(0, 4))
        names = [n for n in names if n not in drop]
        rng.shuffle(names)
        sps = [shipped(n) for n in names]
        x0 = [rng.random() if n in ("CO", "SiO", "O", "C", "Si") else 0.0 for n in names]
        for need, srcs in (("C", ["CO", "C"]), ("Si", ["SiO", "Si"]), ("O", ["CO", "SiO", "O"])):
            if not any(x0[names.index(s)] > 0 for s in srcs if s in names):
                x0[names.index(srcs[0])] = 0.3
    else:
        els = ["X"] if kind == "synth1" else ["X", "Y"]
        pool, masses = {}, {}
        for el in els:
            d, M = synth_element(rng, el)
            pool.update(d)
            masses[el] = M
        if rng.random() < 0.7:
            pool["X2"] = synth_molecule(rng, "X2", {"X": 2}, masses)
            if rng.random() < 0.5:
                pool["X2+"] = synth_molecule(rng, "X2+", {"X": 2}, masses, 1)
            if rng.random() < 0.3:
                pool["X2-"] = synth_molecule(rng, "X2-", {"X": 2}, masses, -1)
        if len(els) == 2:
            if rng.random() < 0.7:
                pool["XY"] = synth_molecule(rng, "XY", {"X": 1, "Y": 1}, masses)
                if rng.random() < 0.4:
                    pool["XY+"] = synth_molecule(rng, "XY+", {"X": 1, "Y": 1}, masses, 1)
            if rng.random() < 0.5:
                pool["XY2"] = synth_molecule(rng, "XY2", {"X": 1, "Y": 2}, masses)
        # a gap in a charge chain (X, X++ without X+) now and then: the code chains to the nearest listed stage
        if "X++" in pool and rng.random() < 0.15:
            del pool["X+"]
        names = list(pool)
        rng.shuffle(names)
        sps = [pool[n] for n in names]
        x0 = [rng.random() if s.charge_number == 0 else 0.0 for s in sps]
        for el in els:   # every element present
            if not any(x > 0 and el in s.stoichiometry for x, s in zip(x0, sps)):
                i = next(i for i, s in enumerate(sps) if el in s.stoichiometry and s.charge_number == 0)
                x0[i] = 0.5
    # the constraint composition may put weight on ions too (the charge constraint stays "net charge zero")
    if rng.random() < 0.25:
        ions = [i for i, s in enumerate(sps) if s.charge_number != 0]
        if ions:
            x0[rng.choice(ions)] = rng.uniform(0.01, 0.3)
    tot = sum(x0)
    x0 = [x / tot for x in x0]
    return sps, x0, kind


def species_full(sp):
    """every attribute (thermodynamic, transport and radiation data), JSON-able"""
    def conv(v):
        if hasattr(v, "tolist"):
            return v.tolist()
        if isinstance(v, (list, tuple)):
            return [conv(x) for x in v]
        return v
    d = {k: conv(v) for k, v in sp.__dict__.items()}
    d["__class__"] = type(sp).__name__
    return d


def species_from_full(d):
    cls = getattr(_sp, d["__class__"])
    sp = object.__new__(cls)
    for k, v in d.items():
        if k != "__class__":
            setattr(sp, k, v)
    return sp
