#!/usr/bin/env python3
"""seedtool.py — confirm a seeded change and record it under /verif/seeded/<name>/.

usage: seedtool.py confirm <prop> <worktree> <srcdir> <name> "<needs>"   (verifies in the scratch worktree, copies, writes meta.json)
       seedtool.py run <name> [tier]                                      (applies to /repo, runs ./check <prop>, restores /repo)
"""
import json
import os
import shutil
import subprocess
import sys
import time

V = "/verif"
PY = "/venv/bin/python"


def sh(cmd, cwd=None, env=None, timeout=3600):
    p = subprocess.run(cmd, shell=True, cwd=cwd, env=env, stdout=subprocess.PIPE, stderr=subprocess.STDOUT, text=True, timeout=timeout)
    return p.returncode, p.stdout


def confirm(prop, wt, src, name, needs):
    env = dict(os.environ, PYTHONPATH=f"{wt}/src", PYTHONHASHSEED="0")
    env.pop("MINPLASCALC_VERIF", None)
    patch = os.path.join(src, "patch.diff")
    demo = os.path.join(src, "demo.py")
    ran = []
    sh("git checkout -- src", cwd=wt)
    rc0, out0 = sh(f"{PY} {demo}", cwd=wt, env=env)
    ran.append(f"demo without change: exit {rc0}")
    rc, out = sh(f"git apply {patch}", cwd=wt)
    assert rc == 0, out
    rc1, out1 = sh(f"{PY} {demo}", cwd=wt, env=env)
    ran.append(f"demo with change: exit {rc1}")
    rct, outt = sh(f"{PY} -m pytest -q -p no:cacheprovider -x", cwd=wt, env=env)
    tail = outt.strip().splitlines()[-1] if outt.strip() else ""
    ran.append(f"pytest with change: exit {rct} ({tail})")
    sh("git checkout -- src", cwd=wt)
    ok = rc0 == 0 and rc1 != 0 and rct == 0
    dst = os.path.join(V, "seeded", name)
    if ok:
        os.makedirs(dst, exist_ok=True)
        shutil.copy(patch, os.path.join(dst, "patch.diff"))
        shutil.copy(demo, os.path.join(dst, "demo.py"))
        if os.path.exists(os.path.join(src, "README.txt")):
            shutil.copy(os.path.join(src, "README.txt"), os.path.join(dst, "README.txt"))
        meta = {"property": prop, "needs_to_manifest": needs, "confirmed": ran, "confirmed_at": time.strftime("%Y-%m-%dT%H:%M:%SZ", time.gmtime()),
                "origin": "independent sub-agent given only the property text and a scratch worktree", "check_results": []}
        json.dump(meta, open(os.path.join(dst, "meta.json"), "w"), indent=1)
    print(name, "CONFIRMED" if ok else "REJECTED", ran)
    return ok


def run(name, tier="quick"):
    dst = os.path.join(V, "seeded", name)
    meta = json.load(open(os.path.join(dst, "meta.json")))
    prop = meta["property"]
    rc, out = sh("git status --porcelain", cwd="/repo")
    assert out.strip() == "", "/repo is not clean: " + out
    rc, out = sh(f"git apply {dst}/patch.diff", cwd="/repo")
    assert rc == 0, out
    ev = os.path.join(V, "evidence", f"{prop}.json")
    ev_saved = open(ev).read() if os.path.exists(ev) else None
    try:
        t0 = time.time()
        rc, out = sh(f"./check {prop} --tier {tier}", cwd=V)
        lines = [l for l in out.splitlines() if l.startswith(("VIOLATION", "KNOWN-FINDING", f"[{prop}]"))]
        res = {"tier": tier, "exit": rc, "caught": rc == 1 and any(l.startswith("VIOLATION") for l in lines),
               "lines": lines[:6], "wall_s": round(time.time() - t0, 1), "at": time.strftime("%Y-%m-%dT%H:%M:%SZ", time.gmtime())}
    finally:
        sh("git checkout -- .", cwd="/repo")
        if ev_saved is not None:      # the committed evidence must describe the unchanged tree, not a seeded run
            open(ev, "w").write(ev_saved)
    meta["check_results"] = [r for r in meta.get("check_results", []) if r.get("tier") != tier] + [res]
    json.dump(meta, open(os.path.join(dst, "meta.json"), "w"), indent=1)
    print(name, "CAUGHT" if res["caught"] else "MISSED", res["lines"][:3])
    return res["caught"]


if __name__ == "__main__":
    if sys.argv[1] == "confirm":
        sys.exit(0 if confirm(*sys.argv[2:7]) else 1)
    if sys.argv[1] == "run":
        sys.exit(0 if run(*sys.argv[2:4]) else 1)
