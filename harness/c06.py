"""C06 — solver controls affect accuracy only; non-convergence is never silent."""
import json
import math
import random

import numpy as np

import common
import minplascalc as mpc
import gen
import solver
import solverchecks as sc
from c02 import violates

ENVELOPE = 1e-5     # relative agreement demanded of species with mole fraction > 1e-5 between runs that differ only in solver controls
WINDOW_T = [1000, 1500, 2000, 3000, 4000, 6000, 8000, 10000, 13000, 16000, 20000, 25000]
WINDOW_P = [10132.5, 30000.0, 101325.0, 300000.0, 1013250.0]


def majors_differ(a, b):
    x = b / b.sum()
    msk = x > 1e-5
    if not msk.any():
        return 0.0
    return float(np.max(np.abs(a[msk] - b[msk]) / b[msk]))


def check(run):
    rng = random.Random(run.seed)
    thorough = run.tier == "thorough"
    run.cov["rule"] = ("(a) control flow: recorded stopping quantities of runs with gfe_max_iter in {3,50,200,1000,5000}, rtol 1e-8..1e-14, start 1e5..1e30, incl. "
                       "NaN-producing inputs, replayed through the control model; (b) no silent failure: T in 200..6e4 K x P in 1e2..1e8 Pa on shipped and "
                       "synthetic mixtures, every un-warned non-raising return must be finite, positive and satisfy the constraints; (c) documented window "
                       "12 T x 5 P on both shipped mixtures in documented order with default controls must not warn; (d) start estimate and rtol: species with "
                       "x > 1e-5 agree to 1e-5 relative whenever both runs return un-warned; distinct = (species, T, P, controls)")
    run.cov["trusted_base"] = common.TRUSTED_COMMON + [
        "hand-written control model coq/model/Retry.v (numerical step abstract), tied by replaying recorded stopping quantities (hook)",
        "uniqueness of the fixed point (thm/C06_start.v) is for the ideal mixture: reference energies and lowerings equal in the two states",
        "NOT proved (tested below): convergence inside the documented window, that every start estimate reaches the (unique) fixed point, effect of rtol on the value beyond the last-step bound"]
    broken = []
    res = common.prove("thm/C06.v")
    run.add_proof(res, "make -f Makefile.coq thm/C06.vo")
    if not res["ok"]:
        broken.append({"stage": "proof", "detail": res["error"]})
        run.note(f"proof obligation failed: {res['error']}")
    # start-estimate / rtol clauses: uniqueness of the fixed point and the meaning of the stopping quantity (over R; kept apart from
    # thm/C06.v, which is closed under the global context)
    res2 = common.prove("thm/C06_start.v")
    run.add_proof(res2, "make -f Makefile.coq thm/C06_start.vo")
    if not res2["ok"]:
        broken.append({"stage": "proof", "detail": {"file": "thm/C06_start.v", "error": res2["error"]}})
        run.note(f"proof obligation failed (thm/C06_start.v): {res2['error']}")
    okd, dlog = common.build_driver("mix")
    found = None
    hist = {}
    runs = []

    def do(sps, x0, T, P, ctl, tag):
        m, nd, warned = solver.traced(sps, x0, T, P, ctl)
        runs.append((m, nd, warned))
        outcome = "warned" if warned is True else (warned if warned else "ok")
        hist[f"{tag}:{outcome}"] = hist.get(f"{tag}:{outcome}", 0) + 1
        run.count(1, distinct_key=(tuple(s.name for s in sps), T, P, ctl), nontrivial=True)
        return m, nd, warned

    # (b) no silent failure over the wide domain
    wideT = ([200, 300, 500, 1000, 3000, 10000, 30000, 60000] if thorough else [200, 300, 1000, 10000, 60000])
    wideP = ([1e2, 1e4, 101325.0, 1e6, 1e8] if thorough else [1e2, 101325.0, 1e8])
    shipped_sets = [([gen.shipped(n) for n in gen.OXY], gen.OXY_X0), ([gen.shipped(n) for n in gen.SICO], gen.SICO_X0)]
    wide_cases = [(sps, x0, T, P) for sps, x0 in shipped_sets for T in wideT for P in wideP]
    for sps, x0, T, P, kind in sc.cases(rng, 150 if thorough else 30, Trange=(200.0, 60000.0), Prange=(1e2, 1e8)):
        wide_cases.append((sps, x0, T, P))
    for sps, x0, T, P in wide_cases:
        ctl = (10 ** rng.uniform(5, 30), 10 ** rng.uniform(-14, -8), rng.choice([3, 50, 200, 200, 1000, 1000, 5000] if thorough else [3, 50, 200])) if rng.random() < 0.5 else solver.DEFAULT_CONTROLS
        m, nd, warned = do(sps, x0, T, P, ctl, "wide")
        if not warned:
            v = violates(m, nd, x0)
            if v and found is None:
                found = {"kind": "input", "what": "returned without the non-convergence warning but: " + v, "case": sc.describe(sps, x0, T, P, ctl)}
    # (c) documented window, documented order, default controls
    for sps, x0 in shipped_sets + [([gen.shipped(n) for n in gen.SICO], gen.sico_x0(0.1)), ([gen.shipped(n) for n in gen.SICO], gen.sico_x0(0.9))]:
        for T in WINDOW_T if thorough else WINDOW_T[::2] + [25000]:
            for P in WINDOW_P if thorough else [10132.5, 101325.0, 1013250.0]:
                m, nd, warned = do(sps, x0, float(T), P, solver.DEFAULT_CONTROLS, "window")
                if warned and found is None:
                    found = {"kind": "input", "what": f"shipped mixture in documented order does not converge quietly inside the operating window ({warned})",
                             "case": sc.describe(sps, x0, float(T), P)}
    # (d) start estimate / rtol
    for sps, x0 in shipped_sets:
        for T in ([1000, 3000, 6000, 10000, 16000, 25000] if thorough else [3000, 10000, 25000]):
            for P in [10132.5, 101325.0, 1013250.0]:
                m, ref, w = do(sps, x0, float(T), P, solver.DEFAULT_CONTROLS, "controls")
                if w:
                    continue
                ctls = [(1e5, 1e-10, 1000), (1e10, 1e-10, 1000), (1e25, 1e-10, 1000), (1e30, 1e-10, 1000), (1e20, 1e-8, 1000), (1e20, 1e-12, 1000)]
                if thorough:
                    ctls += [(1e20, 1e-12, 5000), (1e20, 1e-14, 5000), (1e15, 1e-9, 50)]
                for ctl in ctls:
                    m2, nd2, w2 = do(sps, x0, float(T), P, ctl, "controls")
                    if w2:
                        continue
                    dv = majors_differ(nd2, ref)
                    if dv > ENVELOPE and found is None:
                        found = {"kind": "input", "what": f"composition depends on solver controls beyond the envelope: {dv:.3e} (controls {ctl})",
                                 "case": sc.describe(sps, x0, float(T), P, ctl)}
    # (e) one object walked through several states, failing ones among them: every return of a re-used object is announced exactly as a fresh
    #     object announces it (a warning is not a one-off)
    import warnings as _w
    for sps0, x00 in shipped_sets:
        seq = [(300.0, 101325.0), (250.0, 101325.0), (5000.0, 101325.0), (200.0, 1e5), (1000.0, 1e8), (12000.0, 1e5), (400.0, 1e3)]
        rng.shuffle(seq)
        m = mpc.mixture.LTE(sps0, x00, 10000.0, 101325.0, *solver.DEFAULT_CONTROLS)
        for (T, P) in seq[:(7 if thorough else 4)]:
            m.T, m.P = T, P
            with _w.catch_warnings(record=True) as wl:
                _w.simplefilter("always")
                try:
                    nd = np.asarray(m.calculate_composition(), dtype=float)
                    w_re = any("Minimiser could not find" in str(x.message) for x in wl)
                except Exception as e:  # noqa: BLE001
                    nd, w_re = None, f"exception:{type(e).__name__}"
            hist[f"reused:{'ok' if w_re is False else 'announced'}"] = hist.get(f"reused:{'ok' if w_re is False else 'announced'}", 0) + 1
            run.count(1, distinct_key=("reused", tuple(sp.name for sp in sps0), T, P), nontrivial=True)
            if w_re is False:
                v = violates(m, nd, x00)
                if v and found is None:
                    found = {"kind": "input", "what": "a re-used object returned without the non-convergence warning but: " + v,
                             "case": sc.describe(sps0, x00, T, P, solver.DEFAULT_CONTROLS), "history": [list(t) for t in seq]}
    # (f) the previous state of a re-used object is not a starting estimate either: an object solved cold and then moved to a much hotter
    #     state must return what a fresh object returns there (species above x = 1e-5 within the envelope), or announce a failure
    for sps0, x00 in shipped_sets:
        for (Tc, Th) in ([(1000.0, 3000.0), (1000.0, 6000.0), (1500.0, 4000.0), (1200.0, 9000.0)] if thorough else [(1000.0, 3000.0), (1500.0, 6000.0)]):
            with _w.catch_warnings(record=True) as wl:
                _w.simplefilter("always")
                try:
                    m = mpc.mixture.LTE(sps0, x00, Tc, 101325.0, *solver.DEFAULT_CONTROLS)
                    m.calculate_composition()
                    m.T = Th
                    nd_h = np.asarray(m.calculate_composition(), dtype=float)
                    ref_h = np.asarray(mpc.mixture.LTE(sps0, x00, Th, 101325.0, *solver.DEFAULT_CONTROLS).calculate_composition(), dtype=float)
                except Exception:  # noqa: BLE001
                    continue
                if any("Minimiser could not find" in str(x.message) for x in wl):
                    hist["moved:announced"] = hist.get("moved:announced", 0) + 1
                    continue
            hist["moved:ok"] = hist.get("moved:ok", 0) + 1
            run.count(1, distinct_key=("moved", tuple(sp.name for sp in sps0), Tc, Th), nontrivial=True)
            dv = majors_differ(nd_h, ref_h)
            if dv > ENVELOPE and found is None:
                found = {"kind": "history", "what": f"an object solved at {Tc} K and moved to {Th} K returns, un-warned, a composition that differs from a fresh "
                                                     f"object's by {dv:.3e} (species above x = 1e-5): the result depends on where the iteration started",
                         "case": sc.describe(sps0, x00, Th, 101325.0, solver.DEFAULT_CONTROLS), "history": [[Tc, 101325.0], [Th, 101325.0]]}
    run.cov["outcome_histogram"] = hist
    for (m, nd, warned) in runs[:3]:
        run.sample({"species": [s.name for s in m.species], "T": m.T, "P": m.P, "controls": [m.gfe_initial_particles, m.gfe_rtol, m.gfe_max_iter],
                    "iterations": len(getattr(m, "_verif_trace", [])), "warned": warned})
    if not okd:
        broken.append({"stage": "extraction", "detail": dlog[-600:]})
    else:
        dis, nrep = sc.control_correspondence(runs)
        run.cov["traces_validated_against_impl"] += nrep
        # the stopping quantity itself (which species it judges) with NON-default controls: step model against recorded iterations
        nondef = [r for r in runs if (r[0].gfe_initial_particles, r[0].gfe_rtol, r[0].gfe_max_iter) != solver.DEFAULT_CONTROLS and r[2] is False]
        sdis = sc.trace_correspondence(run, nondef[:(60 if thorough else 15)])
        dis = dis + [d for d in sdis if d["what"] in ("stopping quantity", "relaxation factor", "relaxed iterate")]
        run.cov["correspondence_disagreements"] = len(dis)
        if dis:
            broken.append({"stage": "correspondence", "detail": dis[:3]})
            run.note(f"control model and implementation disagree: {dis[0]}")
    if found:
        found["broken"] = broken
        run.violation(found)
    elif broken:
        run.violation({"kind": "broken-obligation", "broken": broken,
                       "what": "theorem / correspondence for C06 no longer checks; no failing input found"}, no_input=True)


def replay(path):
    d = json.load(open(path))
    if d.get("kind") != "input":
        print("replay names a broken obligation:", json.dumps(d.get("broken"), indent=1, default=str)[:2000])
        return 1
    sps, x0, T, P, ctl = sc.rebuild(d["case"])
    m, nd, warned = solver.traced(sps, x0, T, P, ctl)
    print(d["what"])
    print("now:", "warned" if warned else (violates(m, nd, x0) or "un-warned return satisfies the constraints"))
    return 1
