"""C15 — total emission coefficient is the documented optically-thin line sum."""
import json
import math
import random

import numpy as np

import common
import gen
import minplascalc as mpc
from minplascalc import functions_radiation, units as u
from minplascalc import species as _sp
from c07 import spec_Zint

TOL_K = 1e-12
TOL_SPEC = 1e-11


class Duck:
    def __init__(self, species, T, nd):
        self.species, self.T, self._nd = tuple(species), T, np.array(nd, dtype=float)

    def calculate_composition(self):
        return self._nd


def spec_emission(species, T, nd):
    tot = 0.0
    for n, sp in zip(nd[:-1], species[:-1]):
        Z = spec_Zint(sp, T, 0.0)
        tot += math.fsum(n * gA * math.exp(-E / (u.k_b * T)) / (lam * Z) for lam, gA, E in sp.emission_lines)
    return u.h * u.c / (4 * math.pi) * tot


def rand_mix(rng):
    n = rng.randint(1, 5)
    sps = []
    for k in range(n):
        r = rng.random()
        if r < 0.3:
            sps.append(gen.shipped(rng.choice(gen.SHIPPED)))
        elif r < 0.7:
            sps.append(gen.rand_monatomic(rng, name=f"S{k}", nlines=rng.choice([0, 1, 4, 12])))
        elif r < 0.9:
            sps.append(gen.rand_diatomic(rng, name=f"S{k}"))
        else:
            sps.append(gen.rand_polyatomic(rng, name=f"S{k}"))
    sps.append(_sp.Electron())
    T = gen.log_uniform(rng, 1000.0, 30000.0)
    # a species with no bound level has Zint = 0 (division by zero in code and formula alike): not a physical input
    sps = [s for s in sps if s.name == "e" or spec_Zint(s, T, 0.0) > 0.0]
    nd = [10 ** rng.uniform(10, 25) for _ in sps]
    return sps, T, nd


def describe(sps, T, nd):
    return {"T": T, "nd": list(map(float, nd)),
            "species": [dict(gen.species_summary(s), emission_lines=getattr(s, "emission_lines", [])) for s in sps]}


def rebuild(d):
    sps = []
    for s in d["species"]:
        sp = gen.species_from_summary(s)
        if hasattr(sp, "emission_lines"):
            sp.emission_lines = s.get("emission_lines", [])
        sps.append(sp)
    return sps, d["T"], d["nd"]


def check(run):
    rng = random.Random(run.seed)
    thorough = run.tier == "thorough"
    run.cov["rule"] = ("mixtures of 1-5 heavy species (30% shipped, rest synthetic with 0-12 synthetic lines) + electron, prescribed densities "
                       "1e10..1e25 through a duck-typed mixture; plus real LTE mixtures on a (T,P) grid; distinct by (#species, #lines, ln T to 0.01)")
    run.cov["trusted_base"] = common.TRUSTED_COMMON + [
        "the composition enters the model as a parameter; its tie to calculate_composition is the V step (real LTE objects)"]
    broken = []
    ok, refusals, _ = common.regenerate(["species", "radiation"])
    if not ok:
        broken.append({"stage": "translator", "detail": refusals})
    res = common.prove("thm/C15.v")
    run.add_proof(res, "make -f Makefile.coq thm/C15.vo")
    if not res["ok"]:
        broken.append({"stage": "proof", "detail": res["error"]})
        run.note(f"proof obligation failed: {res['error']}")
    okd, dlog = common.build_driver("sp")
    found = None
    n = 6000 if thorough else 600
    mixes = [rand_mix(rng) for _ in range(n)]
    if not okd:
        broken.append({"stage": "extraction", "detail": dlog[-600:]})
    else:
        lines = []
        for sps, T, nd in mixes:
            toks = [common.fhex(T), str(len(sps))]
            for s in sps:
                toks += common.enc_species(s)
            toks += common.enc_list(nd)
            lines.append("emission " + " ".join(toks))
        outs = common.run_driver("sp", lines)
        dis = 0
        for (sps, T, nd), o in zip(mixes, outs):
            impl = float(functions_radiation.total_emission_coefficient(Duck(sps, T, nd)))
            model = common.unhex(o[0])
            nl = sum(len(getattr(s, "emission_lines", [])) for s in sps)
            run.count(1, distinct_key=("K", len(sps), nl, round(math.log(T), 2)), nontrivial=nl > 0)
            if common.relerr(impl, model) > TOL_K:
                dis += 1
                if dis == 1:
                    broken.append({"stage": "correspondence", "detail": {"impl": impl, "model": model, "case": describe(sps, T, nd)}})
            run.sample({"n_species": len(sps), "lines": nl, "T": T, "impl": impl, "model": model}, cap=3)
        run.cov["traces_validated_against_impl"] = len(mixes)
        run.cov["correspondence_disagreements"] = dis
    # V/F: the property evaluated directly on the implementation
    for sps, T, nd in mixes:
        impl = float(functions_radiation.total_emission_coefficient(Duck(sps, T, nd)))
        exp = spec_emission(sps, T, nd)
        run.count(1)
        if common.relerr(impl, exp) > TOL_SPEC and found is None:
            found = {"kind": "input", "what": "emission != documented line sum (prescribed densities)", "observed": impl, "expected": exp,
                     "case": describe(sps, T, nd)}
        # electrons / line-less species contribute nothing; additivity over species
        nd2 = list(nd)
        nd2[-1] *= 7.0
        if float(functions_radiation.total_emission_coefficient(Duck(sps, T, nd2))) != impl and found is None:
            found = {"kind": "input", "what": "electron density changes the emission coefficient", "case": describe(sps, T, nd)}
        if len(sps) > 2:
            parts = sum(float(functions_radiation.total_emission_coefficient(Duck([s, sps[-1]], T, [x, nd[-1]]))) for s, x in zip(sps[:-1], nd[:-1]))
            if common.relerr(parts, impl) > 1e-12 and found is None:
                found = {"kind": "input", "what": "not additive over species", "observed": impl, "expected": parts, "case": describe(sps, T, nd)}
    # real LTE objects: the densities used are the equilibrium ones
    grid = [(T, P) for T in ([5000, 12000, 20000] if not thorough else [3000, 5000, 8000, 12000, 16000, 20000, 25000]) for P in (1e4, 101325.0)]
    for names, x0 in ((gen.OXY, gen.OXY_X0), (gen.SICO, gen.SICO_X0), (gen.SICO, gen.sico_x0(0.2))):
        for T, P in grid:
            try:
                m = mpc.mixture.lte_from_names(names, x0, T, P)
                impl = float(m.calculate_total_emission_coefficient())
                exp = spec_emission(list(m.species), T, list(m.calculate_composition()))
            except Exception as e:  # noqa: BLE001
                run.note(f"LTE case {names[0]} T={T} P={P} raised {e!r}")
                continue
            run.count(1, distinct_key=("LTE", names[0], T, P))
            if common.relerr(impl, exp) > 1e-10 and found is None:
                found = {"kind": "input", "what": "LTE emission != line sum over equilibrium densities", "observed": impl, "expected": exp,
                         "names": names, "x0": x0, "T": T, "P": P}
    if found:
        found["broken"] = broken
        run.violation(found)
    elif broken:
        run.violation({"kind": "broken-obligation", "broken": broken,
                       "what": "theorem / correspondence for C15 no longer checks; no failing input found"}, no_input=True)


def replay(path):
    d = json.load(open(path))
    if d.get("kind") != "input":
        print("replay names a broken obligation:", json.dumps(d.get("broken"), indent=1)[:2000])
        return 1
    if "case" in d:
        sps, T, nd = rebuild(d["case"])
        impl = float(functions_radiation.total_emission_coefficient(Duck(sps, T, nd)))
        exp = spec_emission(sps, T, nd)
    else:
        m = mpc.mixture.lte_from_names(d["names"], d["x0"], d["T"], d["P"])
        impl = float(m.calculate_total_emission_coefficient())
        exp = spec_emission(list(m.species), d["T"], list(m.calculate_composition()))
    print(f"{d['what']}: implementation={impl!r} documented={exp!r}")
    return 1 if common.relerr(impl, exp) > TOL_SPEC else 0
