"""C04 — only elemental abundances matter: equivalent x0 give identical plasmas."""
import json
import random

import numpy as np

import common
import equiv
import gen
import solverchecks as sc


def equivalent_x0(rng, sps, x0):
    """another x0 with proportional element totals: scaled, or (single-element sets) any admissible x0, or a re-distribution
    over neutral species that keeps the element ratios"""
    els = sorted({e for s in sps for e in s.stoichiometry})
    r = rng.random()
    if len(els) == 1 and r < 0.6:
        y = [rng.random() if s.charge_number == 0 else 0.0 for s in sps]
        if sum(y) == 0:
            y = list(x0)
        return y, "single-element: arbitrary x0"
    if r < 0.8 or len(els) > 1:
        # move a fraction of a molecule's abundance to its constituent atoms when they are all listed
        for i, s in enumerate(sps):
            if x0[i] > 0 and s.charge_number == 0 and sum(s.stoichiometry.values()) >= 2:
                atoms = {}
                for e, c in s.stoichiometry.items():
                    j = next((j for j, t in enumerate(sps) if t.charge_number == 0 and t.stoichiometry == {e: 1}), None)
                    if j is None:
                        atoms = None
                        break
                    atoms[j] = c
                if atoms and rng.random() < 0.7:
                    f = rng.uniform(0.1, 0.9)
                    y = list(x0)
                    y[i] -= f * x0[i]
                    for j, c in atoms.items():
                        y[j] += f * x0[i] * c
                    c0 = rng.choice([1.0, 0.37, 12.5, 1e-8, 1e7])
                    return [v * c0 for v in y], "molecule redistributed to its atoms, then scaled"
    # any positive constant: also extreme ones (x0 in other units, unnormalised feeds)
    c0 = rng.choice([0.01, 0.5, 3.0, 250.0, 1e-9, 1e-7, 1e-5, 1e6, 1e9, 1e-12, 1e-14, 1e-16, 1e12])
    return [v * c0 for v in x0], f"scaled by {c0}"


def check(run):
    rng = random.Random(run.seed)
    thorough = run.tier == "thorough"
    n = 400 if thorough else 36
    run.cov["rule"] = ("pairs (x0, x0') with proportional element totals — a positive multiple, any x0 of a single-element set, or part of a molecule's "
                       "abundance moved to its constituent atoms — on shipped and synthetic species sets; composition (species of mole fraction x>1e-7 to 1e-6+1e-10/x), species "
                       "enthalpies and the seven scalar outputs (1e-5; Cp and thermal conductivity 1e-4; electrical conductivity only above x_e=1e-7; emission only when carried by resolved species) compared when both runs converge; "
                       "distinct = (species, x0, x0', T, P)")
    run.cov["trusted_base"] = common.TRUSTED_COMMON + [
        "effects.py syntactic check: x0 is read only to form the element totals",
        "NOT proved: uniqueness of the fixed point / convergence of both runs to it — compared on the implementation below"]
    broken = []
    ok, refusals, _ = common.regenerate(["species", "mixture", "effects"])
    if not ok:
        broken.append({"stage": "translator", "detail": refusals})
        run.note(f"translator refused: {refusals}")
    res = common.prove("thm/C04.v")
    run.add_proof(res, "make -f Makefile.coq thm/C04.vo")
    if not res["ok"]:
        broken.append({"stage": "proof", "detail": res["error"]})
        run.note(f"proof obligation failed: {res['error']}")
    found, hist = None, {}
    kinds = ["oxy", "oxy", "oxy", "sico", "synth1", "synth1", "synth2", "synth2", "synth2"]
    # hard region: cool Si-C-O in shuffled listing orders, where the minor species converge late, with extreme scale factors of x0
    pinned = []
    for _ in range(40 if thorough else 8):
        names = list(gen.SICO)
        rng.shuffle(names)
        f = rng.choice([0.2, 0.5, 0.8])
        xp = [0.0] * len(names)
        xp[names.index("CO")], xp[names.index("SiO")] = f, 1 - f
        pinned.append(([gen.shipped(nm) for nm in names], xp, rng.uniform(1500.0, 4000.0), 10 ** rng.uniform(4, 6), "pinned", rng.choice([1e-7, 1e-8, 1e-9, 1e8])))
    # x0 in units in which it is tiny (the solver's particle numbers scale with x0, the plasma does not): every property, shipped oxygen
    for Tx, cx in ((5000.0, 1e-12), (10000.0, 1e-16), (15000.0, 1e-14), (8000.0, 1e12)) if thorough else ((5000.0, 1e-12), (10000.0, 1e-16)):
        pinned.append(([gen.shipped(nm) for nm in gen.OXY], [1, 0, 0, 0, 0, 0], Tx, 101325.0, "extreme", cx))
    for case in pinned + [c + (None,) for c in sc.cases(rng, n, Trange=(1000.0, 25000.0), Prange=(1e4, 1e6), kinds=kinds)]:
        sps, x0, T, P, kind, cpin = case
        if kind == "oxy":            # documented order converges reliably
            sps, x0 = [gen.shipped(nm) for nm in gen.OXY], rng.choice([[1, 0, 0, 0, 0, 0], [0.2, 0, 0.8, 0, 0, 0], [0, 0, 1, 0, 0, 0]])
        if kind == "sico":
            sps, x0 = [gen.shipped(nm) for nm in gen.SICO], gen.sico_x0(rng.choice([0.2, 0.5, 0.8]))
        y0, how = equivalent_x0(rng, sps, list(x0))
        if cpin is not None:
            y0, how = [v * cpin for v in x0], f"scaled by {cpin}"
        scal = ["calculate_density", "calculate_enthalpy", "calculate_electrical_conductivity"] if kind == "pinned" else equiv.SCALARS if kind in ("oxy", "sico", "extreme") else ["calculate_density", "calculate_enthalpy", "calculate_heat_capacity", "calculate_total_emission_coefficient"]
        try:
            a = equiv.evaluate(sps, list(x0), T, P, scalars=scal)
            b = equiv.evaluate(sps, y0, T, P, scalars=scal)
        except Exception as e:  # noqa: BLE001
            hist[f"{kind}:exception"] = hist.get(f"{kind}:exception", 0) + 1
            continue
        tag = "warned" if (a[2] or b[2]) else "ok"
        hist[f"{kind}:{tag}"] = hist.get(f"{kind}:{tag}", 0) + 1
        run.count(1, distinct_key=(tuple(s.name for s in sps), tuple(x0), tuple(y0), T, P), nontrivial=tag == "ok")
        run.sample({"species": [s.name for s in sps], "x0": list(x0), "x0_equivalent": y0, "how": how, "T": T, "P": P, "outcome": tag}, cap=4)
        if tag != "ok":
            continue
        d = equiv.compare(a[0], a[1], b[0], b[1])
        if d and found is None:
            found = {"kind": "input", "what": f"equivalent x0 ({how}) give different plasmas: {d}", "x0_equivalent": y0,
                     "case": sc.describe(sps, x0, T, P)}
    run.cov["outcome_histogram"] = hist
    run.cov["traces_validated_against_impl"] = sum(v for k, v in hist.items() if k.endswith(":ok"))
    if found:
        found["broken"] = broken
        run.violation(found)
    elif broken:
        run.violation({"kind": "broken-obligation", "broken": broken,
                       "what": "theorem / generator check for C04 no longer holds; no failing input found"}, no_input=True)


def replay(path):
    d = json.load(open(path))
    if d.get("kind") != "input":
        print("replay names a broken obligation:", json.dumps(d.get("broken"), indent=1, default=str)[:2000])
        return 1
    sps, x0, T, P, ctl = sc.rebuild(d["case"])
    a = equiv.evaluate(sps, x0, T, P)
    b = equiv.evaluate(sps, d["x0_equivalent"], T, P)
    r = equiv.compare(a[0], a[1], b[0], b[1]) if not (a[2] or b[2]) else "a run warned"
    print(r or "equivalent x0 give the same plasma")
    return 1 if r else 0
