"""C07 — species partition functions equal their documented statistical-mechanics sums."""
import json
import math
import random

import numpy as np

import common
import gen
from minplascalc import units as u

TOL_K = 1e-12      # extracted model vs implementation (closed forms, sums of <= 60 positive terms)
TOL_SPEC = 1e-11   # independent Python evaluation of the documented formula vs implementation


# ---- the documented formulae, evaluated independently of the implementation (used by F / V) ----
def spec_Zint(sp, T, dE):
    cls = type(sp).__name__
    kT = u.k_b * T
    if cls == "Monatomic":
        return math.fsum((2 * J + 1) * math.exp(-E / kT) for J, E in sp.energy_levels if E < sp.ionisation_energy - dE)
    if cls == "Electron":
        return 2.0
    vib = lambda w: math.exp(-w / (2 * kT)) / (1 - math.exp(-w / kT))  # noqa: E731
    if cls == "Diatomic":
        return sp.g0 * vib(sp.w_e) * kT / (sp.sigma_s * sp.b_e)
    v = 1.0
    for w in sp.wi_e:
        v *= vib(w)
    if sp.linear_yn:
        rot = kT / (sp.sigma_s * sp.abc_e[1])
    else:
        a, b, c = sp.abc_e
        rot = math.sqrt(math.pi) / sp.sigma_s * math.sqrt(kT ** 3 / (a * b * c))
    return sp.g0 * v * rot


def spec_Ztr(sp, T):
    m = sp.molar_mass / u.N_a
    return (2 * math.pi * m * u.k_b * T / u.h ** 2) ** 1.5


def cases(rng, n, run=None):
    out = []
    hist = {}
    for k in range(n):
        r = rng.random()
        if r < 0.25:
            sp = gen.shipped(rng.choice(gen.SHIPPED))
            tag = "shipped"
        else:
            sp = gen.rand_species(rng)
            tag = type(sp).__name__
        T = gen.log_uniform(rng, 200.0, 60000.0)
        ie = getattr(sp, "ionisation_energy", 1e-18)
        dE = rng.choice([0.0, 0.0, ie * rng.random() * 0.3, ie * rng.random(), 1e-21])
        out.append((sp, T, dE, tag))
        hist[tag] = hist.get(tag, 0) + 1
    return out, hist


def impl_values(sp, T, dE, V=1.0):
    return [float(sp.internal_partition_function(T, dE)), float(sp.translational_partition_function(T)),
            float(sp.total_partition_function(V, T, dE))]


def falsify(run, rng, n):
    """Direct check of the property on the implementation against the documented sums."""
    found = None
    cs, hist = cases(rng, n)
    for sp, T, dE, tag in cs:
        zi, zt, ztot = impl_values(sp, T, dE, 2.5)
        ez, et = spec_Zint(sp, T, dE), spec_Ztr(sp, T)
        bad = None
        if common.relerr(zi, ez) > TOL_SPEC:
            bad = ("internal_partition_function", zi, ez)
        elif common.relerr(zt, et) > TOL_SPEC:
            bad = ("translational_partition_function", zt, et)
        elif common.relerr(ztot, 2.5 * et * ez) > TOL_SPEC:
            bad = ("total_partition_function", ztot, 2.5 * et * ez)
        else:
            # antitone in dE
            ie = getattr(sp, "ionisation_energy", 1e-18)
            dE2 = dE + rng.random() * ie * 0.5
            z2 = float(sp.internal_partition_function(T, dE2))
            if z2 > zi * (1 + 1e-13):
                bad = ("antitone_in_dE", z2, zi)
            elif type(sp).__name__ == "Monatomic" and len(sp.energy_levels) > 1:
                sp2 = gen.species_from_summary(gen.species_summary(sp))
                lv = list(sp.energy_levels)
                rng.shuffle(lv)
                sp2.energy_levels = lv
                z3 = float(sp2.internal_partition_function(T, dE))
                if common.relerr(z3, zi) > TOL_SPEC:
                    bad = ("level_order_dependence", z3, zi)
        run.count(1, distinct_key=("F", tag, round(math.log(T), 2), type(sp).__name__, len(getattr(sp, "energy_levels", []))))
        if bad and found is None:
            found = {"kind": "input", "what": bad[0], "observed": bad[1], "expected": bad[2],
                     "species": gen.species_summary(sp), "T": T, "dE": dE}
    return found, hist


def correspondence(run, rng, n):
    cs, hist = cases(rng, n)
    lines = []
    for sp, T, dE, tag in cs:
        t = common.enc_species(sp)
        lines.append("Zint " + " ".join(t + [common.fhex(T), common.fhex(dE)]))
        lines.append("translational_Z " + " ".join(t + [common.fhex(T)]))
        lines.append("total_Z " + " ".join(t + [common.fhex(2.5), common.fhex(T), common.fhex(dE)]))
    outs = common.run_driver("sp", lines)
    dis = []
    for k, (sp, T, dE, tag) in enumerate(cs):
        iv = impl_values(sp, T, dE, 2.5)
        mv = [common.unhex(outs[3 * k + j][0]) for j in range(3)]
        run.count(1, distinct_key=("K", tag, type(sp).__name__, round(math.log(T), 2), len(getattr(sp, "energy_levels", []))))
        for nm, a, b in zip(("Zint", "Ztr", "Ztot"), iv, mv):
            if common.relerr(a, b) > TOL_K:
                dis.append({"kernel": nm, "impl": a, "model": b, "species": gen.species_summary(sp), "T": T, "dE": dE})
        if k < 3:
            run.sample({"species": sp.name, "class": type(sp).__name__, "T": T, "dE": dE, "impl_Zint": iv[0], "model_Zint": mv[0]})
    run.cov["traces_validated_against_impl"] += len(cs)
    return dis, hist


def check(run):
    rng = random.Random(run.seed)
    thorough = run.tier == "thorough"
    run.cov["rule"] = ("species drawn 25% from the shipped database, 75% synthetic (monatomic with sorted/reversed/shuffled/"
                       "one-late level lists on both sides of the cutoff, diatomic, linear and non-linear polyatomic with 1-12 modes); "
                       "T log-uniform in [200, 6e4] K; dE in {0, small, up to IE}; a case is distinct by (class, #levels, ln T to 0.01)")
    run.cov["trusted_base"] = common.TRUSTED_COMMON + [
        "hand-written dispatch Zint/Uint on the species class (emitted by the generator), tied by the correspondence check",
        "modelled, not verified: CPython/numpy evaluation of the formulae; numpy exp vs libm exp compared at 1e-12"]
    run.assumptions = ["J >= 0 for the antitone theorem (degeneracies 2J+1 are positive)", "N_A, h nonzero"]
    broken = []
    ok, refusals, _ = common.regenerate(["species", "radiation"])
    if not ok:
        broken.append({"stage": "translator", "detail": refusals})
        run.note(f"translator refused: {refusals}")
    res = common.prove("thm/C07.v")
    run.add_proof(res, "make -f Makefile.coq thm/C07.vo  (coqc 8.16.1, full .vo build)")
    if not res["ok"]:
        broken.append({"stage": "proof", "detail": res["error"]})
        run.note(f"proof obligation failed: {res['error']}")
    dis = []
    okd, dlog = common.build_driver("sp")
    if not okd:
        broken.append({"stage": "extraction", "detail": dlog[-600:]})
    else:
        dis, hist = correspondence(run, rng, 20000 if thorough else 2000)
        run.cov["correspondence_input_histogram"] = hist
        run.cov["correspondence_disagreements"] = len(dis)
        if dis:
            broken.append({"stage": "correspondence", "detail": dis[:3]})
            run.note(f"model/implementation disagree on {len(dis)} cases, e.g. {dis[0]['kernel']}")
    found, fh = falsify(run, rng, (40000 if thorough else 3000) * (5 if broken else 1))
    run.cov["falsifier_input_histogram"] = fh
    if found:
        found["broken"] = broken
        run.violation(found)
    elif broken:
        run.violation({"kind": "broken-obligation", "broken": broken,
                       "what": "theorem / correspondence for C07 no longer checks; no failing input found on the implementation"},
                      no_input=True)


def replay(path):
    d = json.load(open(path))
    if d.get("kind") != "input":
        print("replay names a broken obligation, not an input:", json.dumps(d.get("broken"), indent=1)[:2000])
        return 1
    sp = gen.species_from_summary(d["species"])
    zi = float(sp.internal_partition_function(d["T"], d["dE"]))
    ez = spec_Zint(sp, d["T"], d["dE"])
    print(f"{d['what']}: implementation Zint={zi!r} documented sum={ez!r}")
    return 1 if common.relerr(zi, ez) > TOL_SPEC else 0
