"""C14 — transport and radiation outputs are finite and physically admissible."""
import glob
import json
import math
import os
import random
import warnings

import numpy as np

import common
import equiv
import gen
import solver
import transport as tr
import minplascalc as mpc
from minplascalc import functions_transport as ft
from minplascalc import units as u

POSITIVE = ["calculate_viscosity", "calculate_thermal_conductivity", "calculate_heat_capacity"]
TOL_TEXTBOOK = 1e-9       # single real species, no electron in the system: pure 2x2 solve
TOL_LTE = 1e-6            # LTE mixture whose ionised fraction is below 1e-9


class OneGas:
    """a mixture made of one real species (no electron): what functions_transport needs"""

    def __init__(self, sp, n, T):
        self.species, self.T, self._nd = (sp,), T, np.array([n], dtype=float)

    def calculate_composition(self):
        return self._nd

    def calculate_density(self):
        return float(self._nd[0] * self.species[0].molar_mass / u.N_a)


class ReactDuck(tr.Duck):
    """duck mixture whose composition depends on the temperature (nd_i(T) = nd0_i (1 + a_i (T/T0 - 1))) and that answers
    calculate_species_enthalpies: exercises every part of the thermal-conductivity assembly under prescribed integrals"""

    def __init__(self, masses, nd, T, slopes, hv):
        super().__init__(masses, nd, T)
        self._nd0, self._T0, self._a, self._hv = np.array(nd, dtype=float), T, np.array(slopes), np.array(hv)

    def calculate_composition(self):
        return self._nd0 * (1 + self._a * (self.T / self._T0 - 1))

    def calculate_density(self):
        return float(sum(n * sp.molar_mass for n, sp in zip(self.calculate_composition(), self.species)) / u.N_a)

    def calculate_species_enthalpies(self):
        return self._hv


def assembly_case(rng):
    case = tr.rand_case(rng, rng.randint(2, 4))
    nb = case["nb"]
    case["slopes"] = [rng.uniform(-3, 3) for _ in range(nb)]
    case["hv"] = [rng.uniform(-3e7, 3e7) for _ in range(nb)]
    case["delta"] = rng.choice([1e-3, 1e-2])
    case["dt"] = rng.random() < 0.7
    # the density floor below which the reaction / thermal-diffusion term of a species is dropped: sometimes inside the densities
    case["lim"] = rng.choice([1e8, sorted(case["nd"])[0] * 1.5])
    return case


def assembly_impl(case):
    """-> (total from the implementation, model input tokens, magnitude of the terms)"""
    nb, T, delta = case["nb"], case["T"], case["delta"]
    duck = ReactDuck(case["masses"], case["nd"], T, case["slopes"], case["hv"])
    frozen = ReactDuck(case["masses"], case["nd"], T, [0.0] * nb, [0.0] * nb)
    with tr.Prescribed(case["Q"]):
        total = float(ft.thermal_conductivity(duck, delta, case["dt"], case["lim"]))
        kdash = float(ft.thermal_conductivity(frozen, delta, False, case["lim"]))
        D = np.array(ft.Dij(duck))
        DT = np.array(ft.DTi(duck))
    nd = duck.calculate_composition()
    duck.T = T * (1 + delta)
    npos = duck.calculate_composition()
    duck.T = T * (1 - delta)
    nneg = duck.calculate_composition()
    duck.T = T
    rho, ntot = duck.calculate_density(), float(nd.sum())
    m = np.array(case["masses"])
    hv = np.array(case["hv"]) * m / (rho / ntot)
    dx = (npos / npos.sum() - nneg / nneg.sum()) / (2 * delta * T)
    scale = abs(kdash) + float(np.sum(np.abs(hv * DT / T))) + ntot ** 2 / rho * float(np.sum(np.abs(np.outer(m * hv, m * dx) * D))) \
        + ntot * u.k_b * T * float(np.sum(np.abs(DT * dx / (nd * m))))
    toks = [str(int(case["dt"])), str(nb)] + [common.fhex(x) for x in (T, delta, case["lim"], rho, ntot, kdash)]
    for arr in (m, nd, case["hv"], DT, npos, nneg, D.ravel()):
        toks += [common.fhex(float(x)) for x in arr]
    return total, toks, scale


def evaluate_state(sps, x0, T, P):
    """-> ("ok", nd, out, mixture) | ("solver", reason) when the solver announces failure (warning or LinAlgError; C06's domain)
       | ("error", text) for any other exception"""
    m = mpc.mixture.LTE(sps, x0, T, P, 1e20, 1e-10, 1000)
    out = {}
    with warnings.catch_warnings(record=True) as w:
        warnings.simplefilter("always")
        announced = lambda: any("Minimiser could not find" in str(x.message) for x in w)  # noqa: E731
        try:
            nd = np.asarray(m.calculate_composition(), dtype=float)
            for k in equiv.SCALARS:
                out[k] = float(getattr(m, k)())
        except np.linalg.LinAlgError as e:
            return ("solver", f"LinAlgError: {e}")
        except Exception as e:  # noqa: BLE001
            if announced():
                return ("solver", f"warning then {type(e).__name__}")
            return ("error", f"{type(e).__name__}: {e}")
        if announced():
            return ("solver", "non-convergence warning")
    return ("ok", nd, out, m)


def textbook(sp, n, T):
    """5/16 sqrt(pi m k T) / Q22 * (1 + b12^2 / (b11 b22 - b12^2)), from the gas's own (2,2), (2,3), (2,4) integrals"""
    m = sp.molar_mass / u.N_a
    Q22, Q23, Q24 = (float(ft.Qij(sp, n, sp, n, 2, s, T)) for s in (2, 3, 4))
    b11, b12, b22 = 8 * Q22, 14 * Q22 - 16 * Q23, 301 / 6 * Q22 - 56 * Q23 + 40 * Q24
    return 5 / 16 * math.sqrt(math.pi * m * u.k_b * T) / Q22 * (1 + b12 ** 2 / (b11 * b22 - b12 ** 2)), (Q22, Q23, Q24)


def element_shares(sps, x0):
    tot = {}
    for sp, x in zip(sps, x0):
        for el, c in sp.stoichiometry.items():
            tot[el] = tot.get(el, 0.0) + c * x
    s = sum(tot.values())
    return {el: v / s for el, v in tot.items()}


def physical(sps, rng):
    """synthetic species get physically sensible transport / radiation data: a positive electron cross-section law for neutrals, a few lines"""
    for sp in sps:
        if sp.name in gen.SHIPPED or sp.name == "e":
            continue
        if sp.charge_number == 0:
            ecs = sp.electron_cross_section
            if ecs is None or (isinstance(ecs, (list, tuple)) and ecs[1] < 0):
                sp.electron_cross_section = 10 ** rng.uniform(-21, -19)
        if not sp.emission_lines and math.isfinite(sp.ionisation_energy) and rng.random() < 0.6:
            sp.emission_lines = gen.rand_lines(rng, rng.choice([1, 3]), sp.ionisation_energy)
    return sps


def chains_complete(sps):
    """every ion is listed together with the next-lower charge state of the same stoichiometry (no reference-energy gaps)"""
    have = {(tuple(sorted(sp.stoichiometry.items())), sp.charge_number) for sp in sps}
    for sp in sps:
        z = sp.charge_number
        if z != 0 and (tuple(sorted(sp.stoichiometry.items())), z - 1 if z > 0 else z + 1) not in have:
            return False
    return True


def window_state(rng, corner):
    if corner is not None:
        return [1000.0, 25000.0][corner & 1], [1e4, 1e6][(corner >> 1) & 1]
    T = rng.choice([rng.uniform(1000, 25000), rng.uniform(1000, 25000), 10 ** rng.uniform(3, math.log10(25000))])
    return T, 10 ** rng.uniform(4, 6)


def emission_must_be_positive(sps, nd, T):
    """True when some listed line of a species with non-zero density has a representable contribution (log-domain bound)"""
    for sp, n in zip(sps, nd):
        if n <= 0:
            continue
        for lam, gA, E in getattr(sp, "emission_lines", []) or []:
            Z = float(sp.internal_partition_function(T, 0))
            if math.log(n) + math.log(gA) - E / (u.k_b * T) - math.log(Z * lam) > -690:
                return True
    return False


def check(run):
    rng = random.Random(run.seed)
    thorough = run.tier == "thorough"
    run.cov["rule"] = ("(V) mixtures: shipped oxygen / Si-C-O subsets and synthetic one-/two-element sets, x0 redrawn until every element holds 2..98 % of the atoms "
                       "(single-element sets: 100 % by necessity), T in [1000, 25000] K incl. both ends, P in [1e4, 1e6] Pa incl. both ends and the four corners; "
                       "viscosity, thermal conductivity, heat capacity finite and > 0, emission finite and > 0 whenever a listed line has a representable term, "
                       "conductivity finite and >= 0.  (K) single real neutral species (no electron in the system): implementation viscosity vs the textbook "
                       "expression from its own integrals, and qhat block vs extracted model; LTE mixtures [X, X+] with ionised fraction < 1e-9 vs the same expression. "
                       "distinct = (species set, x0, T, P)")
    run.cov["trusted_base"] = common.TRUSTED_COMMON + [
        "Transport.visc_rhs0 / visc_value / sigma_value are hand-written from functions_transport.viscosity / electrical_conductivity; tied by the C12 'rhs' / 'values' correspondence and here by the single-gas comparison",
        "the theorem assumes b solves the 2x2 system; numpy.linalg.solve is trusted to solve it (residual checked in C12)",
        "NOT PROVED, only validated over the window: positivity and finiteness of viscosity, thermal conductivity, heat capacity, and non-negativity of the conductivity for general mixtures with the empirical collision integrals"]
    broken = []
    ok, refusals, _ = common.regenerate(["transport", "radiation", "species"])
    if not ok:
        broken.append({"stage": "translator", "detail": refusals})
        run.note(f"translator refused: {refusals}")
    res = common.prove("thm/C14.v")
    run.add_proof(res, "make -f Makefile.coq thm/C14.vo")
    if not res["ok"]:
        broken.append({"stage": "proof", "detail": res["error"]})
        run.note(f"proof obligation failed: {res['error']}")
    okd, dlog = common.build_driver("tr")
    if not okd:
        broken.append({"stage": "extraction", "detail": dlog[-600:]})
    found = None

    # ---- (K) single-component un-ionised gas ----
    neutrals = [gen.shipped(n) for n in gen.SHIPPED if gen.shipped(n).charge_number == 0]
    for k in range(8 if thorough else 3):
        d, M = gen.synth_element(rng, f"Z{k}", with_neg=False, max_charge=1)
        neutrals.append(d[f"Z{k}"])
        neutrals.append(gen.synth_molecule(rng, f"Z{k}2", {f"Z{k}": 2}, {f"Z{k}": M}))
    physical(neutrals, rng)
    solver.set_elements(neutrals)
    lines, meta = [], []
    for sp in neutrals:
        for _ in range(6 if thorough else 2):
            T, P = window_state(rng, None)
            n = P / (u.k_b * T)
            g = OneGas(sp, n, T)
            try:
                eta = float(ft.viscosity(g))
                ref, Qs = textbook(sp, n, T)
                qh = np.array(ft.qhat(g))
            except Exception as e:  # noqa: BLE001
                run.note(f"single gas {sp.name}: {type(e).__name__}: {e}")
                continue
            run.count(1, distinct_key=("one", sp.name, T, P))
            if not (math.isfinite(eta) and common.relerr(eta, ref) <= TOL_TEXTBOOK) and found is None:
                found = {"kind": "input", "what": f"single-component gas {sp.name} at T={T}, P={P}: viscosity {eta!r} but the textbook second-order expression gives {ref!r}",
                         "species": sp.name, "T": T, "P": P, "Q22,Q23,Q24": Qs}
            if okd:
                case = {"nb": 1, "masses": [sp.molar_mass / u.N_a], "nd": [n], "T": T,
                        "Q": {ls: np.array([[float(ft.Qij(sp, n, sp, n, ls[0], ls[1], T))]]) for ls in tr.ORDERS}}
                lines.append("qhatmatrix " + " ".join(tr.case_tokens(case)))
                meta.append((sp.name, T, qh))
    if okd and lines:
        outs = common.run_driver("tr", lines)
        dis = 0
        for (name, T, qh), o in zip(meta, outs):
            mq = np.array([common.unhex(t) for t in o]).reshape(2, 2)
            run.cov["traces_validated_against_impl"] += 1
            if np.max(np.abs(mq - qh) / np.max(np.abs(qh))) > 1e-11:
                dis += 1
                if dis == 1:
                    broken.append({"stage": "correspondence", "detail": {"species": name, "T": T, "impl": qh.tolist(), "model": mq.tolist()}})
        run.cov["correspondence_disagreements"] = dis
    pairs = [["O", "O+"], ["C", "C+"], ["Si", "Si+"], ["O2", "O2+"]]
    for names in pairs:
        for T in ([1000.0, 1500.0, 2200.0] if thorough else [1000.0, 1800.0]):
            P = 10 ** rng.uniform(4, 6)
            sps = [gen.shipped(n) for n in names]
            solver.set_elements(sps)
            nd, out, warned = equiv.evaluate(sps, [1.0, 0.0], T, P, scalars=["calculate_viscosity"])
            if warned or not out:
                continue
            x = nd / nd.sum()
            if x[1] + x[2] >= 1e-9:
                continue
            ref, Qs = textbook(sps[0], float(nd[0]), T)
            eta = out["calculate_viscosity"]
            run.count(1, distinct_key=("lte1", names[0], T, P))
            if not (math.isfinite(eta) and common.relerr(eta, ref) <= TOL_LTE) and found is None:
                found = {"kind": "input", "what": f"LTE mixture {names} at T={T}, P={P} (ionised fraction {x[1]:.1e}): viscosity {eta!r} but the textbook expression gives {ref!r}",
                         "species": names, "x0": [1.0, 0.0], "T": T, "P": P}

    # ---- (K) assembly of the total thermal conductivity under prescribed integrals, temperature-dependent composition ----
    if okd:
        cases = [assembly_case(rng) for _ in range(120 if thorough else 30)]
        impl = [assembly_impl(c) for c in cases]
        outs = common.run_driver("tr", ["kappa " + " ".join(t) for _, t, _ in impl])
        dis = 0
        for c, (total, _, scale), o in zip(cases, impl, outs):
            mv = common.unhex(o[0])
            run.count(1, distinct_key=("kappa", c["nb"], c["T"], c["dt"], c["delta"]))
            run.cov["traces_validated_against_impl"] += 1
            if not abs(total - mv) <= 1e-9 * scale:
                dis += 1
                if dis == 1:
                    broken.append({"stage": "correspondence", "detail": {"what": "total thermal conductivity: implementation vs model assembly", "impl": total, "model": mv,
                                                                         "scale": scale, "case": {k: (v if not isinstance(v, dict) else "...") for k, v in c.items()}}})
        run.cov["correspondence_disagreements"] = run.cov.get("correspondence_disagreements", 0) + dis

    # ---- (V) the operating window ----
    n_states = 160 if thorough else 26
    hist, skipped, warned_n, known = {}, 0, 0, []
    corners = list(range(4))
    corpus = []
    for f in sorted(glob.glob(os.path.join(common.VERIF, "corpus", "C14", "*.json"))):
        d = json.load(open(f))
        corpus.append(([gen.shipped(x) if isinstance(x, str) else gen.species_from_full(x) for x in d["mixture"]["species"]],
                       d["mixture"]["x0"], "corpus:" + os.path.basename(f), d["T"], d["P"]))
    run.cov["corpus_states"] = len(corpus)
    for k in range(n_states + len(corpus)):
        if k < len(corpus):
            sps, x0, kind, T, P = corpus[k]
        else:
            kind = rng.choice(["oxy", "sico", "sico", "synth1", "synth2", "synth2"])
            for _ in range(50):
                sps, x0, kind = gen.rand_mixture_spec(rng, kind)
                physical(sps, rng)
                sh = element_shares(sps, x0)
                if chains_complete(sps) and (len(sh) == 1 or all(0.02 <= v <= 0.98 for v in sh.values())):
                    break
            else:
                skipped += 1
                continue
            T, P = window_state(rng, corners.pop() if corners else None)
            if rng.random() < 0.15:
                T = rng.choice([1000.0, 25000.0])
            if rng.random() < 0.15:
                P = rng.choice([1e4, 1e6])
        solver.set_elements(sps)
        run.count(1, distinct_key=("mix", tuple(s.name for s in sps), tuple(x0), T, P))
        hist[kind] = hist.get(kind, 0) + 1
        r = evaluate_state(sps, x0, T, P)
        if r[0] == "solver":
            warned_n += 1          # non-convergence is announced by the solver (C06); nothing is claimed about such states here
            continue
        if r[0] == "error":
            if found is None:
                found = {"kind": "input", "what": f"{kind} mixture at T={T}, P={P}: {r[1]}", "mixture": describe(sps, x0), "T": T, "P": P}
            continue
        _, nd, out, m = r
        x = nd / nd.sum()
        bad = None
        for q in ("calculate_viscosity", "calculate_heat_capacity"):
            v = out[q]
            if not (math.isfinite(v) and v > 0):
                bad = f"{q[10:]} = {v!r} is not finite and strictly positive"
        kap = out["calculate_thermal_conductivity"]
        if not (math.isfinite(kap) and kap > 0):
            # recorded finding: negative only through the thermal-diffusion terms of the assembly (positive without them)
            with warnings.catch_warnings():
                warnings.simplefilter("ignore")
                k_nodt = float(ft.thermal_conductivity(m, 0.001, False, 1e8))
            if math.isfinite(kap) and math.isfinite(k_nodt) and k_nodt > 0:
                known.append(("kappa:thermal-diffusion-enthalpy", f"{kind} mixture at T={T:.1f}, P={P:.4g}: thermal conductivity {kap:.4g} (without the thermal-diffusion terms {k_nodt:.4g})",
                              {"mixture": describe(sps, x0), "T": T, "P": P}))
            else:
                bad = f"thermal_conductivity = {kap!r} is not finite and strictly positive (without the thermal-diffusion terms: {k_nodt!r})"
        sg = out["calculate_electrical_conductivity"]
        if not (math.isfinite(sg) and sg >= 0):
            # recorded finding: the formula weights each ion by its signed charge; negative ions with electrons below the solver's resolution
            anions = any(sp.charge_number < 0 for sp in sps)
            if math.isfinite(sg) and anions and x[-1] < 1e-7:
                known.append(("sigma:anions", f"{kind} mixture at T={T:.1f}, P={P:.4g}: electrical conductivity {sg:.4g} with negative ions listed and electron mole fraction {x[-1]:.2e}",
                              {"mixture": describe(sps, x0), "T": T, "P": P}))
            else:
                bad = f"electrical conductivity = {sg!r} is not finite and non-negative (electron mole fraction {x[-1]:.2e})"
        e = out["calculate_total_emission_coefficient"]
        if not math.isfinite(e) or e < 0 or (e == 0 and emission_must_be_positive(sps, nd[:-1], T)):
            bad = f"total emission coefficient = {e!r} is not finite and strictly positive"
        run.sample({"kind": kind, "T": T, "P": P, "eta": out["calculate_viscosity"], "kappa": kap,
                    "cp": out["calculate_heat_capacity"], "sigma": sg, "emission": e}, cap=4)
        if bad and found is None:
            found = {"kind": "input", "what": f"{kind} mixture at T={T}, P={P}: {bad}", "mixture": describe(sps, x0), "T": T, "P": P}
    run.cov["mixture_kinds"] = hist
    run.cov["states_with_solver_warning"] = warned_n
    run.cov["x0_rejected"] = skipped
    run.cov["recorded_findings_hit"] = [k[1] for k in known][:12]
    for key, what, payload in known:
        run.violation(dict(payload, kind="input", what=what), key=key)
    if found:
        found["broken"] = broken
        run.violation(found)
    elif broken:
        run.violation({"kind": "broken-obligation", "broken": broken,
                       "what": "theorem / correspondence for C14 no longer checks; no failing input found"}, no_input=True)


def describe(sps, x0):
    return {"species": [gen.species_full(s) if s.name not in gen.SHIPPED else s.name for s in sps], "x0": list(x0)}


def replay(path):
    d = json.load(open(path))
    print(d.get("what"))
    if d.get("kind") != "input":
        print(json.dumps(d.get("broken"), indent=1, default=str)[:2000])
        return 1
    if "mixture" in d:
        sps = [gen.shipped(s) if isinstance(s, str) else gen.species_from_full(s) for s in d["mixture"]["species"]]
        solver.set_elements(sps)
        nd, out, warned = equiv.evaluate(sps, d["mixture"]["x0"], d["T"], d["P"])
        print({k: v for k, v in out.items() if k.startswith("calculate")})
    return 1
