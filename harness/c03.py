"""C03 — every calculated property is a pure function of the current (species, x0, T, P)."""
import copy
import glob
import os
import json
import random
import re
import warnings

import numpy as np

import common
import gen
import minplascalc as mpc
from minplascalc import species as _sp

METHODS = ["calculate_composition", "calculate_density", "calculate_species_enthalpies", "calculate_enthalpy",
           "calculate_heat_capacity", "calculate_viscosity", "calculate_thermal_conductivity",
           "calculate_electrical_conductivity", "calculate_total_emission_coefficient"]
CONTROLS = (1e20, 1e-10, 1000)
CONTROL_SETS = [(1e20, 1e-10, 1000), (1e20, 1e-3, 1000), (1e12, 1e-10, 1000), (1e20, 1e-10, 3), (1e25, 1e-12, 200)]
TGRID = [1500.0, 3000.0, 5000.0, 8000.0, 10000.0, 12000.0, 15000.0, 20000.0, 25000.0]
PGRID = [1e4, 5e4, 101325.0, 5e5, 1e6]


def species_sets():
    oxy = [_sp.from_name(n) for n in gen.OXY]
    co = [_sp.from_name(n) for n in ["CO", "CO+", "C", "C+", "O", "O+", "O2"]]
    return {"oxy": (oxy, [[1, 0, 0, 0, 0, 0], [0.5, 0, 0.5, 0, 0, 0], [0, 0, 1, 0, 0, 0]]),
            "co": (co, [[1, 0, 0, 0, 0, 0, 0], [0.6, 0, 0.1, 0, 0.2, 0, 0.1], [0.2, 0, 0.4, 0, 0.2, 0, 0.2]])}


def method_index():
    txt = open(common.GEN + "/GenEffects.v").read()
    idx = {}
    for m in METHODS:
        mm = re.search(r"Definition m_" + m + r" : nat := (\d+)\.", txt)
        if mm:
            idx[m] = int(mm.group(1))
    return idx


def call(m, meth, dt):
    with warnings.catch_warnings():
        warnings.simplefilter("ignore")
        if meth == "calculate_thermal_conductivity":
            return getattr(m, meth)(DTterms_yn=dt)
        return getattr(m, meth)()


def same(a, b):
    a, b = np.asarray(a, dtype=float), np.asarray(b, dtype=float)
    return a.shape == b.shape and bool(np.all((a == b) | (np.isnan(a) & np.isnan(b))))


def rand_history(rng, nmix, length):
    ops = []
    for _ in range(length):
        w = rng.randrange(nmix)
        r = rng.random()
        if r < 0.2:
            ops.append((w, "T", rng.choice(TGRID)))
        elif r < 0.3:
            ops.append((w, "P", rng.choice(PGRID)))
        elif r < 0.4:
            ops.append((w, "X", rng.randrange(3)))
        else:
            meth = rng.choice(METHODS + ["calculate_species_enthalpies", "calculate_heat_capacity", "calculate_thermal_conductivity"])
            ops.append((w, "C", (meth, rng.random() < 0.7)))
    return ops


def guided_histories():
    """histories suggested by the model: reach each cache state, then call every method"""
    hs = []
    for meth in METHODS:
        hs.append([(0, "C", (meth, True))])
        hs.append([(0, "C", ("calculate_composition", True)), (0, "T", 8000.0), (0, "C", (meth, True))])
        hs.append([(0, "C", ("calculate_heat_capacity", True)), (0, "C", (meth, True))])
        hs.append([(0, "C", ("calculate_thermal_conductivity", True)), (0, "C", (meth, False))])
        hs.append([(0, "C", ("calculate_enthalpy", True)), (0, "X", 1), (0, "P", 5e4), (0, "C", (meth, True))])
    return hs


def execute(setname, sets, history, nmix, T0=10000.0, P0=101325.0, ctl=None):
    """run a history on real LTE objects; after every op report flags and compare outputs with a fresh mixture.
    returns (records, first_bad)"""
    species, x0s = sets[setname]
    ctl = ctl or [0] * nmix          # index into CONTROL_SETS per mixture: sharing species must not share solutions
    pristine = copy.deepcopy(species)          # the species data as given, before any call could touch it
    mixes = [mpc.mixture.LTE(species, x0s[0], T0, P0, *CONTROL_SETS[ctl[i]]) for i in range(nmix)]
    recs, bad = [], None
    for k, (w, kind, arg) in enumerate(history):
        m = mixes[w]
        if kind == "T":
            m.T = arg
            if m.T != arg and bad is None:
                bad = {"step": k, "what": "assigning T did not change the visible temperature to the assigned value", "assigned": arg, "visible": m.T}
        elif kind == "P":
            m.P = arg
            if m.P != arg and bad is None:
                bad = {"step": k, "what": "assigning P did not change the visible pressure to the assigned value", "assigned": arg, "visible": m.P}
        elif kind == "X":
            m.x0 = x0s[arg]
        else:
            meth, dt = arg
            before = (m.T, m.P, tuple(m.x0), m.species)
            try:
                out = call(m, meth, dt)
                err = None
            except Exception as e:  # noqa: BLE001
                out, err = None, f"{type(e).__name__}: {e}"
            after = (m.T, m.P, tuple(m.x0), m.species)
            # "freshly constructed": equal species data in new objects, so nothing can be shared with the history
            fresh = mpc.mixture.LTE(copy.deepcopy(pristine), list(m.x0[:-1]), m.T, m.P, *CONTROL_SETS[ctl[w]])
            try:
                ref = call(fresh, meth, dt)
                rerr = None
            except Exception as e:  # noqa: BLE001
                ref, rerr = None, f"{type(e).__name__}: {e}"
            if bad is None:
                if before != after or before[3] is not after[3]:
                    bad = {"step": k, "what": f"{meth} changed the visible inputs", "before": str(before[:3]), "after": str(after[:3])}
                elif species_data(species) != species_data(pristine):
                    bad = {"step": k, "what": f"{meth} changed the data of the (shared) species objects",
                           "changed": [a["name"] for a, b in zip(species_data(species), species_data(pristine)) if a != b]}
                elif err != rerr:
                    bad = {"step": k, "what": f"{meth}: exception differs from a fresh mixture", "observed": err, "fresh": rerr}
                elif err is None and not same(out, ref):
                    bad = {"step": k, "what": f"{meth} differs from a freshly constructed mixture at the same inputs",
                           "observed": np.asarray(out, dtype=float).tolist(), "fresh": np.asarray(ref, dtype=float).tolist()}
        recs.append([bool(getattr(mx, "_LTE__isLTE")) for mx in mixes])
    return recs, bad


def encode_ops(history, w, idx):
    toks = []
    for (ww, kind, arg) in history:
        if ww != w:
            continue
        if kind in "TPX":
            toks.append(kind)
        else:
            toks.append(f"C{idx[arg[0]]}:{1 if arg[1] else 0}")
    return toks



def species_data(sps):
    """every attribute of every species, as plain comparable data"""
    def conv(v):
        if hasattr(v, "tolist"):
            return v.tolist()
        if isinstance(v, (list, tuple)):
            return [conv(x) for x in v]
        if isinstance(v, dict):
            return {k: conv(x) for k, x in v.items()}
        return v
    return [{k: conv(v) for k, v in sp.__dict__.items()} for sp in sps]


def shared_pool_case(rng):
    """two mixtures over DIFFERENT species subsets (different element sets) built from one pool of species objects: after the first is
    calculated, every output of the second must be what a mixture of freshly loaded species gives. -> None or a description"""
    pool_names = ["CO", "CO+", "C", "C+", "O2", "O2+", "O", "O+", "O++"]
    pool = {n: _sp.from_name(n) for n in pool_names}
    a_names = ["CO", "CO+", "C", "C+", "O2", "O2+", "O", "O+"]
    b_names = ["O2", "O2+", "O", "O+", "O++"]
    T, P = rng.choice([8000.0, 14000.0, 20000.0]), rng.choice([1e4, 101325.0, 1e6])
    A = mpc.mixture.LTE([pool[n] for n in a_names], [0.5, 0, 0, 0, 0.5, 0, 0, 0], T, P, 1e20, 1e-10, 1000)
    B = mpc.mixture.LTE([pool[n] for n in b_names], [1, 0, 0, 0, 0], T, P, 1e20, 1e-10, 1000)
    Bf = mpc.mixture.LTE([_sp.from_name(n) for n in b_names], [1, 0, 0, 0, 0], T, P, 1e20, 1e-10, 1000)
    meth_a = rng.choice(["calculate_composition", "calculate_viscosity", "calculate_enthalpy"])
    call(A, meth_a, True)
    for meth in ("calculate_composition", "calculate_density", "calculate_enthalpy", "calculate_viscosity", "calculate_electrical_conductivity"):
        out, ref = call(B, meth, True), call(Bf, meth, True)
        if not same(out, ref):
            return {"what": f"after {meth_a} on a mixture sharing species objects (other element set), {meth} of the second mixture differs from freshly loaded species",
                    "T": T, "P": P, "observed": np.asarray(out, dtype=float).tolist(), "fresh": np.asarray(ref, dtype=float).tolist()}
    return None


class Injected(RuntimeError):
    pass


def raising_call(m, meth, which, k):
    """call `meth` while the k-th inner call of `which` (through the object) raises; -> None or a description of visible inputs that changed"""
    before = (m.T, m.P, list(m.x0))
    orig = getattr(m, which)
    n = {"calls": 0}

    def boom(*a, **kw):
        n["calls"] += 1
        if n["calls"] == k:
            raise Injected("injected failure of an inner evaluation")
        return orig(*a, **kw)

    setattr(m, which, boom)
    try:
        try:
            call(m, meth, True)
        except Injected:
            pass
    finally:
        delattr(m, which)
    after = (m.T, m.P, list(m.x0))
    if before != after:
        return {"what": f"{meth} raised while evaluating {which} (call {k}) and left the visible inputs changed", "before": before, "after": after}
    return None


def natural_raise(case):
    """a state where an evaluation at a perturbed temperature raises without any injection (recorded corpus)"""
    sps = [_sp.from_name(n) for n in case["species"]]
    m = mpc.mixture.LTE(sps, case["x0"], case["T"], case["P"], 1e20, 1e-10, 1000)
    before = (m.T, m.P)
    raised = None
    with warnings.catch_warnings():
        warnings.simplefilter("ignore")
        try:
            getattr(m, case["method"])()
        except Exception as e:  # noqa: BLE001
            raised = type(e).__name__
    if (m.T, m.P) != before:
        return {"what": f"{case['method']} raised {raised} and left T changed", "before": before, "after": (m.T, m.P)}
    return None


def check(run):
    rng = random.Random(run.seed)
    thorough = run.tier == "thorough"
    run.cov["rule"] = ("histories of length 1-25 over {set T, set P, set x0, nine calculate_* methods, thermal conductivity with DTterms on/off} on 1-3 "
                       "LTE objects sharing the same species objects (shipped oxygen set and a C-O set), plus model-guided histories reaching every "
                       "cache state before every method; after each call the result is compared bit-for-bit with a freshly constructed mixture and "
                       "the flag with the model's prediction; distinct = distinct (species set, history)")
    run.cov["trusted_base"] = [
        "Coq 8.16.1 kernel; the C03 theorems are closed under the global context (no axioms); vm_compute for the 90 closed per-method cases",
        "translator/effects.py: effect summaries (cache reads/writes, flag, temperature perturbations, calls) extracted from the AST on every run, fail-closed; "
        "loops flattened to one execution (solver loops assumed to run at least once)",
        "determinism of the Python code: a result that reads only caches computed at the current inputs is what a fresh mixture computes (compared bit-for-bit here)",
        "hand-written interpreter coq/model/Cache.v; extraction with ExtrOcamlBasic"]
    broken = []
    ok, refusals, _ = common.regenerate(["effects"])
    if not ok:
        broken.append({"stage": "translator", "detail": refusals})
        run.note(f"translator refused: {refusals}")
    res = common.prove("thm/C03.v")
    run.add_proof(res, "make -f Makefile.coq thm/C03.vo")
    if not res["ok"]:
        broken.append({"stage": "proof", "detail": res["error"]})
        run.note(f"proof obligation failed: {res['error']}")
    okd, dlog = common.build_driver("cache")
    idx = method_index() if ok else {}
    sets = species_sets()
    found = None
    hists = [("oxy", 1, h, [0]) for h in guided_histories()]
    n = 400 if thorough else 60
    for _ in range(n):
        nmix = rng.choice([1, 1, 2, 3])
        ctl = [rng.choice([0, 0, 1, 2, 3, 4]) for _ in range(nmix)]
        h = rand_history(rng, nmix, rng.randint(1, 25))
        if nmix > 1 and rng.random() < 0.5:
            # the same inputs visited by two mixtures one after the other
            T, P = rng.choice(TGRID), rng.choice(PGRID)
            meth = (rng.choice(METHODS), True)
            k = rng.randrange(3)
            h += [(0, "T", T), (0, "P", P), (0, "X", k), (1, "T", T), (1, "P", P), (1, "X", k), (0, "C", meth), (1, "C", meth)]
            if ctl[0] == ctl[1]:
                ctl[1] = (ctl[0] + rng.randint(1, 4)) % 5
        hists.append((rng.choice(["oxy", "oxy", "co"]), nmix, h, ctl))
    results = []
    for setname, nmix, h, ctl in hists:
        recs, bad = execute(setname, sets, h, nmix, ctl=ctl)
        results.append(recs)
        ncalls = sum(1 for o in h if o[1] == "C")
        run.count(1, distinct_key=(setname, json.dumps(h)), nontrivial=ncalls > 0)
        run.cov["traces_validated_against_impl"] += 1
        if bad and found is None:
            found = {"kind": "history", "species_set": setname, "n_mixtures": nmix, "controls": ctl, "history": h, **bad}
        run.sample({"species_set": setname, "n_mixtures": nmix, "history": h[:8]}, cap=3)
    # histories in which a call raises part-way: the visible inputs must be what they were (exception safety of the perturbing methods)
    for setname in ("oxy", "co"):
        sp, x0s = sets[setname]
        for meth, which in (("calculate_heat_capacity", "calculate_enthalpy"), ("calculate_heat_capacity", "calculate_composition"),
                            ("calculate_thermal_conductivity", "calculate_composition"), ("calculate_thermal_conductivity", "calculate_species_enthalpies")):
            for k in (1, 2, 3):
                m = mpc.mixture.LTE([copy.deepcopy(x) for x in sp], x0s[0], rng.choice(TGRID), rng.choice(PGRID), 1e20, 1e-10, 1000)
                bad = raising_call(m, meth, which, k)
                run.count(1, distinct_key=("raise", setname, meth, which, k))
                if bad and found is None:
                    found = {"kind": "raising-history", "species_set": setname, "method": meth, "inner": which, "k": k, **bad}
    for _ in range(6 if thorough else 2):
        bad = shared_pool_case(rng)
        run.count(1, distinct_key=("pool", _))
        if bad and found is None:
            found = {"kind": "raising-history", "shared_pool": True, **bad}
    for f in sorted(glob.glob(os.path.join(common.VERIF, "corpus", "C03", "*.json"))):
        case = json.load(open(f))
        bad = natural_raise(case)
        run.count(1, distinct_key=("corpus", os.path.basename(f)))
        if bad and found is None:
            found = {"kind": "raising-history", "corpus": os.path.basename(f), "case": case, **bad}
    # K: the model's predicted flag after every op, per mixture
    if not okd:
        broken.append({"stage": "extraction", "detail": dlog[-600:]})
    elif idx:
        cmds, where = [], []
        for hi, (setname, nmix, h, _) in enumerate(hists):
            for w in range(nmix):
                toks = encode_ops(h, w, idx)
                cmds.append("history " + str(len(toks)) + " " + " ".join(toks))
                where.append((hi, w))
        outs = common.run_driver("cache", cmds)
        dis = 0
        for (hi, w), o in zip(where, outs):
            setname, nmix, h, _ = hists[hi]
            flags = [results[hi][k][w] for k, op in enumerate(h) if op[0] == w]
            pred = [t[0] == "1" for t in o]
            unclean = [t for t in o if len(t) == 5 and t[3:] != "11" and t[3:] != "--"]
            if pred != flags or "stuck" in o:
                dis += 1
                if dis == 1:
                    broken.append({"stage": "correspondence", "detail": {"history": h, "mixture": w, "impl_flags": flags, "model": o}})
            if unclean and not any(b.get("stage") == "model-stale" for b in broken):
                broken.append({"stage": "model-stale", "detail": {"history": h, "mixture": w, "model": o}})
        run.cov["correspondence_disagreements"] = dis
    if found:
        found["broken"] = broken
        run.violation(found)
    elif broken:
        run.violation({"kind": "broken-obligation", "broken": broken,
                       "what": "theorem / correspondence for C03 no longer checks; no failing history found"}, no_input=True)


def replay(path):
    d = json.load(open(path))
    if d.get("kind") == "raising-history":
        print(d.get("what"), d.get("before"), d.get("after"))
        if "case" in d:
            bad = natural_raise(d["case"])
            print("now:", bad or "inputs unchanged")
            return 1 if bad else 0
        return 1
    if d.get("kind") != "history":
        print("replay names a broken obligation:", json.dumps(d.get("broken"), indent=1)[:2000])
        return 1
    h = [(a, b, tuple(c) if isinstance(c, list) else c) for a, b, c in d["history"]]
    recs, bad = execute(d["species_set"], species_sets(), h, d["n_mixtures"], ctl=d.get("controls"))
    print("history:", h)
    print("result:", bad or "every call equals a fresh mixture")
    return 1 if bad else 0
