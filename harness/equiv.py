"""Comparison of two mixtures that the properties C04 / C05 declare equivalent."""
import warnings

import numpy as np

import minplascalc as mpc

SCALARS = ["calculate_density", "calculate_enthalpy", "calculate_heat_capacity", "calculate_viscosity",
           "calculate_thermal_conductivity", "calculate_electrical_conductivity", "calculate_total_emission_coefficient"]
TOL_SCALAR = 1e-5                                          # derived scalars dominated by the majority species
TOL_DERIV = 1e-4                                           # heat capacity / thermal conductivity: temperature differences with delta = 1e-3 amplify composition noise
DERIV = ("calculate_heat_capacity", "calculate_thermal_conductivity")


def species_tol(x):
    """relative agreement demanded of a species of mole fraction x: the stopping rule (rtol 1e-10 on the most abundant species)
    resolves a species roughly to 1e-10 / x; nothing is demanded below x = 1e-7"""
    return None if x <= 1e-7 else 1e-6 + 1e-10 / x

XE_FLOOR = 1e-7                                            # electron-dependent quantities compared above this electron mole fraction


def evaluate(species, x0, T, P, controls=(1e20, 1e-10, 1000), scalars=SCALARS):
    m = mpc.mixture.LTE(species, x0, T, P, *controls)
    with warnings.catch_warnings(record=True) as w:
        warnings.simplefilter("always")
        nd = np.asarray(m.calculate_composition(), dtype=float)
        out = {}
        if not any("Minimiser could not find" in str(x.message) for x in w):
            try:
                hs = np.asarray(m.calculate_species_enthalpies(), dtype=float)
                for k in scalars:
                    out[k] = float(getattr(m, k)())
            except Exception:  # noqa: BLE001
                # an exception that follows an announced non-convergence (e.g. of a solve at a perturbed temperature) is an announced failure
                if any("Minimiser could not find" in str(x.message) for x in w):
                    return nd, {}, True
                raise
            out["species_enthalpies"] = hs
            # per-species share of the line emission, to know whether it is carried by resolved species
            from minplascalc import units as u
            em = []
            for n_i, sp in zip(nd[:-1], m.species[:-1]):
                lines = getattr(sp, "emission_lines", [])
                if lines:
                    Z = sp.internal_partition_function(T, 0)
                    em.append(float(sum(n_i * gA * np.exp(-E / (u.k_b * T)) / (Z * lam) for lam, gA, E in lines)))
                else:
                    em.append(0.0)
            out["_emission_shares"] = np.array(em + [0.0])
        # any solve along the way (heat capacity and thermal conductivity solve at perturbed temperatures) may have warned
        warned = any("Minimiser could not find" in str(x.message) for x in w)
    return nd, out, warned


def compare(nd_a, out_a, nd_b, out_b):
    """nd_b / enthalpies already mapped into a's species order. -> None or a description"""
    if not (np.all(np.isfinite(nd_a)) and np.all(np.isfinite(nd_b))):
        return None
    x = nd_a / nd_a.sum()
    for i, (a, b, xi) in enumerate(zip(nd_a, nd_b, x)):
        tol = species_tol(xi)
        if tol is not None and abs(a - b) > tol * abs(a):
            return f"number density of species #{i} differs by {abs(a - b) / abs(a):.3e} at mole fraction {xi:.2e}"
    xe = x[-1]
    shares = out_a.get("_emission_shares")
    emission_resolved = True
    if shares is not None and shares.sum() > 0:
        emission_resolved = float(shares[x <= 1e-7].sum()) <= TOL_SCALAR * float(shares.sum())
    for k in out_a:
        if k == "_emission_shares":
            continue
        if k == "calculate_total_emission_coefficient" and not emission_resolved:
            continue      # carried by species below the mole-fraction floor the solver resolves
        if k == "species_enthalpies":
            # species the solver resolves (x > 1e-7): the enthalpy of an ion below that floor depends, through the lowering of its parent,
            # on an electron density that is itself below the floor
            ha, hb = out_a[k], out_b[k]
            sc = np.maximum(np.abs(ha), np.max(np.abs(ha)) * 1e-6)
            rel = np.where(x > 1e-7, np.abs(ha - hb) / sc, 0.0)
            if np.max(rel) > TOL_SCALAR:
                return f"species enthalpies differ by {float(np.max(rel)):.3e}"
            continue
        a, b = out_a[k], out_b[k]
        if k == "calculate_electrical_conductivity" and xe <= XE_FLOOR:
            continue
        if not (np.isfinite(a) and np.isfinite(b)):
            continue
        if abs(a - b) > (TOL_DERIV if k in DERIV else TOL_SCALAR) * max(abs(a), 1e-300):
            return f"{k} differs by {abs(a - b) / max(abs(a), 1e-300):.3e} ({a!r} vs {b!r})"
    return None
