"""Shared transport-level utilities: prescribed collision integrals through a duck-typed mixture, model matrices."""
import math
import random

import numpy as np

import common
from minplascalc import functions_transport as ft
from minplascalc import units as u

ORDERS = [(1, 1), (1, 2), (1, 3), (1, 4), (1, 5), (1, 6), (1, 7), (2, 2), (2, 3), (2, 4), (2, 5), (2, 6), (3, 3), (3, 4), (3, 5), (4, 4)]


class DuckSpecies:
    def __init__(self, name, mass, charge=0):
        self.name, self.molar_mass, self.charge_number = name, mass * u.N_a, charge
        self.stoichiometry = {}


class Duck:
    """anything with .species, .T, calculate_composition(), calculate_density() is a mixture for functions_transport"""

    def __init__(self, masses, nd, T, charges=None):
        n = len(masses)
        charges = charges or [0] * n
        self.species = tuple(DuckSpecies(f"s{k}" if k < n - 1 else "e", m, z) for k, (m, z) in enumerate(zip(masses, charges)))
        self.T = T
        self._nd = np.array(nd, dtype=float)

    def calculate_composition(self):
        return self._nd

    def calculate_density(self):
        return float(sum(n * sp.molar_mass for n, sp in zip(self._nd, self.species)) / u.N_a)


class Prescribed:
    """context manager: functions_transport.Qij_mix returns prescribed arrays (test instrumentation, not a repo change)"""

    def __init__(self, table):
        self.table = table

    def __enter__(self):
        self.orig = ft.Qij_mix
        ft.Qij_mix = lambda mixture, l, s: self.table[(l, s)]
        return self

    def __exit__(self, *a):
        ft.Qij_mix = self.orig


def rand_case(rng, nb=None):
    nb = nb or rng.randint(1, 4)
    masses = [10 ** rng.uniform(-27, -24.5) for _ in range(nb)]
    if nb > 1 and rng.random() < 0.7:
        masses[-1] = 9.1093837e-31
    nd = [10 ** rng.uniform(17, 23) for _ in range(nb)]
    T = 10 ** rng.uniform(math.log10(300), math.log10(30000))
    table = {}
    for ls in ORDERS:
        M = np.array([[10 ** rng.uniform(-20, -18) for _ in range(nb)] for _ in range(nb)])
        table[ls] = (M + M.T) / 2
    return {"nb": nb, "masses": masses, "nd": nd, "T": T, "Q": table}


def case_tokens(case):
    toks = [str(case["nb"])] + [common.fhex(x) for x in case["masses"]] + [common.fhex(x) for x in case["nd"]]
    for ls in ORDERS:
        toks += [common.fhex(x) for x in np.asarray(case["Q"][ls]).ravel()]
    return toks


def impl_matrices(case):
    duck = Duck(case["masses"], case["nd"], case["T"])
    with Prescribed(case["Q"]):
        return np.array(ft.q(duck)), np.array(ft.qhat(duck))


def model_matrices(cases):
    lines = []
    for c in cases:
        t = " ".join(case_tokens(c))
        lines += ["qmatrix " + t, "qhatmatrix " + t]
    outs = common.run_driver("tr", lines)
    res = []
    for k, c in enumerate(cases):
        nb = c["nb"]
        q = np.array([common.unhex(t) for t in outs[2 * k]]).reshape(4 * nb, 4 * nb)
        qh = np.array([common.unhex(t) for t in outs[2 * k + 1]]).reshape(2 * nb, 2 * nb)
        res.append((q, qh))
    return res


def matrix_scale(case, dim_blocks):
    """entry-wise magnitude of the sums that form each entry (cancellation-aware tolerance scale): 8 n_i sum_l n_l max|Q| * mass factors ~ use row/col norms"""
    return None


# ---------------------------------------------------------------- final formulae (Dij, DTi, viscosity, electrical conductivity)
class FrozenDuck(Duck):
    """composition independent of T and zero species enthalpies: thermal_conductivity returns the translational part k' alone,
    with or without the thermal-diffusion terms"""

    def calculate_species_enthalpies(self):
        return np.zeros(len(self.species))


def impl_kdash(case, charges):
    """-> (k' through the default path, k' with DTterms_yn=False) or None where the system is singular"""
    try:
        with Prescribed(case["Q"]):
            return (float(ft.thermal_conductivity(FrozenDuck(case["masses"], case["nd"], case["T"], charges), 0.001, True, 1e8)),
                    float(ft.thermal_conductivity(FrozenDuck(case["masses"], case["nd"], case["T"], charges), 0.001, False, 1e8)))
    except np.linalg.LinAlgError:
        return None


def impl_final(case, charges):
    """-> (D, DT, eta, sigma); D, DT, sigma are None where the diffusion systems are singular (a single species)"""
    duck = Duck(case["masses"], case["nd"], case["T"], charges)
    with Prescribed(case["Q"]):
        eta = float(ft.viscosity(duck))
        try:
            return (np.array(ft.Dij(duck)), np.array(ft.DTi(duck)), eta, float(ft.electrical_conductivity(duck)))
        except np.linalg.LinAlgError:
            return None, None, eta, None


def own_D(case, iq, rD):
    """multicomponent diffusion matrix from the implementation's q matrix, the model's right-hand sides and the documented final formula,
    in plain numpy (used only to FIND mixtures with genuinely negative coefficients)"""
    nb = case["nb"]
    m, n = np.array(case["masses"]), np.array(case["nd"])
    rho, ntot = float(np.sum(n * m)), float(np.sum(n))
    B = np.zeros((4 * nb, nb * nb))
    for i in range(nb):
        for j in range(nb):
            B[:nb, i * nb + j] = rD[i, j]
    X = np.linalg.solve(iq, B)
    D = np.zeros((nb, nb))
    for i in range(nb):
        for j in range(nb):
            D[i, j] = rho * n[i] / (2 * ntot * m[j]) * math.sqrt(2 * u.k_b * case["T"] / m[i]) * X[i, i * nb + j]
    return D


def wide_case(rng, nb=None):
    """collision integrals spread over five decades: multicomponent diffusion coefficients of either sign occur"""
    c = rand_case(rng, nb or rng.randint(3, 4))
    for ls in ORDERS:
        M = np.array([[10 ** rng.uniform(-22, -17) for _ in range(c["nb"])] for _ in range(c["nb"])])
        c["Q"][ls] = (M + M.T) / 2
    return c


def negative_D_cases(rng, want, tries):
    """-> up to `want` wide cases whose diffusion matrix has an off-diagonal entry below -1e-3 max|D| (decided with own_D)"""
    out = []
    lines, cs = [], []
    for _ in range(tries):
        c = wide_case(rng)
        cs.append(c)
        lines.append("rhs " + " ".join([str(c["nb"]), common.fhex(c["T"])] + [common.fhex(x) for x in c["masses"]] + [common.fhex(x) for x in c["nd"]]))
    outs = common.run_driver("tr", lines)
    for c, o in zip(cs, outs):
        nb = c["nb"]
        rD = np.array([common.unhex(t) for t in o][:nb ** 3]).reshape(nb, nb, nb)
        try:
            iq, _ = impl_matrices(c)
            D = own_D(c, iq, rD)
        except np.linalg.LinAlgError:
            continue
        if np.all(np.isfinite(D)) and np.min(D) < -1e-3 * np.max(np.abs(D)):
            out.append(c)
            if len(out) >= want:
                break
    return out


def final_formulae(run, cases):
    """model right-hand sides solved against the implementation's matrices, model final formulae vs implementation outputs.
    -> list of disagreement dicts (D, DT, viscosity, electrical conductivity)"""
    dis = []
    rhs_out = common.run_driver("tr", ["rhs " + " ".join([str(c["nb"]), common.fhex(c["T"])] + [common.fhex(x) for x in c["masses"]] + [common.fhex(x) for x in c["nd"]])
                                       for c in cases])
    vlines, vexp = [], []
    for c, o in zip(cases, rhs_out):
        nb = c["nb"]
        v = [common.unhex(t) for t in o]
        rD = np.array(v[:nb ** 3]).reshape(nb, nb, nb)
        rT, rV = np.array(v[nb ** 3:nb ** 3 + nb]), np.array(v[nb ** 3 + nb:])
        iq, iqh = impl_matrices(c)
        # charge numbers of the heavy species (collision integrals are prescribed, so they enter the electrical conductivity only):
        # ions of either sign anywhere in the list, the first listed species charged in half of the cases; electrons last
        crng = random.Random(repr((c["T"], c["masses"][0], nb)))
        charges = [crng.choice([0, 0, 1, 2, -1]) for _ in range(nb - 1)] + [-1]
        if nb > 1 and crng.random() < 0.5:
            charges[0] = crng.choice([1, 2, -1])
        duck = Duck(c["masses"], c["nd"], c["T"], charges)
        rho, ntot = duck.calculate_density(), float(np.sum(c["nd"]))
        try:
            b = np.zeros(2 * nb)
            b[:nb] = rV
            bb = np.linalg.solve(iqh, b).reshape(2, nb)
            D, DT, eta, sig = impl_final(c, charges)
        except np.linalg.LinAlgError:
            continue
        c0, a = np.zeros((nb, nb)), np.zeros((4, nb))
        if D is not None:
            try:
                for i in range(nb):
                    for j in range(nb):
                        b = np.zeros(4 * nb)
                        b[:nb] = rD[i, j]
                        c0[i, j] = np.linalg.solve(iq, b)[i]
                b = np.zeros(4 * nb)
                b[nb:2 * nb] = rT
                a = np.linalg.solve(iq, b).reshape(4, nb)
            except np.linalg.LinAlgError:
                D = DT = sig = None
        toks = [str(nb), common.fhex(c["T"]), common.fhex(rho), common.fhex(ntot)] + [common.fhex(x) for x in c["masses"]] + \
               [common.fhex(x) for x in c["nd"]] + [common.fhex(x) for x in charges] + [common.fhex(x) for x in c0.ravel()] + \
               [common.fhex(x) for x in a[0]] + [common.fhex(x) for x in a[1]] + [common.fhex(x) for x in bb[0]]
        vlines.append("values " + " ".join(toks))
        vexp.append((c, D, DT, eta, sig, impl_kdash(c, charges) if D is not None else None))
    vout = common.run_driver("tr", vlines) if vlines else []
    for (c, D, DT, eta, sig, kd), o in zip(vexp, vout):
        nb = c["nb"]
        v = [common.unhex(t) for t in o]
        mD, mDT = np.array(v[:nb * nb]).reshape(nb, nb), np.array(v[nb * nb:nb * nb + nb])
        meta, mkd, msig = v[nb * nb + nb], v[nb * nb + nb + 1], v[nb * nb + nb + 2]
        if kd is not None and np.isfinite(mkd):
            for label, val in (("default path", kd[0]), ("DTterms_yn=False", kd[1])):
                if np.isfinite(val) and common.relerr(val, mkd) > 1e-7:
                    dis.append({"what": f"translational thermal conductivity ({label}): implementation {val!r}, model final formula on the implementation's own q matrix {mkd!r}",
                                "error": common.relerr(val, mkd), "D_entry": [0, 0], "impl_D": float("nan"), "model_D": float("nan"), "nb": nb,
                                "case": {"masses": c["masses"], "nd": c["nd"], "T": c["T"]}})
                    break
        run.cov["traces_validated_against_impl"] += 1
        e_eta = common.relerr(meta, eta)
        if D is None:
            if e_eta > 1e-7:
                dis.append({"what": f"viscosity of a {nb}-species mixture: implementation {eta!r}, model final formula on the implementation's own qhat matrix {meta!r}",
                            "error": e_eta, "D_entry": [0, 0], "impl_D": float("nan"), "model_D": float("nan"), "nb": nb,
                            "case": {"masses": c["masses"], "nd": c["nd"], "T": c["T"]}})
            continue
        eD = float(np.max(np.abs(mD - D) / max(np.max(np.abs(D)), np.max(np.abs(mD)), 1e-300)))
        e = max(eD, float(np.max(np.abs(mDT - DT) / max(np.max(np.abs(DT)), 1e-300))), e_eta,
                abs(msig - sig) / max(abs(sig), np.max(np.abs(D)) * 1e-30, 1e-300) if np.isfinite(sig) else 0.0)
        if e > 1e-7:
            i, j = np.unravel_index(int(np.argmax(np.abs(mD - D))), D.shape)
            dis.append({"what": "final formulae (right-hand sides / prefactors / post-processing)", "error": e,
                        "D_entry": [int(i), int(j)], "impl_D": float(D[i, j]), "model_D": float(mD[i, j]), "nb": nb,
                        "case": {"masses": c["masses"], "nd": c["nd"], "T": c["T"]}})
    return dis
