"""Shared transport-level utilities: prescribed collision integrals through a duck-typed mixture, model matrices."""
import math
import random

import numpy as np

import common
from minplascalc import functions_transport as ft
from minplascalc import units as u

ORDERS = [(1, 1), (1, 2), (1, 3), (1, 4), (1, 5), (1, 6), (1, 7), (2, 2), (2, 3), (2, 4), (2, 5), (2, 6), (3, 3), (3, 4), (3, 5), (4, 4)]


class DuckSpecies:
    def __init__(self, name, mass, charge=0):
        self.name, self.molar_mass, self.charge_number = name, mass * u.N_a, charge
        self.stoichiometry = {}


class Duck:
    """anything with .species, .T, calculate_composition(), calculate_density() is a mixture for functions_transport"""

    def __init__(self, masses, nd, T, charges=None):
        n = len(masses)
        charges = charges or [0] * n
        self.species = tuple(DuckSpecies(f"s{k}" if k < n - 1 else "e", m, z) for k, (m, z) in enumerate(zip(masses, charges)))
        self.T = T
        self._nd = np.array(nd, dtype=float)

    def calculate_composition(self):
        return self._nd

    def calculate_density(self):
        return float(sum(n * sp.molar_mass for n, sp in zip(self._nd, self.species)) / u.N_a)


class Prescribed:
    """context manager: functions_transport.Qij_mix returns prescribed arrays (test instrumentation, not a repo change)"""

    def __init__(self, table):
        self.table = table

    def __enter__(self):
        self.orig = ft.Qij_mix
        ft.Qij_mix = lambda mixture, l, s: self.table[(l, s)]
        return self

    def __exit__(self, *a):
        ft.Qij_mix = self.orig


def rand_case(rng, nb=None):
    nb = nb or rng.randint(1, 4)
    masses = [10 ** rng.uniform(-27, -24.5) for _ in range(nb)]
    if nb > 1 and rng.random() < 0.7:
        masses[-1] = 9.1093837e-31
    nd = [10 ** rng.uniform(17, 23) for _ in range(nb)]
    T = 10 ** rng.uniform(math.log10(300), math.log10(30000))
    table = {}
    for ls in ORDERS:
        M = np.array([[10 ** rng.uniform(-20, -18) for _ in range(nb)] for _ in range(nb)])
        table[ls] = (M + M.T) / 2
    return {"nb": nb, "masses": masses, "nd": nd, "T": T, "Q": table}


def case_tokens(case):
    toks = [str(case["nb"])] + [common.fhex(x) for x in case["masses"]] + [common.fhex(x) for x in case["nd"]]
    for ls in ORDERS:
        toks += [common.fhex(x) for x in np.asarray(case["Q"][ls]).ravel()]
    return toks


def impl_matrices(case):
    duck = Duck(case["masses"], case["nd"], case["T"])
    with Prescribed(case["Q"]):
        return np.array(ft.q(duck)), np.array(ft.qhat(duck))


def model_matrices(cases):
    lines = []
    for c in cases:
        t = " ".join(case_tokens(c))
        lines += ["qmatrix " + t, "qhatmatrix " + t]
    outs = common.run_driver("tr", lines)
    res = []
    for k, c in enumerate(cases):
        nb = c["nb"]
        q = np.array([common.unhex(t) for t in outs[2 * k]]).reshape(4 * nb, 4 * nb)
        qh = np.array([common.unhex(t) for t in outs[2 * k + 1]]).reshape(2 * nb, 2 * nb)
        res.append((q, qh))
    return res


def matrix_scale(case, dim_blocks):
    """entry-wise magnitude of the sums that form each entry (cancellation-aware tolerance scale): 8 n_i sum_l n_l max|Q| * mass factors ~ use row/col norms"""
    return None
