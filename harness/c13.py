"""C13 — collision integrals are symmetric, admissible and match their definitions."""
import itertools
import json
import math
import random

import numpy as np
from scipy import integrate
from scipy.special import gamma as Gamma

import common
import gen
import solver
import transport as tr
from minplascalc import functions_transport as ft
from minplascalc import species as _sp
from minplascalc import units as u

TOL_K = 1e-9          # fitted orders
TOL_K_REC = 1e-6      # orders obtained by the unit-step temperature difference (cancellation of nearly equal numbers)
RECURSED = {(1, 6), (1, 7), (2, 5), (2, 6), (3, 4), (3, 5)}


def impl_Q(si, ni, sj, nj, l, s, T):
    try:
        return float(ft.Qij(si, ni, sj, nj, l, s, T))
    except Exception as e:  # noqa: BLE001
        return type(e).__name__


def documented_class(si, sj, l):
    """the documented interaction classes, written independently of the dispatch chain"""
    zi, zj = si.charge_number, sj.charge_number
    ei, ej = si.name == "e", sj.name == "e"
    if zi != 0 and zj != 0:
        return "Qc"
    if (ei and zj == 0) or (ej and zi == 0):
        return "Qe"
    if zi == 0 and zj == 0:
        return "Qnn"
    own_ion = si.stoichiometry == sj.stoichiometry and abs(zi - zj) == 1
    return "Qtr" if (own_ion and l % 2 == 1) else "Qin"


def qe_quadrature(sp, s, T):
    """thermal average of the documented cross-section law D1 + D2 x^D3 exp(-D4 x^2), x = m_r g / hbar = tau * gamma:
       2 / (s+1)! * int_0^inf exp(-g^2) g^(2s+3) Omega(tau g) dg"""
    ecs = sp.electron_cross_section
    D1, D2, D3, D4 = ecs if isinstance(ecs, (tuple, list)) else (ecs, 0.0, 0.0, 0.0)
    tau = math.sqrt(2 * u.m_e * u.k_b * T) / u.hbar
    f = lambda g: math.exp(-g * g) * g ** (2 * s + 3) * (D1 + D2 * (tau * g) ** D3 * math.exp(-D4 * (tau * g) ** 2))  # noqa: E731
    val, err = integrate.quad(f, 0, np.inf, epsabs=0, epsrel=1e-11, limit=400)
    return 2 / math.factorial(s + 1) * val


def species_pool(rng, thorough):
    pool = [gen.shipped(n) for n in gen.SHIPPED] + [_sp.Electron()]
    for k in range(6 if thorough else 3):
        d, M = gen.synth_element(rng, f"Z{k}", with_neg=True, max_charge=2)
        pool += list(d.values())
        pool.append(gen.synth_molecule(rng, f"Z{k}2", {f"Z{k}": 2}, {f"Z{k}": M}))
        pool.append(gen.synth_molecule(rng, f"Z{k}2+", {f"Z{k}": 2}, {f"Z{k}": M}, 1))
    return pool



class RealMix:
    """real species with prescribed densities: what functions_transport.Qij_mix needs"""

    def __init__(self, sps, nd, T, x0=None, P=101325.0):
        self.species, self.T, self._nd = tuple(sps), T, np.array(nd, dtype=float)
        # the other visible inputs of an LTE mixture, so that code keyed on them runs as it would on the real object
        self.x0 = list(x0) if x0 is not None else [1.0 / len(sps)] * len(sps)
        self.P = P
        self.gfe_initial_particles, self.gfe_rtol, self.gfe_max_iter = 1e20, 1e-10, 1000

    def calculate_composition(self):
        return self._nd


def mix_matrix_check(run, rng, pool, okd, broken, thorough):
    """functions_transport.Qij_mix (the matrix every transport routine consumes) against the pairwise model kernel, entry by entry, for
    mixtures of real species; each mixture is evaluated twice and then once more in another listing order in the same process
    (the matrix must be a function of the current mixture only, attached to the right species)."""
    found = None
    usable = [sp for sp in pool if sp.name == "e" or sp.charge_number != 0
              or (getattr(sp, "electron_cross_section", None) is not None and getattr(sp, "effective_electrons", None) is not None)]
    heavy = [sp for sp in usable if sp.name != "e"]
    el = next(sp for sp in usable if sp.name == "e")
    for _ in range(12 if thorough else 4):
        sps = rng.sample(heavy, rng.randint(2, 5)) + [el]
        nd = [10 ** rng.uniform(18, 23) for _ in sps]
        T = rng.choice([1000.0, 5000.0, 12000.0, 25000.0])
        perm = list(range(len(sps) - 1))
        rng.shuffle(perm)
        perm.append(len(sps) - 1)
        for (l, s) in rng.sample(tr.ORDERS, 6 if thorough else 3):
            try:
                x0 = [k + 1.0 for k in range(len(sps))]
                M1 = np.array(ft.Qij_mix(RealMix(sps, nd, T, x0), l, s), dtype=float)
                M2 = np.array(ft.Qij_mix(RealMix(sps, nd, T, x0), l, s), dtype=float)
                Mp = np.array(ft.Qij_mix(RealMix([sps[k] for k in perm], [nd[k] for k in perm], T, [x0[k] for k in perm]), l, s), dtype=float)
            except Exception:  # noqa: BLE001  (species without data for this pair: rejected input)
                continue
            run.count(1, distinct_key=("mix", tuple(sp.name for sp in sps), l, s, T))
            exp = np.array([[impl_Q(si, ni, sj, nj, l, s, T) for sj, nj in zip(sps, nd)] for si, ni in zip(sps, nd)], dtype=float)
            names = [sp.name for sp in sps]
            bad = None
            if not np.array_equal(M1, M2):
                bad = "two evaluations of the same mixture differ"
            elif np.max(np.abs(M1 - exp) / np.maximum(np.abs(exp), 1e-300)) > 1e-12:
                i, j = np.unravel_index(int(np.argmax(np.abs(M1 - exp) / np.maximum(np.abs(exp), 1e-300))), M1.shape)
                bad = f"entry ({names[i]},{names[j]}) = {M1[i, j]!r} is not the pair integral {exp[i, j]!r}"
            elif np.max(np.abs(Mp - M1[np.ix_(perm, perm)]) / np.maximum(np.abs(M1[np.ix_(perm, perm)]), 1e-300)) > 1e-12:
                bad = "the matrix of the re-listed mixture is not the re-indexed matrix"
            if bad and found is None:
                found = {"kind": "input", "what": f"Qij_mix(l={l}, s={s}, T={T}) for {names}: {bad}", "species": [sc_full(sp) for sp in sps], "nd": nd,
                         "perm": perm, "l": l, "s": s, "T": T}
    return found


def check(run):
    rng = random.Random(run.seed)
    thorough = run.tier == "thorough"
    run.cov["rule"] = ("ordered pairs drawn from the 17 shipped species, the electron and synthetic atoms / ions / negative ions / molecules; all 16 consumed orders; "
                       "T in {300, 400, 1000, 3000, 10000, 30000} K; densities 1e16..1e24 (electron-electron pairs with equal densities); for each: extracted model vs "
                       "implementation (value and class), symmetry, finiteness, positivity (Coulomb when the logarithm exceeds 2), documented class, temperature-derivative recursion of the unfitted orders (own step 0.25 K); "
                       "electron-neutral closed form vs quadrature of its cross-section law; Qij_mix matrices of real mixtures vs the pair integrals, evaluated twice and in a second listing order; distinct = (species pair, order, T)")
    run.cov["trusted_base"] = common.TRUSTED_COMMON + [
        "Coq-Interval for ln 2 > 0.69 and pi^2/6 > partial sums of 1/k^2 (adds no axioms beyond the Reals ones)",
        "scipy.special.gamma is a parameter G of the real instance; hypotheses G > 0 where used",
        "hand-written: harmonic sums, recursion wrapper Q_recursion (recursion guard of Qnn / Qin checked syntactically), unpacking of electron_cross_section; tied by the correspondence check",
        "RESTRICTED: electron-neutral closed form = thermal average proved only for D2 = 0; validated by quadrature otherwise; finiteness tested"]
    broken = []
    ok, refusals, _ = common.regenerate(["transport"])
    if not ok:
        broken.append({"stage": "translator", "detail": refusals})
        run.note(f"translator refused: {refusals}")
    res = common.prove("thm/C13.v")
    run.add_proof(res, "make -f Makefile.coq thm/C13.vo")
    if not res["ok"]:
        broken.append({"stage": "proof", "detail": res["error"]})
        run.note(f"proof obligation failed: {res['error']}")
    okd, dlog = common.build_driver("tr")
    pool = species_pool(rng, thorough)
    solver.set_elements(pool)
    pairs = list(itertools.product(pool, pool))
    rng.shuffle(pairs)
    pairs = pairs[:(len(pairs) if thorough else 260)]
    found, lines, meta = None, [], []
    hist = {}
    for si, sj in pairs:
        for (l, s) in tr.ORDERS:
            T = rng.choice([300.0, 400.0, 1000.0, 3000.0, 10000.0, 30000.0])
            ni = 10 ** rng.uniform(16, 24)
            nj = ni if si.name == sj.name else 10 ** rng.uniform(16, 24)
            a = impl_Q(si, ni, sj, nj, l, s, T)
            b = impl_Q(sj, nj, si, ni, l, s, T)
            cls = documented_class(si, sj, l)
            hist[cls] = hist.get(cls, 0) + 1
            run.count(1, distinct_key=(si.name, sj.name, l, s, T))
            bad = None
            if isinstance(a, str) or isinstance(b, str):
                # the implementation rejects pairs it has no data for (e.g. neutral without effective electrons / cross-section): must do so both ways
                if a != b:
                    bad = f"raises one way only: {a!r} vs {b!r}"
            else:
                tol = 1e-6 if (l, s) in RECURSED else 1e-12
                if not (math.isfinite(a) and math.isfinite(b)):
                    bad = f"not finite: {a!r}, {b!r}"
                elif common.relerr(a, b) > tol:
                    bad = f"not symmetric: Q(i,j)={a!r} Q(j,i)={b!r}"
                elif cls != "Qc" and not a > 0:
                    bad = f"non-Coulomb integral not positive: {a!r}"
                elif cls == "Qc":
                    lnL = float(ft.cl_charged(si, sj, ni, nj, T))
                    if lnL > 2 and not a > 0:
                        bad = f"Coulomb integral not positive although ln Lambda = {lnL:.3f} > 2: {a!r}"
            if not bad and (l, s) in RECURSED and cls in ("Qnn", "Qin") and not isinstance(a, str):
                # the temperature-derivative recursion, with a step of our own: Q(l,s) = Q(l,s-1) + T/(s+1) dQ(l,s-1)/dT
                h = 0.25
                lo, mid, hi = (impl_Q(si, ni, sj, nj, l, s - 1, t) for t in (T - h, T, T + h))
                if not any(isinstance(v, str) for v in (lo, mid, hi)):
                    rec = mid + T / (s + 1) * (hi - lo) / (2 * h)
                    run.count(1, distinct_key=("rec", si.name, sj.name, l, s, T))
                    if common.relerr(a, rec) > 1e-5:
                        bad = f"order ({l},{s}) = {a!r} but the recursion from order ({l},{s - 1}) gives {rec!r}"
            if bad and found is None:
                found = {"kind": "input", "what": f"Qij({si.name},{sj.name},l={l},s={s},T={T}): {bad}", "pair": [si.name, sj.name],
                         "species": [sc_full(si), sc_full(sj)], "ni": ni, "nj": nj, "l": l, "s": s, "T": T}
            if okd and not isinstance(a, str):
                lines.append("Qij " + " ".join(common.enc_species(si) + [common.fhex(ni)] + common.enc_species(sj) + [common.fhex(nj), str(l), str(s), common.fhex(T)]))
                meta.append((si.name, sj.name, l, s, T, a, cls))
    run.cov["class_histogram"] = hist
    if not okd:
        broken.append({"stage": "extraction", "detail": dlog[-600:]})
    else:
        outs = common.run_driver("tr", lines)
        dis = 0
        for (a_n, b_n, l, s, T, v, cls), o in zip(meta, outs):
            m = common.unhex(o[0])
            mc = o[1].split(":")[0]
            tol = TOL_K_REC if (l, s) in RECURSED else TOL_K
            run.cov["traces_validated_against_impl"] += 1
            if common.relerr(v, m) > tol or mc != cls:
                dis += 1
                if dis == 1:
                    broken.append({"stage": "correspondence", "detail": {"pair": [a_n, b_n], "l": l, "s": s, "T": T, "impl": v, "model": m,
                                                                         "model_class": o[1], "documented_class": cls}})
                if mc != cls and found is None:
                    found = {"kind": "input", "what": f"pair ({a_n},{b_n}), l={l}: dispatched to {mc} but the documented class is {cls}", "pair": [a_n, b_n], "l": l, "s": s, "T": T}
            run.sample({"pair": [a_n, b_n], "l": l, "s": s, "T": T, "impl": v, "model": m, "class": o[1]}, cap=4)
        run.cov["correspondence_disagreements"] = dis
    # electron-neutral closed form = thermal average of the documented cross-section law
    neutrals = [sp for sp in pool if sp.charge_number == 0 and sp.name != "e" and getattr(sp, "electron_cross_section", None) is not None]
    for sp in neutrals:
        for s in (1, 2, 3, 5, 7):
            T = rng.choice([300.0, 3000.0, 30000.0])
            ecs = sp.electron_cross_section
            if isinstance(ecs, (tuple, list)) and (ecs[1] < 0 or ecs[2] < -1):
                continue
            try:
                v = float(ft.Qe(sp, 1, s, T))
                qv = qe_quadrature(sp, s, T)
            except Exception:  # noqa: BLE001
                continue
            run.count(1, distinct_key=("Qe", sp.name, s, T))
            if common.relerr(v, qv) > 1e-8 and found is None:
                found = {"kind": "input", "what": f"Qe({sp.name}, s={s}, T={T}) = {v!r} but the thermal average of its cross-section law is {qv!r}",
                         "species": [sc_full(sp)], "s": s, "T": T}
    fm = mix_matrix_check(run, rng, pool, okd, broken, thorough)
    found = found or fm
    if found:
        found["broken"] = broken
        run.violation(found)
    elif broken:
        run.violation({"kind": "broken-obligation", "broken": broken,
                       "what": "theorem / correspondence for C13 no longer checks; no failing input found"}, no_input=True)


def sc_full(sp):
    d = {k: v for k, v in sp.__dict__.items()}
    d["__class__"] = type(sp).__name__
    return d


def replay(path):
    d = json.load(open(path))
    print(d.get("what"))
    if d.get("kind") != "input":
        print(json.dumps(d.get("broken"), indent=1, default=str)[:2000])
    return 1
