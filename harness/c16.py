"""C16 — species survive a save / load round trip unchanged (real files + model of construct/from_file)."""
import json
import math
import os
import random
import tempfile

import common
import gen
from minplascalc import functions_transport as ft
from minplascalc import species as _sp

INF = float("inf")


class Enc:
    """pyval token encoding shared with extract/dispatch_models.ml; floats become identity tokens"""

    def __init__(self):
        self.ftab = {}

    def f(self, x):
        if x == INF:
            return "Fp"
        if x == -INF:
            return "Fm"
        return "F" + str(self.ftab.setdefault(float(x).hex(), len(self.ftab)))

    def val(self, v):
        if v is None:
            return ["N"]
        if isinstance(v, bool):
            return ["B1" if v else "B0"]
        if isinstance(v, int):
            return ["I" + str(v)]
        if isinstance(v, float):
            return [self.f(v)]
        if isinstance(v, str):
            return ["S" + (v.encode("latin-1").hex() or "-")]
        if isinstance(v, list):
            return ["L" + str(len(v))] + [t for x in v for t in self.val(x)]
        if isinstance(v, tuple):
            return ["T" + str(len(v))] + [t for x in v for t in self.val(x)]
        if isinstance(v, dict):
            out = ["D" + str(len(v))]
            for k, x in v.items():
                out += [k.encode("latin-1").hex() or "-"] + self.val(x)
            return out
        raise TypeError(type(v))


def norm(v):
    if isinstance(v, (list, tuple)):
        return [norm(x) for x in v]
    if isinstance(v, dict):
        return {k: norm(x) for k, x in v.items()}
    return v


def same_value(a, b):
    """equal by value, tuples and lists identified, floats compared exactly (bit pattern, +inf = +inf)"""
    if isinstance(a, (list, tuple)) and isinstance(b, (list, tuple)):
        return len(a) == len(b) and all(same_value(x, y) for x, y in zip(a, b))
    if isinstance(a, dict) and isinstance(b, dict):
        return list(a.keys()) == list(b.keys()) and all(same_value(a[k], b[k]) for k in a)
    if isinstance(a, float) and isinstance(b, float):
        return a.hex() == b.hex()
    if isinstance(a, str) or isinstance(b, str):
        return a == b
    if isinstance(a, bool) != isinstance(b, bool):
        return False
    return type(a) is type(b) and a == b


def rand_json_species(rng):
    """species constructible from JSON-representable data: any level/line lists, infinite energies, None options,
    tuple or list cross-sections, 1..8 atoms"""
    r = rng.random()
    if r < 0.4:
        sp = gen.rand_monatomic(rng, name="X" + str(rng.randint(0, 99)), nlev=rng.choice([0, 1, 3, 17, 50]), nlines=rng.choice([0, 2, 50]))
    elif r < 0.7:
        sp = gen.rand_diatomic(rng, name="XY" + str(rng.randint(0, 99)))
    else:
        st = rng.choice([{"X": 3}, {"X": 1, "Y": 2}, {"X": 2, "Y": 4}, {"X": 1, "Y": 1, "Z": 1}, {"X": 4, "Y": 4}, {"X": 5, "Y": 2, "Z": 1}])
        sp = gen.rand_polyatomic(rng, name="P" + str(rng.randint(0, 99)), stoich=st)
    if rng.random() < 0.3:
        sp.ionisation_energy = INF
    if hasattr(sp, "dissociation_energy") and rng.random() < 0.3:
        sp.dissociation_energy = INF
    if rng.random() < 0.3:
        sp.effective_electrons = None
    if rng.random() < 0.2:
        sp.electron_cross_section = None
    # optional data that is present but falsy (0, 0.0, empty) is still data
    r = rng.random()
    if r < 0.1:
        sp.effective_electrons = rng.choice([0, 0.0])
    elif r < 0.2:
        sp.electron_cross_section = rng.choice([0.0, 0, [], (0.0, 0.0, 0.0, 0.0)])
    if rng.random() < 0.1:
        sp.polarisability = 0.0
    if rng.random() < 0.3:
        sp.emission_lines = [tuple(l) for l in sp.emission_lines]
    if hasattr(sp, "energy_levels") and rng.random() < 0.3:
        sp.energy_levels = [tuple(l) for l in sp.energy_levels]
    if rng.random() < 0.2:
        sp.multiplicity = float(sp.multiplicity)
    return sp


def derived(sp, T):
    out = [float(sp.internal_partition_function(T, 0.0)), float(sp.internal_energy(T, 1e-20)), float(sp.translational_partition_function(T))]
    try:
        out.append(float(ft.Qe(sp, 1, 1, T)))
    except Exception as e:  # noqa: BLE001
        out.append(type(e).__name__)
    return out


def roundtrip(sp, tmp):
    path = os.path.join(tmp, "sp.json")
    sp.to_file(path)
    return _sp.from_file(path)


def check(run):
    rng = random.Random(run.seed)
    thorough = run.tier == "thorough"
    n = 3000 if thorough else 300
    run.cov["rule"] = ("synthetic monatomic (0-50 levels, 0-50 lines), diatomic, polyatomic (3-8 atoms) species with inf ionisation/dissociation "
                       "energies, None options, tuple/list cross-sections, tuple/list level and line rows, written with to_file and read with from_file "
                       "through real temporary files; all 17 shipped species via from_name vs from_file; distinct by (class, field shapes)")
    run.cov["trusted_base"] = [
        "Coq 8.16.1 kernel; the C16 theorems are closed under the global context (no axioms)",
        "gen_speciesio (translator): constructor parameter / assignment / super-argument lists, from_file keys and dispatch extracted from species.py's AST, fail-closed, on every run",
        "hand-written interpreter coq/model/SpeciesIO.v (positional binding, __dict__ insertion, dispatch), tied by running it against real objects",
        "json.dump / json.load modelled as inverse maps between JSON trees and text (incl. Infinity); exercised through real files",
        "NaN excluded (NaN != NaN); class must match atom count (a Polyatomic object with 2 atoms reloads through the Diatomic branch: outside the property)"]
    broken = []
    ok, refusals, _ = common.regenerate(["speciesio"])
    if not ok:
        broken.append({"stage": "translator", "detail": refusals})
        run.note(f"translator refused: {refusals}")
    res = common.prove("thm/C16.v")
    run.add_proof(res, "make -f Makefile.coq thm/C16.vo")
    if not res["ok"]:
        broken.append({"stage": "proof", "detail": res["error"]})
        run.note(f"proof obligation failed: {res['error']}")
    okd, dlog = common.build_driver("models")
    found = None
    sps = [rand_json_species(rng) for _ in range(n)]
    tmp = tempfile.mkdtemp(prefix="c16_", dir="/dev/shm" if os.path.isdir("/dev/shm") else None)
    try:
        reloaded = []
        used = 0
        for sp in sps:
            # a third of the species have been USED before they are saved (partition functions, energies, a collision integral evaluated):
            # saving must not depend on the object's history
            if rng.random() < 0.35:
                try:
                    derived(sp, gen.log_uniform(rng, 300, 30000))
                    sp.total_partition_function(1.0, 5000.0, 0.0)
                    used += 1
                except Exception:  # noqa: BLE001
                    pass
            try:
                sp2 = roundtrip(sp, tmp)
                err = None
            except Exception as e:  # noqa: BLE001
                sp2, err = None, f"{type(e).__name__}: {e}"
            reloaded.append((sp2, err))
        # K: the model's SaveLoad on the object's __dict__ against the real reloaded object
        if not okd:
            broken.append({"stage": "extraction", "detail": dlog[-600:]})
        else:
            cmds, encs = [], []
            for sp in sps:
                e = Enc()
                try:
                    cmds.append("saveload " + " ".join(e.val(dict(sp.__dict__))))
                except TypeError:
                    # the object's __dict__ holds something that is not JSON-representable data (e.g. a cache attached by a method call):
                    # the model sees the constructor data only; the property test below reports the object
                    cmds.append("saveload " + " ".join(Enc().val({})))
                encs.append(e)
            outs = common.run_driver("models", cmds)
            dis = 0
            for sp, (sp2, err), e, o in zip(sps, reloaded, encs, outs):
                if sp2 is None:
                    agree = o[0] == "none"
                else:
                    want = "ok " + (type(sp2).__name__.encode().hex()) + " " + " ".join(e.val(dict(sp2.__dict__)))
                    got = " ".join(o).split(" | ")[0]
                    agree = got == want
                if not agree:
                    dis += 1
                    if dis == 1:
                        broken.append({"stage": "correspondence", "detail": {"species": repr(sp)[:600], "impl_error": err, "model": " ".join(o)[:600]}})
            run.cov["species_used_before_saving"] = used
            run.cov["traces_validated_against_impl"] = len(sps)
            run.cov["correspondence_disagreements"] = dis
        # V/F: the property itself
        for sp, (sp2, err) in zip(sps, reloaded):
            shape = (type(sp).__name__, len(getattr(sp, "energy_levels", [])), len(sp.emission_lines), type(sp.electron_cross_section).__name__,
                     sp.ionisation_energy == INF, sp.effective_electrons is None)
            run.count(1, distinct_key=shape)
            bad = None
            if sp2 is None:
                bad = f"round trip raised {err}"
            elif type(sp2) is not type(sp):
                bad = f"class changed to {type(sp2).__name__}"
            elif not same_value(norm(dict(sp.__dict__)), norm(dict(sp2.__dict__))):
                ks = [k for k in sp.__dict__ if k not in sp2.__dict__ or not same_value(norm(sp.__dict__[k]), norm(sp2.__dict__[k]))]
                bad = f"fields differ: {ks or 'key order'}"
            else:
                T = gen.log_uniform(rng, 300, 30000)
                try:
                    d1, d2 = derived(sp, T), derived(sp2, T)
                    if not same_value(d1, d2):
                        bad = f"derived quantities differ at T={T}: {d1} vs {d2}"
                except ZeroDivisionError:
                    pass
            if bad and found is None:
                found = {"kind": "input", "what": bad, "species_dict": json.loads(json.dumps(sp.__dict__, default=lambda v: v.tolist() if hasattr(v, "tolist") else repr(v))),
                         "class": type(sp).__name__, "history": "the species had been used (partition function / energy / collision integral evaluated) before it was saved"}
            run.sample({"class": type(sp).__name__, "fields": list(sp.__dict__.keys()), "ecs": repr(sp.electron_cross_section)[:60]}, cap=3)
        # from_name == from_file(database path)
        for nm in gen.SHIPPED:
            a = _sp.from_name(nm)
            b = _sp.from_file(str(_sp.SPECIES_PATH / (nm + ".json")))
            run.count(1, distinct_key=("shipped", nm))
            c = roundtrip(a, tmp)
            if not (type(a) is type(b) and same_value(a.__dict__, b.__dict__)) and found is None:
                found = {"kind": "input", "what": "from_name differs from from_file of the database file", "name": nm}
            if not (type(a) is type(c) and same_value(norm(a.__dict__), norm(c.__dict__))) and found is None:
                found = {"kind": "input", "what": "shipped species changes in a round trip", "name": nm}
    finally:
        for f in os.listdir(tmp):
            os.remove(os.path.join(tmp, f))
        os.rmdir(tmp)
    if found:
        found["broken"] = broken
        run.violation(found)
    elif broken:
        run.violation({"kind": "broken-obligation", "broken": broken,
                       "what": "theorem / correspondence for C16 no longer checks; no failing input found"}, no_input=True)


def replay(path):
    d = json.load(open(path))
    if d.get("kind") != "input":
        print("replay names a broken obligation:", json.dumps(d.get("broken"), indent=1)[:2000])
        return 1
    print(d["what"])
    if "species_dict" in d:
        cls = getattr(_sp, d["class"])
        sp = cls.__new__(cls)
        sp.__dict__.update(d["species_dict"])
        tmp = tempfile.mkdtemp()
        try:
            sp2 = roundtrip(sp, tmp)
            ok = type(sp2) is type(sp) and same_value(norm(dict(sp.__dict__)), norm(dict(sp2.__dict__)))
        except Exception as e:  # noqa: BLE001
            print("round trip raised", repr(e))
            ok = False
        print("round trip", "preserves" if ok else "does not preserve", "the species")
        return 0 if ok else 1
    return 1
