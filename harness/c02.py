"""C02 — composition conserves elements, is electroneutral, positive and obeys p = n k T."""
import json
import math
import random

import numpy as np

import common
import solver
import solverchecks as sc
from minplascalc import units as u

TOL = 1e-11     # element ratios, neutrality (relative to total density) and p = nkT (relative): double-precision floor with margin


def violates(m, nd, x0):
    """-> description of the first violated clause of the property, or None.
    Constraint residuals contract by (1 - r) per iteration (theorem) and are exact only after a full step; with non-default controls
    a run may stop, converged to its rtol, before any full step was taken: the residual is then judged at the tolerance the caller asked for."""
    TOL = 1e-11 if (m.gfe_rtol == 1e-10 and m.gfe_initial_particles == 1e20) else max(1e-11, 10 * m.gfe_rtol)
    names, A = sc.constraint_matrix(m)
    if len(nd) != len(m.species) or m.species[-1].name != "e":
        return "composition is not one density per species with electrons last"
    if not np.all(np.isfinite(nd)) or not np.all(nd > 0):
        return f"density not finite and strictly positive: min={float(np.min(nd))!r}"
    tot = nd.sum()
    el = A.T @ nd
    b = A.T @ np.array(list(m.x0))
    r1, r2 = el[:-1] / el[:-1].sum(), b[:-1] / b[:-1].sum()
    if np.max(np.abs(r1 - r2)) > TOL:
        return f"element proportions off by {float(np.max(np.abs(r1 - r2))):.3e}"
    if abs(el[-1]) / tot > TOL:
        return f"net charge density / total density = {float(el[-1] / tot):.3e}"
    if abs(tot - m.P / (u.k_b * m.T)) > TOL * m.P / (u.k_b * m.T):
        return f"total density {tot!r} != P/kT {m.P / (u.k_b * m.T)!r}"
    return None


def check(run):
    rng = random.Random(run.seed)
    thorough = run.tier == "thorough"
    n = 1500 if thorough else 200
    run.cov["rule"] = ("mixtures: shipped oxygen / Si-C-O subsets in random order, synthetic one- and two-element chemistries with negative ions, "
                       "gaps in charge chains, diatomic and polyatomic molecules; x0 random with every element present; T log-uniform [1e3,3e4] K, "
                       "P log-uniform [1e3,1e7] Pa; runs that warn or raise are counted but not judged; distinct = (species names in order, T, P)")
    run.cov["trusted_base"] = common.TRUSTED_COMMON + [
        "hand-written step model coq/model/Gibbs.v + RefEnergy.v, tied to calculate_composition by recorded iterations (hook MINPLASCALC_VERIF): "
        "mu/E0/dE, the linear system against the recorded matrix, relaxation factor, stopping quantity, next iterate, densities",
        "numpy.linalg.solve not modelled: theorems hold for any proposal satisfying the constraint rows (positivity: for any proposal at all)",
        "NOT proved: that the returned iterate has seen a full step and that round-off keeps residuals at the double-precision floor; finiteness — tested below"]
    broken = []
    res = common.prove("thm/C02.v")
    run.add_proof(res, "make -f Makefile.coq thm/C02.vo")
    if not res["ok"]:
        broken.append({"stage": "proof", "detail": res["error"]})
        run.note(f"proof obligation failed: {res['error']}")
    ok, refusals, _ = common.regenerate(["species", "mixture"])
    if not ok:
        broken.append({"stage": "translator", "detail": refusals})
    okd, dlog = common.build_driver("mix")
    runs, found, hist = [], None, {}
    for sps, x0, T, P, kind in sc.cases(rng, n):
        m, nd, warned = solver.traced(sps, x0, T, P)
        runs.append((m, nd, warned))
        outcome = "warned" if warned is True else (warned if warned else "ok")
        hist[f"{kind}:{outcome}"] = hist.get(f"{kind}:{outcome}", 0) + 1
        run.count(1, distinct_key=(tuple(s.name for s in sps), round(T, 3), round(P, 3)), nontrivial=not warned)
        if not warned:
            v = violates(m, nd, x0)
            if v and found is None:
                found = {"kind": "input", "what": v, "case": sc.describe(sps, x0, T, P)}
            # the proved invariants, evaluated on the recorded trace: 0 < r <= 1, iterates positive, residual contraction
            names, A = sc.constraint_matrix(m)
            b = np.array(list(m._verif_trace[0][10][len(m.species):])) if m._verif_trace else None
            for e in m._verif_trace:
                r = e[4]
                if not (0 < r <= 1) and found is None:
                    found = {"kind": "input", "what": f"relaxation factor {r!r} outside (0,1]", "case": sc.describe(sps, x0, T, P)}
            # the returned array is the caller's: a user who rescales or sorts it in place must still get a composition obeying
            # the constraints from the next call on the unchanged object
            if rng.random() < 0.3:
                mine = m.calculate_composition()
                if isinstance(mine, np.ndarray) and mine.flags.writeable:
                    if rng.random() < 0.5:
                        mine *= 1e-6
                    else:
                        mine.sort()
                    again = np.asarray(m.calculate_composition(), dtype=float)
                    hist["caller_mutated_returned_array"] = hist.get("caller_mutated_returned_array", 0) + 1
                    v = violates(m, again, x0)
                    if v is None and not np.allclose(again, nd, rtol=1e-12, atol=0.0):
                        v = "composition changed although T, P, x0 did not"
                    if v and found is None:
                        found = {"kind": "history", "what": "after the caller modified the returned array in place, the next call returns: " + v,
                                 "case": sc.describe(sps, x0, T, P)}
            # the same object after its inputs were re-assigned (a user's parameter sweep): the returned composition must obey the
            # CURRENT x0, T, P
            if rng.random() < 0.3:
                import warnings
                x0b = [rng.random() if (v > 0 or (sp.charge_number == 0 and rng.random() < 0.5)) else 0.0 for v, sp in zip(x0, sps)]
                names_b, A_b = sc.constraint_matrix(m)
                if all((A_b[:-1, k] @ np.array(x0b)) > 0 for k in range(A_b.shape[1] - 1)):
                    with warnings.catch_warnings(record=True) as wb:
                        warnings.simplefilter("always")
                        try:
                            m.x0 = x0b
                            if rng.random() < 0.5:
                                m.T = T * rng.uniform(0.7, 1.4)
                            ndb = np.asarray(m.calculate_composition(), dtype=float)
                            warned_b = any("Minimiser could not find" in str(x.message) for x in wb)
                        except np.linalg.LinAlgError:
                            warned_b, ndb = True, None
                    # the recorded iterations now belong to the second solve: the correspondence below must see that composition
                    runs[-1] = (m, ndb if not warned_b else None, True if warned_b else warned)
                    hist["reassigned:" + ("warned" if warned_b else "ok")] = hist.get("reassigned:" + ("warned" if warned_b else "ok"), 0) + 1
                    run.count(1, distinct_key=("re", tuple(s.name for s in sps), round(T, 3), round(P, 3)), nontrivial=not warned_b)
                    if not warned_b:
                        v = violates(m, ndb, x0b)
                        if v and found is None:
                            found = {"kind": "history", "what": "after re-assigning x0 (and T) on a solved object: " + v,
                                     "case": sc.describe(sps, x0, T, P), "then_x0": x0b, "then_T": m.T}
        run.sample({"species": [s.name for s in sps], "T": T, "P": P, "outcome": outcome}, cap=4)
    run.cov["outcome_histogram"] = hist
    if not okd:
        broken.append({"stage": "extraction", "detail": dlog[-600:]})
    else:
        dis = sc.trace_correspondence(run, runs)
        run.cov["correspondence_disagreements"] = len(dis)
        if dis:
            broken.append({"stage": "correspondence", "detail": dis[:3]})
            run.note(f"step model and implementation disagree: {dis[0]['what']}")
    if found:
        found["broken"] = broken
        run.violation(found)
    elif broken:
        run.violation({"kind": "broken-obligation", "broken": broken,
                       "what": "theorem / correspondence for C02 no longer checks; no failing input found"}, no_input=True)


def replay(path):
    d = json.load(open(path))
    if d.get("kind") != "input":
        print("replay names a broken obligation:", json.dumps(d.get("broken"), indent=1, default=str)[:2000])
        return 1
    sps, x0, T, P, ctl = sc.rebuild(d["case"])
    m, nd, warned = solver.traced(sps, x0, T, P, ctl)
    v = None if warned else violates(m, nd, x0)
    print("warned" if warned else (v or "composition satisfies the property"))
    return 1 if v else 0
