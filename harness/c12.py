"""C12 — transport coefficients obey exact invariances and conservation identities."""
import json
import math
import random
import warnings

import numpy as np

import common
import gen
import transport as tr
import minplascalc as mpc
from minplascalc import functions_transport as ft
from minplascalc import units as u

TOL_M = 1e-11      # model matrices vs implementation, entries scaled by the row maximum
TOL_ID = 1e-8      # identities on the implementation (linear solves with condition numbers up to ~1e8)


class RichDuck(tr.Duck):
    """a duck mixture that also answers calculate_species_enthalpies and accepts T assignments (composition independent of T)"""

    def __init__(self, masses, nd, T, charges=None, hv=None):
        super().__init__(masses, nd, T, charges)
        self._hv = np.array(hv if hv is not None else [0.0] * len(masses))

    def calculate_species_enthalpies(self):
        return self._hv


def impl_outputs(case, charges=None, rich=False):
    cls = RichDuck if rich else tr.Duck
    duck = cls(case["masses"], case["nd"], case["T"], charges)
    with tr.Prescribed(case["Q"]):
        D = np.array(ft.Dij(duck))
        DT = np.array(ft.DTi(duck))
        eta = float(ft.viscosity(duck))
        sig = float(ft.electrical_conductivity(duck))
        kap = float(ft.thermal_conductivity(duck, 0.001, True, 1e8)) if rich else None
    return D, DT, eta, sig, kap


def split_case(case, k, f):
    """duplicate species k into two pseudo-species carrying f and 1-f of its density (same mass, same collision integrals)"""
    nb = case["nb"]
    idx = list(range(nb))
    idx.insert(k + 1, k)
    c = {"nb": nb + 1, "T": case["T"], "masses": [case["masses"][i] for i in idx], "nd": [case["nd"][i] for i in idx], "Q": {}}
    c["nd"][k], c["nd"][k + 1] = f * case["nd"][k], (1 - f) * case["nd"][k]
    for ls, M in case["Q"].items():
        c["Q"][ls] = np.array([[M[i, j] for j in idx] for i in idx])
    return c, idx


def identities(D, DT, masses, label):
    """-> None or description; D, DT from the implementation"""
    nb = len(masses)
    m = np.array(masses)
    if np.max(np.abs(np.diag(D))) > 0:
        return f"{label}: diffusion matrix has a non-zero diagonal entry {float(np.max(np.abs(np.diag(D)))):.3e}"
    if abs(DT.sum()) > TOL_ID * np.max(np.abs(DT)):
        return f"{label}: thermal-diffusion coefficients sum to {float(DT.sum()):.3e} (max |D^T| {float(np.max(np.abs(DT))):.3e})"
    for h in range(nb):
        for k in range(nb):
            terms = m * (m[h] * D[:, h] - m[k] * D[:, k])
            if abs(terms.sum()) > TOL_ID * max(np.max(np.abs(terms)), 1e-300):
                return f"{label}: sum_i m_i (m_{h} D_i{h} - m_{k} D_i{k}) = {float(terms.sum()):.3e} (largest term {float(np.max(np.abs(terms))):.3e})"
    return None


def check(run):
    rng = random.Random(run.seed)
    thorough = run.tier == "thorough"
    n = 300 if thorough else 40
    run.cov["rule"] = ("synthetic mixtures of 1-4 species (masses electron..heavy ion, densities over 6 decades, T 300-30000 K) with prescribed symmetric collision "
                       "integrals, every order independently random, through a duck-typed mixture; equilibrium states of the shipped mixtures; "
                       "for each: model matrices vs implementation, final formulae, then the identities on the implementation (D_ii, mass identity, sum D^T, "
                       "split of a neutral species with random fraction, common density scaling); distinct = (nb, masses, densities)")
    run.cov["trusted_base"] = common.TRUSTED_COMMON + [
        "hand-written assembly model coq/model/Transport.v (block layout, mass-ratio transposes, right-hand sides, final formulae), tied by comparing the "
        "model matrices with functions_transport.q / qhat and the model formulae with Dij / DTi / viscosity / electrical_conductivity on prescribed integrals",
        "linear solves (scipy lu_factor/lu_solve, numpy solve) not modelled: theorems hold for any solution of the first block row",
        "NOT proved: split invariance and neutral density scaling — tested on the implementation"]
    broken = []
    res = common.prove("thm/C12.v")
    run.add_proof(res, "make -f Makefile.coq thm/C12.vo")
    if not res["ok"]:
        broken.append({"stage": "proof", "detail": res["error"]})
        run.note(f"proof obligation failed: {res['error']}")
    okd, dlog = common.build_driver("tr")
    found = None
    cases = [tr.rand_case(rng) for _ in range(n)]
    # one mixture larger than any shipped one (17-20 species): the assembly must not depend on the species count
    cases.append(tr.rand_case(rng, rng.randint(17, 20)))
    if not okd:
        broken.append({"stage": "extraction", "detail": dlog[-600:]})
    else:
        mods = tr.model_matrices(cases)
        dis = 0
        rhs_lines, val_where = [], []
        for c, (mq, mqh) in zip(cases, mods):
            iq, iqh = tr.impl_matrices(c)
            for a, b, nm in ((iq, mq, "q"), (iqh, mqh, "qhat")):
                if a.shape != b.shape:
                    dis += 1
                    if not any(x.get("stage") == "correspondence" for x in broken):
                        broken.append({"stage": "correspondence", "detail": {"matrix": nm, "what": f"the implementation assembles a {a.shape[0]}x{a.shape[1]} matrix for {c['nb']} species, the model {b.shape[0]}x{b.shape[1]}"}})
                    continue
                sc = np.maximum(np.abs(a), np.max(np.abs(a), axis=1, keepdims=True) * 1e-3)
                e = float(np.max(np.abs(a - b) / np.where(sc > 0, sc, 1)))
                if e > TOL_M:
                    dis += 1
                    r, cc = np.unravel_index(int(np.argmax(np.abs(a - b) / np.where(sc > 0, sc, 1))), a.shape)
                    if dis == 1:
                        broken.append({"stage": "correspondence", "detail": {"matrix": nm, "entry": [int(r), int(cc)], "block": [int(r) // c["nb"], int(cc) // c["nb"]],
                                                                             "impl": float(a[r, cc]), "model": float(b[r, cc]), "nb": c["nb"]}})
            run.cov["traces_validated_against_impl"] += 1
            rhs_lines.append("rhs " + " ".join([str(c["nb"]), common.fhex(c["T"])] + [common.fhex(x) for x in c["masses"]] + [common.fhex(x) for x in c["nd"]]))
        # final formulae: model right-hand sides solved against the implementation's matrices, model formulae vs implementation outputs;
        # plus mixtures with collision integrals spread over five decades, selected for genuinely negative diffusion coefficients
        neg = tr.negative_D_cases(rng, 6 if thorough else 3, 400 if thorough else 150)
        run.cov["cases_with_negative_diffusion_coefficients"] = len(neg)
        fdis = tr.final_formulae(run, cases + neg)
        dis += len(fdis)
        if fdis and not any(b.get("stage") == "correspondence" for b in broken):
            broken.append({"stage": "correspondence", "detail": fdis[0]})
        if fdis and found is None:
            f0 = fdis[0]
            found = {"kind": "input", "what": f"transport output of a {f0['nb']}-species mixture differs from the model's final formula on the implementation's own matrices: "
                                              f"{f0['what']} (D[{f0['D_entry'][0]},{f0['D_entry'][1]}] implementation {f0['impl_D']!r}, model {f0['model_D']!r}, relative error {f0['error']:.3e})",
                     "case": dict(f0["case"], nb=f0["nb"], Q="prescribed random symmetric collision integrals (seeded)")}
        run.cov["correspondence_disagreements"] = dis
    # V: the identities on the implementation
    for c in cases:
        nb = c["nb"]
        run.count(1, distinct_key=(nb, tuple(c["masses"]), tuple(c["nd"])), nontrivial=nb > 1)
        try:
            D, DT, eta, sig, kap = impl_outputs(c, [0] * nb, rich=True)
        except np.linalg.LinAlgError:
            continue
        d = identities(D, DT, c["masses"], "prescribed integrals")
        if d is None and nb < 4:
            k = rng.randrange(nb)
            f = rng.uniform(0.05, 0.95)
            c2, idx = split_case(c, k, f)
            try:
                D2, DT2, eta2, sig2, kap2 = impl_outputs(c2, [0] * (nb + 1), rich=True)
            except np.linalg.LinAlgError:
                D2 = None
            if D2 is not None:
                if common.relerr(eta, eta2) > TOL_ID:
                    d = f"splitting species {k} ({f:.3f}) changes the viscosity: {eta!r} -> {eta2!r}"
                elif common.relerr(kap, kap2) > TOL_ID * 100:
                    d = f"splitting species {k} ({f:.3f}) changes the thermal conductivity: {kap!r} -> {kap2!r}"
        if d is None:
            sc = 10 ** rng.uniform(-2, 2)
            c3 = dict(c, nd=[x * sc for x in c["nd"]])
            try:
                D3, DT3, eta3, sig3, kap3 = impl_outputs(c3, [0] * nb, rich=True)
                if common.relerr(eta, eta3) > TOL_ID:
                    d = f"scaling all densities by {sc:.3g} changes the viscosity of a neutral mixture: {eta!r} -> {eta3!r}"
                elif common.relerr(kap, kap3) > TOL_ID * 100:
                    d = f"scaling all densities by {sc:.3g} changes the translational thermal conductivity: {kap!r} -> {kap3!r}"
            except np.linalg.LinAlgError:
                pass
        if d and found is None:
            found = {"kind": "input", "what": d, "case": {"nb": nb, "masses": c["masses"], "nd": c["nd"], "T": c["T"],
                                                          "Q": {f"{l},{s}": np.asarray(M).tolist() for (l, s), M in c["Q"].items()}}}
        run.sample({"nb": nb, "masses": c["masses"], "nd": c["nd"], "T": c["T"]}, cap=3)
    # shipped mixtures at equilibrium
    grid = [(T, P) for T in ([3000.0, 8000.0, 15000.0, 25000.0] if thorough else [5000.0, 15000.0]) for P in ([1e4, 101325.0, 1e6] if thorough else [101325.0])]
    for names, x0 in ((gen.OXY, gen.OXY_X0), (gen.SICO, gen.SICO_X0)):
        for T, P in grid:
            with warnings.catch_warnings():
                warnings.simplefilter("ignore")
                m = mpc.mixture.lte_from_names(names, x0, T, P)
                D, DT = np.array(ft.Dij(m)), np.array(ft.DTi(m))
            masses = [sp.molar_mass / u.N_a for sp in m.species]
            run.count(1, distinct_key=("lte", names[0], T, P))
            d = identities(D, DT, masses, f"{names[0]}-mixture at {T} K, {P} Pa")
            if d and found is None:
                found = {"kind": "input", "what": d, "names": names, "x0": x0, "T": T, "P": P}
            # the same object after x0 is re-assigned at the same T and P (a composition sweep): the identities must hold for the
            # matrices of the CURRENT state, and the coefficients must be those of a fresh mixture
            if names is gen.SICO:
                x0b = gen.sico_x0(0.15)
                with warnings.catch_warnings():
                    warnings.simplefilter("ignore")
                    m.x0 = x0b
                    D2, DT2 = np.array(ft.Dij(m)), np.array(ft.DTi(m))
                    mf = mpc.mixture.lte_from_names(names, x0b, T, P)
                    Df, DTf = np.array(ft.Dij(mf)), np.array(ft.DTi(mf))
                run.count(1, distinct_key=("lte-reassigned", names[0], T, P))
                d = identities(D2, DT2, masses, f"{names[0]}-mixture at {T} K, {P} Pa after x0 was re-assigned on the same object")
                if d is None and (np.max(np.abs(D2 - Df)) > 1e-6 * np.max(np.abs(Df)) or np.max(np.abs(DT2 - DTf)) > 1e-6 * np.max(np.abs(DTf))):
                    d = (f"{names[0]}-mixture at {T} K, {P} Pa: diffusion coefficients after re-assigning x0 on a used object differ from a fresh mixture "
                         f"(max |dD| / max |D| = {float(np.max(np.abs(D2 - Df)) / np.max(np.abs(Df))):.3e})")
                if d and found is None:
                    found = {"kind": "history", "what": d, "names": names, "x0": x0, "then_x0": x0b, "T": T, "P": P}
    if found:
        found["broken"] = broken
        run.violation(found)
    elif broken:
        run.violation({"kind": "broken-obligation", "broken": broken,
                       "what": "theorem / correspondence for C12 no longer checks; no failing input found"}, no_input=True)


def replay(path):
    d = json.load(open(path))
    if d.get("kind") != "input":
        print("replay names a broken obligation:", json.dumps(d.get("broken"), indent=1, default=str)[:2000])
        return 1
    print(d["what"])
    if "case" in d:
        c = d["case"]
        c["Q"] = {tuple(map(int, k.split(","))): np.array(v) for k, v in c["Q"].items()}
        D, DT, eta, sig, kap = impl_outputs(c, [0] * c["nb"], rich=True)
        r = identities(D, DT, c["masses"], "prescribed integrals")
        print("now:", r or "D_ii, mass identity and sum D^T hold (split / scaling clauses: see message above)")
    return 1
