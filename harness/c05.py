"""C05 — results do not depend on the order in which species are listed."""
import json
import random

import numpy as np

import common
import equiv
import gen
import solverchecks as sc


def check(run):
    rng = random.Random(run.seed)
    thorough = run.tier == "thorough"
    n = 400 if thorough else 36
    run.cov["rule"] = ("a species list and a random permutation of its heavy species (x0 permuted with it), incl. ion-before-parent orders, on shipped and "
                       "synthetic sets; composition and species enthalpies compared after un-permuting, scalar outputs directly, whenever both runs converge "
                       "without warning (same tolerances as C04); distinct = (species order, permutation, T, P)")
    run.cov["trusted_base"] = common.TRUSTED_COMMON + [
        "NOT proved: equivariance of the whole converged solve and of the linear transport solves — compared on the implementation below"]
    broken = []
    ok, refusals, _ = common.regenerate(["species", "radiation", "mixture"])
    if not ok:
        broken.append({"stage": "translator", "detail": refusals})
    res = common.prove("thm/C05.v")
    run.add_proof(res, "make -f Makefile.coq thm/C05.vo")
    if not res["ok"]:
        broken.append({"stage": "proof", "detail": res["error"]})
        run.note(f"proof obligation failed: {res['error']}")
    found, hist = None, {}
    kinds = ["oxy", "oxy", "oxy", "sico", "synth1", "synth1", "synth2", "synth2", "synth2"]
    for sps, x0, T, P, kind in sc.cases(rng, n, Trange=(1000.0, 25000.0), Prange=(1e4, 1e6), kinds=kinds):
        if kind == "oxy":
            sps, x0 = [gen.shipped(nm) for nm in gen.OXY], rng.choice([[1, 0, 0, 0, 0, 0], [0.2, 0, 0.8, 0, 0, 0]])
        if kind == "sico":
            sps, x0 = [gen.shipped(nm) for nm in gen.SICO], gen.sico_x0(rng.choice([0.2, 0.5, 0.8]))
        perm = list(range(len(sps)))
        rng.shuffle(perm)
        sps_p, x0_p = [sps[i] for i in perm], [x0[i] for i in perm]
        scal = equiv.SCALARS if kind in ("oxy", "sico") else ["calculate_density", "calculate_enthalpy", "calculate_heat_capacity", "calculate_total_emission_coefficient"]
        try:
            a = equiv.evaluate(sps, list(x0), T, P, scalars=scal)
            b = equiv.evaluate(sps_p, x0_p, T, P, scalars=scal)
        except Exception:  # noqa: BLE001
            hist[f"{kind}:exception"] = hist.get(f"{kind}:exception", 0) + 1
            continue
        tag = "warned" if (a[2] or b[2]) else "ok"
        hist[f"{kind}:{tag}"] = hist.get(f"{kind}:{tag}", 0) + 1
        run.count(1, distinct_key=(tuple(s.name for s in sps), tuple(perm), T, P), nontrivial=tag == "ok" and perm != sorted(perm))
        run.sample({"species": [s.name for s in sps], "permuted": [s.name for s in sps_p], "T": T, "P": P, "outcome": tag}, cap=4)
        if tag != "ok":
            continue
        inv = np.argsort(perm)
        nd_b = np.concatenate([b[0][:-1][inv], b[0][-1:]])
        out_b = dict(b[1])
        out_b["species_enthalpies"] = np.concatenate([b[1]["species_enthalpies"][:-1][inv], b[1]["species_enthalpies"][-1:]])
        out_b.pop("_emission_shares", None)
        d = equiv.compare(a[0], a[1], nd_b, out_b)
        if d and found is None:
            found = {"kind": "input", "what": f"listing order changes the result: {d}", "permutation": perm, "case": sc.describe(sps, x0, T, P)}
    run.cov["outcome_histogram"] = hist
    run.cov["traces_validated_against_impl"] = sum(v for k, v in hist.items() if k.endswith(":ok"))
    if found:
        found["broken"] = broken
        run.violation(found)
    elif broken:
        run.violation({"kind": "broken-obligation", "broken": broken,
                       "what": "theorem for C05 no longer checks; no failing input found"}, no_input=True)


def replay(path):
    d = json.load(open(path))
    if d.get("kind") != "input":
        print("replay names a broken obligation:", json.dumps(d.get("broken"), indent=1, default=str)[:2000])
        return 1
    sps, x0, T, P, ctl = sc.rebuild(d["case"])
    perm = d["permutation"]
    a = equiv.evaluate(sps, x0, T, P)
    b = equiv.evaluate([sps[i] for i in perm], [x0[i] for i in perm], T, P)
    if a[2] or b[2]:
        print("a run warned")
        return 0
    inv = np.argsort(perm)
    nd_b = np.concatenate([b[0][:-1][inv], b[0][-1:]])
    out_b = dict(b[1])
    out_b["species_enthalpies"] = np.concatenate([b[1]["species_enthalpies"][:-1][inv], b[1]["species_enthalpies"][-1:]])
    r = equiv.compare(a[0], a[1], nd_b, out_b)
    print(r or "listing order does not change the result")
    return 1 if r else 0
