"""parallel survey of the C14 window (used by the thorough tier and for investigation): returns per-state outputs"""
import math
import random
import sys
import json
import warnings
from multiprocessing import Pool

import numpy as np

import gen
import solver
import equiv
import c14


def one(args):
    seed, kinds = args
    rng = random.Random(seed)
    kind = rng.choice(kinds)
    for _ in range(50):
        sps, x0, kind = gen.rand_mixture_spec(rng, kind)
        c14.physical(sps, rng)
        sh = c14.element_shares(sps, x0)
        if c14.chains_complete(sps) and (len(sh) == 1 or all(0.02 <= v <= 0.98 for v in sh.values())):
            break
    else:
        return None
    T, P = c14.window_state(rng, None)
    if rng.random() < 0.15:
        T = rng.choice([1000.0, 25000.0])
    if rng.random() < 0.15:
        P = rng.choice([1e4, 1e6])
    solver.set_elements(sps)
    try:
        nd, out, warned = equiv.evaluate(sps, x0, T, P)
    except Exception as e:  # noqa: BLE001
        return {"seed": seed, "kind": kind, "T": T, "P": P, "error": f"{type(e).__name__}: {e}"}
    r = {"seed": seed, "kind": kind, "T": T, "P": P, "warned": warned, "names": [s.name for s in sps], "x0": x0}
    for k, v in out.items():
        if k.startswith("calculate"):
            r[k[10:]] = v
    return r


if __name__ == "__main__":
    n = int(sys.argv[1]); kinds = sys.argv[2].split(",")
    with Pool(16) as p:
        res = p.map(one, [(1000 + i, kinds) for i in range(n)], chunksize=4)
    bad = 0
    for r in res:
        if r is None or r.get("warned"):
            continue
        if "error" in r:
            print("ERR", r); continue
        flags = [k for k in ("viscosity", "thermal_conductivity", "heat_capacity") if not (math.isfinite(r[k]) and r[k] > 0)]
        if not (math.isfinite(r["electrical_conductivity"]) and r["electrical_conductivity"] >= 0): flags.append("sigma")
        if not (math.isfinite(r["total_emission_coefficient"]) and r["total_emission_coefficient"] >= 0): flags.append("emission")
        if flags:
            bad += 1
            print(flags, r["kind"], r["seed"], round(r["T"]), f"{r['P']:.3g}", r["names"], [round(x, 3) for x in r["x0"]], {k: r[k] for k in flags if k in r})
    print("states", len(res), "warned", sum(1 for r in res if r and r.get("warned")), "bad", bad)
