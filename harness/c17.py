"""C17 — NIST table parser returns exactly the numbers printed in the table (exact model, exact comparison)."""
import json
import random
import re
from fractions import Fraction

import common
from minplascalc import parsers

WS = [" ", " ", " ", "\t", "\n", "\r", "\x0b", "\x0c", "\x1c", "\x1f", "\x85", "\xa0"]
ANNOT = list("+x?[]()")
JUNK = list("0123456789..eE--//||  qz#:,") + ANNOT


def hexs(s):
    return s.encode("latin-1").hex() or "-"


def dec_value(tok):
    """float nearest to (-1)^neg * mant * 10^exp (mant, exp printed in binary by the driver)"""
    neg, mant, exp = tok.split(":")
    m = int(mant, 2)
    e = int(exp.lstrip("-"), 2) * (-1 if exp.startswith("-") else 1)
    nd = len(str(m))
    if m == 0:
        f = 0.0
    elif e + nd > 400:          # far above the largest double: float() gives inf
        f = float("inf")
    elif e + nd < -400:         # far below the smallest denormal: float() gives 0.0
        f = 0.0
    else:
        try:
            f = float(Fraction(m) * Fraction(10) ** e)
        except OverflowError:
            f = float("inf")
    return -f if neg == "1" else f


def model_values(toks):
    out = []
    for t in toks:
        if t[0] == "N":
            out.append(dec_value(t[1:]))
        else:
            a, b = t[1:].split("/")
            out.append(dec_value(a) / dec_value(b))
    return out


# ---- generators -------------------------------------------------------------------------------
def rand_number(rng):
    kind = rng.choice(["int", "half", "dec", "exp", "lead_dot", "trail_dot"])
    sign = rng.choice(["", "", "-", "+"])
    digs = lambda n: "".join(rng.choice("0123456789") for _ in range(n))  # noqa: E731
    if kind == "int":
        return sign + digs(rng.randint(1, 6))
    if kind == "half":
        return sign + digs(rng.randint(1, 2)) + "/" + rng.choice(["2", "2", "4", "3", "10"])
    if kind == "dec":
        return sign + digs(rng.randint(1, 7)) + "." + digs(rng.randint(1, 9))
    if kind == "lead_dot":
        return sign + "." + digs(rng.randint(1, 5))
    if kind == "trail_dot":
        return sign + digs(rng.randint(1, 5)) + "."
    return sign + digs(rng.randint(1, 4)) + rng.choice(["", "." + digs(rng.randint(0, 6))]) + rng.choice("eE") + rng.choice(["", "-", "+"]) + digs(rng.randint(1, 2))


def decorate(rng, s, p=0.25):
    out = []
    for ch in s:
        while rng.random() < p:
            out.append(rng.choice(WS + ANNOT))
        out.append(ch)
    while rng.random() < p:
        out.append(rng.choice(WS + ANNOT))
    return "".join(out)


def good_line(rng, nfields=None):
    n = rng.randint(0, 5) if nfields is None else nfields
    return decorate(rng, "".join(rand_number(rng) + "|" for _ in range(n)), rng.choice([0.0, 0.1, 0.4]))


def bad_line(rng):
    s = list(good_line(rng, rng.choice([1, 2, 2, 3])))
    for _ in range(rng.randint(1, 3)):
        op = rng.random()
        pos = rng.randint(0, len(s))
        if op < 0.5:
            s.insert(pos, rng.choice(JUNK))
        elif s and op < 0.8:
            del s[min(pos, len(s) - 1)]
        elif s:
            s[min(pos, len(s) - 1)] = rng.choice(JUNK)
    return "".join(s)


def impl_nist_string(line):
    """every line is parsed at least twice during a check (correspondence, then the direct test).  The returned list is the caller's:
    it is copied for the comparison and then overwritten in place, as a caller converting units would do -- a later parse of the same
    text must not see that."""
    try:
        r = parsers.nist_string(line)
        out = list(r)
        if isinstance(r, list):
            for i in range(len(r)):
                r[i] = r[i] * 1.986e-23 + 1.0
        return ("ok", out)
    except ValueError:
        return ("ValueError", None)
    except ZeroDivisionError:
        return ("ZeroDivisionError", None)


def impl_levels(lines):
    try:
        return ("ok", parsers.nist_energy_levels(lines))
    except ValueError as e:
        m = re.match(r"Error parsing NIST energy level data at line (\d+): (.*)\Z", str(e), re.S)
        if not m:
            return ("ValueError-unwrapped", str(e))
        return ("LineError", (int(m.group(1)), m.group(2)))
    except ZeroDivisionError:
        return ("ZeroDivisionError", None)


def same(a, b):
    return len(a) == len(b) and all((x == y) or (x != x and y != y) for x, y in zip(a, b))


NUM = r"-?(?:\d+\.?\d*|\.\d+)(?:[eE]-?\d+)?"
REC = re.compile(rf"(?:{NUM})(?:/(?:{NUM}))?\Z")


def to_float(txt):
    """float nearest to the printed decimal `txt` (already matched by NUM), computed with Fraction"""
    m = re.match(r"(-?)(\d*)\.?(\d*)(?:[eE](-?\d+))?\Z", txt)
    sign, ip, fp, ex = m.group(1), m.group(2), m.group(3), int(m.group(4) or 0)
    mant = int((ip + fp) or "0")
    e = ex - len(fp)
    nd = len(str(mant))
    if mant == 0:
        f = 0.0
    elif e + nd > 400:
        f = float("inf")
    elif e + nd < -400:
        f = 0.0
    else:
        try:
            f = float(Fraction(mant) * Fraction(10) ** e)
        except OverflowError:
            f = float("inf")
    return -f if sign else f


def oracle(line):
    """independent reading of a line: ('ok', values) | ('ValueError',) | ('ZeroDivisionError',) — the first
    offending field decides, as in a left-to-right reading"""
    t = "".join(ch for ch in line if ch not in WS and ch not in ANNOT and not ch.isspace())
    vals = []
    for rec in t.split("|")[:-1]:
        if not REC.match(rec):
            return ("ValueError",)
        if "/" in rec:
            a, b = rec.split("/")
            if to_float(b) == 0.0:
                return ("ZeroDivisionError",)
            vals.append(to_float(a) / to_float(b))
        else:
            vals.append(to_float(rec))
    return ("ok", vals)


def independent_values(line):
    """the printed numbers, read with Fraction — for generated well-formed lines only (V/F oracle)"""
    t = "".join(ch for ch in line if ch not in WS and ch not in ANNOT)
    vals = []
    for rec in t.split("|")[:-1]:
        if "/" in rec:
            a, b = rec.split("/")
            vals.append(float(Fraction(a)) / float(Fraction(b)))
        else:
            vals.append(float(Fraction(rec)))
    return vals


def check(run):
    rng = random.Random(run.seed)
    thorough = run.tier == "thorough"
    n = 50000 if thorough else 5000
    run.cov["rule"] = ("well-formed stream: 0-5 fields of integer / a/b / decimal / leading- or trailing-dot / exponent numbers with optional sign, "
                       "decorated at random positions with Latin-1 whitespace and + x ? [ ] ( ); malformed stream: 1-3 random edits (insert/delete/replace "
                       "from digits . e E - / | junk) of a good line; level lists of 1-8 lines with 0 or 1 malformed line at a random index; "
                       "distinct = distinct input text")
    run.cov["trusted_base"] = [
        "Coq 8.16.1 kernel; the C17 theorems are closed under the global context (no axioms)",
        "hand-written model coq/model/Parser.v, tied to parsers.py by exact differential comparison on generated lines",
        "float(str) modelled as exact decimal -> rational; CPython's correctly-rounded float() and Fraction are trusted",
        "extraction with ExtrOcamlBasic only; ascii/N/Z are the extracted datatypes (results printed in binary)",
        "modelling limits (outside the generator): non-Latin-1 characters, '_' digit separators, 'nan'/'inf' spellings"]
    broken = []
    res = common.prove("thm/C17.v")
    run.add_proof(res, "make -f Makefile.coq thm/C17.vo")
    if not res["ok"]:
        broken.append({"stage": "proof", "detail": res["error"]})
    okd, dlog = common.build_driver("models")
    found = None
    hist = {"good": 0, "bad": 0, "ok": 0, "ValueError": 0, "ZeroDivisionError": 0, "levels": 0, "levels_with_error": 0}
    lines = []
    for _ in range(n):
        if rng.random() < 0.6:
            lines.append(("good", good_line(rng)))
        else:
            lines.append(("bad", bad_line(rng)))
    level_cases = []
    for _ in range(n // 5):
        k = rng.randint(1, 8)
        ls = [good_line(rng, 2) for _ in range(k)]
        if rng.random() < 0.6:
            i = rng.randrange(k)
            ls[i] = rng.choice([bad_line(rng), good_line(rng, rng.choice([0, 1, 3])), rng.choice(["", "\n", " \t \n", "| |", "3/2 |   | 5 |"])])
            if rng.random() < 0.3:   # a second malformed line later on: only the first may be reported
                ls[rng.randrange(k)] = rng.choice([bad_line(rng), "", "\n"])
        level_cases.append(ls)
    if not okd:
        broken.append({"stage": "extraction", "detail": dlog[-600:]})
    else:
        cmds = ["nist_string " + hexs(l) for _, l in lines] + \
               ["levels " + str(len(ls)) + " " + " ".join(hexs(l) for l in ls) for ls in level_cases]
        outs = common.run_driver("models", cmds)
        dis = 0
        for (tag, line), o in zip(lines, outs[:len(lines)]):
            st, vals = impl_nist_string(line)
            hist[tag] += 1
            hist[st] += 1
            run.count(1, distinct_key=line, nontrivial=len(line) > 0)
            agree = (o[0] == st) if st != "ok" else (o[0] == "ok" and same(model_values(o[1:]), vals))
            if not agree:
                dis += 1
                if dis == 1:
                    broken.append({"stage": "correspondence", "detail": {"line": line, "impl": [st, vals], "model": o}})
            run.sample({"line": line, "impl": [st, vals], "model": " ".join(o)[:200]}, cap=4)
        for ls, o in zip(level_cases, outs[len(lines):]):
            st, val = impl_levels(ls)
            hist["levels"] += 1
            run.count(1, distinct_key=tuple(ls))
            if st == "ok":
                mv = []
                if o[0] == "ok":
                    for pr in o[1:]:
                        a, b = pr.split(",")
                        mv.append(tuple(model_values([a, b])))
                agree = o[0] == "ok" and len(mv) == len(val) and all(same(list(x), list(y)) for x, y in zip(mv, val))
            elif st == "LineError":
                hist["levels_with_error"] += 1
                agree = o[0] == "LineError" and int(o[1]) == val[0] and val[1] == ls[val[0]]
            else:
                agree = o[0] == st
            if not agree:
                dis += 1
                if dis == 1:
                    broken.append({"stage": "correspondence", "detail": {"lines": ls, "impl": [st, val], "model": o}})
        run.cov["traces_validated_against_impl"] = len(lines) + len(level_cases)
        run.cov["correspondence_disagreements"] = dis
    # V/F: the property itself on the implementation, against an independent reading of the printed text
    def big(v):
        return any(abs(x) > 1e300 or (x != 0 and abs(x) < 1e-300) for x in v)

    for tag, line in lines:
        st, vals = impl_nist_string(line)
        exp = oracle(line)
        if exp[0] == "ok" and big(exp[1]):
            continue          # overflow / underflow to inf / 0: float(Fraction) and float(str) agree but are not "the printed number"
        bad = (st != exp[0]) or (st == "ok" and not same(vals, exp[1]))
        if bad and found is None:
            found = {"kind": "input", "what": "nist_string does not return the printed numbers / does not reject a malformed line",
                     "line": line, "observed": [st, vals], "expected": list(exp)}
    for ls in level_cases:
        st, val = impl_levels(ls)
        firstbad, pairs = None, []
        for i, l in enumerate(ls):
            o = oracle(l)
            if o[0] == "ZeroDivisionError":
                firstbad = "zd"
                break
            if o[0] != "ok" or len(o[1]) != 2:
                firstbad = i
                break
            pairs.append(tuple(o[1]))
        if firstbad == "zd" or any(big(p) for p in pairs):
            continue
        if firstbad is None:
            okk = st == "ok" and [tuple(p) for p in val] == pairs
        else:
            okk = st == "LineError" and val == (firstbad, ls[firstbad])
        if not okk and found is None:
            found = {"kind": "input", "what": "nist_energy_levels: wrong pairs or wrong first-error report", "lines": ls,
                     "observed": [st, val], "expected_first_bad": firstbad}
    run.cov["input_histogram"] = hist
    if found:
        found["broken"] = broken
        run.violation(found)
    elif broken:
        run.violation({"kind": "broken-obligation", "broken": broken,
                       "what": "theorem / correspondence for C17 no longer checks; no failing input found"}, no_input=True)


def replay(path):
    d = json.load(open(path))
    if d.get("kind") != "input":
        print("replay names a broken obligation:", json.dumps(d.get("broken"), indent=1)[:2000])
        return 1
    if "line" in d:
        st, vals = impl_nist_string(d["line"])
        exp = oracle(d["line"])
        print(f"line={d['line']!r} implementation={st, vals} expected={exp}")
        return 0 if st == exp[0] and (st != "ok" or same(vals, exp[1])) else 1
    st, val = impl_levels(d["lines"])
    print(f"lines={d['lines']!r} implementation={st, val} expected first bad line={d['expected_first_bad']}")
    return 1
