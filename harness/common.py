"""Shared machinery of the checks: translator / Coq build / extraction driver / evidence / replays.

Run under /venv/bin/python with PYTHONPATH=/repo/src (set by ./check)."""
from __future__ import annotations

import fcntl
import hashlib
import json
import os
import re
import subprocess
import sys
import time

VERIF = os.path.dirname(os.path.dirname(os.path.abspath(__file__)))
REPO = os.environ.get("VERIF_REPO", "/repo")
COQ = os.path.join(VERIF, "coq")
GEN = os.path.join(COQ, "gen")
EXTRACT = os.path.join(COQ, "extract")
EVIDENCE = os.path.join(VERIF, "evidence")
REPLAYS = os.path.join(VERIF, "replays")
KNOWN = os.path.join(VERIF, "known_findings.txt")
DRIVER_GROUPS = ["sp", "models", "cache", "mix", "tr"]
GROUP_PRELUDES = {"sp": ["prelude_base.ml", "prelude_z.ml", "prelude_num.ml"], "models": ["prelude_base.ml", "prelude_z.ml"],
                  "cache": ["prelude_base.ml"], "mix": ["prelude_base.ml", "prelude_z.ml", "prelude_num.ml"],
                  "tr": ["prelude_base.ml", "prelude_z.ml", "prelude_num.ml"]}
NCPU = os.cpu_count() or 4

FORBIDDEN = re.compile(
    r"\b(Admitted|admit|Axiom|Parameter|Conjecture|Unset\s+Guard|bypass_check|Admit\s+Obligations|type-in-type|impredicative-set)\b")


class BuildLock:
    def __enter__(self):
        self.f = open(os.path.join(VERIF, ".build.lock"), "w")
        fcntl.flock(self.f, fcntl.LOCK_EX)
        return self

    def __exit__(self, *a):
        fcntl.flock(self.f, fcntl.LOCK_UN)
        self.f.close()


def sh(cmd, timeout=1800, cwd=None, env=None, input=None):
    p = subprocess.run(cmd, shell=isinstance(cmd, str), cwd=cwd, env=env, input=input,
                       stdout=subprocess.PIPE, stderr=subprocess.STDOUT, text=True, timeout=timeout)
    return p.returncode, p.stdout


# ------------------------------------------------------------------ T: translator
def regenerate(targets):
    """Regenerate gen/*.v for the given translator targets from REPO's working tree."""
    rc, out = sh([sys.executable, os.path.join(VERIF, "translator", "gen_all.py"), REPO, GEN] + list(targets))
    refusals = [l for l in out.splitlines() if l.startswith("TRANSLATOR-REFUSAL")]
    return rc == 0, refusals, out


# ------------------------------------------------------------------ P: proofs
def ensure_makefile():
    mk = os.path.join(COQ, "Makefile.coq")
    proj = os.path.join(COQ, "_CoqProject")
    if not os.path.exists(mk) or os.path.getmtime(mk) < os.path.getmtime(proj):
        sh("coq_makefile -f _CoqProject -o Makefile.coq", cwd=COQ)


def coq_make(vo_targets, timeout=1500):
    """Full .vo build of the given targets (and what they depend on).  Returns (ok, log)."""
    ensure_makefile()
    cmd = ["timeout", str(timeout), "make", "-f", "Makefile.coq", f"-j{NCPU}", "-k"] + list(vo_targets)
    rc, out = sh(cmd, cwd=COQ, timeout=timeout + 60)
    return rc == 0, out


def forbidden_scan():
    """grep gate: no Admitted / admit / Axiom / Parameter / ... anywhere in the development."""
    hits = []
    for root, _, files in os.walk(COQ):
        for fn in files:
            if fn.endswith(".v"):
                p = os.path.join(root, fn)
                for i, line in enumerate(open(p, errors="replace"), 1):
                    code = re.sub(r"\(\*.*?\*\)", "", line)
                    if FORBIDDEN.search(code):
                        hits.append(f"{os.path.relpath(p, COQ)}:{i}: {line.strip()}")
    return hits


def theorem_names(thm_file):
    txt = open(os.path.join(COQ, thm_file)).read()
    return re.findall(r"^\s*Theorem\s+(\w+)", txt, re.M)


def parse_assumptions(log):
    """Collect the axiom names printed by Print Assumptions in a build log."""
    ax = set()
    for m in re.finditer(r"^([A-Za-z_][\w.]*)\s*:", log, re.M):
        nm = m.group(1)
        if "." in nm and not nm.startswith("File"):
            ax.add(nm)
    closed = log.count("Closed under the global context")
    return sorted(ax), closed


def first_error(log):
    m = re.search(r'File "\./([^"]+)", line (\d+), characters [\d-]+:\s*\nError:(.*?)(?:\n\n|\nmake|\Z)', log, re.S)
    if not m:
        return None
    fn, line, msg = m.group(1), int(m.group(2)), " ".join(m.group(3).split())
    lemma = None
    try:
        src = open(os.path.join(COQ, fn)).read().splitlines()
        for i in range(min(line, len(src)) - 1, -1, -1):
            mm = re.match(r"\s*(Lemma|Theorem|Example|Corollary|Definition|Fixpoint)\s+(\w+)", src[i])
            if mm:
                lemma = mm.group(2)
                break
    except OSError:
        pass
    return {"file": fn, "line": line, "lemma": lemma, "message": msg[:400]}


def prove(thm_file, extra_vo=()):
    """Build thm/<file>.vo.  Returns dict(ok, obligations, discharged, axioms, error, log)."""
    with BuildLock():
        vo = thm_file[:-2] + ".vo"
        # force the theorem file itself to be re-checked so Print Assumptions output is captured
        try:
            os.remove(os.path.join(COQ, vo))
        except OSError:
            pass
        ok, log = coq_make([vo] + list(extra_vo))
    names = theorem_names(thm_file)
    axioms, closed = parse_assumptions(log)
    err = None if ok else (first_error(log) or {"file": thm_file, "line": 0, "lemma": None, "message": log[-400:]})
    printed = len(re.findall(r"^Axioms:|Closed under the global context", log, re.M))
    discharged = len(names) if ok else len(discharged_before_error(thm_file, names, err))
    return {"ok": ok, "obligations": len(names), "discharged": discharged,
            "theorems": names, "axioms": axioms, "assumption_reports": printed, "error": err, "log": log}


def discharged_before_error(thm_file, names, err):
    """When the build stops at an error: the theorems whose supporting lemmas all compiled, i.e. are defined
    textually before the failing lemma (in the failing file) or in files whose .vo exists."""
    defs_after = set()
    decl = re.compile(r"^\s*(?:Lemma|Theorem|Corollary|Definition|Fixpoint|Example)\s+(\w+)", re.M)
    for root, _, files in os.walk(COQ):
        for fn in files:
            if not fn.endswith(".v"):
                continue
            rel = os.path.relpath(os.path.join(root, fn), COQ)
            txt = open(os.path.join(root, fn)).read()
            if err and rel == err["file"]:
                lines = txt.splitlines()
                start = 0
                for i in range(min(err["line"], len(lines)) - 1, -1, -1):
                    if decl.match(lines[i]):
                        start = i
                        break
                defs_after |= set(decl.findall("\n".join(lines[start:])))
            elif not os.path.exists(os.path.join(root, fn[:-2] + ".vo")):
                defs_after |= set(decl.findall(txt))
    txt = open(os.path.join(COQ, thm_file)).read()
    good = []
    for nm in names:
        m = re.search(r"Theorem\s+" + nm + r"\b(.*?)Qed\.", txt, re.S)
        body = m.group(1) if m else ""
        ids = set(re.findall(r"[A-Za-z_][\w']*", body))
        if nm not in defs_after and not (ids & defs_after):
            good.append(nm)
    return good


# ------------------------------------------------------------------ extraction driver
def build_driver(group):
    """(Re-)extract group `group` and compile its OCaml driver.  Returns (ok, log)."""
    with BuildLock():
        ok, log = coq_make([f"extract/Extract_{group}.vo"])
        if not ok:
            return False, log
        km = os.path.join(COQ, f"kernels_{group}.ml")
        if os.path.exists(km):
            for ext in (".ml", ".mli"):
                os.replace(os.path.join(COQ, f"kernels_{group}{ext}"), os.path.join(EXTRACT, f"kernels_{group}{ext}"))
        exe = os.path.join(EXTRACT, f"driver_{group}")
        kml = os.path.join(EXTRACT, f"kernels_{group}.ml")
        srcs = [kml] + [os.path.join(EXTRACT, p) for p in GROUP_PRELUDES[group]] + [os.path.join(EXTRACT, f"dispatch_{group}.ml")]
        if os.path.exists(exe) and all(os.path.getmtime(exe) >= os.path.getmtime(s) for s in srcs):
            return True, log
        drv = os.path.join(EXTRACT, f"driver_{group}.ml")
        with open(drv, "w") as f:
            f.write(f"open Kernels_{group}\n")
            for p in srcs[1:]:
                f.write(open(p).read())
        rc, out = sh(["ocamlfind", "ocamlopt", "-O3" if False else "-inline", "50", "-w", "-a",
                      f"kernels_{group}.mli", f"kernels_{group}.ml", f"driver_{group}.ml", "-o", f"driver_{group}"],
                     cwd=EXTRACT, timeout=600)
        return rc == 0, log + out


def fhex(x):
    x = float(x)
    if x != x:
        return "nan"
    if x in (float("inf"), float("-inf")):
        return "inf" if x > 0 else "-inf"
    return x.hex()


def unhex(t):
    if t in ("nan", "-nan"):
        return float("nan")
    if t in ("inf", "infinity"):
        return float("inf")
    if t in ("-inf", "-infinity"):
        return float("-inf")
    return float.fromhex(t)


def units_line():
    from minplascalc import units as u
    from minplascalc import functions_transport as ft
    vals = [u.k_b, u.N_a, u.h, u.hbar, u.c, u.e, u.m_e, u.epsilon_0, u.R, u.K_to_eV, u.J_to_eV, ft.ke, ft.egamma]
    return "units " + " ".join(fhex(v) for v in vals)


def run_driver(group, case_lines, timeout=1200):
    """Feed case lines to the extracted driver; returns list of token lists (one per case)."""
    exe = os.path.join(EXTRACT, f"driver_{group}")
    inp = units_line() + "\n" + "\n".join(case_lines) + "\n"
    env = dict(os.environ)
    p = subprocess.run(["bash", "-c", f"ulimit -s unlimited; exec {exe}"], input=inp, stdout=subprocess.PIPE,
                       stderr=subprocess.PIPE, text=True, timeout=timeout, env=env)
    if p.returncode != 0:
        raise RuntimeError(f"driver_{group} failed: {p.stderr[-500:]}")
    lines = p.stdout.splitlines()
    if len(lines) != len(case_lines):
        raise RuntimeError(f"driver_{group}: {len(lines)} outputs for {len(case_lines)} cases")
    return [l.split() for l in lines]


# species encoding shared with extract/prelude.ml ------------------------------------------
ELEMENT_IDS: dict[str, int] = {}
NAME_IDS: dict[str, int] = {"e": 0}


def element_id(el):
    return ELEMENT_IDS.setdefault(el, len(ELEMENT_IDS) + 1)


def name_id(nm):
    return NAME_IDS.setdefault(nm, len(NAME_IDS))


def enc_species(sp):
    """Token list for a minplascalc species object (or duck-typed equivalent)."""
    cls = type(sp).__name__
    kind = {"Monatomic": 0, "Diatomic": 1, "Polyatomic": 2, "Electron": 3}.get(cls, getattr(sp, "_verif_kind", None))
    if kind is None:
        raise ValueError(f"cannot encode {cls}")
    g = lambda a, d=0.0: getattr(sp, a, d)  # noqa: E731
    t = [str(kind), str(name_id(sp.name))]
    st = sorted((element_id(k), int(v)) for k, v in sp.stoichiometry.items())
    t.append(str(len(st)))
    for a, b in st:
        t += [str(a), str(b)]
    t += [fhex(sp.molar_mass), str(int(sp.charge_number)), fhex(g("ionisation_energy")), fhex(g("dissociation_energy"))]
    lv = g("energy_levels", [])
    t.append(str(len(lv)))
    for j, e in lv:
        t += [fhex(j), fhex(e)]
    t += [fhex(g("g0")), fhex(g("w_e")), fhex(g("b_e")), fhex(g("sigma_s")), "1" if g("linear_yn", False) else "0"]
    wi = g("wi_e", [])
    t.append(str(len(wi)))
    t += [fhex(w) for w in wi]
    abc = g("abc_e", [])
    t.append(str(len(abc)))
    t += [fhex(w) for w in abc]
    t += [fhex(g("polarisability")), fhex(g("multiplicity"))]
    eff = g("effective_electrons", None)
    t += ["0"] if eff is None else ["1", fhex(eff)]
    ecs = g("electron_cross_section", None)
    if ecs is None:
        t += ["0"]
    elif isinstance(ecs, (tuple, list)):
        t += ["1"] + [fhex(v) for v in ecs]
    else:
        t += ["1", fhex(ecs), fhex(0.0), fhex(0.0), fhex(0.0)]
    el = g("emission_lines", [])
    t.append(str(len(el)))
    for a, b, c in el:
        t += [fhex(a), fhex(b), fhex(c)]
    return t


def enc_list(xs, f=None):
    out = [str(len(xs))]
    for x in xs:
        out += (f(x) if f else [fhex(x)])
    return out


def relerr(a, b, scale=0.0):
    if a != a or b != b:
        return 0.0 if (a != a and b != b) else float("inf")
    if a == b:
        return 0.0
    d = max(abs(a), abs(b), scale)
    return abs(a - b) / d if d > 0 else 0.0


# ------------------------------------------------------------------ findings, evidence, replays
def known_findings(prop):
    out = []
    if os.path.exists(KNOWN):
        for line in open(KNOWN):
            line = line.strip()
            if line.startswith("known:") and f"property={prop} " in line + " ":
                m = re.search(r"key=(\S+)", line)
                out.append({"key": m.group(1) if m else None, "text": line})
    return out


def write_replay(prop, payload):
    os.makedirs(REPLAYS, exist_ok=True)
    blob = json.dumps(payload, sort_keys=True, default=str)
    hsh = hashlib.sha1(blob.encode()).hexdigest()[:12]
    path = os.path.join(REPLAYS, f"{prop}_{hsh}.json")
    with open(path, "w") as f:
        json.dump(payload, f, indent=1, sort_keys=True, default=str)
    return path


class Run:
    """One execution of a check: collects coverage, reports violations, writes evidence."""

    def __init__(self, prop, tier, seed):
        self.prop, self.tier, self.seed = prop, tier, seed
        self.t0 = time.time()
        self.cov = {"obligations": 0, "discharged": 0, "checker_cmd": "", "trusted_base": [],
                    "evaluations": 0, "distinct_nontrivial": 0, "rule": "", "samples": [],
                    "traces_validated_against_impl": 0}
        self.assumptions = []
        self.violations = []     # (replay_path, suffix)
        self.known_hits = []
        self.notes = []
        self._distinct = set()

    def note(self, msg):
        self.notes.append(msg)
        print(f"[{self.prop}] {msg}", flush=True)

    def count(self, n=1, distinct_key=None, nontrivial=True):
        self.cov["evaluations"] += n
        if distinct_key is not None and nontrivial:
            self._distinct.add(distinct_key)

    def sample(self, s, cap=6):
        if len(self.cov["samples"]) < cap:
            self.cov["samples"].append(s)

    def add_proof(self, res, checker_cmd):
        self.cov["obligations"] += res["obligations"]
        self.cov["discharged"] += res["discharged"]
        self.cov["checker_cmd"] = (self.cov["checker_cmd"] + " ; " + checker_cmd).strip(" ;")
        self.cov.setdefault("theorems", []).extend(res["theorems"])
        self.cov.setdefault("axioms_reported_by_Print_Assumptions", [])
        for a in res["axioms"]:
            if a not in self.cov["axioms_reported_by_Print_Assumptions"]:
                self.cov["axioms_reported_by_Print_Assumptions"].append(a)

    def violation(self, payload, no_input=False, key=None):
        """Report a violation unless it matches a listed known finding (by key)."""
        if key is not None:
            for k in known_findings(self.prop):
                if k["key"] == key:
                    if key not in self.known_hits:
                        self.known_hits.append(key)
                        print(f"KNOWN-FINDING: property={self.prop} {k['text'].split('key=' + key, 1)[1].strip()} [key={key}]", flush=True)
                    return None
        payload = dict(payload)
        payload.setdefault("property", self.prop)
        payload.setdefault("seed", self.seed)
        path = write_replay(self.prop, payload)
        suffix = " no-failing-input-found" if no_input else ""
        self.violations.append((path, suffix))
        print(f"VIOLATION property={self.prop} replay={path}{suffix}", flush=True)
        return path

    def finish(self, level="proof"):
        self.cov["distinct_nontrivial"] = len(self._distinct)
        if self.notes:
            self.cov["notes"] = self.notes[-40:]
        if self.known_hits:
            self.cov["known_findings_seen"] = self.known_hits
        ev = {"property_id": self.prop, "tier": self.tier, "seed": self.seed, "level": level,
              "coverage": self.cov, "assumptions": self.assumptions,
              "wall_s": round(time.time() - self.t0, 2), "violations": len(self.violations)}
        os.makedirs(EVIDENCE, exist_ok=True)
        with open(os.path.join(EVIDENCE, f"{self.prop}.json"), "w") as f:
            json.dump(ev, f, indent=1, default=str)
        return 1 if self.violations else 0


TRUSTED_COMMON = [
    "Coq 8.16.1 kernel (coqc, full .vo build; vm_compute where stated; no native_compute)",
    "standard-library axioms reported by Print Assumptions (real-number axioms sig_forall_dec/sig_not_dec, "
    "functional_extensionality_dep, Classical_Prop.classic via Reals) — none declared by this development",
    "translator /verif/translator/py2coq.py (Python ast -> Gallina), re-run on /repo's working tree on every check",
    "extraction with ExtrOcamlBasic only; OCaml driver instantiating Num at IEEE doubles (+. -. *. /. exp log sqrt tanh ** tgamma)",
    "the theorems are about the real-number model; float round-off is bridged by the correspondence check, not proved",
]
