"""Shared solver-level utilities: traced runs of LTE.calculate_composition and the step model."""
import math
import warnings

import numpy as np

import common
import minplascalc as mpc

DEFAULT_CONTROLS = (1e20, 1e-10, 1000)


def set_elements(species):
    """element ids in the order of the sorted names (the order the implementation uses)"""
    names = sorted({e for sp in species for e in sp.stoichiometry})
    common.ELEMENT_IDS.clear()
    for k, nm in enumerate(names):
        common.ELEMENT_IDS[nm] = k + 1
    return names


def traced(species, x0, T, P, controls=DEFAULT_CONTROLS):
    """run the solver with the hook on -> (mixture, densities, warned)"""
    m = mpc.mixture.LTE(species, x0, T, P, *controls)
    with warnings.catch_warnings(record=True) as w:
        warnings.simplefilter("always")
        try:
            nd = m.calculate_composition()
        except Exception as e:  # noqa: BLE001  (an exception is an announced failure, e.g. LinAlgError: Singular matrix)
            return m, None, f"exception:{type(e).__name__}"
    warned = any("Minimiser could not find a converged solution" in str(x.message) for x in w)
    return m, np.asarray(nd, dtype=float), warned


GOV = np.linspace(0.9, 0.1, 9)


def step_case(m, entry):
    """driver line for one recorded iteration"""
    gi, Ni, Nn, lam = entry[:4]
    sps = list(m.species)
    toks = [common.fhex(m.T), common.fhex(m.P), str(len(sps))]
    for s in sps:
        toks += common.enc_species(s)
    toks += common.enc_list(list(m.x0)) + [common.fhex(GOV[gi])]
    toks += common.enc_list(list(Ni)) + common.enc_list(list(Nn)) + common.enc_list(list(lam))
    return "step " + " ".join(toks)


def decode_step(tokens, n, ncons):
    v = [common.unhex(t) for t in tokens]
    mu, rs, rc = v[:n], v[n:2 * n], v[2 * n:2 * n + ncons]
    r, stop = v[2 * n + ncons], v[2 * n + ncons + 1]
    nx = v[2 * n + ncons + 2:3 * n + ncons + 2]
    dens = v[3 * n + ncons + 2:4 * n + ncons + 2]
    return mu, rs, rc, r, stop, nx, dens


class Snapshot:
    """what the trace correspondence needs, frozen right after a solve (later calls on the mixture overwrite the trace)"""

    def __init__(self, m):
        self.T, self.P, self.species, self.x0 = m.T, m.P, m.species, tuple(m.x0)
        self.gfe_initial_particles, self.gfe_rtol, self.gfe_max_iter = m.gfe_initial_particles, m.gfe_rtol, m.gfe_max_iter
        self._verif_trace = list(getattr(m, "_verif_trace", []))
        self._verif_success = getattr(m, "_verif_success", None)
        self._LTE__Ni = np.array(getattr(m, "_LTE__Ni"))
