"""C11 — transport kernel equals first-principles Chapman-Enskog theory (any mixture)."""
import json
import math
import os
import random
import subprocess

import numpy as np

import common
import transport as tr
from minplascalc import functions_transport as ft

SPEC = os.path.join(common.VERIF, "spec_src")
BLOCKS = {   # block -> (implementation function, orders it takes, (kind, p, q))
    "q00": ("_q00_jit", [(1, 1)], ("v", 0, 0)), "q01": ("_q01_jit", [(1, 1), (1, 2)], ("v", 0, 1)),
    "q02": ("_q02_jit", [(1, 1), (1, 2), (1, 3)], ("v", 0, 2)), "q03": ("_q03_jit", [(1, 1), (1, 2), (1, 3), (1, 4)], ("v", 0, 3)),
    "q11": ("_q11_jit", [(1, 1), (1, 2), (1, 3), (2, 2)], ("v", 1, 1)),
    "q12": ("_q12_jit", [(1, 1), (1, 2), (1, 3), (1, 4), (2, 2), (2, 3)], ("v", 1, 2)),
    "q13": ("_q13_jit", [(1, 1), (1, 2), (1, 3), (1, 4), (1, 5), (2, 2), (2, 3), (2, 4)], ("v", 1, 3)),
    "q22": ("_q22_jit", [(1, 1), (1, 2), (1, 3), (1, 4), (1, 5), (2, 2), (2, 3), (2, 4), (3, 3)], ("v", 2, 2)),
    "q23": ("_q23_jit", [(1, 1), (1, 2), (1, 3), (1, 4), (1, 5), (1, 6), (2, 2), (2, 3), (2, 4), (2, 5), (3, 3), (3, 4)], ("v", 2, 3)),
    "q33": ("_q33_jit", [(1, 1), (1, 2), (1, 3), (1, 4), (1, 5), (1, 6), (1, 7), (2, 2), (2, 3), (2, 4), (2, 5), (2, 6), (3, 3), (3, 4), (3, 5), (4, 4)], ("v", 3, 3)),
    "qhat00": ("_qhat00_jit", [(1, 1), (2, 2)], ("t", 0, 0)), "qhat01": ("_qhat01_jit", [(1, 1), (1, 2), (2, 2), (2, 3)], ("t", 0, 1)),
    "qhat11": ("_qhat11_jit", [(1, 1), (1, 2), (1, 3), (2, 2), (2, 3), (2, 4), (3, 3)], ("t", 1, 1)),
}
_TABLES = None


def tables():
    global _TABLES
    if _TABLES is None:
        _TABLES = {"v": json.load(open(os.path.join(SPEC, "brackets_vector.json"))), "t": json.load(open(os.path.join(SPEC, "brackets_tensor.json")))}
    return _TABLES


def ofac(l, r):
    return math.factorial(r + 1) / 2 * (1 - (1 + (-1) ** l) / (2 * (1 + l)))


def first_principles(block, masses, nd, Q, magnitude=False):
    """sqrt(m_i) sum_l n_i n_l (delta_ij [.,.]'_il + delta_jl [.,.]''_il) from the bracket tables (+ constraint term for q00);
    magnitude=True: the same sums over absolute values of the individual terms (the scale against which round-off of exactly
    cancelling like-molecule terms has to be judged)"""
    ab = abs if magnitude else (lambda v: v)
    kind, p, q = BLOCKS[block][2]
    tab = tables()[kind]
    nb = len(masses)
    out = np.zeros((nb, nb))
    cache = {}

    def br(which, i, k):
        key = (which, i, k)
        if key not in cache:
            M1 = masses[i] / (masses[i] + masses[k])
            env = {"a": math.sqrt(M1), "b": math.sqrt(1 - M1)}
            mu = masses[i] * masses[k] / (masses[i] + masses[k])
            tot = 0.0
            for lr, expr in tab[f"{which}|{p}|{q}"].items():
                l, r = map(int, lr.split("|"))
                if (l, r) in Q:
                    tot += eval(expr, {}, env) * ofac(l, r) * Q[(l, r)][i, k] / math.sqrt(mu)
            cache[key] = 8 * tot
        return cache[key]

    for i in range(nb):
        for j in range(nb):
            v = 0.0
            for l in range(nb):
                t = ab(br("11", i, l) if i == j else 0.0) + ab(br("12", i, l) if j == l else 0.0)
                v += nd[i] * nd[l] * t
            out[i, j] = math.sqrt(masses[i]) * v
            if block == "q00":
                c = sum(nd[l] * math.sqrt(masses[l]) / (math.sqrt(masses[i]) * math.sqrt(masses[i] + masses[l])) * Q[(1, 1)][i, l]
                        for l in range(nb) if l != i)
                out[i, j] += (1 if magnitude else -1) * nd[j] * math.sqrt(masses[j]) * 8 * c
    return out


def implementation(block, masses, nd, Q):
    fn, orders, _ = BLOCKS[block]
    nb = len(masses)
    args = [Q.get(o, np.zeros((nb, nb))) for o in orders]
    return np.array(getattr(ft, fn)(*args, np.array(masses), nb, np.array(nd)))


def probe(rng, n_cases):
    """-> {(block, order): worst relative mismatch} over random masses (ratio up to 1e3, so cancellation stays small), one order at a time"""
    worst = {}
    examples = {}
    for _ in range(n_cases):
        nb = rng.randint(1, 4)
        base = 10 ** rng.uniform(-27, -25)
        masses = [base * 10 ** rng.uniform(0, 3) for _ in range(nb)]
        nd = [10 ** rng.uniform(18, 22) for _ in range(nb)]
        for block, (fn, orders, _) in BLOCKS.items():
            for o in orders:
                M = np.array([[10 ** rng.uniform(-20, -18) for _ in range(nb)] for _ in range(nb)])
                Q = {o: (M + M.T) / 2}
                a = implementation(block, masses, nd, Q)
                b = first_principles(block, masses, nd, Q)
                sc = max(np.max(np.abs(a)), np.max(first_principles(block, masses, nd, Q, magnitude=True)), 1e-300)
                e = float(np.max(np.abs(a - b)) / sc)
                if e > worst.get((block, o), 0.0):
                    worst[(block, o)] = e
                    idx = np.unravel_index(int(np.argmax(np.abs(a - b))), a.shape)
                    examples[(block, o)] = {"block": block, "order": list(o), "masses": masses, "nd": nd, "Q": Q[o].tolist(),
                                            "entry": [int(idx[0]), int(idx[1])], "implementation": float(a[idx]), "first_principles": float(b[idx])}
    return worst, examples


def variants():
    """compile the clean statements and the characterisations of q22 / q23 (in parallel); -> {name: ok}"""
    procs = {}
    for name in ("C11_q22_clean", "C11_q23_clean", "C11_q22_known", "C11_q23_known"):
        procs[name] = subprocess.Popen(["timeout", "300", "coqc", "-R", ".", "MPC", "-R", "variants", "MPC", f"variants/{name}.v"],
                                       cwd=common.COQ, stdout=subprocess.PIPE, stderr=subprocess.STDOUT, text=True)
    out = {}
    for name, p in procs.items():
        log, _ = p.communicate()
        out[name] = p.returncode == 0
        for ext in (".vo", ".vok", ".vos", ".glob"):
            try:
                os.remove(os.path.join(common.COQ, "variants", name + ext))
            except OSError:
                pass
    return out


def check(run):
    rng = random.Random(run.seed)
    thorough = run.tier == "thorough"
    run.cov["rule"] = ("(K) model matrices q / qhat (generated blocks + hand-written assembly) vs functions_transport.q / qhat on 1-4 species with prescribed "
                       "random symmetric collision integrals, masses electron..heavy ion, densities over 6 decades; (F) every block function against the "
                       "first-principles tables, one collision-integral order at a time, masses within 3 decades; distinct = (nb, masses, densities)")
    run.cov["trusted_base"] = common.TRUSTED_COMMON + [
        "spec/BracketTables.v: coefficients of the generating function of DESIGN Appendix A, derived symbolically once (spec_src/*.json, mktables.py; "
        "`make gate` re-derives the .v from the .json); anchored inside Coq to Chapman-Cowling's single-gas rigid-sphere ratios 205/202, 45/44, 1.02482",
        "mathematics taken from the literature: reduction of the Boltzmann bracket integrals to that generating function; Devoto's definitions of q^{mp} from the brackets",
        "assembly (block layout, mass-ratio transposes) hand-written in model/Transport.v and tied by comparing whole matrices",
        "linear solves and the final formulae: see C12 / C14"]
    broken = []
    ok, refusals, _ = common.regenerate(["transport"])
    if not ok:
        broken.append({"stage": "translator", "detail": refusals})
        run.note(f"translator refused: {refusals}")
    res = common.prove("thm/C11.v")
    run.add_proof(res, "make -f Makefile.coq thm/C11.vo ; coqc variants/C11_q2{2,3}_{clean,known}.v")
    if not res["ok"]:
        broken.append({"stage": "proof", "detail": res["error"]})
        run.note(f"proof obligation failed: {res['error']}")
    var = variants() if ok else {}
    run.cov["variants"] = var
    # the two blocks with a recorded finding: clean statement first, characterisation second
    for blk in ("q22", "q23"):
        run.cov["obligations"] += 1
        if var.get(f"C11_{blk}_clean"):
            run.cov["discharged"] += 1                      # the finding is gone: clean theorem holds
        elif var.get(f"C11_{blk}_known"):
            run.cov["discharged"] += 1                      # exactly the recorded deviation (kernel-checked characterisation)
        else:
            broken.append({"stage": "proof", "detail": {"file": f"variants/C11_{blk}_clean.v and variants/C11_{blk}_known.v", "lemma": f"{blk}_eq_spec",
                                                        "message": "neither the first-principles statement nor the recorded characterisation checks"}})
    okd, dlog = common.build_driver("tr")
    final_found = None
    n = 200 if thorough else 25
    cases = [tr.rand_case(rng) for _ in range(n)] + [tr.rand_case(rng, rng.randint(17, 20))]   # incl. one mixture larger than any shipped one
    if not okd:
        broken.append({"stage": "extraction", "detail": dlog[-600:]})
    else:
        mods = tr.model_matrices(cases)
        dis = 0
        for c, (mq, mqh) in zip(cases, mods):
            iq, iqh = tr.impl_matrices(c)
            run.count(1, distinct_key=(c["nb"], tuple(c["masses"]), tuple(c["nd"])), nontrivial=True)
            for a, b, nm in ((iq, mq, "q"), (iqh, mqh, "qhat")):
                if a.shape != b.shape:
                    dis += 1
                    if not any(x.get("stage") == "correspondence" for x in broken):
                        broken.append({"stage": "correspondence", "detail": {"matrix": nm, "what": f"the implementation assembles a {a.shape[0]}x{a.shape[1]} matrix for {c['nb']} species, the model {b.shape[0]}x{b.shape[1]}"}})
                    continue
                sc = np.maximum(np.abs(a), np.max(np.abs(a), axis=1, keepdims=True) * 1e-3)
                e = float(np.max(np.abs(a - b) / np.where(sc > 0, sc, 1)))
                if e > 1e-11:
                    dis += 1
                    if dis == 1:
                        r, cc = np.unravel_index(int(np.argmax(np.abs(a - b) / np.where(sc > 0, sc, 1))), a.shape)
                        broken.append({"stage": "correspondence", "detail": {"matrix": nm, "block": [int(r) // c["nb"], int(cc) // c["nb"]],
                                                                             "impl": float(a[r, cc]), "model": float(b[r, cc])}})
            run.cov["traces_validated_against_impl"] += 1
            run.sample({"nb": c["nb"], "masses": c["masses"], "nd": c["nd"]}, cap=3)
        # the outputs themselves (diffusion matrix, thermal-diffusion coefficients, viscosity, electrical conductivity): model right-hand sides and
        # final formulae against the implementation, incl. one- and two-species mixtures (single-gas limit) and mixtures with collision
        # integrals spread over five decades, selected for genuinely negative multicomponent diffusion coefficients
        small = [tr.rand_case(rng, 1) for _ in range(6 if thorough else 3)] + [tr.rand_case(rng, 2) for _ in range(6 if thorough else 2)]
        neg = tr.negative_D_cases(rng, 6 if thorough else 3, 400 if thorough else 150)
        run.cov["cases_with_negative_diffusion_coefficients"] = len(neg)
        fdis = tr.final_formulae(run, cases[:(60 if thorough else 10)] + small + neg)
        for c in small + neg:
            run.count(1, distinct_key=("final", c["nb"], tuple(c["masses"]), tuple(c["nd"])), nontrivial=True)
        dis += len(fdis)
        final_found = None
        if fdis:
            broken.append({"stage": "correspondence", "detail": fdis[0]})
            f0 = fdis[0]
            final_found = {"kind": "output", "what": f"transport output differs from the model's final formula on the implementation's own matrices: {f0['what']} "
                                                     f"(D[{f0['D_entry'][0]},{f0['D_entry'][1]}] implementation {f0['impl_D']!r}, model {f0['model_D']!r}, relative error {f0['error']:.3e})",
                           "case": f0["case"], "nb": f0["nb"]}
        run.cov["correspondence_disagreements"] = dis
    # F: the implementation's blocks against first principles, order by order
    worst, examples = probe(rng, 12 if thorough else 4)
    mism = {k: v for k, v in worst.items() if v > 1e-9}
    run.cov["block_order_pairs_probed"] = len(worst)
    run.cov["block_order_mismatches"] = sorted(f"{b}:Qbar{o[0]}{o[1]}" for (b, o) in mism)
    reported = False
    if okd and final_found is not None:
        final_found["broken"] = broken
        run.violation(final_found)
        reported = True
    for (blk, o), e in sorted(mism.items()):
        key = f"{blk}:Qbar{o[0]}{o[1]}"
        ex = dict(examples[(blk, o)], kind="matrix-entry", what=f"{BLOCKS[blk][0]}: coefficient of Qbar^({o[0]},{o[1]}) differs from first principles (relative {e:.3e})",
                  broken=broken)
        # a listed finding is recognised only while its kernel-checked characterisation still holds: a different wrong
        # coefficient in the same place is a different violation
        recorded = var.get(f"C11_{blk}_known", False) if blk in ("q22", "q23") else False
        if run.violation(ex, key=key if recorded else None) is not None:
            reported = True
    if broken and not reported and not mism:
        run.violation({"kind": "broken-obligation", "broken": broken,
                       "what": "theorem / correspondence for C11 no longer checks; no failing input found"}, no_input=True)
    elif broken and not reported and mism:
        # everything F found is a listed finding; is anything broken beyond that?
        other = [b for b in broken if not (b["stage"] == "proof" and "q2" in json.dumps(b))]
        if other:
            run.violation({"kind": "broken-obligation", "broken": other,
                           "what": "theorem / correspondence for C11 no longer checks beyond the recorded findings; no further failing input found"}, no_input=True)


def replay(path):
    d = json.load(open(path))
    if d.get("kind") == "output":
        print(d.get("what"))
        print(json.dumps(d.get("case"), default=str)[:1500])
        return 1
    if d.get("kind") != "matrix-entry":
        print("replay names a broken obligation:", json.dumps(d.get("broken"), indent=1, default=str)[:2000])
        return 1
    o = tuple(d["order"])
    Q = {o: np.array(d["Q"])}
    a = implementation(d["block"], d["masses"], d["nd"], Q)
    b = first_principles(d["block"], d["masses"], d["nd"], Q)
    i, j = d["entry"]
    print(f"{d['block']}[{i},{j}] with only Qbar^({o[0]},{o[1]}) non-zero: implementation {a[i, j]!r}, first principles {b[i, j]!r}")
    return 1 if abs(a[i, j] - b[i, j]) > 1e-9 * max(abs(a[i, j]), abs(b[i, j])) else 0
