"""C10 — equilibrium responds to T and P as thermodynamic stability requires."""
import json
import math
import random
import warnings
from multiprocessing import Pool

import numpy as np

import common
import gen
import solver
import c14
import minplascalc as mpc
from minplascalc import units as u

TOL_M = 1e-8        # mean molar mass: an increase (decrease) must exceed this relative amount to count
TOL_XE = 1e-6       # electron mole fraction (only compared above XE_FLOOR, the solver's resolution)
XE_FLOOR = 1e-7


def measure(m):
    with warnings.catch_warnings(record=True) as w:
        warnings.simplefilter("always")
        try:
            nd = np.asarray(m.calculate_composition(), dtype=float)
            H = float(m.calculate_enthalpy())
        except np.linalg.LinAlgError as e:
            return {"solver": f"LinAlgError: {e}"}
        except Exception as e:  # noqa: BLE001
            # an exception raised after the solver announced non-convergence is an announced failure (C06), anything else is not
            if any("Minimiser could not find" in str(x.message) for x in w):
                return {"solver": f"non-convergence warning, then {type(e).__name__}"}
            raise
        if any("Minimiser could not find" in str(x.message) for x in w):
            return {"solver": "non-convergence warning"}
    M = np.array([sp.molar_mass for sp in m.species])
    return {"T": m.T, "P": m.P, "H": H, "Mbar": float((nd * M).sum() / nd.sum()), "xe": float(nd[-1] / nd.sum())}


def state(args):
    """one fresh object per state -> dict with H, mean molar mass, x_e, or {"solver": reason}"""
    names, x0, T, P = args
    return measure(mpc.mixture.LTE([gen.shipped(n) for n in names], x0, T, P, 1e20, 1e-10, 1000))


def ladder_job(args):
    """a whole ladder: mode "fresh" = one new object per state; otherwise ONE object walked through the ladder by assigning
    T / P in the given order (a user's parameter sweep), after having been solved once somewhere else in the window"""
    names, x0, axis, fixed, pts, mode, first = args
    if mode == "fresh":
        return [state((names, x0, v, fixed) if axis == "T" else (names, x0, fixed, v)) for v in pts]
    m = mpc.mixture.LTE([gen.shipped(n) for n in names], x0, first[0], first[1], 1e20, 1e-10, 1000)
    measure(m)
    order = list(range(len(pts)))
    if mode == "desc":
        order.reverse()
    elif mode in ("shuffled", "mixed"):
        random.Random(len(pts) * 7919 + int(fixed)).shuffle(order)
    out = [None] * len(pts)
    # only the swept parameter is assigned inside the walk, as a user's sweep would do
    if axis == "T":
        m.P = fixed
    else:
        m.T = fixed
    for k in order:
        if mode in ("mixed", "mixed-asc") and k % 2 == 0:    # every other point on a fresh object: a re-used object must agree with fresh ones
            out[k] = state((names, x0, pts[k], fixed) if axis == "T" else (names, x0, fixed, pts[k]))
            continue
        if axis == "T":
            m.T = pts[k]
        else:
            m.P = pts[k]
        out[k] = measure(m)
        if "solver" not in out[k]:
            out[k]["T" if axis == "T" else "P"] = pts[k]      # the value that was ASSIGNED is the state the result is attributed to
    return out


def species_sets(rng, n):
    out = []
    for _ in range(n):
        for _ in range(50):
            sps, x0, kind = gen.rand_mixture_spec(rng, rng.choice(["oxy", "sico", "sico"]))
            if c14.chains_complete(sps):
                break
        out.append(([s.name for s in sps], x0, kind))
    return out


def ladder(rng, lo, hi, n, log):
    """n points between lo and hi, both ends included, with a few very close pairs (relative spacing 1e-3)"""
    pts = {lo, hi}
    while len(pts) < n:
        v = math.exp(rng.uniform(math.log(lo), math.log(hi))) if log else rng.uniform(lo, hi)
        pts.add(v)
        if rng.random() < 0.2 and v * 1.001 < hi:
            pts.add(v * 1.001)
        if rng.random() < 0.1 and v * (1 + 5e-6) < hi:
            pts.add(v * (1 + 5e-6))          # an assignment a sweep may make: a few parts per million away
    return sorted(pts)


def u_ladder(run, rng, thorough, okd, broken):
    """(V) the theorem'd clause on the implementation: every species' internal energy increases along a temperature ladder at fixed lowering"""
    pool = [gen.shipped(n) for n in gen.SHIPPED] + [gen.rand_species(rng) for _ in range(30 if thorough else 10)]
    bad = None
    for sp in pool:
        dE = rng.choice([0.0, 0.0, rng.uniform(0, 0.5) * gen.EV])
        Ts = ladder(rng, 300.0, 30000.0, 40 if thorough else 14, True)
        try:
            us = [float(sp.internal_energy(T, dE)) for T in Ts]
        except Exception:  # noqa: BLE001  (a level list with no bound level: rejected input)
            continue
        for T in Ts:
            run.count(1, distinct_key=("U", sp.name, dE, T))
        if okd:   # the kernel the theorem is about, extracted, against the implementation on the same ladder
            outs = common.run_driver("sp", ["Uint " + " ".join(common.enc_species(sp) + [common.fhex(T), common.fhex(dE)]) for T in Ts])
            for T, uv, o in zip(Ts, us, outs):
                run.cov["traces_validated_against_impl"] += 1
                if common.relerr(uv, common.unhex(o[0])) > 1e-9 and not any(b["stage"] == "correspondence" for b in broken):
                    broken.append({"stage": "correspondence", "detail": {"species": sp.name, "T": T, "dE": dE, "impl": uv, "model": common.unhex(o[0])}})
        for (Ta, ua), (Tb, ub) in zip(zip(Ts, us), zip(Ts[1:], us[1:])):
            if not ub > ua and bad is None:
                bad = {"kind": "input", "what": f"internal energy of {sp.name} does not increase: U({Ta})={ua!r} >= U({Tb})={ub!r} at dE={dE}",
                       "species": gen.species_full(sp), "T1": Ta, "T2": Tb, "dE": dE}
    return bad


def check(run):
    rng = random.Random(run.seed)
    thorough = run.tier == "thorough"
    run.cov["rule"] = ("(V1) internal energy of every shipped and random synthetic species along temperature ladders at fixed lowering (the proved clause, on the implementation); "
                       "(V2) shipped oxygen / Si-C-O species sets (random subsets with complete charge chains, random order) and random x0: temperature ladders (1000..25000 K, both "
                       "ends, some pairs 0.1 % apart) at several pressures: enthalpy strictly increasing, mean molar mass not increasing beyond 1e-8; pressure ladders (1e4..1e6 Pa) "
                       "at several temperatures: mean molar mass not decreasing beyond 1e-8, electron mole fraction (above 1e-7) not increasing beyond 1e-6 relative. Half of the ladders are walked on ONE re-used object (assigning T / P ascending, descending or shuffled after a solve elsewhere; 'mixed' = every other point on a fresh object; one pinned fine ascending sweep of the full Si-C-O set from 1000 K in 4 % steps with a fresh object between the steps), the rest on fresh objects. Adjacent "
                       "ladder points are compared (monotone along the ladder = all ordered pairs on it). distinct = (species set, x0, T, P)")
    run.cov["trusted_base"] = common.TRUSTED_COMMON + [
        "PARTIAL: frozen heat capacity, the ideal-mixture pressure response of exact minimisers and the single-ionisation closed form are theorems; the reactive heat capacity, "
        "the T-monotonicity of the mean molar mass and everything involving the Stewart-Pyatt lowering between two states are validated on ladders, not proved",
        "the theorems quantify over exact minimisers / exact mass action; the solver's closeness to them is C01",
        "species kernels Uint / enthalpy regenerated by the translator; their correspondence with the implementation is checked in C07 / C08 / C09"]
    broken = []
    ok, refusals, _ = common.regenerate(["species", "mixture"])
    if not ok:
        broken.append({"stage": "translator", "detail": refusals})
        run.note(f"translator refused: {refusals}")
    res = common.prove("thm/C10.v")
    run.add_proof(res, "make -f Makefile.coq thm/C10.vo")
    if not res["ok"]:
        broken.append({"stage": "proof", "detail": res["error"]})
        run.note(f"proof obligation failed: {res['error']}")
    okd, dlog = common.build_driver("sp")
    if not okd:
        broken.append({"stage": "extraction", "detail": dlog[-600:]})
    found = u_ladder(run, rng, thorough, okd, broken)

    sets = species_sets(rng, 24 if thorough else 6)
    jobs = []
    for si, (names, x0, kind) in enumerate(sets):
        def mode():
            first = (rng.uniform(1000, 25000), 10 ** rng.uniform(4, 6))
            return rng.choice(["fresh", "asc", "desc", "shuffled", "mixed", "mixed"]), first
        for P in ([1e4, 1e6] + [10 ** rng.uniform(4, 6) for _ in range(3 if thorough else 1)]):
            md, first = mode()
            jobs.append((names, x0, "T", P, ladder(rng, 1000.0, 25000.0, 60 if thorough else 32, False), md, first))
        for T in ([1000.0, 25000.0] if thorough else []) + [rng.uniform(1000, 25000) for _ in range(8 if thorough else 4)]:
            md, first = mode()
            jobs.append((names, x0, "P", T, ladder(rng, 1e4, 1e6, 24 if thorough else 10, True), md, first))
    # a fine ascending sweep on one object started cold, where every element sits in one tightly bound molecule (CO / SiO at 1000 K):
    # steps of 4 % on the object, a fresh object in between each of them
    sets.append((list(gen.SICO), list(gen.SICO_X0), "sico-fine-sweep"))
    jobs.append((sets[-1][0], sets[-1][1], "T", 101325.0, [1000.0 * 1.02 ** k for k in range(110 if thorough else 100)], "mixed-asc", (1000.0, 101325.0)))
    with Pool(16) as pool:
        results = pool.map(ladder_job, jobs, chunksize=1)
    groups, modes = {}, {}
    for ji, (job, rs) in enumerate(zip(jobs, results)):
        names, x0, axis, fixed, pts, md, first = job
        modes[md] = modes.get(md, 0) + 1
        si = next(i for i, st in enumerate(sets) if st[0] is names)
        for v, r in zip(pts, rs):
            run.count(1, distinct_key=(tuple(names), tuple(x0), axis, fixed, v))
            if "solver" in r:
                run.cov["states_with_solver_warning"] = run.cov.get("states_with_solver_warning", 0) + 1
                continue
            groups.setdefault((axis, si, fixed, ji, md), []).append(r)
    run.cov["ladder_modes"] = modes
    margins = {"dH_min_rel": math.inf, "Mbar_T_worst": 0.0, "Mbar_P_worst": 0.0, "xe_P_worst": 0.0}
    for (axis, si, fixed, ji, md), rs in groups.items():
        names, x0, kind = sets[si]
        rs.sort(key=lambda r: r["T"] if axis == "T" else r["P"])
        for a, b in zip(rs, rs[1:]):
            bad = None
            if axis == "T":
                margins["dH_min_rel"] = min(margins["dH_min_rel"], (b["H"] - a["H"]) / max(abs(a["H"]), 1.0) / ((b["T"] - a["T"]) / a["T"]))
                margins["Mbar_T_worst"] = max(margins["Mbar_T_worst"], (b["Mbar"] - a["Mbar"]) / a["Mbar"])
                if not b["H"] > a["H"]:
                    bad = f"enthalpy does not increase with temperature: H({a['T']})={a['H']!r}, H({b['T']})={b['H']!r} at P={fixed}"
                elif b["Mbar"] > a["Mbar"] * (1 + TOL_M):
                    bad = f"mean molar mass increases with temperature: {a['Mbar']!r} at {a['T']} K, {b['Mbar']!r} at {b['T']} K, P={fixed}"
            else:
                margins["Mbar_P_worst"] = max(margins["Mbar_P_worst"], (a["Mbar"] - b["Mbar"]) / a["Mbar"])
                if b["Mbar"] < a["Mbar"] * (1 - TOL_M):
                    bad = f"mean molar mass decreases with pressure: {a['Mbar']!r} at {a['P']} Pa, {b['Mbar']!r} at {b['P']} Pa, T={fixed}"
                elif a["xe"] > XE_FLOOR and b["xe"] > XE_FLOOR:
                    margins["xe_P_worst"] = max(margins["xe_P_worst"], (b["xe"] - a["xe"]) / a["xe"])
                    if b["xe"] > a["xe"] * (1 + TOL_XE):
                        bad = f"electron mole fraction increases with pressure: {a['xe']!r} at {a['P']} Pa, {b['xe']!r} at {b['P']} Pa, T={fixed}"
            if bad and found is None:
                found = {"kind": "input" if md == "fresh" else "history", "what": f"{kind} set {names} ({'fresh objects' if md == 'fresh' else 'one object swept ' + md}): {bad}",
                         "names": names, "x0": x0, "ladder": list(jobs[ji][1:]),
                         "state1": {"T": a["T"], "P": a["P"]}, "state2": {"T": b["T"], "P": b["P"]}}
    run.cov["margins"] = margins
    run.cov["ladders"] = len(groups)
    if found:
        found["broken"] = broken
        run.violation(found)
    elif broken:
        run.violation({"kind": "broken-obligation", "broken": broken,
                       "what": "theorem for C10 no longer checks; no failing input found"}, no_input=True)


def replay(path):
    d = json.load(open(path))
    print(d.get("what"))
    if d.get("kind") not in ("input", "history"):
        print(json.dumps(d.get("broken"), indent=1, default=str)[:2000])
        return 1
    if d.get("kind") == "history":
        x0, axis, fixed, pts, md, first = d["ladder"]
        for r in ladder_job((d["names"], x0, axis, fixed, pts, md, tuple(first))):
            print(r)
    elif "names" in d:
        for k in ("state1", "state2"):
            print(k, state((d["names"], d["x0"], d[k]["T"], d[k]["P"])))
    return 1
