#!/usr/bin/env python3
"""Writes /verif/MANIFEST.json from the table below (kept in one place so it stays valid)."""
import json
import os

V = os.path.dirname(os.path.dirname(os.path.abspath(__file__)))
BASE = "cd /repo && /venv/bin/python -m pytest -ra -q -p no:cacheprovider --timeout=900 --continue-on-collection-errors"

CLAIMED = {
    "C07": dict(
        technique="Coq theorems over R about kernels regenerated from species.py (py2coq) + extracted-model/implementation differential check",
        text=("proof (full): every partition-function kernel, regenerated from species.py on each run, is proved equal to the "
              "documented sum for all inputs — monatomic level sum with no hypothesis on level order, permutation invariance, "
              "translational, total, diatomic, linear/non-linear polyatomic, electron, and antitonicity in dE. The model is tied to "
              "the code by the translator and by running the extracted kernels against the implementation on generated species."),
        note=("Trusted: Coq kernel; Reals axioms (sig_forall_dec, sig_not_dec, functional_extensionality_dep, classic) as printed by "
              "Print Assumptions; py2coq translator; ExtrOcamlBasic extraction + OCaml double instance; real-number model (round-off "
              "not proved; bridged by the 1e-12 correspondence); class dispatch Zint/Uint written by the generator and tied by correspondence."),
        ref="§3-C07"),
    "C08": dict(
        technique="Coq/Coquelicot derivative theorems about kernels regenerated from species.py + extracted-model/implementation differential check",
        text=("proof (full, at fixed dE): for each of the four classes, T |-> ln(Ztr(T) Zint(T,dE)) of the regenerated partition-function "
              "kernels is proved differentiable with derivative U(T,dE)/(k T^2) where U is the regenerated internal_energy kernel "
              "(monatomic by induction over an arbitrary level list with the cutoff fixed; vibrational/rotational factors by a "
              "log-derivative calculus), plus the same-states lemma (U and Z range over the same bound levels)."),
        note=("Trusted: Coq kernel; Coquelicot; Reals axioms as printed; translator; extraction + double instance; real-number model. "
              "Hypotheses: T>0, M>0, k_B>0, N_A>0, h!=0; monatomic Zint>0 (proved from J>=0 and one bound level); molecular constants >0."),
        ref="§3-C08"),
    "C15": dict(
        technique="Coq theorems over R about the kernel regenerated from functions_radiation.py + differential check incl. real LTE mixtures",
        text=("proof (full): the regenerated total_emission_coefficient kernel equals (hc/4pi) * sum over heavy species and lines of "
              "n gA exp(-E/kT)/(lambda Zint(T,0)) for all inputs, with the last (electron) entry contributing nothing; additivity, "
              "no-lines-zero and permutation invariance are theorems. The composition is a parameter of the model; that the implementation "
              "feeds it the equilibrium densities is checked on real LTE objects."),
        note=("Trusted: Coq kernel; Reals axioms as printed; translator; extraction + double instance; real-number model; "
              "composition passed as parameter (tie to calculate_composition by test on LTE objects)."),
        ref="§3-C15"),
    "C17": dict(
        technique="Coq theorems (axiom-free) about a hand-written exact parser model + exact differential check against parsers.py",
        text=("proof (full, exact model): for every line that is the rendering of well-formed fields (integers, decimals, exponents, a/b) "
              "up to blanks and annotation characters inserted anywhere, the model parser returns exactly the printed values, one per field; "
              "the level-list parser returns the pairs in input order and reports index and text of the first malformed line. The model is "
              "hand-written (string code) and tied to parsers.py by exact comparison on well-formed and malformed generated lines."),
        note=("Trusted: Coq kernel (theorems closed under the global context); hand model Parser.v + exact correspondence; float(str) modelled as "
              "exact decimal -> rational with CPython's correctly rounded float trusted; extraction (ExtrOcamlBasic). Modelling limits: non-Latin-1 "
              "characters, '_' separators, nan/inf spellings; a/0 raises ZeroDivisionError un-wrapped (modelled, outside the property)."),
        ref="§3-C17"),
    "C16": dict(
        technique="Coq theorems (axiom-free) about an I/O model instantiated at class tables regenerated from species.py + round trips through real files",
        text=("proof (full on the model): json.load(json.dump v) = v up to tuple->list for every JSON-representable value (induction over the nested "
              "value type); for each of Monatomic / Diatomic / Polyatomic and every argument list, save-then-load of the constructed object yields the "
              "same class and attribute-wise equal data in the same order (the positional alignment of from_file with the constructors is decided by "
              "computation on lists regenerated from species.py's AST each run); constructors are total; dispatch thresholds as documented. "
              "Identical derived quantities and from_name = from_file are checked on real files."),
        note=("Trusted: Coq kernel (closed under the global context); gen_speciesio AST extraction (fail-closed); hand interpreter SpeciesIO.v tied by "
              "running it against real objects; json library modelled as a bijection JSON tree <-> text; NaN excluded; class must match atom count."),
        ref="§3-C16"),
    "C03": dict(
        technique="Coq theorem over all finite call histories of a cache state machine whose method bodies are effect summaries regenerated from the source + bit-exact history replay against fresh mixtures",
        text=("proof (full on the state-machine model): for every finite history of set T / set P / set x0 and the nine public calculate_* calls "
              "(thermal conductivity with DTterms on or off) on a fresh object, every call terminates, reads only caches computed at the then-current "
              "inputs, and leaves T as found (invariant: flag set implies both caches current; 90 closed per-method cases by vm_compute, lifted by "
              "induction over the history); independence of mixtures that share species. Method bodies are effect summaries regenerated from "
              "mixture.py / functions_transport.py / functions_radiation.py on every run; the tie to real objects is a bit-for-bit comparison with "
              "freshly constructed mixtures along generated and model-guided histories, incl. shared species and differing solver controls."),
        note=("Trusted: Coq kernel (closed under the global context); effects.py extraction (fail-closed; loops flattened, solver loops assumed to run "
              "at least once); determinism of the code (read-only-current-caches => equals fresh mixture), checked bit-for-bit; Cache.v interpreter."),
        ref="§3-C03"),
    "C02": dict(
        technique="Coq theorems over R about every iterate of the relaxed Newton iteration (hand model tied to recorded solver iterations) + tested residuals of returned compositions",
        text=("proof, partial: proved for the step model — any solution of the Newton system satisfies the element and charge constraints; the relaxed update "
              "contracts every constraint residual by exactly (1-r) (so a satisfied constraint stays satisfied, a full step makes it exact); every iterate is "
              "strictly positive for ARBITRARY Newton proposals and 0<r<=1, hence (induction over any number of updates, any governor factors) every reachable iterate is, and its constraint residuals are the initial ones times a factor in [0,1]; densities sum to P/kT, are positive and keep the constraint ratios. NOT proved: "
              "that the returned iterate has seen a full step / that round-off keeps residuals at the double-precision floor, and finiteness — these are tested "
              "on generated mixtures (shipped and synthetic chemistries, random order) at 1e-11."),
        note=("Trusted: Coq kernel; Reals axioms as printed; hand-written Gibbs.v/RefEnergy.v tied to calculate_composition by recorded iterations through the "
              "guarded hook (mu/E0/dE, linear system vs recorded matrix, relaxation factor, stopping quantity, next iterate, densities); numpy.linalg.solve "
              "not modelled (theorems quantify over proposals); extraction + double instance."),
        ref="§3-C02"),
    "C01": dict(
        technique="Coq theorems over R characterising fixed points of the Newton iteration as mass-action states + tested mass-action residuals with mu from the extracted kernels",
        text=("proof, partial: proved — the coded chemical potential depends on densities only; the species rows of the Newton system are the identity "
              "(mu_i+(A lam)_i)/kT = sum(N')/sum(N) - N'_i/N_i; a fixed point of the iteration is exactly a state with mu = -(A lam); such a state balances every "
              "reaction (A^T nu = 0 => nu.mu = 0) and hence satisfies the Saha / Guldberg-Waage ratios, and it is the global minimum of the ideal Gibbs function over all compositions "
              "with the same element and charge totals (Gibbs' inequality), and the only such state (strict form: two fixed points with the same species data, T, P and constraint totals have the same number densities); the stopping quantity bounds the relative Newton step of every species above 1e-7 of the most abundant one, and a species whose last relative step is <= eps sits within (eps2 + eps/(1-eps)) kT of mass action. NOT proved: that the floating-point iteration reaches "
              "the fixed point for every input (the stopping rule bounds only the last Newton step of the resolved species); the residual of every un-warned returned composition "
              "is tested at the floor the stopping rule resolves (1e-8 kT above x=1e-5, 1e-6 down to 1e-7) with mu evaluated both by the extracted model kernels and from an independent "
              "documented-sum oracle; thm/C07.v (kernels = documented partition functions) is discharged as a prerequisite."),
        note=("Trusted: as C02; the reference-energy / Stewart-Pyatt model RefEnergy.v is hand-written and tied by recorded E0/dE/mu; least-squares projection "
              "in numpy for the tested part."),
        ref="§3-C01"),
    "C06": dict(
        technique="Coq theorems about the control-flow model of the governor/retry loops for an arbitrary numerical step + replay of recorded stopping quantities + tested window/start/rtol clauses",
        text=("proof, partial: proved for arbitrary behaviour of the numerical step — the warning is issued iff all governor attempts failed; no warning implies "
              "the last stopping quantity was a finite number <= rtol reached within max_iter; a non-finite stopping quantity never ends an attempt as converged; "
              "every attempt performs at most max_iter+1 iterations. Positivity/constraints of un-warned returns: C02. NOT proved (tested): convergence of the "
              "shipped mixtures inside the documented window under default controls (grid), start-estimate independence and rtol tightening (species with "
              "x>1e-5 agree to 1e-5), no silent failure over T 200..6e4 K, P 1e2..1e8 Pa. In thm/C06_start.v (over R): the fixed point is unique for the ideal mixture, so the limit cannot depend on the starting estimate, and a stopping quantity <= rtol bounds the last relative step of every resolved species; histories: objects moved from a cold state to a much hotter one must agree with fresh objects."),
        note=("Trusted: Coq kernel (closed under the global context); hand-written Retry.v tied by replaying recorded stopping quantities (hook) incl. NaN cases "
              "and small max_iter; extraction."),
        ref="§3-C06"),
    "C09": dict(
        technique="Coq theorems over R about kernels regenerated from mixture.py (density, species enthalpies, enthalpy) + reference-energy model tied by recorded iterations + independent thermodynamic oracle",
        text=("proof (formulae full; chain recursion by model + correspondence): the regenerated density kernel is sum n_i M_i / N_A; species enthalpies are "
              "(U_i(T,dE_i)+E0_i+kT)/(M_i/N_A); the mixture enthalpy is sum n_i h_i / rho minus the reference constant N_A E0_min/M_min, so enthalpy differences "
              "between states with the same constant are those of the independent formula (theorem; sameness of the constant checked per pair); the reference-energy "
              "model implements 'neutral atoms 0, molecules -D, each positive ion = previous listed stage + its IE - its lowering, each negative ion = next stage - "
              "own IE + own lowering' (theorems about the hand model, which is tied to the code by recorded E0/dE/mu and tested against an independent chain oracle); "
              "heat capacity: calculate_heat_capacity is regenerated from the source with the enthalpy as an oracle and proved equal to (H(T(1+d))-H(T(1-d)))/(2dT), default d = 1/1000, exact on quadratics, = H'(xi) for some xi in between (mean-value theorem); the oracle calls being enthalpies of the current inputs is the C03 effect summary; the regenerated model is run on the enthalpies and temperatures recorded inside the implementation's own call, and compared with fresh mixtures."),
        note=("Trusted: Coq kernel; Reals axioms as printed; translator; RefEnergy.v hand-written (declarative: nearest listed stage; distinct (stoichiometry, charge) "
              "pairs) tied by the hook; composition / E0 / dE enter the kernels as parameters (freshness: C03)."),
        ref="§3-C09"),
    "C04": dict(
        technique="Coq theorems (b linear in x0, scale invariance of densities and chemical potentials) + generator check that x0 is read only for element totals + tested pairs of equivalent x0",
        text=("proof, partial: proved — the element totals are 1e24*sum c_ik x0_i and scale with x0; x0 enters the linear system only through them (and the code reads "
              "x0 nowhere else: syntactic check on every run); scaling all particle numbers leaves densities and chemical potentials unchanged and scales constraint "
              "totals, so fixed points for c*b are c times those for b with the same densities; the fixed point is unique for the ideal mixture (strict Gibbs inequality). NOT proved: that both runs converge to "
              "it; equivalent x0 (scaled, arbitrary single-element x0, molecule redistributed to its atoms) are compared on all outputs on the implementation."),
        note="Trusted: as C02; effects.py syntactic check; tolerances follow the solver's resolution (species to 1e-6+1e-10/x, scalars 1e-5, Cp and thermal conductivity 1e-4).",
        ref="§3-C04"),
    "C05": dict(
        technique="Coq theorems: permutation invariance of every species sum, of the reference-energy chains (arg-max fold characterisation), equivariance of all regenerated transport blocks / assembled systems / final formulae + tested permutations of the species list on all outputs",
        text=("proof, partial: proved — density, element totals, the Stewart-Pyatt effective charge, the emission line sum and the atomic level sums are invariant "
              "under permutation of the species (resp. level) list; the reference-energy chains (model E0_of / E0_list, tied to the code by recorded iterations) attach the "
              "same value to every species for every listing order when (stoichiometry, charge) pairs are distinct (arg-max fold characterisation, any chain length, "
              "positive and negative ions); every regenerated transport block (all 13, straight from the generated text), both assembled linear systems with the code's right-hand sides, and every final "
              "formula (viscosity, k', D_ij, D^T_i, electrical conductivity, the total thermal-conductivity assembly) are equivariant / invariant under re-listing: any solution "
              "re-indexed solves the re-listed system; starting from the species list itself, the matrices built for a re-listed list (model Qmix) give the original blocks at re-indexed positions. NOT proved: equivariance of the converged composition solve (as C04) and that numpy's solver returns the re-indexed solution in floats; random permutations (incl. ion-before-parent orders) are compared on composition, species enthalpies and all scalar outputs."),
        note="Trusted: as C02; tolerances as C04; electron-dependent conductivity compared above x_e=1e-7, emission when carried by resolved species.",
        ref="§3-C05"),
    "C10": dict(
        technique="Coq theorems over R: monotone Boltzmann mean for arbitrary level lists, tanh monotonicity -> every internal-energy kernel strictly increasing in T -> frozen mixture enthalpy strictly increasing; revealed-preference pressure response of exact minimisers of the ideal Gibbs function built from the solver's chemical-potential kernel; single-ionisation closed form; + T / P ladders on the implementation",
        text=("proof, partial (the weakest proof coverage of the set): proved — the internal energy of every species class (regenerated kernels; atomic level sums for any level list "
              "in any order) strictly increases with T at fixed lowering, hence the regenerated mixture-enthalpy kernel strictly increases with T at frozen composition, reference energies "
              "and lowerings (frozen heat capacity > 0); for the ideal mixture (entries not changing with P) G(N;P2) = G(N;P1) + kT ln(P2/P1) sum N and exact minimisers have sum N "
              "non-increasing, mean molar mass non-decreasing in P (any species, any reactions); a point whose chemical potentials lie in the column space of the constraint matrix "
              "(the solver's fixed-point condition, C01) IS such a minimiser (Gibbs' inequality), so the response holds for pairs of stationary points themselves; for {X, X+, e} mass action fixes c+ ce / c0 independently of P and the electron "
              "mole fraction strictly decreases with P. NOT proved: reactive heat capacity (composition moving with T), T-monotonicity of the mean molar mass, x_e(P) for general "
              "mixtures, anything with the Stewart-Pyatt lowering differing between the two states — validated on random temperature ladders (1000..25000 K, pairs down to 0.1 % apart) "
              "at several pressures and pressure ladders (1e4..1e6 Pa) at several temperatures for random shipped species subsets and x0."),
        note=("Trusted: Coq kernel; Reals axioms as printed; translator; the theorems concern exact minimisers / exact mass action (the solver's distance from them is C01); "
              "Uint kernel tied to the implementation on the ladders through the extracted model."),
        ref="§3-C10"),
    "C11": dict(
        technique="Coq theorems: every Devoto block regenerated from functions_transport.py equals the first-principles matrix element built from bracket-integral tables (generating function), for any number of species / masses / densities / collision integrals; rigid-sphere Chapman-Cowling ratios from the tables; right-hand sides and final formulae of viscosity / DTi / Dij / electrical_conductivity / thermal_conductivity regenerated from the source and proved equal to the assembly model",
        text=("proof (coefficients full; one recorded finding): the eight upper q blocks q00,q01,q02,q03,q11,q12,q13,q33, the three qhat blocks and the six mass-ratio "
              "transposes q10,q20,q30,q21,q31,qhat10, as regenerated from the source on every run, are proved equal to sqrt(m_i) sum_l n_i n_l (delta_ij [.,.]' + "
              "delta_jl [.,.]'') with the brackets from tables derived from the Chapman-Enskog generating function, for all nb, masses > 0, densities and "
              "collision integrals (termwise field identities after the four Kronecker-delta cases). The tables are anchored inside Coq to Chapman-Cowling's "
              "single-gas rigid-sphere ratios 205/202, 45/44 and 60989/59512 = 1.02482. q22 and q23: the first-principles statements FAIL on the current tree "
              "(known finding, two entries); kernel-checked characterisations state the exact excess in the Qbar^(2,2) coefficient and that the code's "
              "rigid-sphere conductivity ratio is not 45/44. A different deviation, or any other block, is reported as a violation with the matrix entry."),
        note=("Trusted: Coq kernel; Reals axioms as printed; translator (block pattern); bracket tables derived once with sympy from the generating function of "
              "DESIGN Appendix A (json + mktables.py committed; reduction of the Boltzmann bracket integrals to that generating function and Devoto's definition "
              "of q^{mp} from the brackets are literature mathematics); assembly model Transport.v tied by whole-matrix comparison; linear solves and final "
              "formulae are C12/C14's subject."),
        ref="§3-C11"),
    "C12": dict(
        technique="Coq theorems over R for any number of species: column sums of the first block row, the momentum constraint on every solution, sum D^T = 0, D_ii = 0, diffusion mass identity, degree-2 homogeneity of all blocks and density-scaling invariance of viscosity / translational conductivity + tested split invariance",
        text=("proof (conservation identities full given exact linear solves; two invariances tested): from the regenerated blocks q00..q03, for every nb, masses > 0 "
              "and symmetric collision integrals: columns of q01,q02,q03 sum to zero and those of q00 to -S n_j sqrt(m_j); hence every solution of the first block "
              "row carries -S sum_j n_j sqrt(m_j) x_0j = sum_i rhs_i; therefore the thermal-diffusion coefficients sum to zero, D_ii = 0 and "
              "sum_i m_i (m_h D_ih - m_k D_ik) = 0 (with the model's right-hand sides and final formulae, tied to Dij / DTi by comparison); density scaling: every "
              "regenerated block (all 13, q22 / q23 as they stand) is homogeneous of degree 2 in the densities at fixed collision integrals, so scaling all densities by c maps every "
              "solution x of the viscosity and translational-conductivity systems to x / c and leaves viscosity and translational thermal conductivity unchanged; species splitting, viscosity: from the first-principles row form of the qhat blocks (C11), "
              "every solution of the viscosity system yields a solution of the split system with the same viscosity (any species, any split fraction), and likewise for the "
              "4nu x 4nu system and the translational thermal conductivity (row forms of all sixteen assembled blocks; q22 / q23 / q32 with whichever tables the code has). NOT proved: "
              "split invariance of the reaction / thermal-diffusion parts of the thermal conductivity and of the electrical conductivity — tested on prescribed-integral mixtures with random split fractions (and all invariances again on the implementation), "
              "and the identities on equilibrium states of the shipped mixtures."),
        note=("Trusted: Coq kernel; Reals axioms as printed; translator; Transport.v (block layout, right-hand sides, final formulae) hand-written and tied by "
              "comparing matrices and outputs under prescribed collision integrals; linear solves not modelled (theorems quantify over solutions)."),
        ref="§3-C12"),
    "C13": dict(
        technique="Coq theorems over R about the regenerated collision-integral kernels (dispatch symmetry and classes, Coulomb / electron-neutral closed forms, scaling, recursion) + extracted-model correspondence over all species pairs and orders + quadrature oracle",
        text=("proof, partial: from the regenerated Qij dispatch chain and kernels: the dispatch is symmetric under exchange of the pair and every pair lands in its "
              "documented class (charged-charged Coulomb, electron-neutral, neutral-neutral, own-ion resonant charge transfer for odd l, elastic ion-neutral otherwise); "
              "the Coulomb integral is the documented closed form, positive when the logarithm dominates its order-dependent constant, with the stated (l,s) scaling; the "
              "constant-cross-section electron-neutral form equals its thermal average exactly (RESTRICTED to D2 = 0; the general law is validated against quadrature); the "
              "temperature recursion used for unfitted orders has the documented form; the matrices handed to the transport routines (model Qmix of Qij_mix, tied by comparing whole "
              "matrices, evaluated twice and in a second listing order) are symmetric and attached to the species, not to list positions. NOT proved: positivity / finiteness of the fitted neutral-neutral and ion-neutral "
              "integrals (validated for every species pair, all 16 consumed orders, 300..30000 K)."),
        note=("Trusted: Coq kernel; Reals axioms as printed; Coq-Interval for two numeric bounds; translator; scipy gamma as a parameter of the real instance; "
              "hand-written recursion wrapper and cross-section unpacking tied by the correspondence check (extracted model vs implementation, 1e-9 / 1e-6 on recursed orders)."),
        ref="§3-C13"),
    "C14": dict(
        technique="Coq theorems over R (emission positivity, single-gas second-order viscosity = textbook expression, conductivity sign lemma, thermal-conductivity assembly) with kernel-checked refutations for the two recorded findings + window validation + assembly correspondence",
        text=("proof, partial: proved — the total emission coefficient (regenerated kernel) is strictly positive for positive densities as soon as one line is listed; for a "
              "single-component un-ionised gas the regenerated qhat blocks with the model's right-hand side and final formula give exactly the textbook second-order "
              "Chapman-Enskog viscosity built from the gas's own (2,2), (2,3), (2,4) integrals; the electrical conductivity is zero without charges and non-negative when no "
              "species moves against its charge sign; the total thermal conductivity of a frozen composition is k' + sum hv D^T / T; for any mixture and any solution of the viscosity system the viscosity is a positive constant times the "
              "quadratic form of the assembled qhat matrix at the solution (positivity of eta = positivity of that form), and likewise for k' and the q matrix. REFUTED (kernel-checked witnesses, recorded as "
              "known findings with the failing states in corpus/C14): positivity of the total thermal conductivity with thermal-diffusion terms, non-negativity of the "
              "conductivity with negative ions. NOT proved: positivity / finiteness of viscosity, thermal conductivity and heat capacity of general mixtures — validated over "
              "the operating window (T 1000..25000 K, P 1e4..1e6 Pa incl. corners, element shares 2..98 %) on shipped and synthetic species sets."),
        note=("Trusted: Coq kernel; Reals axioms as printed; translator; Transport.v final formulae and the thermal-conductivity assembly are hand-written and tied by comparison "
              "with the implementation under prescribed collision integrals and temperature-dependent compositions; numpy.linalg.solve trusted to solve the systems."),
        ref="§3-C14"),
}

NOT_YET = {}
ALL = [f"C{i:02d}" for i in range(1, 18)]


def main():
    checks = []
    for pid, c in sorted(CLAIMED.items()):
        checks.append({
            "property_id": pid,
            "quick_cmd": f"./check {pid} --tier quick",
            "thorough_cmd": f"./check {pid} --tier thorough",
            "evidence_file": f"/verif/evidence/{pid}.json",
            "replay_cmd_template": f"./check {pid} --replay {{path}}",
            "engine": "coq-proof",
            "level_claimed": {"category": "proof", "text": c["text"], "design_ref": c["ref"]},
            "level_note": c["note"],
            "technique": c["technique"],
        })
    na = [{"property_id": p, "reason": NOT_YET.get(p, "check not built yet in this commit (design in DESIGN.md §3); not claimed until its check exists and passes on the unchanged tree")}
          for p in ALL if p not in CLAIMED]
    m = {
        "version": 1,
        "setup_cmd": "make -C /verif setup",
        "hooks": {"guard": "MINPLASCALC_VERIF", "enable": "export MINPLASCALC_VERIF=1 (set by ./check); no rebuild needed, pure Python",
                  "baseline_off_cmd": BASE, "source_commits": ["a695551", "8a5b3ff"], "add_only": True},
        "engines": [{"name": "coq-proof", "path": "/verif/coq", "serves_properties": sorted(CLAIMED),
                     "kind_free_text": "Coq 8.16 development: kernels regenerated from /repo by translator/py2coq.py, specs, proofs, "
                                       "thm/Cxx.v property theorems; extraction to OCaml for the differential correspondence check (harness/)"}],
        "checks": checks,
        "not_applicable": na,
        "notes": "See DESIGN.md. known_findings.txt lists recorded/fixed defects. Checks take VERIF_SEED and VERIF_TIER.",
    }
    with open(os.path.join(V, "MANIFEST.json"), "w") as f:
        json.dump(m, f, indent=1)


if __name__ == "__main__":
    main()
