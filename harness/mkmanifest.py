#!/usr/bin/env python3
"""Writes /verif/MANIFEST.json from the table below (kept in one place so it stays valid)."""
import json
import os

V = os.path.dirname(os.path.dirname(os.path.abspath(__file__)))
BASE = "cd /repo && /venv/bin/python -m pytest -ra -q -p no:cacheprovider --timeout=900 --continue-on-collection-errors"

CLAIMED = {
    "C07": dict(
        technique="Coq theorems over R about kernels regenerated from species.py (py2coq) + extracted-model/implementation differential check",
        text=("proof (full): every partition-function kernel, regenerated from species.py on each run, is proved equal to the "
              "documented sum for all inputs — monatomic level sum with no hypothesis on level order, permutation invariance, "
              "translational, total, diatomic, linear/non-linear polyatomic, electron, and antitonicity in dE. The model is tied to "
              "the code by the translator and by running the extracted kernels against the implementation on generated species."),
        note=("Trusted: Coq kernel; Reals axioms (sig_forall_dec, sig_not_dec, functional_extensionality_dep, classic) as printed by "
              "Print Assumptions; py2coq translator; ExtrOcamlBasic extraction + OCaml double instance; real-number model (round-off "
              "not proved; bridged by the 1e-12 correspondence); class dispatch Zint/Uint written by the generator and tied by correspondence."),
        ref="§3-C07"),
}

NOT_YET = {}
ALL = [f"C{i:02d}" for i in range(1, 18)]


def main():
    checks = []
    for pid, c in sorted(CLAIMED.items()):
        checks.append({
            "property_id": pid,
            "quick_cmd": f"./check {pid} --tier quick",
            "thorough_cmd": f"./check {pid} --tier thorough",
            "evidence_file": f"/verif/evidence/{pid}.json",
            "replay_cmd_template": f"./check {pid} --replay {{path}}",
            "engine": "coq-proof",
            "level_claimed": {"category": "proof", "text": c["text"], "design_ref": c["ref"]},
            "level_note": c["note"],
            "technique": c["technique"],
        })
    na = [{"property_id": p, "reason": NOT_YET.get(p, "check not built yet in this commit (design in DESIGN.md §3); not claimed until its check exists and passes on the unchanged tree")}
          for p in ALL if p not in CLAIMED]
    m = {
        "version": 1,
        "setup_cmd": "make -C /verif setup",
        "hooks": {"guard": "MINPLASCALC_VERIF", "enable": "export MINPLASCALC_VERIF=1 (set by ./check); no rebuild needed, pure Python",
                  "baseline_off_cmd": BASE, "source_commits": [], "add_only": True},
        "engines": [{"name": "coq-proof", "path": "/verif/coq", "serves_properties": sorted(CLAIMED),
                     "kind_free_text": "Coq 8.16 development: kernels regenerated from /repo by translator/py2coq.py, specs, proofs, "
                                       "thm/Cxx.v property theorems; extraction to OCaml for the differential correspondence check (harness/)"}],
        "checks": checks,
        "not_applicable": na,
        "notes": "See DESIGN.md. known_findings.txt lists recorded/fixed defects. Checks take VERIF_SEED and VERIF_TIER.",
    }
    with open(os.path.join(V, "MANIFEST.json"), "w") as f:
        json.dump(m, f, indent=1)


if __name__ == "__main__":
    main()
