"""C08 — species internal energy is k T^2 d/dT ln(Ztr * Zint) at fixed lowering."""
import json
import math
import random

import common
import gen
from c07 import cases
from minplascalc import units as u

TOL_K = 1e-12
TOL_FD = 2e-6     # O(h^4) Richardson central difference of ln Z, h = 1e-3 T


def lnZ(sp, T, dE):
    return math.log(float(sp.translational_partition_function(T))) + math.log(float(sp.internal_partition_function(T, dE)))


def fd_energy(sp, T, dE):
    h = 1e-3 * T
    d1 = (lnZ(sp, T + h, dE) - lnZ(sp, T - h, dE)) / (2 * h)
    d2 = (lnZ(sp, T + 2 * h, dE) - lnZ(sp, T - 2 * h, dE)) / (4 * h)
    return u.k_b * T * T * (4 * d1 - d2) / 3


def usable(sp, T, dE):
    try:
        z = float(sp.internal_partition_function(T, dE))
    except Exception:  # noqa: BLE001
        return False
    return z > 0 and math.isfinite(z)


def falsify(run, rng, n):
    found = None
    cs, hist = cases(rng, n)
    for sp, T, dE, tag in cs:
        if not usable(sp, T * 0.998, dE):
            continue
        ui = float(sp.internal_energy(T, dE))
        uf = fd_energy(sp, T, dE)
        run.count(1, distinct_key=("F", tag, type(sp).__name__, round(math.log(T), 2), len(getattr(sp, "energy_levels", []))))
        if common.relerr(ui, uf) > TOL_FD and found is None:
            found = {"kind": "input", "what": "internal_energy != kT^2 d/dT ln(Ztr*Zint)", "observed": ui, "expected_fd": uf,
                     "species": gen.species_summary(sp), "T": T, "dE": dE}
    return found, hist


def check(run):
    rng = random.Random(run.seed)
    thorough = run.tier == "thorough"
    run.cov["rule"] = ("same generator as C07 (25% shipped, monatomic with unsorted level lists, diatomic, linear/non-linear polyatomic); "
                       "cases with Zint = 0 (no bound level) skipped; distinct by (class, #levels, ln T to 0.01)")
    run.cov["trusted_base"] = common.TRUSTED_COMMON + [
        "Coquelicot 3.x derivative library (is_derive, auto_derive) — adds no axioms beyond the Reals ones",
        "statement is at fixed dE: the set of included levels does not move with T"]
    run.assumptions = ["T > 0, molar mass > 0, k_B > 0, N_A > 0, h != 0", "monatomic: Zint > 0 (J >= 0 and one bound level)",
                       "molecules: g0, w, B (A,B,C), sigma > 0"]
    broken = []
    ok, refusals, _ = common.regenerate(["species", "radiation"])
    if not ok:
        broken.append({"stage": "translator", "detail": refusals})
    res = common.prove("thm/C08.v")
    run.add_proof(res, "make -f Makefile.coq thm/C08.vo")
    if not res["ok"]:
        broken.append({"stage": "proof", "detail": res["error"]})
        run.note(f"proof obligation failed: {res['error']}")
    okd, dlog = common.build_driver("sp")
    if not okd:
        broken.append({"stage": "extraction", "detail": dlog[-600:]})
    else:
        cs, hist = cases(rng, 20000 if thorough else 2000)
        cs = [c for c in cs if usable(c[0], c[1], c[2])]
        lines = ["Uint " + " ".join(common.enc_species(sp) + [common.fhex(T), common.fhex(dE)]) for sp, T, dE, _ in cs]
        outs = common.run_driver("sp", lines)
        dis = 0
        for (sp, T, dE, tag), o in zip(cs, outs):
            a, b = float(sp.internal_energy(T, dE)), common.unhex(o[0])
            run.count(1, distinct_key=("K", tag, type(sp).__name__, round(math.log(T), 2), len(getattr(sp, "energy_levels", []))))
            if common.relerr(a, b) > TOL_K:
                dis += 1
                if dis == 1:
                    broken.append({"stage": "correspondence", "detail": {"impl": a, "model": b, "species": gen.species_summary(sp), "T": T, "dE": dE}})
            run.sample({"species": sp.name, "class": type(sp).__name__, "T": T, "dE": dE, "impl_U": a, "model_U": b}, cap=4)
        run.cov["traces_validated_against_impl"] = len(cs)
        run.cov["correspondence_disagreements"] = dis
        run.cov["correspondence_input_histogram"] = hist
    found, fh = falsify(run, rng, (20000 if thorough else 2000) * (4 if broken else 1))
    run.cov["falsifier_input_histogram"] = fh
    if found:
        found["broken"] = broken
        run.violation(found)
    elif broken:
        run.violation({"kind": "broken-obligation", "broken": broken,
                       "what": "theorem / correspondence for C08 no longer checks; no failing input found"}, no_input=True)


def replay(path):
    d = json.load(open(path))
    if d.get("kind") != "input":
        print("replay names a broken obligation:", json.dumps(d.get("broken"), indent=1)[:2000])
        return 1
    sp = gen.species_from_summary(d["species"])
    ui, uf = float(sp.internal_energy(d["T"], d["dE"])), fd_energy(sp, d["T"], d["dE"])
    print(f"internal_energy={ui!r}  kT^2 dlnZ/dT (finite difference)={uf!r}")
    return 1 if common.relerr(ui, uf) > TOL_FD else 0
