# /verif/Makefile — `make setup` builds the whole framework offline from files on disk.
SHELL := /bin/bash
export PYTHONPATH := /repo/src:/verif/harness
export PYTHONHASHSEED := 0

.PHONY: setup gate clean tables-check
setup: gate tables-check
	/venv/bin/python translator/gen_all.py /repo coq/gen
	cd coq && coq_makefile -f _CoqProject -o Makefile.coq
	cd coq && timeout 3000 $(MAKE) -f Makefile.coq -j16 2>&1 | grep -v -E '^(Axioms:|Closed under|  |[A-Za-z_.]+ *:|\(forall|\{n : nat|    )' ; test $${PIPESTATUS[0]} -eq 0
	/venv/bin/python -c "import common,sys; [sys.exit(1) for g in common.DRIVER_GROUPS if not common.build_driver(g)[0]]"
	@echo setup-ok

# the bracket tables are reproducible from their source
tables-check:
	python3-vt spec_src/mktables.py --check

# no Admitted / admit / Axiom / Parameter / Conjecture / guard switches anywhere in the development
gate:
	@! grep -rnE '\b(Admitted|admit|Axiom|Parameter|Conjecture|Admit Obligations|bypass_check|type-in-type|impredicative-set)\b|Unset +Guard|Unset +Positivity|Unset +Universe' coq --include='*.v' || (echo "forbidden construct found"; exit 1)

clean:
	cd coq && (test -f Makefile.coq && $(MAKE) -f Makefile.coq cleanall || true); rm -f coq/Makefile.coq* coq/extract/driver_* coq/extract/kernels_* coq/gen/*.v
