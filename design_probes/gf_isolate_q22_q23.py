import json, numpy as np, math
exec(open("cmp.py").read().split("args = lambda")[0])
from minplascalc import functions_transport as ft
keys22=[(1,1),(1,2),(1,3),(1,4),(1,5),(2,2),(2,3),(2,4),(3,3)]
keys23=[(1,1),(1,2),(1,3),(1,4),(1,5),(1,6),(2,2),(2,3),(2,4),(2,5),(3,3),(3,4)]
keys33=[(1,1),(1,2),(1,3),(1,4),(1,5),(1,6),(1,7),(2,2),(2,3),(2,4),(2,5),(2,6),(3,3),(3,4),(3,5),(4,4)]
Qfull = dict(Qs)
for name,keys,fn,(m,p) in [("q22",keys22,ft._q22_jit,(2,2)),("q23",keys23,ft._q23_jit,(2,3)),("q33",keys33,ft._q33_jit,(3,3))]:
    for only in keys:
        for k in Qs: Qs[k] = Qfull[k] if k==only else np.zeros((nu,nu))
        C = fn(*[Qs[k] for k in keys], masses, nu, n)
        Qt = Qtilde(m,p)*np.sqrt(masses)[:,None]
        with np.errstate(all='ignore'):
            ratio = C/Qt
        offd = ratio[~np.eye(nu,dtype=bool)]; dg = ratio[np.eye(nu,dtype=bool)]
        print(name, only, "offdiag ratio [%.6g, %.6g]"%(np.nanmin(offd),np.nanmax(offd)), "diag ratio [%.6g, %.6g]"%(np.nanmin(dg),np.nanmax(dg)))
