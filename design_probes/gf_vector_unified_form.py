# vector brackets in the unified (p,q) form, fast series engine; compare with brackets.json (earlier hand form, validated vs code)
import sympy as sp, json, time, sys
exec(open("gft2.py").read().split("def build(kind):")[0].replace("NMAX=1","NMAX=%d"%int(sys.argv[1])))
S,T = geom()
def build(kind):
    if kind=='12':
        A = 1 + S*a**2 + T*b**2; D = 1 + S*b**2 + T*a**2; Ai = powser(A,-1); beta=b
        X = mul(S-T,Ai); P1 = b - a**2*b*X; Q1 = -a - a*b**2*X
        B2 = a**2*b**2*mul(S-T,S-T)*y
        Upoly = R(3,2)*a*b*Ai + mul(P1,Q1)*y
        p1 = b - a**2*b*mul(S,Ai); p2 = a**2*b*mul(T,Ai); q1 = -a*b**2*mul(S,Ai); q2 = -a + a*b**2*mul(T,Ai)
        Bp2 = a**2*b**2*y*(mul(S,S)+mul(T,T)-2*mul(S,T)*c)
    else:
        A = 1 + (S+T)*a**2; D = 1 + (S+T)*b**2; Ai = powser(A,-1); beta=a
        P = b - a**2*b*mul(S+T,Ai); B2 = a**2*b**2*mul(S+T,S+T)*y
        Upoly = R(3,2)*a**2*Ai + mul(P,P)*y
        p1 = b - a**2*b*mul(S,Ai); p2 = -a**2*b*mul(T,Ai); q1 = -a**2*b*mul(S,Ai); q2 = b - a**2*b*mul(T,Ai)
        Bp2 = a**2*b**2*y*(mul(S,S)+mul(T,T)+2*mul(S,T)*c)
    pq = y*(mul(p1,q1)+mul(p2,q2)+(mul(p1,q2)+mul(p2,q1))*c)
    Vpoly = R(3,2)*a*beta*Ai + pq
    pref = mul(powser(1-s,R(-5,2)), powser(1-t,R(-5,2)), powser(A,R(-3,2)))
    return sp.expand(mul(pref,Upoly,expser(-(D-1)*y+mul(B2,Ai))) - mul(pref,Vpoly,expser(-(D-1)*y+mul(Bp2,Ai))))
ref=json.load(open("brackets.json")); ok=True; t0=time.time()
for kind in ['12','11']:
    P=sp.Poly(build(kind),s,t)
    for (p,q),co in P.terms():
        pc=sp.Poly(sp.expand(co),y,c)
        for (r,l),k in pc.terms():
            if l>=1:
                d=sp.expand((-k - sp.sympify(ref[f"{kind}|{p}|{q}"].get(f"{l}|{r}","0"))).subs(b,sp.sqrt(1-a**2)))
                if sp.simplify(d)!=0: ok=False; print("MISMATCH",kind,p,q,l,r)
print("unified form agrees with validated table:",ok,"%.1fs"%(time.time()-t0))
