import numpy as np, sys
from fractions import Fraction as F
def blocks(fix):
    # single species i=j=l, m=1, Q=1, only (dij+djl)=2 terms, prefactor 8 n^2 (1)^(k) * m^(1/2)/(2m)^(x/2)
    # term1 exponents: q11: 1/2,5/2 ; q12: 3/2,7/2 ; q13: 5/2,9/2 ; q22: 1/2,9/2 ; q23: 3/2, 11/2 ; q33: 1/2,13/2
    c22 = (7*(4+7) if fix else 7*4*8) - 112 + 80
    c23 = (F(63,4)*(8+7) if fix else F(63,4)*8*8) - 18*(8+21) + 500 - 240
    even = {(1,1): 4, (1,2): 14-16, (1,3): F(63,2)-72+40, (2,2): c22, (2,3): c23,
            (3,3): F(189,16)*(8+48+21) - 162*15 + 10*(88+225) - 2160 + 840 + 64}
    den = {(1,1):5,(1,2):7,(1,3):9,(2,2):9,(2,3):11,(3,3):13}
    q={}
    for k,v in even.items():
        q[k] = 8*2*F(v)/ (F(2)**F(den[k]-1,2).numerator if False else 1) , den[k]
    return even, den
for fix in [False,True]:
    even,den=blocks(fix)
    M=np.zeros((3,3))
    for (m,p),v in even.items():
        val = 16*float(v)/2**(den[(m,p)]/2)
        M[m-1,p-1]=val; M[p-1,m-1]=val
    rhs=np.array([1.,0,0])
    a1 = 1/M[0,0]
    a2 = np.linalg.solve(M[:2,:2],rhs[:2])[0]
    a3 = np.linalg.solve(M,rhs)[0]
    print("fixed" if fix else "code ", "lambda2/lambda1 = %.6f  lambda3/lambda1 = %.6f"%(a2/a1,a3/a1))
