From Coq Require Import List ZArith Reals.
Import ListNotations.
Record Num (A : Type) := { nadd : A -> A -> A; nmul : A -> A -> A; ndiv : A -> A -> A; nexp : A -> A; nopp : A -> A; nltb : A -> A -> bool; nofZ : Z -> A }.
Arguments nadd {A}. Arguments nmul {A}. Arguments ndiv {A}. Arguments nexp {A}. Arguments nopp {A}. Arguments nltb {A}. Arguments nofZ {A}.
Section M.
Context {A : Type} (N : Num A).
Fixpoint zint (beta cutoff : A) (lv : list (A * A)) : A :=
  match lv with
  | [] => nofZ N 0
  | (J, E) :: r => if nltb N E cutoff then nadd N (nmul N (nadd N (nmul N (nofZ N 2) J) (nofZ N 1)) (nexp N (nopp N (nmul N beta E)))) (zint beta cutoff r) else nofZ N 0
  end.
End M.
Definition RNum : Num R := {| nadd := Rplus; nmul := Rmult; ndiv := Rdiv; nexp := exp; nopp := Ropp; nltb := fun x y => if Rlt_dec x y then true else false; nofZ := IZR |}.
Lemma zint_nil b c : zint RNum b c [] = 0%R. Proof. reflexivity. Qed.
Require Extraction. Require Import ExtrOcamlBasic.
Extraction "zint.ml" zint.
