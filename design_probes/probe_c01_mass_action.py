import warnings, numpy as np
warnings.simplefilter("ignore")
import minplascalc as mpc
from minplascalc import species as sp, units as u
def check(names,x0,T,P):
    m=mpc.mixture.lte_from_names(names,x0,T,P)
    n=m.calculate_composition(); E0=m._LTE__E0; dE=m._LTE__dE
    kT=u.k_b*T
    mu=np.array([E0[i]/kT-np.log(s.translational_partition_function(T)*s.internal_partition_function(T,dE[i])/n[i]) for i,s in enumerate(m.species)])
    els=sorted({e for s in m.species for e in s.stoichiometry})
    A=np.array([[s.stoichiometry.get(e,0) for e in els]+[s.charge_number] for s in m.species],float)
    x=n/n.sum()
    w=np.sqrt(x)  # weight major species
    lam,*_=np.linalg.lstsq(A*w[:,None],mu*w,rcond=None)
    res=mu-A@lam
    b=A.T@n
    return x,res,b/n.sum()
names=["O2","O2+","O","O-","O+","O++"]
for T in [1000,3000,5000,8000,12000,20000,30000]:
    x,res,b=check(names,[1,0,0,0,0,0],T,101325)
    print(T," ".join("%s:%.1e/%.1e"%(nm,xi,ri) for nm,xi,ri in zip(names+["e"],x,res)),"charge/n=%.1e"%b[-1])
names2=["O2","O2+","O","O+","O++","CO","CO+","C","C+","C++","SiO","SiO+","Si","Si+","Si++"]
x,res,b=check(names2,[0,0,0,0,0,0.5,0,0,0,0,0.5,0,0,0,0],7000,101325)
print(" ".join("%s:%.1e/%.1e"%(nm,xi,ri) for nm,xi,ri in zip(names2+["e"],x,res)), b)
