import json, numpy as np, os, tempfile, math
import minplascalc as mpc
from minplascalc import species as sp, parsers
# C16
def rt(s):
    f=tempfile.mktemp(suffix=".json"); s.to_file(f); r=sp.from_file(f); os.remove(f); return r
for n in ["O","O2","O2+","Si+"]:
    s=sp.from_name(n); r=rt(s)
    print(n, type(r).__name__, {k:(s.__dict__[k]==r.__dict__[k]) for k in s.__dict__ if s.__dict__[k]!=r.__dict__[k]} or "all equal", list(s.__dict__.keys())==list(r.__dict__.keys()))
p=sp.Polyatomic("H2O",{"H":2,"O":1},0.018,0,2e-18,1.5e-18,False,2,1.0,[3e-20,7e-20,7.4e-20],[5e-22,2.8e-22,1.8e-22],1.5e-30,1,4.0,(1e-20,0.0,0.0,0.0),[(5e-7,1e8,2e-18)],["x"])
r=rt(p); print(type(r).__name__, [k for k in p.__dict__ if p.__dict__[k]!=r.__dict__[k]])
print("poly Z", p.internal_partition_function(3000,0)==r.internal_partition_function(3000,0), p.internal_energy(3000,0)==r.internal_energy(3000,0))
# polyatomic with 2 atoms?
try:
    p2=sp.Polyatomic("XY",{"X":1,"Y":1},0.018,0,2e-18,1.5e-18,True,2,1.0,[3e-20],[5e-22,2.8e-22,1.8e-22],1.5e-30,1,4.0,None,[],["x"])
    print(type(rt(p2)).__name__)
except Exception as e: print("poly 2 atoms:",type(e).__name__,e)
# monatomic with tuple levels
m=sp.Monatomic("X",{"X":1},0.01,0,float("inf"),[(0.5,0.0),(1.5,1e-19)],1e-30,2,None,1e-20,[],[])
r=rt(m); print("mono", [ (k,m.__dict__[k],r.__dict__[k]) for k in m.__dict__ if m.__dict__[k]!=r.__dict__[k]])
print(m.internal_partition_function(5000,0)==r.internal_partition_function(5000,0))
# int electron cross-section
m=sp.Monatomic("X",{"X":1},0.01,0,2e-18,[(0.5,0.0)],1e-30,2,3.0,1,[],[])
from minplascalc import functions_transport as ft
try: print(ft.Qe(m,1,1,5000.))
except Exception as e: print("Qe int:",type(e).__name__,e)
# C17
for s in ["1.5 | 2 |","[3/2] | 12.5e+3? |"," +1 | (2.0) | x3 |","1/2|","| 1 |","1 2|","1e5|","1_0|","nan|","0x10|","1/0|","١٢|","1 | 2","","|","-1.5|"," 1\t|\n2|"]:
    try: print(repr(s), parsers.nist_string(s))
    except Exception as e: print(repr(s), type(e).__name__, e)
for d in [["1|2|","x|1|"],["1|2|3|"],["1|"],["1/0|2|"]]:
    try: print(d, parsers.nist_energy_levels(d))
    except Exception as e: print(d, type(e).__name__, e)
