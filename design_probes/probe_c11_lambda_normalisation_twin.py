import numpy as np, math, inspect, copy
from minplascalc import species as sp, functions_transport as ft, units as u
class Fake:
    def __init__(s,species,n,T): s.species=tuple(species); s._n=np.array(n,float); s.T=T
    def calculate_composition(s): return s._n
    def calculate_density(s): return float(sum(ni*x.molar_mass for ni,x in zip(s._n,s.species))/u.N_a)
O=sp.from_name("O"); O2=copy.deepcopy(O); O2.name="Ob"
sigma2=3e-19
ft.Qij=lambda si,ni,sj,nj,l,s,T: sigma2   # rigid spheres: all reduced integrals equal
def lam_prime(mix):
    n=mix.calculate_composition(); masses=np.array([x.molar_mass/u.N_a for x in mix.species]); N=len(n)
    qq=ft.q(mix); b=np.zeros(4*N); b[N:2*N]=-15/2*np.sqrt(np.pi)*n
    a=np.linalg.solve(qq,b).reshape(4,N)
    return -5/4*u.k_b*np.sum(n*np.sqrt(2*u.k_b*mix.T/masses)*a[1])
T=5000.; m=O.molar_mass/u.N_a
lam1=75/64*u.k_b*math.sqrt(math.pi*u.k_b*T/m)/sigma2
f=Fake([O,O2],[3e23,7e23],T)
print("code coefficients     : lambda'/lambda1 =", lam_prime(f)/lam1)
def fix(fn,a,b):
    src=inspect.getsource(fn.py_func).replace("@njit\n","")
    assert src.count(a)==1; src=src.replace(a,b)
    ns={"np":np,"delta":lambda i,j:1 if i==j else 0}; exec(src,ns); return ns[fn.py_func.__name__]
ft._q22_jit=fix(ft._q22_jit,"* (4 * (masses[j] ** 2 + 7 * masses[l] ** 2))","* (4 * masses[j] ** 2 + 7 * masses[l] ** 2)")
ft._q23_jit=fix(ft._q23_jit,"* (8 * (masses[j] ** 2 + 7 * masses[l] ** 2))","* (8 * masses[j] ** 2 + 7 * masses[l] ** 2)")
print("corrected coefficients: lambda'/lambda1 =", lam_prime(f)/lam1, "(Chapman-Cowling third approximation: 1.02482)")
f2=Fake([O,O2],[5e23,5e23],T); print("other split:", lam_prime(f2)/lam1)
