From Coq Require Import Reals Lra.
From Coquelicot Require Import Coquelicot.
From Interval Require Import Tactic.
Open Scope R_scope.

(* 1. Interval on a diatomic partition function at a concrete float input *)
Definition kb := 1380649 / 10^29.
Definition zvib (w T : R) := exp (- w / (2 * (kb * T))) / (1 - exp (- w / (kb * T))).
Goal Rabs (zvib (3139 / 10^23) 300 - 0.0226) <= 0.001.
Proof. unfold zvib, kb. interval with (i_prec 60). Qed.

(* 2. auto_derive on ln of product *)
Definition lnZ (w be T : R) := ln (Rpower T (3/2) * (zvib w T * (kb * T / be))).
Lemma d_lnZ w be T : 0 < T -> 0 < w -> 0 < be ->
  is_derive (lnZ w be) T ( (3/2 * (kb*T) + kb*T + w / (2 * tanh (w / (2*(kb*T))))) / (kb * T^2)).
Proof.
  intros HT Hw Hb. unfold lnZ, zvib, Rpower.
  auto_derive.
  (* two goals remain: positivity side conditions, and a field-able equation *)
Abort.
