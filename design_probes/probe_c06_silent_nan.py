import warnings, json, numpy as np, itertools, tempfile, os
import minplascalc as mpc
from minplascalc import species as sp
names=["O2","O2+","O","O-","O+","O++"]
def run(names,x0,T,P,ctl=(1e20,1e-10,1000)):
    s=[sp.from_name(n) for n in names]
    m=mpc.mixture.LTE(s,x0,T,P,*ctl)
    with warnings.catch_warnings(record=True) as w:
        warnings.simplefilter("always")
        try:
            n=m.calculate_composition()
        except Exception as e:
            return ("exc",type(e).__name__,str(e)[:60]),None
    return [str(x.message)[:30] for x in w if "Minimiser" in str(x.message)], n
for T in [200,300,500,700,1000,2000,30000,40000,60000]:
    for P in [1e2,1e5,1e8]:
        w,n=run(names,[1,0,0,0,0,0],T,P)
        if n is None: print(T,P,w); continue
        ok=np.all(np.isfinite(n)) and np.all(n>0)
        print(T,P,"warn" if w else "nowarn", "finite+pos" if ok else "BAD", "sum*kT/P=%.15g"%(n.sum()*1.380649e-23*T/P), n if not ok else "")
