import sympy as sp, json, time
s,t,a,b,y,c = sp.symbols('s t a b y c')
NMAX=1
R=sp.Rational
def trunc(e):
    p = sp.Poly(sp.expand(e), s, t); return sum(co*s**i*t**j for (i,j),co in p.terms() if i<=NMAX and j<=NMAX)
def mul(*es):
    out=1
    for e in es: out=trunc(out*e)
    return out
def geom(): return sum(s**k for k in range(1,NMAX+1)), sum(t**k for k in range(1,NMAX+1))
S,T = geom()
def powser(base, r):  # (1+x)^r, x=base-1 no const term
    x = trunc(base-1); out=1; term=1
    for k in range(1,2*NMAX+1):
        term = mul(term,x)*(r-(k-1))/k; out=out+term
    return trunc(out)
def expser(x):
    x=trunc(x); out=1; term=1
    for k in range(1,2*NMAX+1):
        term=mul(term,x)/k; out=out+term
    return trunc(out)
def build(kind):
    if kind=='12':
        A = 1 + S*a**2 + T*b**2; D = 1 + S*b**2 + T*a**2; Ai = powser(A,-1); beta=b
        X = mul(S-T,Ai)
        P1 = b - a**2*b*X; Q1 = -a - a*b**2*X
        B2 = a**2*b**2*mul(S-T,S-T)*y
        Upoly = R(5,2)*a**2*b**2*mul(Ai,Ai) + R(10,3)*a*b*mul(P1,Q1,Ai)*y + R(2,3)*mul(P1,P1,Q1,Q1)*y**2
        Uexp = -(D-1)*y + mul(B2,Ai)
        p1 = b - a**2*b*mul(S,Ai); p2 = a**2*b*mul(T,Ai); q1 = -a*b**2*mul(S,Ai); q2 = -a + a*b**2*mul(T,Ai)
        Bp2 = a**2*b**2*y*(mul(S,S)+mul(T,T)-2*mul(S,T)*c)
    else:
        A = 1 + (S+T)*a**2; D = 1 + (S+T)*b**2; Ai = powser(A,-1); beta=a
        P = b - a**2*b*mul(S+T,Ai)
        B2 = a**2*b**2*mul(S+T,S+T)*y
        Upoly = R(5,2)*a**4*mul(Ai,Ai) + R(10,3)*a**2*mul(P,P,Ai)*y + R(2,3)*mul(P,P,P,P)*y**2
        Uexp = -(D-1)*y + mul(B2,Ai)
        p1 = b - a**2*b*mul(S,Ai); p2 = -a**2*b*mul(T,Ai); q1 = -a**2*b*mul(S,Ai); q2 = b - a**2*b*mul(T,Ai)
        Bp2 = a**2*b**2*y*(mul(S,S)+mul(T,T)+2*mul(S,T)*c)
    pq = y*(mul(p1,q1)+mul(p2,q2)+(mul(p1,q2)+mul(p2,q1))*c)
    pp = y*(mul(p1,p1)+mul(p2,p2)+2*mul(p1,p2)*c)
    qq = y*(mul(q1,q1)+mul(q2,q2)+2*mul(q1,q2)*c)
    Vpoly = R(5,2)*a**2*beta**2*mul(Ai,Ai) + R(10,3)*a*beta*mul(pq,Ai) + mul(pq,pq) - R(1,3)*mul(pp,qq)
    Vexp = -(D-1)*y + mul(Bp2,Ai)
    pref = mul(powser(1-s,R(-7,2)), powser(1-t,R(-7,2)), powser(A,R(-3,2)))
    return sp.expand(mul(pref,Upoly,expser(Uexp)) - mul(pref,Vpoly,expser(Vexp)))
out={}
for kind in ['12','11']:
    t0=time.time(); Gs=build(kind); P=sp.Poly(Gs,s,t)
    for (p,q),co in P.terms():
        pc = sp.Poly(sp.expand(co), y, c); byr={}
        for (r,l),k in pc.terms(): byr.setdefault(r,{})[l]=k
        tab={}
        for r,d in byr.items():
            assert sp.simplify(sum(d.values()).subs(b, sp.sqrt(1-a**2)))==0, (kind,p,q,r,d)
            for l,k in d.items():
                if l>=1: tab[(l,r)] = sp.expand(-k)
        out[(kind,p,q)]=tab
    print(kind,"done",time.time()-t0,flush=True)
for key in sorted(out): print(key, {k:sp.factor(v) for k,v in out[key].items()})
json.dump({f"{k[0]}|{k[1]}|{k[2]}": {f"{l}|{r}": str(v) for (l,r),v in tab.items()} for k,tab in out.items()}, open("brackets_t.json","w"))
