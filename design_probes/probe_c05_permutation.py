import warnings, numpy as np, random, time
import minplascalc as mpc
from minplascalc import species as sp
warnings.simplefilter("ignore")
names=["O2","O2+","O","O-","O+","O++"]
x0=[1,0,0,0,0,0]
def props(names,x0,T,P):
    m=mpc.mixture.LTE([sp.from_name(n) for n in names],x0,T,P,1e20,1e-10,1000)
    with warnings.catch_warnings(record=True) as w:
        warnings.simplefilter("always")
        n=m.calculate_composition()
    warned=any("Minimiser" in str(x.message) for x in w)
    return warned,dict(zip(list(names)+["e"],n)), dict(rho=m.calculate_density(),h=m.calculate_enthalpy(),cp=m.calculate_heat_capacity(),mu=m.calculate_viscosity(),k=m.calculate_thermal_conductivity(),s=m.calculate_electrical_conductivity(),eps=m.calculate_total_emission_coefficient())
random.seed(1)
for T in [1000,3500,6000,10000,15000,25000]:
    t=time.time()
    w0,n0,p0=props(names,x0,T,101325)
    idx=list(range(6)); random.shuffle(idx)
    nn=[names[i] for i in idx]; xx=[x0[i] for i in idx]
    w1,n1,p1=props(nn,xx,T,101325)
    ntot=sum(n0.values())
    print(T, nn, "warn",w0,w1, "max comp rel (x>1e-7):", max(abs(n1[k]-n0[k])/n0[k] for k in n0 if n0[k]/ntot>1e-7), {k:"%.1e"%(abs(p1[k]-p0[k])/abs(p0[k]) if p0[k] else abs(p1[k])) for k in p0}, "%.1fs"%(time.time()-t))
