import warnings, json, numpy as np
import minplascalc as mpc
from minplascalc import species as sp
names=["O2","O2+","O","O-","O+","O++"]
def fresh(T,P=101325): return mpc.mixture.lte_from_names(names,[1,0,0,0,0,0],T,P)
# C03 probes
m=fresh(1000)
try:
    print("fresh species_enthalpies:", m.calculate_species_enthalpies())
except Exception as e: print("fresh species_enthalpies raises", type(e).__name__, e)
m=fresh(10000); m.calculate_composition(); h_ref=m.calculate_species_enthalpies()
m2=fresh(1000); m2.calculate_composition(); m2.T=10000; h_stale=m2.calculate_species_enthalpies()
print("stale vs ref equal?", np.array_equal(h_ref,h_stale), (h_stale-h_ref)/np.abs(h_ref))
m3=fresh(10000); m3.calculate_heat_capacity(); h3=m3.calculate_species_enthalpies()
print("after Cp equal?", np.array_equal(h_ref,h3), np.max(np.abs((h3-h_ref)/h_ref)))
m4=fresh(10000); m4.calculate_thermal_conductivity(); h4=m4.calculate_species_enthalpies()
print("after tc equal?", np.array_equal(h_ref,h4))
# C07 sortedness of shipped levels
import glob,os
for f in sorted(glob.glob(os.path.dirname(sp.__file__)+"/data/species/*.json")):
    d=json.load(open(f))
    if "energy_levels" in d:
        E=[e for j,e in d["energy_levels"]]
        uns=[i for i in range(1,len(E)) if E[i]<E[i-1]]
        ie=d["ionisation_energy"]
        above=[i for i,e in enumerate(E) if e>=ie]
        first_above=above[0] if above else None
        missed=[i for i,e in enumerate(E) if first_above is not None and i>first_above and e<ie]
        print(os.path.basename(f), len(E), "unsorted at",uns[:5], "n_unsorted",len(uns), "IE",ie, "first>=IE",first_above,"levels below IE after break:",len(missed), "ecs", type(d["electron_cross_section"]).__name__, d["electron_cross_section"])
    else:
        print(os.path.basename(f), "diatomic", "ecs", type(d["electron_cross_section"]).__name__, d["electron_cross_section"], d.get("ionisation_energy"), d.get("dissociation_energy"))
