import warnings, numpy as np, itertools, glob, os
warnings.simplefilter("ignore")
import minplascalc as mpc
from minplascalc import species as sp, functions_transport as ft, units as u
allnames=[os.path.basename(f)[:-5] for f in sorted(glob.glob(os.path.dirname(sp.__file__)+"/data/species/*.json"))]
S=[sp.from_name(n) for n in allnames]+[sp.Electron()]
LS=[(1,1),(1,2),(1,3),(1,4),(1,5),(1,6),(1,7),(2,2),(2,3),(2,4),(2,5),(2,6),(3,3),(3,4),(3,5),(4,4)]
bad=[];cnt=0; asym=0; maxasym=0
for T in [300,1000,5000,15000,30000]:
  for a,b in itertools.product(S,S):
    for ne in [1e14,1e20,1e24]:
      for (l,s) in LS:
        try:
            q1=ft.Qij(a,ne,b,ne*0.7,l,s,T); q2=ft.Qij(b,ne*0.7,a,ne,l,s,T)
        except Exception as e:
            bad.append((T,a.name,b.name,l,s,type(e).__name__)); continue
        cnt+=1
        if not np.isfinite(q1): bad.append((T,a.name,b.name,l,s,"nonfinite",q1)); continue
        rel=abs(q1-q2)/max(abs(q1),1e-300)
        maxasym=max(maxasym,rel)
        if rel>1e-9: bad.append((T,a.name,b.name,l,s,"asym",q1,q2))
        coul = a.charge_number!=0 and b.charge_number!=0
        if q1<=0:
            if coul:
                cl=ft.cl_charged(a,b,ne,ne*0.7,T)
                if cl>2: bad.append((T,a.name,b.name,l,s,"coulomb<=0 with cl>2",cl,q1))
            else: bad.append((T,a.name,b.name,l,s,"nonpositive",q1))
      if a.charge_number==0 or b.charge_number==0: break
print("evaluated",cnt,"max asym",maxasym,"bad",len(bad))
from collections import Counter
print(Counter((x[1],x[2],x[5]) for x in bad).most_common(20))
print(bad[:10])
print([x for x in bad if x[1]!='e'])
