From Coq Require Import Reals Lra Psatz.
Open Scope R_scope.
Lemma q11_diag_branch (x z w ni nl Q11 Q12 Q13 Q22 : R) :
  0 < x -> 0 < z -> 0 < w -> w*w = x*x + z*z ->
  8 * ni * nl * z / w^5 * (5/4*(6*x^4+5*z^4)*Q11 - 15*z^4*Q12 + 12*z^4*Q13 + 4*x^2*z^2*Q22)
  = x * ni * nl * 8 * (w/(x*z)) *
    ( 5/4*(z^2/w^2)*(11*x^4/w^4 - 10*x^2/w^2 + 5) * (1*Q11)
    + 5*(z^4/w^4)*(x^2/w^2 - 1) * (3*Q12)
    + (z^6/w^6) * (12*Q13)
    + 2*(x^2/w^2)*(z^4/w^4) * (2*Q22)).
Proof.
  intros Hx Hz Hw H.
  assert (Hw2 : w^2 = x^2 + z^2) by (simpl; lra).
  assert (HW : 0 < x^2 + z^2) by nra.
  replace (w^5) with ((x^2+z^2)^2 * w) by (rewrite <- Hw2; ring).
  replace (w^4) with ((x^2+z^2)^2) by (rewrite <- Hw2; ring).
  replace (w^6) with ((x^2+z^2)^3) by (rewrite <- Hw2; ring).
  rewrite Hw2.
  Time field_simplify_eq; [| repeat split; lra].
  (* remaining: polynomial identity possibly still containing w^2 *)
  Time (try ring).
  all: replace (w^2) with (x^2+z^2) by (symmetry; exact Hw2).
  Time ring.
Qed.
