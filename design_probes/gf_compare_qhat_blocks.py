import json, numpy as np, math
src=open("cmp.py").read().split("args = lambda")[0].replace('open("brackets.json")','open("brackets_t.json")')
exec(src)
from minplascalc import functions_transport as ft
A=lambda *ks:[Qs[k] for k in ks]
code={(0,0): ft._qhat00_jit(*A((1,1),(2,2)),masses,nu,n),
      (0,1): ft._qhat01_jit(*A((1,1),(1,2),(2,2),(2,3)),masses,nu,n),
      (1,1): ft._qhat11_jit(*A((1,1),(1,2),(1,3),(2,2),(2,3),(2,4),(3,3)),masses,nu,n)}
for (m,p),C in code.items():
    Qt=Qtilde(m,p)
    ratio=C/Qt
    # guess scaling: row factor masses[i]**alpha
    r2 = ratio/np.sqrt(masses)[:,None]
    print((m,p),"ratio/sqrt(m_i): min %.12g max %.12g"%(r2.min(),r2.max()))
# transposes: qhat10 = m_j/m_i qhat01
Qt10=Qtilde(1,0); C10 = masses[None,:]/masses[:,None]*code[(0,1)]
r=C10/Qt10/np.sqrt(masses)[:,None]; print("(1,0)",r.min(),r.max())
