# Generating-function derivation of Sonine bracket integrals (vector type), hand-reduced closed forms.
import sympy as sp, json, itertools, time
s,t,a,b,y,c = sp.symbols('s t a b y c')
NMAX=3
def trunc(e):
    # truncate bivariate series in s,t to degree <=NMAX each
    e = sp.expand(e)
    p = sp.Poly(e, s, t)
    return sum(co*s**i*t**j for (i,j),co in p.terms() if i<=NMAX and j<=NMAX)
def ser(e):
    # series in s then t up to NMAX
    e = sp.series(e, s, 0, NMAX+1).removeO()
    e = sp.series(sp.expand(e), t, 0, NMAX+1).removeO()
    return trunc(e)
S = s/(1-s); T = t/(1-t)
def build(kind):
    if kind=='12':
        A = 1 + S*a**2 + T*b**2; D = 1 + S*b**2 + T*a**2
        B2 = a**2*b**2*(S-T)**2*y; gB = a*b*(S-T)*y
        Upoly = -a*b*y - (b**2-a**2)*gB/A + a*b*(sp.Rational(3,2)/A + B2/A**2)
        Uexp = -(D-1)*y + B2/A
        Bp2 = a**2*b**2*y*(S**2+T**2-2*S*T*c); c1Bp = a*b*y*(b**2*S - b**2*T*c - a**2*S*c + a**2*T)
        Vpoly = -a*b*y*c - c1Bp/A + a*b*(sp.Rational(3,2)/A + Bp2/A**2)
        Vexp = -(D-1)*y + Bp2/A
    else:
        A = 1 + (S+T)*a**2; D = 1 + (S+T)*b**2
        B2 = a**2*b**2*(S+T)**2*y; gB = a*b*(S+T)*y
        Upoly = b**2*y - 2*a*b*gB/A + a**2*(sp.Rational(3,2)/A + B2/A**2)
        Uexp = -(D-1)*y + B2/A
        Bp2 = a**2*b**2*y*(S**2+T**2+2*S*T*c); c1Bp = a**2*b**2*y*(S+T)*(1+c)
        Vpoly = b**2*y*c - c1Bp/A + a**2*(sp.Rational(3,2)/A + Bp2/A**2)
        Vexp = -(D-1)*y + Bp2/A
    pref = (1-s)**sp.Rational(-5,2)*(1-t)**sp.Rational(-5,2)*A**sp.Rational(-3,2)
    pref_s = ser(pref)
    def expser(x):
        xs = ser(x)   # no constant term
        out = 1; term = 1
        for k in range(1, 2*NMAX+1):
            term = trunc(term*xs)/k
            out = out + term
        return trunc(out)
    Us = trunc(trunc(pref_s*ser(Upoly))*expser(Uexp))
    Vs = trunc(trunc(pref_s*ser(Vpoly))*expser(Vexp))
    return sp.expand(Us - Vs)
out={}
for kind in ['12','11']:
    t0=time.time()
    Gs = build(kind)
    P = sp.Poly(Gs, s, t)
    for (p,q),co in P.terms():
        # co is polynomial in a,b,y,c ; write as sum_r y^r sum_l p_l c^l, convert to (1-c^l) basis
        pc = sp.Poly(sp.expand(co), y, c)
        tab={}
        byr={}
        for (r,l),k in pc.terms():
            byr.setdefault(r,{})[l]=k
        for r,d in byr.items():
            assert sp.simplify(sum(d.values()).subs(b, sp.sqrt(1-a**2)))==0, (kind,p,q,r,d)
            for l,k in d.items():
                if l>=1: tab[(l,r)] = sp.expand(-k)
        out[(kind,p,q)] = tab
    print(kind, "done", time.time()-t0, flush=True)
# print a few for sanity
for key in [('12',0,0),('12',0,1),('12',1,1),('11',0,0),('11',0,1),('11',1,1)]:
    print(key, {k:sp.factor(v.subs(b,sp.sqrt(1-a**2))) if False else sp.factor(v) for k,v in out[key].items()})
ser_out = {f"{k[0]}|{k[1]}|{k[2]}": {f"{l}|{r}": str(v) for (l,r),v in tab.items()} for k,tab in out.items()}
json.dump(ser_out, open("brackets.json","w"), indent=0)
