import json, numpy as np, math
from minplascalc import functions_transport as ft
br = json.load(open("brackets.json"))
rng = np.random.default_rng(0)
nu = 4
masses = 10**rng.uniform(-30,-25,nu); masses[-1]=9.1e-31
n = 10**rng.uniform(18,24,nu)
Qs = {}
for (l,r) in [(1,1),(1,2),(1,3),(1,4),(1,5),(1,6),(1,7),(2,2),(2,3),(2,4),(2,5),(2,6),(3,3),(3,4),(3,5),(4,4)]:
    M = 10**rng.uniform(-20,-18,(nu,nu)); Qs[(l,r)] = (M+M.T)/2
def omega(l,r,i,k):
    # Omega^{(l)}(r) in units where sqrt(kT/2pi)=1
    mu = masses[i]*masses[k]/(masses[i]+masses[k])
    fac = math.factorial(r+1)/2*(1-(1+(-1)**l)/(2*(1+l)))
    return fac*Qs[(l,r)][i,k]/math.sqrt(mu)
def bracket(kind,p,q,i,k):
    tab = br[f"{kind}|{p}|{q}"]
    M1 = masses[i]/(masses[i]+masses[k]); M2 = 1-M1
    env = dict(a=math.sqrt(M1), b=math.sqrt(M2))
    tot=0.0
    for key,expr in tab.items():
        l,r = map(int,key.split("|"))
        tot += eval(expr, {}, env)*omega(l,r,i,k)
    return 8*tot
def Qtilde(m,p):
    out = np.zeros((nu,nu))
    for i in range(nu):
        for j in range(nu):
            for l in range(nu):
                v = 0.0
                if i==j: v += bracket('11',m,p,i,l)
                if j==l: v += bracket('12',m,p,i,l)
                out[i,j] += n[i]*n[l]*v
    return out
args = lambda *ks: [Qs[k] for k in ks]
code = {
 (0,0): ft._q00_jit(Qs[(1,1)], masses, nu, n),
 (0,1): ft._q01_jit(*args((1,1),(1,2)), masses, nu, n),
 (1,1): ft._q11_jit(*args((1,1),(1,2),(1,3),(2,2)), masses, nu, n),
 (0,2): ft._q02_jit(*args((1,1),(1,2),(1,3)), masses, nu, n),
 (1,2): ft._q12_jit(*args((1,1),(1,2),(1,3),(1,4),(2,2),(2,3)), masses, nu, n),
 (2,2): ft._q22_jit(*args((1,1),(1,2),(1,3),(1,4),(1,5),(2,2),(2,3),(2,4),(3,3)), masses, nu, n),
 (0,3): ft._q03_jit(*args((1,1),(1,2),(1,3),(1,4)), masses, nu, n),
 (1,3): ft._q13_jit(*args((1,1),(1,2),(1,3),(1,4),(1,5),(2,2),(2,3),(2,4)), masses, nu, n),
 (2,3): ft._q23_jit(*args((1,1),(1,2),(1,3),(1,4),(1,5),(1,6),(2,2),(2,3),(2,4),(2,5),(3,3),(3,4)), masses, nu, n),
 (3,3): ft._q33_jit(*args((1,1),(1,2),(1,3),(1,4),(1,5),(1,6),(1,7),(2,2),(2,3),(2,4),(2,5),(2,6),(3,3),(3,4),(3,5),(4,4)), masses, nu, n),
}
for (m,p),C in code.items():
    Qt = Qtilde(m,p)*np.sqrt(masses)[:,None]
    if (m,p)==(0,0):
        # remove Devoto's constraint term from the code block for comparison
        extra = np.zeros((nu,nu))
        for i in range(nu):
            for j in range(nu):
                for l in range(nu):
                    if i!=l:
                        extra[i,j] += 8*n[l]*masses[i]**.5/(masses[i]+masses[l])**.5*Qs[(1,1)][i,l]*(-n[j]*(masses[l]*masses[j])**.5/masses[i])
        C = C - extra
    ratio = C/Qt
    print((m,p), "ratio min/max", ratio.min(), ratio.max(), "maxrel dev", np.max(np.abs(ratio/ratio.flat[0]-1)))
