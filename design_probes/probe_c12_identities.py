import warnings, numpy as np
warnings.simplefilter("ignore")
import minplascalc as mpc
from minplascalc import species as sp, functions_transport as ft, units as u
names=["O2","O2+","O","O-","O+","O++"]
m=mpc.mixture.lte_from_names(names,[1,0,0,0,0,0],9000,101325)
n=m.calculate_composition()
masses=np.array([s.molar_mass/u.N_a for s in m.species])
DT=ft.DTi(m); print("sum DTi / max|DTi| =", DT.sum()/np.abs(DT).max())
D=ft.Dij(m); print("diag D:", np.abs(np.diag(D)).max())
worst=0
for h in range(len(n)):
    for k in range(len(n)):
        v=sum(masses[i]*(masses[h]*D[i,h]-masses[k]*D[i,k]) for i in range(len(n)))
        sc=sum(abs(masses[i]*masses[h]*D[i,h])+abs(masses[i]*masses[k]*D[i,k]) for i in range(len(n)))
        worst=max(worst,abs(v)/sc)
print("diffusion identity worst rel:",worst)
# splitting: duck-typed mixture
class Fake:
    def __init__(s,species,n,T,base): s.species=tuple(species); s._n=np.array(n); s.T=T; s.base=base
    def calculate_composition(s): return s._n
    def calculate_density(s): return float(sum(ni*sp_.molar_mass for ni,sp_ in zip(s._n,s.species))/u.N_a)
spc=list(m.species); 
f0=Fake(spc,n,m.T,m)
print("visc fake vs real", ft.viscosity(f0), m.calculate_viscosity(), "sigma", ft.electrical_conductivity(f0), m.calculate_electrical_conductivity())
import copy
k=2 # split O
O2=copy.deepcopy(spc[k]); O2.name="Ob"
for frac in [0.3,0.5,0.999]:
    sp2=spc[:k+1]+[O2]+spc[k+1:]
    n2=list(n[:k])+[n[k]*frac,n[k]*(1-frac)]+list(n[k+1:])
    f=Fake(sp2,n2,m.T,m)
    print(frac,"visc rel diff",ft.viscosity(f)/ft.viscosity(f0)-1,"sigma rel diff",ft.electrical_conductivity(f)/ft.electrical_conductivity(f0)-1, "sumDT", ft.DTi(f).sum()/np.abs(ft.DTi(f)).max())
