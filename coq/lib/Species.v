(* Species.v — the data a species object carries, as the generated kernels read it.
   The translator maps `self.attr` / `species_i.attr` to the field of the same name. *)
From Coq Require Import ZArith List String.
From MPC Require Import Num.

Inductive skind := KMono | KDi | KPoly | KElectron.

Record species (A : Type) := mkSpecies {
  kind : skind;
  sname : nat;                       (* identity token: 0 = "e"; only ever compared *)
  stoichiometry : list (nat * nat);  (* element id -> count, sorted by element id *)
  molar_mass : A;
  charge_number : Z;
  ionisation_energy : A;
  dissociation_energy : A;
  energy_levels : list (A * A);      (* (J, E) *)
  g0 : A; w_e : A; b_e : A; sigma_s : A;
  linear_yn : bool;
  wi_e : list A;
  abc_e : list A;
  polarisability : A;
  multiplicity : A;
  effective_electrons : option A;
  electron_cross_section : option (A * A * A * A);   (* float d -> (d,0,0,0) as Qe does *)
  emission_lines : list (A * A * A)  (* (wavelength, gA, E_upper) *)
}.
Arguments kind {A}. Arguments sname {A}. Arguments stoichiometry {A}. Arguments molar_mass {A}.
Arguments charge_number {A}. Arguments ionisation_energy {A}. Arguments dissociation_energy {A}.
Arguments energy_levels {A}. Arguments g0 {A}. Arguments w_e {A}. Arguments b_e {A}.
Arguments sigma_s {A}. Arguments linear_yn {A}. Arguments wi_e {A}. Arguments abc_e {A}.
Arguments polarisability {A}. Arguments multiplicity {A}. Arguments effective_electrons {A}.
Arguments electron_cross_section {A}. Arguments emission_lines {A}.

Definition dummy_species {A : Type} (z : A) : species A :=
  mkSpecies A KElectron 0 nil z 0%Z z z nil z z z z false nil nil z z None None nil.
