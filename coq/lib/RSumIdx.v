(* RSumIdx.v — sums over index ranges with Kronecker deltas, and half-integer powers as powers of square roots. *)
From Coq Require Import Reals List Lra Lia Arith.
Import ListNotations.
From MPC Require Import Num RInst StatMech RVec.
Open Scope R_scope.

Definition sumn (n : nat) (f : nat -> R) : R := Rsum (map f (seq 0 n)).
Definition dlt (i j : nat) : R := if Nat.eqb i j then 1 else 0.

Lemma delta_R i j : delta RNum i j = dlt i j.
Proof. reflexivity. Qed.

Lemma sum_left_R l : sum_left RNum l = Rsum l.
Proof.
  unfold sum_left. rnum. assert (G : forall a, fold_left Rplus l a = a + Rsum l).
  { induction l as [|x l IH]; intros a; cbn [fold_left Rsum]; [lra | rewrite IH; lra]. }
  rewrite G. lra.
Qed.

Lemma Rsum_map_ext_in {B} (f g : B -> R) l : (forall x, In x l -> f x = g x) -> Rsum (map f l) = Rsum (map g l).
Proof. intros H. f_equal. apply map_ext_in, H. Qed.

Lemma sumn_ext n f g : (forall i, (i < n)%nat -> f i = g i) -> sumn n f = sumn n g.
Proof. intros H. unfold sumn. apply Rsum_map_ext_in. intros i Hi. apply in_seq in Hi. apply H. lia. Qed.

Lemma sumn_plus n f g : sumn n (fun i => f i + g i) = sumn n f + sumn n g.
Proof. unfold sumn. induction (seq 0 n) as [|x l IH]; cbn [map Rsum]; [lra | rewrite IH; lra]. Qed.
Lemma sumn_minus n f g : sumn n (fun i => f i - g i) = sumn n f - sumn n g.
Proof. unfold sumn. induction (seq 0 n) as [|x l IH]; cbn [map Rsum]; [lra | rewrite IH; lra]. Qed.
Lemma sumn_scal n c f : sumn n (fun i => c * f i) = c * sumn n f.
Proof. unfold sumn. induction (seq 0 n) as [|x l IH]; cbn [map Rsum]; [lra | rewrite IH; lra]. Qed.
Lemma sumn_scal_r n c f : sumn n (fun i => f i * c) = sumn n f * c.
Proof. unfold sumn. induction (seq 0 n) as [|x l IH]; cbn [map Rsum]; [lra | rewrite IH; lra]. Qed.
Lemma sumn_zero n : sumn n (fun _ => 0) = 0.
Proof. unfold sumn. induction (seq 0 n) as [|x l IH]; cbn [map Rsum]; [lra | rewrite IH; lra]. Qed.

Lemma Rsum_delta_l (l : list nat) (g : nat -> R) j :
  NoDup l -> Rsum (map (fun i => dlt i j * g i) l) = if in_dec Nat.eq_dec j l then g j else 0.
Proof.
  induction l as [|x l IH]; intros Hnd; cbn [map Rsum]; [reflexivity|].
  inversion Hnd as [|x' l' Hx Hl]; subst. rewrite (IH Hl). unfold dlt.
  destruct (Nat.eqb_spec x j) as [->|Hne].
  - destruct (in_dec Nat.eq_dec j (j :: l)) as [_|Hn]; [|exfalso; apply Hn; now left].
    destruct (in_dec Nat.eq_dec j l); [contradiction | lra].
  - destruct (in_dec Nat.eq_dec j (x :: l)) as [[He|Hi]|Hn].
    + contradiction.
    + destruct (in_dec Nat.eq_dec j l); [lra | contradiction].
    + destruct (in_dec Nat.eq_dec j l) as [Hi|_]; [exfalso; apply Hn; now right | lra].
Qed.

(* sum_i delta(i,j) g(i) = g(j) for j < n *)
Lemma sumn_delta n g j : (j < n)%nat -> sumn n (fun i => dlt i j * g i) = g j.
Proof.
  intros Hj. unfold sumn. rewrite Rsum_delta_l by apply seq_NoDup.
  destruct (in_dec Nat.eq_dec j (seq 0 n)) as [_|Hn]; [reflexivity|]. exfalso. apply Hn, in_seq. lia.
Qed.
Lemma sumn_delta' n g j : (j < n)%nat -> sumn n (fun i => dlt j i * g i) = g j.
Proof.
  intros Hj. rewrite <- (sumn_delta n g j Hj). apply sumn_ext. intros i _. unfold dlt.
  rewrite (Nat.eqb_sym j i). reflexivity.
Qed.

(* Fubini for finite sums *)
Lemma sumn_swap n m (f : nat -> nat -> R) : sumn n (fun i => sumn m (fun l => f i l)) = sumn m (fun l => sumn n (fun i => f i l)).
Proof.
  unfold sumn. generalize (seq 0 n) as L1. generalize (seq 0 m) as L2. intros L2 L1.
  induction L1 as [|x L1 IH]; cbn [map Rsum].
  - induction L2 as [|y L2 IH2]; cbn [map Rsum]; [lra | rewrite <- IH2; lra].
  - rewrite IH. clear IH. induction L2 as [|y L2 IH2]; cbn [map Rsum]; [lra|]. rewrite <- IH2. lra.
Qed.

(* the antisymmetric delta structure of every Devoto block kills symmetric kernels:
   sum_i sum_l G(i,l) (delta_ij - delta_jl) = 0 *)
Lemma delta_antisym_sum n (G : nat -> nat -> R) j :
  (j < n)%nat -> (forall i l, G i l = G l i) ->
  sumn n (fun i => sumn n (fun l => G i l * (dlt i j - dlt j l))) = 0.
Proof.
  intros Hj Hsym.
  assert (E1 : sumn n (fun i => sumn n (fun l => G i l * dlt i j)) = sumn n (fun l => G j l)).
  { rewrite sumn_swap. apply sumn_ext. intros l _.
    rewrite <- (sumn_delta n (fun i => G i l) j Hj). apply sumn_ext. intros i _. lra. }
  assert (E2 : sumn n (fun i => sumn n (fun l => G i l * dlt j l)) = sumn n (fun i => G i j)).
  { apply sumn_ext. intros i _. rewrite <- (sumn_delta' n (fun l => G i l) j Hj). apply sumn_ext. intros l _. lra. }
  transitivity (sumn n (fun i => sumn n (fun l => G i l * dlt i j)) - sumn n (fun i => sumn n (fun l => G i l * dlt j l))).
  - rewrite <- sumn_minus. apply sumn_ext. intros i _. rewrite <- sumn_minus. apply sumn_ext. intros l _. lra.
  - rewrite E1, E2. rewrite (sumn_ext n (fun i => G i j) (fun l => G j l)) by (intros; apply Hsym). lra.
Qed.

(* ---- half-integer powers ---- *)
Lemma Rpower_half_nat x (k : nat) : 0 < x -> Rpower x (INR k / 2) = sqrt x ^ k.
Proof.
  intros Hx. rewrite <- (Rpower_sqrt x Hx). rewrite <- Rpower_pow by (apply exp_pos).
  rewrite Rpower_mult. f_equal. field.
Qed.
Lemma Rpower_half_Z x (k : nat) : 0 < x -> Rpower x (IZR (Z.of_nat k) / IZR 2) = sqrt x ^ k.
Proof. intros Hx. rewrite <- INR_IZR_INZ. now apply Rpower_half_nat. Qed.

Lemma sqrt_div_pos x y : 0 < x -> 0 < y -> sqrt (x / y) = sqrt x / sqrt y.
Proof. intros Hx Hy. apply sqrt_div_alt. exact Hy. Qed.
