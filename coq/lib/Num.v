(* Num.v — the numeric carrier every generated kernel is parametric in.
   A record of operations passed as an ordinary argument (nothing is postulated).
   Instances: RNum (theorems, lib/RInst.v); OCaml doubles (built by the extraction
   driver, extract/driver.ml); QNum (exact computations, lib/QInst.v). *)
From Coq Require Import ZArith List.
Import ListNotations.

Record Num (A : Type) := mkNum {
  nadd : A -> A -> A;
  nsub : A -> A -> A;
  nmul : A -> A -> A;
  ndiv : A -> A -> A;
  nopp : A -> A;
  nabs : A -> A;
  nexp : A -> A;
  nln : A -> A;
  nsqrt : A -> A;
  ntanh : A -> A;
  nrpow : A -> A -> A;      (* x ** y, real exponent *)
  npow : A -> nat -> A;     (* x ** n, literal natural exponent *)
  ngamma : A -> A;          (* scipy.special.gamma *)
  nofZ : Z -> A;
  npi : A;
  nltb : A -> A -> bool;    (* x < y  *)
  nleb : A -> A -> bool;    (* x <= y *)
  neqb : A -> A -> bool     (* x == y *)
}.
Arguments nadd {A}. Arguments nsub {A}. Arguments nmul {A}. Arguments ndiv {A}.
Arguments nopp {A}. Arguments nabs {A}. Arguments nexp {A}. Arguments nln {A}.
Arguments nsqrt {A}. Arguments ntanh {A}. Arguments nrpow {A}. Arguments npow {A}.
Arguments ngamma {A}. Arguments nofZ {A}. Arguments npi {A}. Arguments nltb {A}.
Arguments nleb {A}. Arguments neqb {A}.

(* physical constants read from minplascalc.units: fields, so theorems hold for
   every positive value and the driver passes the values Python actually uses *)
Record Units (A : Type) := mkUnits {
  k_b : A; N_a : A; h_pl : A; hbar : A; c_light : A; e_ch : A; m_e : A;
  epsilon_0 : A; R_gas : A; K_to_eV : A; J_to_eV : A;
  ke_c : A;      (* functions_transport.ke  *)
  egamma : A     (* functions_transport.egamma *)
}.
Arguments k_b {A}. Arguments N_a {A}. Arguments h_pl {A}. Arguments hbar {A}.
Arguments c_light {A}. Arguments e_ch {A}. Arguments m_e {A}. Arguments epsilon_0 {A}.
Arguments R_gas {A}. Arguments K_to_eV {A}. Arguments J_to_eV {A}. Arguments ke_c {A}.
Arguments egamma {A}.

Section Sums.
  Context {A : Type} (N : Num A).
  Fixpoint sum_list (l : list A) : A :=
    match l with [] => nofZ N 0 | x :: r => nadd N x (sum_list r) end.
  Fixpoint prod_list (l : list A) : A :=
    match l with [] => nofZ N 1 | x :: r => nmul N x (prod_list r) end.
  Definition sum_left (l : list A) : A := fold_left (nadd N) l (nofZ N 0).
  Definition sum_over {B : Type} (l : list B) (f : B -> A) : A := sum_list (map f l).
  Definition prod_over {B : Type} (l : list B) (f : B -> A) : A := prod_list (map f l).
  Fixpoint map2 {B C D : Type} (f : B -> C -> D) (l1 : list B) (l2 : list C) : list D :=
    match l1, l2 with x :: r1, y :: r2 => f x y :: map2 f r1 r2 | _, _ => [] end.
  Definition delta (i j : nat) : A := if Nat.eqb i j then nofZ N 1 else nofZ N 0.
  (* index of the first minimal element (numpy argmin), and first maximal (argmax) *)
  Fixpoint argmin_from (best : A) (ibest i : nat) (l : list A) : nat :=
    match l with
    | [] => ibest
    | x :: r => if nltb N x best then argmin_from x i (S i) r else argmin_from best ibest (S i) r
    end.
  Definition argmin (l : list A) : nat :=
    match l with [] => 0 | x :: r => argmin_from x 0 1 r end.
  Fixpoint argmax_from (best : A) (ibest i : nat) (l : list A) : nat :=
    match l with
    | [] => ibest
    | x :: r => if nltb N best x then argmax_from x i (S i) r else argmax_from best ibest (S i) r
    end.
  Definition argmax (l : list A) : nat :=
    match l with [] => 0 | x :: r => argmax_from x 0 1 r end.
  Definition min_list (d : A) (l : list A) : A :=
    fold_left (fun m x => if nltb N x m then x else m) l d.
End Sums.
