(* RVec.v — finite real vectors as lists: sums, dot products, and the lemmas the solver proofs use. *)
From Coq Require Import Reals List Lra Permutation.
Import ListNotations.
From MPC Require Import Num RInst StatMech.
Open Scope R_scope.

Lemma sum_list_Rsum l : sum_list RNum l = Rsum l.
Proof. induction l as [|x l IH]; cbn [sum_list Rsum]; rnum; [reflexivity | now rewrite IH]. Qed.

Definition dotR (u v : list R) : R := Rsum (map2 Rmult u v).

Lemma Rsum_app l1 l2 : Rsum (l1 ++ l2) = Rsum l1 + Rsum l2.
Proof. induction l1 as [|x l1 IH]; cbn [app Rsum]; [lra | rewrite IH; lra]. Qed.

Lemma Rsum_map_scal (c : R) l : Rsum (map (fun x => c * x) l) = c * Rsum l.
Proof. induction l as [|x l IH]; cbn [map Rsum]; [lra | rewrite IH; lra]. Qed.

Lemma Rsum_map_div (c : R) l : Rsum (map (fun x => x / c) l) = Rsum l / c.
Proof. induction l as [|x l IH]; cbn [map Rsum]; [unfold Rdiv; lra | rewrite IH; unfold Rdiv; lra]. Qed.

Lemma map2_length {B C D} (f : B -> C -> D) l1 l2 :
  List.length l1 = List.length l2 -> List.length (map2 f l1 l2) = List.length l1.
Proof. revert l2; induction l1 as [|x l1 IH]; intros [|y l2] H; cbn in *; try discriminate; [reflexivity|]. f_equal. apply IH. now injection H. Qed.

(* dot products are linear in the second argument along an affine combination *)
Lemma dot_affine (c u v : list R) (r : R) :
  List.length c = List.length u -> List.length u = List.length v ->
  dotR c (map2 (fun n nn => (1 - r) * n + r * nn) u v) = (1 - r) * dotR c u + r * dotR c v.
Proof.
  unfold dotR. revert u v. induction c as [|x c IH]; intros [|a u] [|b v] H1 H2; cbn in *; try discriminate; [lra|].
  rewrite IH by (now injection H1 + now injection H2). lra.
Qed.

Lemma dot_scal_r (c u : list R) (k : R) : dotR c (map (fun x => k * x) u) = k * dotR c u.
Proof.
  unfold dotR. revert u. induction c as [|x c IH]; intros [|a u]; cbn [map map2 Rsum]; try lra.
  rewrite IH. lra.
Qed.

Lemma dot_comm (u v : list R) : dotR u v = dotR v u.
Proof. unfold dotR. revert v. induction u as [|a u IH]; intros [|b v]; cbn [map2 Rsum]; try reflexivity. rewrite IH. lra. Qed.

Lemma dot_plus_r (c u v : list R) :
  List.length u = List.length v -> dotR c (map2 Rplus u v) = dotR c u + dotR c v.
Proof.
  unfold dotR. revert u v. induction c as [|x c IH]; intros [|a u] [|b v] H; cbn in *; try discriminate; try lra.
  rewrite IH by (now injection H). lra.
Qed.

Lemma dot_zero_r (c : list R) n : dotR c (repeat 0 n) = 0.
Proof. unfold dotR. revert n. induction c as [|x c IH]; intros [|n]; cbn [repeat map2 Rsum]; try lra. rewrite IH. lra. Qed.

Lemma Forall_pos_sum l : l <> [] -> Forall (fun x => 0 < x) l -> 0 < Rsum l.
Proof.
  intros Hne H. induction H as [|x l Hx Hl IH]; [contradiction|]. cbn [Rsum].
  destruct l as [|y l]; [cbn [Rsum]; lra|]. assert (0 < Rsum (y :: l)) by (apply IH; discriminate). lra.
Qed.
