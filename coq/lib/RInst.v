(* RInst.v — the real-number instance of Num: the instance every theorem is about. *)
From Coq Require Import Reals ZArith List Lra.
From MPC Require Import Num.
Open Scope R_scope.

Definition Rltb (x y : R) : bool := if Rlt_dec x y then true else false.
Definition Rleb (x y : R) : bool := if Rle_dec x y then true else false.
Definition Reqb (x y : R) : bool := if Req_EM_T x y then true else false.

(* G stands for scipy.special.gamma (no Gamma function is available in the installed
   libraries); theorems that touch it quantify over G with the hypotheses they need. *)
Definition RNumG (G : R -> R) : Num R :=
  {| nadd := Rplus; nsub := Rminus; nmul := Rmult; ndiv := Rdiv; nopp := Ropp; nabs := Rabs;
     nexp := exp; nln := ln; nsqrt := sqrt; ntanh := tanh; nrpow := Rpower; npow := pow;
     ngamma := G; nofZ := IZR; npi := PI; nltb := Rltb; nleb := Rleb; neqb := Reqb |}.
Definition RNum : Num R := RNumG (fun _ => 0).

Lemma Rltb_true x y : Rltb x y = true <-> x < y.
Proof. unfold Rltb; destruct (Rlt_dec x y); split; intros; try discriminate; auto; lra. Qed.
Lemma Rltb_false x y : Rltb x y = false <-> y <= x.
Proof. unfold Rltb; destruct (Rlt_dec x y); split; intros; try discriminate; auto; lra. Qed.
Lemma Rleb_true x y : Rleb x y = true <-> x <= y.
Proof. unfold Rleb; destruct (Rle_dec x y); split; intros; try discriminate; auto; lra. Qed.
Lemma Rleb_false x y : Rleb x y = false <-> y < x.
Proof. unfold Rleb; destruct (Rle_dec x y); split; intros; try discriminate; auto; lra. Qed.
Lemma Reqb_true x y : Reqb x y = true <-> x = y.
Proof. unfold Reqb; destruct (Req_EM_T x y); split; intros; try discriminate; auto; contradiction. Qed.

(* unfold the record projections of RNum / RNumG *)
Ltac rnum :=
  cbn [nadd nsub nmul ndiv nopp nabs nexp nln nsqrt ntanh nrpow npow ngamma nofZ npi nltb nleb neqb
       RNum RNumG] in *.

Lemma sum_list_R_app (l1 l2 : list R) :
  sum_list RNum (l1 ++ l2) = sum_list RNum l1 + sum_list RNum l2.
Proof. induction l1 as [|x l1 IH]; cbn [sum_list app]; rnum; [lra | rewrite IH; lra]. Qed.
