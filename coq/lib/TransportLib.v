(* TransportLib.v — hand-written helpers the generated collision-integral kernels call:
   harmonic sums (psiconst, sum1, sum2: np.sum(1 / np.arange(..))), the temperature-derivative recursion wrapper,
   and the class tags of the Qij dispatch.  Tied to the code by the correspondence check. *)
From Coq Require Import ZArith List Bool Arith.
Import ListNotations.
From MPC Require Import Num Species.

Inductive qtag := Qc_tag | Qe_tag | Qnn_tag | Qtr_tag | Qin_tag.
(* CCall f first: function f is called with species_i as its first species argument (first = true) or species_j *)
Inductive qclass := CCall (f : qtag) (first : bool) | CUnknown.

Section Lib.
Context {A : Type} (N : Num A).
(* sum_{k=a}^{b-1} 1 / k^p *)
Fixpoint harm (p : nat) (a n : nat) : A :=
  match n with O => nofZ N 0%Z | S m => nadd N (harm p a m) (ndiv N (nofZ N 1%Z) (npow N (nofZ N (Z.of_nat (a + m))) p)) end.
Definition psiconst (s : nat) : A := if Nat.eqb s 1 then nofZ N 0%Z else harm 1 1 (s - 1).          (* sum_{k=1}^{s-1} 1/k *)
Definition sum2 (s : nat) : A := harm 2 1 (s + 1).                                                       (* sum_{k=1}^{s+1} 1/k^2 *)
Section WithU.
Context (U : Units A).
Definition sum1 (s : nat) : A := nsub N (harm 1 1 (s + 1)) (egamma U).                                   (* sum_{k=1}^{s+1} 1/k - gamma *)
End WithU.

(* Q(l,s,T) for orders beyond the fitted table (guard s = true):
   Q(s-1,T) + T/(s+1) * (Q(s-1,T+1/2) - Q(s-1,T-1/2)); fuel bounds the depth (at most 3 in use) *)
Fixpoint Q_recursion (guard : nat -> bool) (fit : nat -> A -> A) (fuel : nat) (s : nat) (T : A) : A :=
  if guard s then
    match fuel with
    | O => ndiv N (nofZ N 0%Z) (nofZ N 0%Z)
    | S f =>
      let half := ndiv N (nofZ N 1%Z) (nofZ N 2%Z) in
      nadd N (Q_recursion guard fit f (s - 1) T)
             (nmul N (ndiv N T (nofZ N (Z.of_nat (s + 1))))
                     (nsub N (Q_recursion guard fit f (s - 1) (nadd N T half)) (Q_recursion guard fit f (s - 1) (nsub N T half))))
    end
  else fit s T.
End Lib.
