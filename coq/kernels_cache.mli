
type nat =
| O
| S of nat

val app : 'a1 list -> 'a1 list -> 'a1 list

val eqb : bool -> bool -> bool

module Nat :
 sig
  val eqb : nat -> nat -> bool
 end

type stmt =
| ReadN
| ReadE
| WriteN
| WriteE
| SetFlag of bool
| SaveT of nat
| SetTPert of nat * bool
| SetTRestore of nat
| Call of nat
| IfValid of stmt list * stmt list
| IfParam of stmt list * stmt list

type tv =
| TBase
| TPert of tv * bool

val tv_eqb : tv -> tv -> bool

type key =
| KAt of tv
| KOther

val key_current : key -> tv -> bool

type st = { cT : tv; valid : bool; nk : key; ek : key }

val slot_get : (nat * tv) list -> nat -> tv option

val run :
  (nat -> stmt list) -> bool -> nat -> stmt list -> st -> bool -> (nat * tv)
  list -> ((st * bool) * (nat * tv) list) option

type hs = { hvalid : bool; hn : bool; he : bool }

val h_init : hs

val st_of : hs -> st

val hs_of : st -> hs

type op =
| SetT
| SetP
| SetX0
| Calc of nat * bool

type outcome = { o_clean : bool; o_inputs_preserved : bool }

val fUEL : nat

val hstep : (nat -> stmt list) -> hs -> op -> (hs * outcome option) option

val hrun : (nat -> stmt list) -> hs -> op list -> (hs * outcome list) option

type ascii =
| Ascii of bool * bool * bool * bool * bool * bool * bool * bool

type string =
| EmptyString
| String of ascii * string

val body : nat -> stmt list

val public_methods : nat list

val method_names : (nat * string) list

val hrun_gen : hs -> op list -> (hs * outcome list) option

val hstep_gen : hs -> op -> (hs * outcome option) option
