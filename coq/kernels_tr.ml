
(** val negb : bool -> bool **)

let negb = function
| true -> false
| false -> true

type nat =
| O
| S of nat

(** val fst : ('a1 * 'a2) -> 'a1 **)

let fst = function
| (x, _) -> x

(** val snd : ('a1 * 'a2) -> 'a2 **)

let snd = function
| (_, y) -> y

type comparison =
| Eq
| Lt
| Gt

(** val compOpp : comparison -> comparison **)

let compOpp = function
| Eq -> Eq
| Lt -> Gt
| Gt -> Lt

module Coq__1 = struct
 (** val add : nat -> nat -> nat **)
 let rec add n m =
   match n with
   | O -> m
   | S p -> S (add p m)
end
include Coq__1

(** val sub : nat -> nat -> nat **)

let rec sub n m =
  match n with
  | O -> n
  | S k -> (match m with
            | O -> n
            | S l -> sub k l)

type positive =
| XI of positive
| XO of positive
| XH

type z =
| Z0
| Zpos of positive
| Zneg of positive

module Nat =
 struct
  (** val sub : nat -> nat -> nat **)

  let rec sub n m =
    match n with
    | O -> n
    | S k -> (match m with
              | O -> n
              | S l -> sub k l)

  (** val eqb : nat -> nat -> bool **)

  let rec eqb n m =
    match n with
    | O -> (match m with
            | O -> true
            | S _ -> false)
    | S n' -> (match m with
               | O -> false
               | S m' -> eqb n' m')

  (** val divmod : nat -> nat -> nat -> nat -> nat * nat **)

  let rec divmod x y q u =
    match x with
    | O -> (q, u)
    | S x' ->
      (match u with
       | O -> divmod x' y (S q) y
       | S u' -> divmod x' y q u')

  (** val div : nat -> nat -> nat **)

  let div x y = match y with
  | O -> y
  | S y' -> fst (divmod x y' O y')

  (** val modulo : nat -> nat -> nat **)

  let modulo x = function
  | O -> x
  | S y' -> sub y' (snd (divmod x y' O y'))
 end

module Pos =
 struct
  (** val succ : positive -> positive **)

  let rec succ = function
  | XI p -> XO (succ p)
  | XO p -> XI p
  | XH -> XO XH

  (** val add : positive -> positive -> positive **)

  let rec add x y =
    match x with
    | XI p ->
      (match y with
       | XI q -> XO (add_carry p q)
       | XO q -> XI (add p q)
       | XH -> XO (succ p))
    | XO p ->
      (match y with
       | XI q -> XI (add p q)
       | XO q -> XO (add p q)
       | XH -> XI p)
    | XH -> (match y with
             | XI q -> XO (succ q)
             | XO q -> XI q
             | XH -> XO XH)

  (** val add_carry : positive -> positive -> positive **)

  and add_carry x y =
    match x with
    | XI p ->
      (match y with
       | XI q -> XI (add_carry p q)
       | XO q -> XO (add_carry p q)
       | XH -> XI (succ p))
    | XO p ->
      (match y with
       | XI q -> XO (add_carry p q)
       | XO q -> XI (add p q)
       | XH -> XO (succ p))
    | XH ->
      (match y with
       | XI q -> XI (succ q)
       | XO q -> XO (succ q)
       | XH -> XI XH)

  (** val pred_double : positive -> positive **)

  let rec pred_double = function
  | XI p -> XI (XO p)
  | XO p -> XI (pred_double p)
  | XH -> XH

  (** val mul : positive -> positive -> positive **)

  let rec mul x y =
    match x with
    | XI p -> add y (XO (mul p y))
    | XO p -> XO (mul p y)
    | XH -> y

  (** val iter : ('a1 -> 'a1) -> 'a1 -> positive -> 'a1 **)

  let rec iter f x = function
  | XI n' -> f (iter f (iter f x n') n')
  | XO n' -> iter f (iter f x n') n'
  | XH -> f x

  (** val compare_cont : comparison -> positive -> positive -> comparison **)

  let rec compare_cont r x y =
    match x with
    | XI p ->
      (match y with
       | XI q -> compare_cont r p q
       | XO q -> compare_cont Gt p q
       | XH -> Gt)
    | XO p ->
      (match y with
       | XI q -> compare_cont Lt p q
       | XO q -> compare_cont r p q
       | XH -> Gt)
    | XH -> (match y with
             | XH -> r
             | _ -> Lt)

  (** val compare : positive -> positive -> comparison **)

  let compare =
    compare_cont Eq

  (** val eqb : positive -> positive -> bool **)

  let rec eqb p q =
    match p with
    | XI p0 -> (match q with
                | XI q0 -> eqb p0 q0
                | _ -> false)
    | XO p0 -> (match q with
                | XO q0 -> eqb p0 q0
                | _ -> false)
    | XH -> (match q with
             | XH -> true
             | _ -> false)

  (** val iter_op : ('a1 -> 'a1 -> 'a1) -> positive -> 'a1 -> 'a1 **)

  let rec iter_op op p a =
    match p with
    | XI p0 -> op a (iter_op op p0 (op a a))
    | XO p0 -> iter_op op p0 (op a a)
    | XH -> a

  (** val to_nat : positive -> nat **)

  let to_nat x =
    iter_op Coq__1.add x (S O)

  (** val of_succ_nat : nat -> positive **)

  let rec of_succ_nat = function
  | O -> XH
  | S x -> succ (of_succ_nat x)
 end

module Z =
 struct
  (** val double : z -> z **)

  let double = function
  | Z0 -> Z0
  | Zpos p -> Zpos (XO p)
  | Zneg p -> Zneg (XO p)

  (** val succ_double : z -> z **)

  let succ_double = function
  | Z0 -> Zpos XH
  | Zpos p -> Zpos (XI p)
  | Zneg p -> Zneg (Pos.pred_double p)

  (** val pred_double : z -> z **)

  let pred_double = function
  | Z0 -> Zneg XH
  | Zpos p -> Zpos (Pos.pred_double p)
  | Zneg p -> Zneg (XI p)

  (** val pos_sub : positive -> positive -> z **)

  let rec pos_sub x y =
    match x with
    | XI p ->
      (match y with
       | XI q -> double (pos_sub p q)
       | XO q -> succ_double (pos_sub p q)
       | XH -> Zpos (XO p))
    | XO p ->
      (match y with
       | XI q -> pred_double (pos_sub p q)
       | XO q -> double (pos_sub p q)
       | XH -> Zpos (Pos.pred_double p))
    | XH ->
      (match y with
       | XI q -> Zneg (XO q)
       | XO q -> Zneg (Pos.pred_double q)
       | XH -> Z0)

  (** val add : z -> z -> z **)

  let add x y =
    match x with
    | Z0 -> y
    | Zpos x' ->
      (match y with
       | Z0 -> x
       | Zpos y' -> Zpos (Pos.add x' y')
       | Zneg y' -> pos_sub x' y')
    | Zneg x' ->
      (match y with
       | Z0 -> x
       | Zpos y' -> pos_sub y' x'
       | Zneg y' -> Zneg (Pos.add x' y'))

  (** val opp : z -> z **)

  let opp = function
  | Z0 -> Z0
  | Zpos x0 -> Zneg x0
  | Zneg x0 -> Zpos x0

  (** val sub : z -> z -> z **)

  let sub m n =
    add m (opp n)

  (** val mul : z -> z -> z **)

  let mul x y =
    match x with
    | Z0 -> Z0
    | Zpos x' ->
      (match y with
       | Z0 -> Z0
       | Zpos y' -> Zpos (Pos.mul x' y')
       | Zneg y' -> Zneg (Pos.mul x' y'))
    | Zneg x' ->
      (match y with
       | Z0 -> Z0
       | Zpos y' -> Zneg (Pos.mul x' y')
       | Zneg y' -> Zpos (Pos.mul x' y'))

  (** val pow_pos : z -> positive -> z **)

  let pow_pos z0 =
    Pos.iter (mul z0) (Zpos XH)

  (** val pow : z -> z -> z **)

  let pow x = function
  | Z0 -> Zpos XH
  | Zpos p -> pow_pos x p
  | Zneg _ -> Z0

  (** val compare : z -> z -> comparison **)

  let compare x y =
    match x with
    | Z0 -> (match y with
             | Z0 -> Eq
             | Zpos _ -> Lt
             | Zneg _ -> Gt)
    | Zpos x' -> (match y with
                  | Zpos y' -> Pos.compare x' y'
                  | _ -> Gt)
    | Zneg x' ->
      (match y with
       | Zneg y' -> compOpp (Pos.compare x' y')
       | _ -> Lt)

  (** val leb : z -> z -> bool **)

  let leb x y =
    match compare x y with
    | Gt -> false
    | _ -> true

  (** val ltb : z -> z -> bool **)

  let ltb x y =
    match compare x y with
    | Lt -> true
    | _ -> false

  (** val eqb : z -> z -> bool **)

  let eqb x y =
    match x with
    | Z0 -> (match y with
             | Z0 -> true
             | _ -> false)
    | Zpos p -> (match y with
                 | Zpos q -> Pos.eqb p q
                 | _ -> false)
    | Zneg p -> (match y with
                 | Zneg q -> Pos.eqb p q
                 | _ -> false)

  (** val abs : z -> z **)

  let abs = function
  | Zneg p -> Zpos p
  | x -> x

  (** val to_nat : z -> nat **)

  let to_nat = function
  | Zpos p -> Pos.to_nat p
  | _ -> O

  (** val of_nat : nat -> z **)

  let of_nat = function
  | O -> Z0
  | S n0 -> Zpos (Pos.of_succ_nat n0)

  (** val pos_div_eucl : positive -> z -> z * z **)

  let rec pos_div_eucl a b =
    match a with
    | XI a' ->
      let (q, r) = pos_div_eucl a' b in
      let r' = add (mul (Zpos (XO XH)) r) (Zpos XH) in
      if ltb r' b
      then ((mul (Zpos (XO XH)) q), r')
      else ((add (mul (Zpos (XO XH)) q) (Zpos XH)), (sub r' b))
    | XO a' ->
      let (q, r) = pos_div_eucl a' b in
      let r' = mul (Zpos (XO XH)) r in
      if ltb r' b
      then ((mul (Zpos (XO XH)) q), r')
      else ((add (mul (Zpos (XO XH)) q) (Zpos XH)), (sub r' b))
    | XH -> if leb (Zpos (XO XH)) b then (Z0, (Zpos XH)) else ((Zpos XH), Z0)

  (** val div_eucl : z -> z -> z * z **)

  let div_eucl a b =
    match a with
    | Z0 -> (Z0, Z0)
    | Zpos a' ->
      (match b with
       | Z0 -> (Z0, a)
       | Zpos _ -> pos_div_eucl a' b
       | Zneg b' ->
         let (q, r) = pos_div_eucl a' (Zpos b') in
         (match r with
          | Z0 -> ((opp q), Z0)
          | _ -> ((opp (add q (Zpos XH))), (add b r))))
    | Zneg a' ->
      (match b with
       | Z0 -> (Z0, a)
       | Zpos _ ->
         let (q, r) = pos_div_eucl a' b in
         (match r with
          | Z0 -> ((opp q), Z0)
          | _ -> ((opp (add q (Zpos XH))), (sub b r)))
       | Zneg b' -> let (q, r) = pos_div_eucl a' (Zpos b') in (q, (opp r)))

  (** val modulo : z -> z -> z **)

  let modulo a b =
    let (_, r) = div_eucl a b in r
 end

(** val nth : nat -> 'a1 list -> 'a1 -> 'a1 **)

let rec nth n l default =
  match n with
  | O -> (match l with
          | [] -> default
          | x :: _ -> x)
  | S m -> (match l with
            | [] -> default
            | _ :: t -> nth m t default)

(** val map : ('a1 -> 'a2) -> 'a1 list -> 'a2 list **)

let rec map f = function
| [] -> []
| a :: t -> (f a) :: (map f t)

(** val fold_left : ('a1 -> 'a2 -> 'a1) -> 'a2 list -> 'a1 -> 'a1 **)

let rec fold_left f l a0 =
  match l with
  | [] -> a0
  | b :: t -> fold_left f t (f a0 b)

(** val seq : nat -> nat -> nat list **)

let rec seq start = function
| O -> []
| S len0 -> start :: (seq (S start) len0)

type 'a num = { nadd : ('a -> 'a -> 'a); nsub : ('a -> 'a -> 'a);
                nmul : ('a -> 'a -> 'a); ndiv : ('a -> 'a -> 'a);
                nopp : ('a -> 'a); nabs : ('a -> 'a); nexp : ('a -> 'a);
                nln : ('a -> 'a); nsqrt : ('a -> 'a); ntanh : ('a -> 'a);
                nrpow : ('a -> 'a -> 'a); npow : ('a -> nat -> 'a);
                ngamma : ('a -> 'a); nofZ : (z -> 'a); npi : 'a;
                nltb : ('a -> 'a -> bool); nleb : ('a -> 'a -> bool);
                neqb : ('a -> 'a -> bool) }

type 'a units = { k_b : 'a; n_a : 'a; h_pl : 'a; hbar : 'a; c_light : 
                  'a; e_ch : 'a; m_e : 'a; epsilon_0 : 'a; r_gas : 'a;
                  k_to_eV : 'a; j_to_eV : 'a; ke_c : 'a; egamma : 'a }

(** val sum_left : 'a1 num -> 'a1 list -> 'a1 **)

let sum_left n l =
  fold_left n.nadd l (n.nofZ Z0)

(** val delta : 'a1 num -> nat -> nat -> 'a1 **)

let delta n i j =
  if Nat.eqb i j then n.nofZ (Zpos XH) else n.nofZ Z0

type skind =
| KMono
| KDi
| KPoly
| KElectron

type 'a species = { kind : skind; sname : nat;
                    stoichiometry : (nat * nat) list; molar_mass : 'a;
                    charge_number : z; ionisation_energy : 'a;
                    dissociation_energy : 'a; energy_levels : ('a * 'a) list;
                    g0 : 'a; w_e : 'a; b_e : 'a; sigma_s : 'a;
                    linear_yn : bool; wi_e : 'a list; abc_e : 'a list;
                    polarisability : 'a; multiplicity : 'a;
                    effective_electrons : 'a option;
                    electron_cross_section : ((('a * 'a) * 'a) * 'a) option;
                    emission_lines : (('a * 'a) * 'a) list }

(** val stoich_eqb : (nat * nat) list -> (nat * nat) list -> bool **)

let rec stoich_eqb a b =
  match a with
  | [] -> (match b with
           | [] -> true
           | _ :: _ -> false)
  | p :: r1 ->
    let (e1, c1) = p in
    (match b with
     | [] -> false
     | p0 :: r2 ->
       let (e2, c2) = p0 in
       (&&) ((&&) (Nat.eqb e1 e2) (Nat.eqb c1 c2)) (stoich_eqb r1 r2))

type qtag =
| Qc_tag
| Qe_tag
| Qnn_tag
| Qtr_tag
| Qin_tag

type qclass =
| CCall of qtag * bool
| CUnknown

(** val harm : 'a1 num -> nat -> nat -> nat -> 'a1 **)

let rec harm n p a = function
| O -> n.nofZ Z0
| S m ->
  n.nadd (harm n p a m)
    (n.ndiv (n.nofZ (Zpos XH)) (n.npow (n.nofZ (Z.of_nat (add a m))) p))

(** val psiconst : 'a1 num -> nat -> 'a1 **)

let psiconst n s =
  if Nat.eqb s (S O) then n.nofZ Z0 else harm n (S O) (S O) (sub s (S O))

(** val sum2 : 'a1 num -> nat -> 'a1 **)

let sum2 n s =
  harm n (S (S O)) (S O) (add s (S O))

(** val sum1 : 'a1 num -> 'a1 units -> nat -> 'a1 **)

let sum1 n u s =
  n.nsub (harm n (S O) (S O) (add s (S O))) u.egamma

(** val q_recursion :
    'a1 num -> (nat -> bool) -> (nat -> 'a1 -> 'a1) -> nat -> nat -> 'a1 ->
    'a1 **)

let rec q_recursion n guard fit fuel s t =
  if guard s
  then (match fuel with
        | O -> n.ndiv (n.nofZ Z0) (n.nofZ Z0)
        | S f ->
          let half = n.ndiv (n.nofZ (Zpos XH)) (n.nofZ (Zpos (XO XH))) in
          n.nadd (q_recursion n guard fit f (sub s (S O)) t)
            (n.nmul (n.ndiv t (n.nofZ (Z.of_nat (add s (S O)))))
              (n.nsub
                (q_recursion n guard fit f (sub s (S O)) (n.nadd t half))
                (q_recursion n guard fit f (sub s (S O)) (n.nsub t half)))))
  else fit s t

(** val q00 :
    'a1 num -> (nat -> nat -> 'a1) -> (nat -> 'a1) -> nat -> (nat -> 'a1) ->
    nat -> nat -> 'a1 **)

let q00 n q14 masses nb_species number_densities i j =
  let sumval = Z0 in
  let sumval0 =
    n.nadd (n.nofZ sumval)
      (sum_left n
        (map (fun l ->
          let term1 =
            n.ndiv
              (n.nmul (number_densities l)
                (n.nrpow (masses i)
                  (n.ndiv (n.nofZ (Zpos XH)) (n.nofZ (Zpos (XO XH))))))
              (n.nrpow (n.nadd (masses i) (masses l))
                (n.ndiv (n.nofZ (Zpos XH)) (n.nofZ (Zpos (XO XH)))))
          in
          let term2 =
            n.nsub
              (n.nmul
                (n.nmul (number_densities i)
                  (n.nrpow (n.ndiv (masses l) (masses j))
                    (n.ndiv (n.nofZ (Zpos XH)) (n.nofZ (Zpos (XO XH))))))
                (n.nsub (delta n i j) (delta n j l)))
              (n.nmul
                (n.ndiv
                  (n.nmul (number_densities j)
                    (n.nrpow (n.nmul (masses l) (masses j))
                      (n.ndiv (n.nofZ (Zpos XH)) (n.nofZ (Zpos (XO XH))))))
                  (masses i)) (n.nsub (n.nofZ (Zpos XH)) (delta n i l)))
          in
          n.nmul (n.nmul term1 (q14 i l)) term2) (seq O nb_species)))
  in
  n.nmul (n.nofZ (Zpos (XO (XO (XO XH))))) sumval0

(** val q01 :
    'a1 num -> (nat -> nat -> 'a1) -> (nat -> nat -> 'a1) -> (nat -> 'a1) ->
    nat -> (nat -> 'a1) -> nat -> nat -> 'a1 **)

let q01 n q14 q15 masses nb_species number_densities i j =
  let sumval = Z0 in
  let sumval0 =
    n.nadd (n.nofZ sumval)
      (sum_left n
        (map (fun l ->
          let term1 =
            n.ndiv
              (n.nmul (number_densities l)
                (n.nrpow (masses l)
                  (n.ndiv (n.nofZ (Zpos (XI XH))) (n.nofZ (Zpos (XO XH))))))
              (n.nrpow (n.nadd (masses i) (masses l))
                (n.ndiv (n.nofZ (Zpos (XI XH))) (n.nofZ (Zpos (XO XH)))))
          in
          let term2 =
            n.nmul (n.nsub (delta n i j) (delta n j l))
              (n.nsub
                (n.nmul
                  (n.ndiv (n.nofZ (Zpos (XI (XO XH))))
                    (n.nofZ (Zpos (XO XH)))) (q14 i l))
                (n.nmul (n.nofZ (Zpos (XI XH))) (q15 i l)))
          in
          n.nmul term1 term2) (seq O nb_species)))
  in
  n.nmul
    (n.nmul (n.nmul (n.nofZ (Zpos (XO (XO (XO XH))))) (number_densities i))
      (n.nrpow (n.ndiv (masses i) (masses j))
        (n.ndiv (n.nofZ (Zpos (XI XH))) (n.nofZ (Zpos (XO XH)))))) sumval0

(** val q02 :
    'a1 num -> (nat -> nat -> 'a1) -> (nat -> nat -> 'a1) -> (nat -> nat ->
    'a1) -> (nat -> 'a1) -> nat -> (nat -> 'a1) -> nat -> nat -> 'a1 **)

let q02 n q14 q15 q16 masses nb_species number_densities i j =
  let sumval = Z0 in
  let sumval0 =
    n.nadd (n.nofZ sumval)
      (sum_left n
        (map (fun l ->
          let term1 =
            n.ndiv
              (n.nmul (number_densities l)
                (n.nrpow (masses l)
                  (n.ndiv (n.nofZ (Zpos (XI (XO XH))))
                    (n.nofZ (Zpos (XO XH))))))
              (n.nrpow (n.nadd (masses i) (masses l))
                (n.ndiv (n.nofZ (Zpos (XI (XO XH)))) (n.nofZ (Zpos (XO XH)))))
          in
          let term2 =
            n.nmul (n.nsub (delta n i j) (delta n j l))
              (n.nadd
                (n.nsub
                  (n.nmul
                    (n.ndiv (n.nofZ (Zpos (XI (XI (XO (XO (XO XH)))))))
                      (n.nofZ (Zpos (XO (XO (XO XH)))))) (q14 i l))
                  (n.nmul
                    (n.ndiv (n.nofZ (Zpos (XI (XO (XI (XO XH))))))
                      (n.nofZ (Zpos (XO XH)))) (q15 i l)))
                (n.nmul (n.nofZ (Zpos (XO (XI XH)))) (q16 i l)))
          in
          n.nmul term1 term2) (seq O nb_species)))
  in
  n.nmul
    (n.nmul (n.nmul (n.nofZ (Zpos (XO (XO (XO XH))))) (number_densities i))
      (n.nrpow (n.ndiv (masses i) (masses j))
        (n.ndiv (n.nofZ (Zpos (XI (XO XH)))) (n.nofZ (Zpos (XO XH))))))
    sumval0

(** val q03 :
    'a1 num -> (nat -> nat -> 'a1) -> (nat -> nat -> 'a1) -> (nat -> nat ->
    'a1) -> (nat -> nat -> 'a1) -> (nat -> 'a1) -> nat -> (nat -> 'a1) -> nat
    -> nat -> 'a1 **)

let q03 n q14 q15 q16 q17 masses nb_species number_densities i j =
  let sumval = Z0 in
  let sumval0 =
    n.nadd (n.nofZ sumval)
      (sum_left n
        (map (fun l ->
          let term1 =
            n.ndiv
              (n.nmul (number_densities l)
                (n.nrpow (masses l)
                  (n.ndiv (n.nofZ (Zpos (XI (XI XH))))
                    (n.nofZ (Zpos (XO XH))))))
              (n.nrpow (n.nadd (masses i) (masses l))
                (n.ndiv (n.nofZ (Zpos (XI (XI XH)))) (n.nofZ (Zpos (XO XH)))))
          in
          let term2 =
            n.nmul (n.nsub (delta n i j) (delta n j l))
              (n.nsub
                (n.nadd
                  (n.nsub
                    (n.nmul
                      (n.ndiv
                        (n.nofZ (Zpos (XI (XO (XO (XI (XO (XI XH))))))))
                        (n.nofZ (Zpos (XO (XO (XO (XO XH))))))) (q14 i l))
                    (n.nmul
                      (n.ndiv
                        (n.nofZ (Zpos (XI (XO (XI (XI (XI (XI (XO XH)))))))))
                        (n.nofZ (Zpos (XO (XO (XO XH)))))) (q15 i l)))
                  (n.nmul (n.nofZ (Zpos (XI (XI (XO (XI XH)))))) (q16 i l)))
                (n.nmul (n.nofZ (Zpos (XO (XI (XO XH))))) (q17 i l)))
          in
          n.nmul term1 term2) (seq O nb_species)))
  in
  n.nmul
    (n.nmul (n.nmul (n.nofZ (Zpos (XO (XO (XO XH))))) (number_densities i))
      (n.nrpow (n.ndiv (masses i) (masses j))
        (n.ndiv (n.nofZ (Zpos (XI (XI XH)))) (n.nofZ (Zpos (XO XH))))))
    sumval0

(** val q11 :
    'a1 num -> (nat -> nat -> 'a1) -> (nat -> nat -> 'a1) -> (nat -> nat ->
    'a1) -> (nat -> nat -> 'a1) -> (nat -> 'a1) -> nat -> (nat -> 'a1) -> nat
    -> nat -> 'a1 **)

let q11 n q14 q15 q16 q24 masses nb_species number_densities i j =
  let sumval = Z0 in
  let sumval0 =
    n.nadd (n.nofZ sumval)
      (sum_left n
        (map (fun l ->
          let term1 =
            n.ndiv
              (n.nmul (number_densities l)
                (n.nrpow (masses l)
                  (n.ndiv (n.nofZ (Zpos XH)) (n.nofZ (Zpos (XO XH))))))
              (n.nrpow (n.nadd (masses i) (masses l))
                (n.ndiv (n.nofZ (Zpos (XI (XO XH)))) (n.nofZ (Zpos (XO XH)))))
          in
          let term2 =
            n.nadd
              (n.nmul (n.nsub (delta n i j) (delta n j l))
                (n.nadd
                  (n.nsub
                    (n.nmul
                      (n.nmul
                        (n.ndiv (n.nofZ (Zpos (XI (XO XH))))
                          (n.nofZ (Zpos (XO (XO XH)))))
                        (n.nadd
                          (n.nmul (n.nofZ (Zpos (XO (XI XH))))
                            (n.npow (masses j) (S (S O))))
                          (n.nmul (n.nofZ (Zpos (XI (XO XH))))
                            (n.npow (masses l) (S (S O)))))) (q14 i l))
                    (n.nmul
                      (n.nmul (n.nofZ (Zpos (XI (XI (XI XH)))))
                        (n.npow (masses l) (S (S O)))) (q15 i l)))
                  (n.nmul
                    (n.nmul (n.nofZ (Zpos (XO (XO (XI XH)))))
                      (n.npow (masses l) (S (S O)))) (q16 i l))))
              (n.nmul
                (n.nmul
                  (n.nmul
                    (n.nmul (n.nadd (delta n i j) (delta n j l))
                      (n.nofZ (Zpos (XO (XO XH))))) (masses j)) (masses l))
                (q24 i l))
          in
          n.nmul term1 term2) (seq O nb_species)))
  in
  n.nmul
    (n.nmul (n.nmul (n.nofZ (Zpos (XO (XO (XO XH))))) (number_densities i))
      (n.nrpow (n.ndiv (masses i) (masses j))
        (n.ndiv (n.nofZ (Zpos (XI XH))) (n.nofZ (Zpos (XO XH)))))) sumval0

(** val q12 :
    'a1 num -> (nat -> nat -> 'a1) -> (nat -> nat -> 'a1) -> (nat -> nat ->
    'a1) -> (nat -> nat -> 'a1) -> (nat -> nat -> 'a1) -> (nat -> nat -> 'a1)
    -> (nat -> 'a1) -> nat -> (nat -> 'a1) -> nat -> nat -> 'a1 **)

let q12 n q14 q15 q16 q17 q24 q25 masses nb_species number_densities i j =
  let sumval = Z0 in
  let sumval0 =
    n.nadd (n.nofZ sumval)
      (sum_left n
        (map (fun l ->
          let term1 =
            n.ndiv
              (n.nmul (number_densities l)
                (n.nrpow (masses l)
                  (n.ndiv (n.nofZ (Zpos (XI XH))) (n.nofZ (Zpos (XO XH))))))
              (n.nrpow (n.nadd (masses i) (masses l))
                (n.ndiv (n.nofZ (Zpos (XI (XI XH)))) (n.nofZ (Zpos (XO XH)))))
          in
          let term2 =
            n.nadd
              (n.nmul (n.nsub (delta n i j) (delta n j l))
                (n.nsub
                  (n.nadd
                    (n.nsub
                      (n.nmul
                        (n.nmul
                          (n.ndiv (n.nofZ (Zpos (XI (XI (XO (XO (XO XH)))))))
                            (n.nofZ (Zpos (XO (XO (XO (XO XH)))))))
                          (n.nadd
                            (n.nmul (n.nofZ (Zpos (XO (XO (XI XH)))))
                              (n.npow (masses j) (S (S O))))
                            (n.nmul (n.nofZ (Zpos (XI (XO XH))))
                              (n.npow (masses l) (S (S O)))))) (q14 i l))
                      (n.nmul
                        (n.nmul
                          (n.ndiv (n.nofZ (Zpos (XI (XI (XI (XI (XI XH)))))))
                            (n.nofZ (Zpos (XO XH))))
                          (n.nadd (n.npow (masses j) (S (S O)))
                            (n.nmul
                              (n.ndiv (n.nofZ (Zpos (XI (XO XH))))
                                (n.nofZ (Zpos (XO (XO XH)))))
                              (n.npow (masses l) (S (S O)))))) (q15 i l)))
                    (n.nmul
                      (n.nmul (n.nofZ (Zpos (XI (XO (XO (XI (XI XH)))))))
                        (n.npow (masses l) (S (S O)))) (q16 i l)))
                  (n.nmul
                    (n.nmul (n.nofZ (Zpos (XO (XI (XI (XI XH))))))
                      (n.npow (masses l) (S (S O)))) (q17 i l))))
              (n.nmul (n.nadd (delta n i j) (delta n j l))
                (n.nsub
                  (n.nmul
                    (n.nmul
                      (n.nmul (n.nofZ (Zpos (XO (XI (XI XH))))) (masses j))
                      (masses l)) (q24 i l))
                  (n.nmul
                    (n.nmul
                      (n.nmul (n.nofZ (Zpos (XO (XO (XO (XO XH))))))
                        (masses j)) (masses l)) (q25 i l))))
          in
          n.nmul term1 term2) (seq O nb_species)))
  in
  n.nmul
    (n.nmul (n.nmul (n.nofZ (Zpos (XO (XO (XO XH))))) (number_densities i))
      (n.nrpow (n.ndiv (masses i) (masses j))
        (n.ndiv (n.nofZ (Zpos (XI (XO XH)))) (n.nofZ (Zpos (XO XH))))))
    sumval0

(** val q13 :
    'a1 num -> (nat -> nat -> 'a1) -> (nat -> nat -> 'a1) -> (nat -> nat ->
    'a1) -> (nat -> nat -> 'a1) -> (nat -> nat -> 'a1) -> (nat -> nat -> 'a1)
    -> (nat -> nat -> 'a1) -> (nat -> nat -> 'a1) -> (nat -> 'a1) -> nat ->
    (nat -> 'a1) -> nat -> nat -> 'a1 **)

let q13 n q14 q15 q16 q17 q18 q24 q25 q26 masses nb_species number_densities i j =
  let sumval = Z0 in
  let sumval0 =
    n.nadd (n.nofZ sumval)
      (sum_left n
        (map (fun l ->
          let term1 =
            n.ndiv
              (n.nmul (number_densities l)
                (n.nrpow (masses l)
                  (n.ndiv (n.nofZ (Zpos (XI (XO XH))))
                    (n.nofZ (Zpos (XO XH))))))
              (n.nrpow (n.nadd (masses i) (masses l))
                (n.ndiv (n.nofZ (Zpos (XI (XO (XO XH)))))
                  (n.nofZ (Zpos (XO XH)))))
          in
          let term2 =
            n.nadd
              (n.nmul (n.nsub (delta n i j) (delta n j l))
                (n.nadd
                  (n.nsub
                    (n.nadd
                      (n.nsub
                        (n.nmul
                          (n.nmul
                            (n.ndiv
                              (n.nofZ (Zpos (XI (XO (XO (XI (XO (XI XH))))))))
                              (n.nofZ (Zpos (XO (XO (XO (XO (XO XH))))))))
                            (n.nadd
                              (n.nmul (n.nofZ (Zpos (XO (XI (XO (XO XH))))))
                                (n.npow (masses j) (S (S O))))
                              (n.nmul (n.nofZ (Zpos (XI (XO XH))))
                                (n.npow (masses l) (S (S O)))))) (q14 i l))
                        (n.nmul
                          (n.nmul
                            (n.ndiv
                              (n.nofZ (Zpos (XI (XI (XI (XI (XI XH)))))))
                              (n.nofZ (Zpos (XO (XO XH)))))
                            (n.nadd
                              (n.nmul (n.nofZ (Zpos (XI (XO (XO XH)))))
                                (n.npow (masses j) (S (S O))))
                              (n.nmul (n.nofZ (Zpos (XI (XO XH))))
                                (n.npow (masses l) (S (S O)))))) (q15 i l)))
                      (n.nmul
                        (n.nmul
                          (n.nofZ (Zpos (XI (XO (XO (XO (XI (XO XH))))))))
                          (n.nadd (n.npow (masses j) (S (S O)))
                            (n.nmul (n.nofZ (Zpos (XO XH)))
                              (n.npow (masses l) (S (S O)))))) (q16 i l)))
                    (n.nmul
                      (n.nmul
                        (n.nofZ (Zpos (XO (XO (XO (XO (XO (XI (XO XH)))))))))
                        (n.npow (masses l) (S (S O)))) (q17 i l)))
                  (n.nmul
                    (n.nmul (n.nofZ (Zpos (XO (XO (XI (XI (XI XH)))))))
                      (n.npow (masses l) (S (S O)))) (q18 i l))))
              (n.nmul
                (n.nmul
                  (n.nmul (n.nadd (delta n i j) (delta n j l)) (masses j))
                  (masses l))
                (n.nadd
                  (n.nsub
                    (n.nmul
                      (n.ndiv (n.nofZ (Zpos (XI (XI (XI (XI (XI XH)))))))
                        (n.nofZ (Zpos (XO XH)))) (q24 i l))
                    (n.nmul (n.nofZ (Zpos (XO (XO (XO (XI (XO (XO XH))))))))
                      (q25 i l)))
                  (n.nmul (n.nofZ (Zpos (XO (XO (XO (XI (XO XH)))))))
                    (q26 i l))))
          in
          n.nmul term1 term2) (seq O nb_species)))
  in
  n.nmul
    (n.nmul (n.nmul (n.nofZ (Zpos (XO (XO (XO XH))))) (number_densities i))
      (n.nrpow (n.ndiv (masses i) (masses j))
        (n.ndiv (n.nofZ (Zpos (XI (XI XH)))) (n.nofZ (Zpos (XO XH))))))
    sumval0

(** val q22 :
    'a1 num -> (nat -> nat -> 'a1) -> (nat -> nat -> 'a1) -> (nat -> nat ->
    'a1) -> (nat -> nat -> 'a1) -> (nat -> nat -> 'a1) -> (nat -> nat -> 'a1)
    -> (nat -> nat -> 'a1) -> (nat -> nat -> 'a1) -> (nat -> nat -> 'a1) ->
    (nat -> 'a1) -> nat -> (nat -> 'a1) -> nat -> nat -> 'a1 **)

let q22 n q14 q15 q16 q17 q18 q24 q25 q26 q34 masses nb_species number_densities i j =
  let sumval = Z0 in
  let sumval0 =
    n.nadd (n.nofZ sumval)
      (sum_left n
        (map (fun l ->
          let term1 =
            n.ndiv
              (n.nmul (number_densities l)
                (n.nrpow (masses l)
                  (n.ndiv (n.nofZ (Zpos XH)) (n.nofZ (Zpos (XO XH))))))
              (n.nrpow (n.nadd (masses i) (masses l))
                (n.ndiv (n.nofZ (Zpos (XI (XO (XO XH)))))
                  (n.nofZ (Zpos (XO XH)))))
          in
          let term2 =
            n.nadd
              (n.nmul (n.nsub (delta n i j) (delta n j l))
                (n.nadd
                  (n.nadd
                    (n.nsub
                      (n.nadd
                        (n.nsub
                          (n.nmul
                            (n.nmul
                              (n.ndiv
                                (n.nofZ (Zpos (XI (XI (XO (XO (XO XH)))))))
                                (n.nofZ (Zpos (XO (XO (XO (XO (XO (XO
                                  XH)))))))))
                              (n.nadd
                                (n.nadd
                                  (n.nmul
                                    (n.nofZ (Zpos (XO (XO (XO (XI (XO
                                      XH)))))))
                                    (n.npow (masses j) (S (S (S (S O))))))
                                  (n.nmul
                                    (n.nofZ (Zpos (XO (XO (XO (XI (XO (XI (XO
                                      XH)))))))))
                                    (n.npow (n.nmul (masses j) (masses l)) (S
                                      (S O)))))
                                (n.nmul
                                  (n.nofZ (Zpos (XI (XI (XO (XO (XO XH)))))))
                                  (n.npow (masses l) (S (S (S (S O))))))))
                            (q14 i l))
                          (n.nmul
                            (n.nmul
                              (n.nmul
                                (n.ndiv
                                  (n.nofZ (Zpos (XI (XO (XI (XO XH))))))
                                  (n.nofZ (Zpos (XO (XO (XO XH))))))
                                (n.npow (masses l) (S (S O))))
                              (n.nadd
                                (n.nmul
                                  (n.nofZ (Zpos (XO (XO (XI (XO (XI (XO
                                    XH)))))))) (n.npow (masses j) (S (S O))))
                                (n.nmul
                                  (n.nofZ (Zpos (XI (XI (XO (XO (XO XH)))))))
                                  (n.npow (masses l) (S (S O)))))) (q15 i l)))
                        (n.nmul
                          (n.nmul
                            (n.nmul
                              (n.ndiv (n.nofZ (Zpos (XI XH)))
                                (n.nofZ (Zpos (XO XH))))
                              (n.npow (masses l) (S (S O))))
                            (n.nadd
                              (n.nmul
                                (n.nofZ (Zpos (XO (XO (XI (XI (XO (XI
                                  XH)))))))) (n.npow (masses j) (S (S O))))
                              (n.nmul
                                (n.nofZ (Zpos (XI (XO (XI (XO (XO (XO (XO
                                  XH))))))))) (n.npow (masses l) (S (S O))))))
                          (q16 i l)))
                      (n.nmul
                        (n.nmul
                          (n.nofZ (Zpos (XO (XI (XO (XO (XI (XO (XI
                            XH))))))))) (n.npow (masses l) (S (S (S (S O))))))
                        (q17 i l)))
                    (n.nmul
                      (n.nmul
                        (n.nofZ (Zpos (XO (XI (XO (XI (XI (XO XH))))))))
                        (n.npow (masses l) (S (S (S (S O)))))) (q18 i l)))
                  (n.nmul
                    (n.nmul (n.nofZ (Zpos (XO (XO (XO (XI XH))))))
                      (n.npow (n.nmul (masses j) (masses l)) (S (S O))))
                    (q34 i l))))
              (n.nmul (n.nadd (delta n i j) (delta n j l))
                (n.nadd
                  (n.nsub
                    (n.nmul
                      (n.nmul
                        (n.nmul
                          (n.nmul (n.nofZ (Zpos (XI (XI XH)))) (masses j))
                          (masses l))
                        (n.nmul (n.nofZ (Zpos (XO (XO XH))))
                          (n.nadd (n.npow (masses j) (S (S O)))
                            (n.nmul (n.nofZ (Zpos (XI (XI XH))))
                              (n.npow (masses l) (S (S O))))))) (q24 i l))
                    (n.nmul
                      (n.nmul
                        (n.nmul
                          (n.nofZ (Zpos (XO (XO (XO (XO (XI (XI XH))))))))
                          (masses j)) (n.npow (masses l) (S (S (S O)))))
                      (q25 i l)))
                  (n.nmul
                    (n.nmul
                      (n.nmul
                        (n.nofZ (Zpos (XO (XO (XO (XO (XI (XO XH))))))))
                        (masses j)) (n.npow (masses l) (S (S (S O)))))
                    (q26 i l))))
          in
          n.nmul term1 term2) (seq O nb_species)))
  in
  n.nmul
    (n.nmul (n.nmul (n.nofZ (Zpos (XO (XO (XO XH))))) (number_densities i))
      (n.nrpow (n.ndiv (masses i) (masses j))
        (n.ndiv (n.nofZ (Zpos (XI (XO XH)))) (n.nofZ (Zpos (XO XH))))))
    sumval0

(** val q23 :
    'a1 num -> (nat -> nat -> 'a1) -> (nat -> nat -> 'a1) -> (nat -> nat ->
    'a1) -> (nat -> nat -> 'a1) -> (nat -> nat -> 'a1) -> (nat -> nat -> 'a1)
    -> (nat -> nat -> 'a1) -> (nat -> nat -> 'a1) -> (nat -> nat -> 'a1) ->
    (nat -> nat -> 'a1) -> (nat -> nat -> 'a1) -> (nat -> nat -> 'a1) -> (nat
    -> 'a1) -> nat -> (nat -> 'a1) -> nat -> nat -> 'a1 **)

let q23 n q14 q15 q16 q17 q18 q19 q24 q25 q26 q27 q34 q35 masses nb_species number_densities i j =
  let sumval = Z0 in
  let sumval0 =
    n.nadd (n.nofZ sumval)
      (sum_left n
        (map (fun l ->
          let term1 =
            n.ndiv
              (n.nmul (number_densities l)
                (n.nrpow (masses l)
                  (n.ndiv (n.nofZ (Zpos (XI XH))) (n.nofZ (Zpos (XO XH))))))
              (n.nrpow (n.nadd (masses i) (masses l))
                (n.ndiv (n.nofZ (Zpos (XI (XI (XO XH)))))
                  (n.nofZ (Zpos (XO XH)))))
          in
          let term2 =
            n.nadd
              (n.nmul (n.nsub (delta n i j) (delta n j l))
                (n.nsub
                  (n.nadd
                    (n.nsub
                      (n.nadd
                        (n.nsub
                          (n.nadd
                            (n.nsub
                              (n.nmul
                                (n.nmul
                                  (n.ndiv
                                    (n.nofZ (Zpos (XI (XO (XO (XI (XO (XI
                                      XH))))))))
                                    (n.nofZ (Zpos (XO (XO (XO (XO (XO (XO (XO
                                      XH))))))))))
                                  (n.nadd
                                    (n.nadd
                                      (n.nmul
                                        (n.nofZ (Zpos (XO (XO (XO (XI (XI (XI
                                          XH))))))))
                                        (n.npow (masses j) (S (S (S (S O))))))
                                      (n.nmul
                                        (n.nofZ (Zpos (XO (XO (XI (XI (XI (XI
                                          (XI XH)))))))))
                                        (n.npow
                                          (n.nmul (masses j) (masses l)) (S
                                          (S O)))))
                                    (n.nmul
                                      (n.nofZ (Zpos (XI (XI (XO (XO (XO
                                        XH)))))))
                                      (n.npow (masses l) (S (S (S (S O))))))))
                                (q14 i l))
                              (n.nmul
                                (n.nmul
                                  (n.ndiv
                                    (n.nofZ (Zpos (XI (XI (XI (XI (XI
                                      XH)))))))
                                    (n.nofZ (Zpos (XO (XO (XO (XO (XO (XO
                                      XH)))))))))
                                  (n.nadd
                                    (n.nadd
                                      (n.nmul
                                        (n.nofZ (Zpos (XO (XO (XO (XI (XI (XI
                                          XH))))))))
                                        (n.npow (masses j) (S (S (S (S O))))))
                                      (n.nmul
                                        (n.nofZ (Zpos (XO (XO (XI (XO (XI (XI
                                          (XI (XI (XO XH)))))))))))
                                        (n.npow
                                          (n.nmul (masses j) (masses l)) (S
                                          (S O)))))
                                    (n.nmul
                                      (n.nofZ (Zpos (XI (XI (XI (XI (XO (XI
                                        (XO XH)))))))))
                                      (n.npow (masses l) (S (S (S (S O))))))))
                                (q15 i l)))
                            (n.nmul
                              (n.nmul
                                (n.nmul
                                  (n.ndiv (n.nofZ (Zpos (XI (XO (XO XH)))))
                                    (n.nofZ (Zpos (XO (XO XH)))))
                                  (n.npow (masses l) (S (S O))))
                                (n.nadd
                                  (n.nmul
                                    (n.nofZ (Zpos (XO (XI (XO (XO (XO (XO (XI
                                      (XI XH))))))))))
                                    (n.npow (masses j) (S (S O))))
                                  (n.nmul
                                    (n.nofZ (Zpos (XI (XO (XO (XI (XI (XO (XI
                                      XH)))))))))
                                    (n.npow (masses l) (S (S O))))))
                              (q16 i l)))
                          (n.nmul
                            (n.nmul
                              (n.nmul
                                (n.ndiv (n.nofZ (Zpos (XI (XO XH))))
                                  (n.nofZ (Zpos (XO XH))))
                                (n.npow (masses l) (S (S O))))
                              (n.nadd
                                (n.nmul
                                  (n.nofZ (Zpos (XO (XI (XI (XO (XO (XO (XI
                                    XH))))))))) (n.npow (masses j) (S (S O))))
                                (n.nmul
                                  (n.nofZ (Zpos (XI (XO (XI (XI (XO (XI (XO
                                    (XO XH))))))))))
                                  (n.npow (masses l) (S (S O)))))) (q17 i l)))
                        (n.nmul
                          (n.nmul
                            (n.nofZ (Zpos (XI (XI (XI (XO (XO (XI (XI (XO (XO
                              XH)))))))))))
                            (n.npow (masses l) (S (S (S (S O)))))) (q18 i l)))
                      (n.nmul
                        (n.nmul
                          (n.nofZ (Zpos (XO (XI (XO (XO (XI (XO (XI
                            XH))))))))) (n.npow (masses l) (S (S (S (S O))))))
                        (q19 i l)))
                    (n.nmul
                      (n.nmul
                        (n.nofZ (Zpos (XO (XO (XI (XI (XO (XI XH))))))))
                        (n.npow (n.nmul (masses j) (masses l)) (S (S O))))
                      (q34 i l)))
                  (n.nmul
                    (n.nmul (n.nofZ (Zpos (XO (XO (XO (XI (XI (XI XH))))))))
                      (n.npow (n.nmul (masses j) (masses l)) (S (S O))))
                    (q35 i l))))
              (n.nmul (n.nadd (delta n i j) (delta n j l))
                (n.nsub
                  (n.nadd
                    (n.nsub
                      (n.nmul
                        (n.nmul
                          (n.nmul
                            (n.nmul
                              (n.ndiv
                                (n.nofZ (Zpos (XI (XI (XI (XI (XI XH)))))))
                                (n.nofZ (Zpos (XO (XO XH))))) (masses j))
                            (masses l))
                          (n.nmul (n.nofZ (Zpos (XO (XO (XO XH)))))
                            (n.nadd (n.npow (masses j) (S (S O)))
                              (n.nmul (n.nofZ (Zpos (XI (XI XH))))
                                (n.npow (masses l) (S (S O))))))) (q24 i l))
                      (n.nmul
                        (n.nmul
                          (n.nmul
                            (n.nmul (n.nofZ (Zpos (XO (XI (XO (XO XH))))))
                              (masses j)) (masses l))
                          (n.nadd
                            (n.nmul (n.nofZ (Zpos (XO (XO (XO XH)))))
                              (n.npow (masses j) (S (S O))))
                            (n.nmul (n.nofZ (Zpos (XI (XO (XI (XO XH))))))
                              (n.npow (masses l) (S (S O)))))) (q25 i l)))
                    (n.nmul
                      (n.nmul
                        (n.nmul
                          (n.nofZ (Zpos (XO (XO (XI (XO (XI (XI (XI (XI
                            XH)))))))))) (masses j))
                        (n.npow (masses l) (S (S (S O))))) (q26 i l)))
                  (n.nmul
                    (n.nmul
                      (n.nmul
                        (n.nofZ (Zpos (XO (XO (XO (XO (XI (XI (XI XH)))))))))
                        (masses j)) (n.npow (masses l) (S (S (S O)))))
                    (q27 i l))))
          in
          n.nmul term1 term2) (seq O nb_species)))
  in
  n.nmul
    (n.nmul (n.nmul (n.nofZ (Zpos (XO (XO (XO XH))))) (number_densities i))
      (n.nrpow (n.ndiv (masses i) (masses j))
        (n.ndiv (n.nofZ (Zpos (XI (XI XH)))) (n.nofZ (Zpos (XO XH))))))
    sumval0

(** val q33 :
    'a1 num -> (nat -> nat -> 'a1) -> (nat -> nat -> 'a1) -> (nat -> nat ->
    'a1) -> (nat -> nat -> 'a1) -> (nat -> nat -> 'a1) -> (nat -> nat -> 'a1)
    -> (nat -> nat -> 'a1) -> (nat -> nat -> 'a1) -> (nat -> nat -> 'a1) ->
    (nat -> nat -> 'a1) -> (nat -> nat -> 'a1) -> (nat -> nat -> 'a1) -> (nat
    -> nat -> 'a1) -> (nat -> nat -> 'a1) -> (nat -> nat -> 'a1) -> (nat ->
    nat -> 'a1) -> (nat -> 'a1) -> nat -> (nat -> 'a1) -> nat -> nat -> 'a1 **)

let q33 n q14 q15 q16 q17 q18 q19 q20 q24 q25 q26 q27 q28 q34 q35 q36 q44 masses nb_species number_densities i j =
  let sumval = Z0 in
  let sumval0 =
    n.nadd (n.nofZ sumval)
      (sum_left n
        (map (fun l ->
          let term1 =
            n.ndiv
              (n.nmul (number_densities l)
                (n.nrpow (masses l)
                  (n.ndiv (n.nofZ (Zpos XH)) (n.nofZ (Zpos (XO XH))))))
              (n.nrpow (n.nadd (masses i) (masses l))
                (n.ndiv (n.nofZ (Zpos (XI (XO (XI XH)))))
                  (n.nofZ (Zpos (XO XH)))))
          in
          let term2 =
            n.nadd
              (n.nmul (n.nsub (delta n i j) (delta n j l))
                (n.nadd
                  (n.nsub
                    (n.nadd
                      (n.nadd
                        (n.nsub
                          (n.nadd
                            (n.nsub
                              (n.nadd
                                (n.nsub
                                  (n.nmul
                                    (n.nmul
                                      (n.ndiv
                                        (n.nofZ (Zpos (XI (XO (XO (XI (XO (XI
                                          XH))))))))
                                        (n.nofZ (Zpos (XO (XO (XO (XO (XO (XO
                                          (XO (XO XH)))))))))))
                                      (n.nadd
                                        (n.nadd
                                          (n.nadd
                                            (n.nmul
                                              (n.nofZ (Zpos (XO (XO (XO (XO
                                                (XI (XI XH))))))))
                                              (n.npow (masses j) (S (S (S (S
                                                (S (S O))))))))
                                            (n.nmul
                                              (n.nmul
                                                (n.nofZ (Zpos (XO (XO (XO (XI
                                                  (XI (XI (XO (XO (XO (XO
                                                  XH))))))))))))
                                                (n.npow (masses j) (S (S (S
                                                  (S O))))))
                                              (n.npow (masses l) (S (S O)))))
                                          (n.nmul
                                            (n.nmul
                                              (n.nofZ (Zpos (XO (XI (XI (XI
                                                (XO (XI (XI (XO (XO (XO
                                                XH))))))))))))
                                              (n.npow (masses j) (S (S O))))
                                            (n.npow (masses l) (S (S (S (S
                                              O)))))))
                                        (n.nmul
                                          (n.nofZ (Zpos (XI (XO (XO (XI (XO
                                            (XI XH))))))))
                                          (n.npow (masses l) (S (S (S (S (S
                                            (S O)))))))))) (q14 i l))
                                  (n.nmul
                                    (n.nmul
                                      (n.nmul
                                        (n.ndiv
                                          (n.nofZ (Zpos (XI (XI (XI (XO (XI
                                            (XI (XO (XO (XO XH)))))))))))
                                          (n.nofZ (Zpos (XO (XO (XO (XO (XO
                                            (XO XH)))))))))
                                        (n.npow (masses l) (S (S O))))
                                      (n.nadd
                                        (n.nadd
                                          (n.nmul
                                            (n.nofZ (Zpos (XO (XO (XO (XI (XI
                                              (XI XH))))))))
                                            (n.npow (masses j) (S (S (S (S
                                              O))))))
                                          (n.nmul
                                            (n.nofZ (Zpos (XO (XO (XI (XI (XI
                                              (XI (XI XH)))))))))
                                            (n.npow
                                              (n.nmul (masses j) (masses l))
                                              (S (S O)))))
                                        (n.nmul
                                          (n.nofZ (Zpos (XI (XI (XO (XO (XO
                                            XH)))))))
                                          (n.npow (masses l) (S (S (S (S
                                            O)))))))) (q15 i l)))
                                (n.nmul
                                  (n.nmul
                                    (n.nmul
                                      (n.ndiv
                                        (n.nofZ (Zpos (XI (XI (XO (XI XH))))))
                                        (n.nofZ (Zpos (XO (XO (XO (XO XH)))))))
                                      (n.npow (masses l) (S (S O))))
                                    (n.nadd
                                      (n.nadd
                                        (n.nmul
                                          (n.nofZ (Zpos (XO (XO (XO (XI (XI
                                            (XI (XO (XI XH))))))))))
                                          (n.npow (masses j) (S (S (S (S
                                            O))))))
                                        (n.nmul
                                          (n.nofZ (Zpos (XO (XO (XI (XI (XO
                                            (XO (XO (XI (XO (XI (XO
                                            XH)))))))))))))
                                          (n.npow
                                            (n.nmul (masses j) (masses l)) (S
                                            (S O)))))
                                      (n.nmul
                                        (n.nofZ (Zpos (XI (XI (XO (XI (XO (XO
                                          (XO (XI (XO XH)))))))))))
                                        (n.npow (masses l) (S (S (S (S O))))))))
                                  (q16 i l)))
                              (n.nmul
                                (n.nmul
                                  (n.nmul
                                    (n.ndiv (n.nofZ (Zpos (XI (XI (XI XH)))))
                                      (n.nofZ (Zpos (XO XH))))
                                    (n.npow (masses l) (S (S (S (S O))))))
                                  (n.nadd
                                    (n.nmul
                                      (n.nofZ (Zpos (XO (XI (XO (XO (XI (XO
                                        (XI (XO (XO XH)))))))))))
                                      (n.npow (masses j) (S (S O))))
                                    (n.nmul
                                      (n.nofZ (Zpos (XI (XO (XI (XI (XO (XI
                                        (XO (XO XH))))))))))
                                      (n.npow (masses l) (S (S O))))))
                                (q17 i l)))
                            (n.nmul
                              (n.nmul
                                (n.nmul
                                  (n.ndiv
                                    (n.nofZ (Zpos (XI (XI (XI (XO (XO (XO (XO
                                      XH))))))))) (n.nofZ (Zpos (XO XH))))
                                  (n.npow (masses l) (S (S (S (S O))))))
                                (n.nadd
                                  (n.nmul
                                    (n.nofZ (Zpos (XO (XI (XO (XI XH))))))
                                    (n.npow (masses j) (S (S O))))
                                  (n.nmul
                                    (n.nofZ (Zpos (XI (XO (XO (XI (XO
                                      XH))))))) (n.npow (masses l) (S (S O))))))
                              (q18 i l)))
                          (n.nmul
                            (n.nmul
                              (n.nofZ (Zpos (XO (XI (XO (XO (XO (XI (XI (XO
                                (XI (XI XH))))))))))))
                              (n.npow (masses l) (S (S (S (S (S (S O))))))))
                            (q19 i l)))
                        (n.nmul
                          (n.nmul
                            (n.nofZ (Zpos (XO (XO (XO (XO (XI (XI (XO (XO (XO
                              XH)))))))))))
                            (n.npow (masses l) (S (S (S (S (S (S O))))))))
                          (q20 i l)))
                      (n.nmul
                        (n.nmul
                          (n.nmul (n.nofZ (Zpos (XO (XI (XO (XO XH))))))
                            (n.npow (n.nmul (masses j) (masses l)) (S (S O))))
                          (n.nadd
                            (n.nmul (n.nofZ (Zpos (XO (XI (XO XH)))))
                              (n.npow (masses j) (S (S O))))
                            (n.nmul (n.nofZ (Zpos (XI (XI (XO (XI XH))))))
                              (n.npow (masses l) (S (S O)))))) (q34 i l)))
                    (n.nmul
                      (n.nmul
                        (n.nmul
                          (n.nofZ (Zpos (XO (XO (XO (XI (XI (XI (XO (XO (XO
                            (XO XH)))))))))))) (n.npow (masses j) (S (S O))))
                        (n.npow (masses l) (S (S (S (S O)))))) (q35 i l)))
                  (n.nmul
                    (n.nmul
                      (n.nmul
                        (n.nofZ (Zpos (XO (XO (XO (XO (XI (XO (XI (XI (XO
                          XH))))))))))) (n.npow (masses j) (S (S O))))
                      (n.npow (masses l) (S (S (S (S O)))))) (q36 i l))))
              (n.nmul (n.nadd (delta n i j) (delta n j l))
                (n.nadd
                  (n.nadd
                    (n.nsub
                      (n.nadd
                        (n.nsub
                          (n.nmul
                            (n.nmul
                              (n.nmul
                                (n.nmul
                                  (n.ndiv
                                    (n.nofZ (Zpos (XI (XO (XI (XI (XI (XI (XO
                                      XH)))))))))
                                    (n.nofZ (Zpos (XO (XO (XO (XO XH)))))))
                                  (masses j)) (masses l))
                              (n.nadd
                                (n.nadd
                                  (n.nmul (n.nofZ (Zpos (XO (XO (XO XH)))))
                                    (n.npow (masses j) (S (S (S (S O))))))
                                  (n.nmul
                                    (n.nofZ (Zpos (XO (XO (XO (XO (XI
                                      XH)))))))
                                    (n.npow (n.nmul (masses j) (masses l)) (S
                                      (S O)))))
                                (n.nmul
                                  (n.nofZ (Zpos (XI (XO (XI (XO XH))))))
                                  (n.npow (masses l) (S (S (S (S O))))))))
                            (q24 i l))
                          (n.nmul
                            (n.nmul
                              (n.nmul
                                (n.nmul
                                  (n.nofZ (Zpos (XO (XI (XO (XO (XO (XI (XO
                                    XH))))))))) (masses j))
                                (n.npow (masses l) (S (S (S O)))))
                              (n.nadd
                                (n.nmul (n.nofZ (Zpos (XO (XO (XO XH)))))
                                  (n.npow (masses j) (S (S O))))
                                (n.nmul (n.nofZ (Zpos (XI (XI XH))))
                                  (n.npow (masses l) (S (S O)))))) (q25 i l)))
                        (n.nmul
                          (n.nmul
                            (n.nmul
                              (n.nmul (n.nofZ (Zpos (XO (XI (XO XH)))))
                                (masses j)) (n.npow (masses l) (S (S (S O)))))
                            (n.nadd
                              (n.nmul
                                (n.nofZ (Zpos (XO (XO (XO (XI (XI (XO
                                  XH)))))))) (n.npow (masses j) (S (S O))))
                              (n.nmul
                                (n.nofZ (Zpos (XI (XO (XO (XO (XO (XI (XI
                                  XH))))))))) (n.npow (masses l) (S (S O))))))
                          (q26 i l)))
                      (n.nmul
                        (n.nmul
                          (n.nmul
                            (n.nofZ (Zpos (XO (XO (XO (XO (XI (XI (XI (XO (XO
                              (XO (XO XH))))))))))))) (masses j))
                          (n.npow (masses l) (S (S (S (S (S O)))))))
                        (q27 i l)))
                    (n.nmul
                      (n.nmul
                        (n.nmul
                          (n.nofZ (Zpos (XO (XO (XO (XI (XO (XO (XI (XO (XI
                            XH))))))))))) (masses j))
                        (n.npow (masses l) (S (S (S (S (S O))))))) (q28 i l)))
                  (n.nmul
                    (n.nmul (n.nofZ (Zpos (XO (XO (XO (XO (XO (XO XH))))))))
                      (n.npow (n.nmul (masses j) (masses l)) (S (S (S O)))))
                    (q44 i l))))
          in
          n.nmul term1 term2) (seq O nb_species)))
  in
  n.nmul
    (n.nmul (n.nmul (n.nofZ (Zpos (XO (XO (XO XH))))) (number_densities i))
      (n.nrpow (n.ndiv (masses i) (masses j))
        (n.ndiv (n.nofZ (Zpos (XI (XI XH)))) (n.nofZ (Zpos (XO XH))))))
    sumval0

(** val qhat00 :
    'a1 num -> (nat -> nat -> 'a1) -> (nat -> nat -> 'a1) -> (nat -> 'a1) ->
    nat -> (nat -> 'a1) -> nat -> nat -> 'a1 **)

let qhat00 n q14 q24 masses nb_species number_densities i j =
  let sumval = Z0 in
  let sumval0 =
    n.nadd (n.nofZ sumval)
      (sum_left n
        (map (fun l ->
          let term1 =
            n.ndiv
              (n.nmul (number_densities l)
                (n.nrpow (masses l)
                  (n.ndiv (n.nofZ (Zpos XH)) (n.nofZ (Zpos (XO XH))))))
              (n.nrpow (n.nadd (masses i) (masses l))
                (n.ndiv (n.nofZ (Zpos (XI XH))) (n.nofZ (Zpos (XO XH)))))
          in
          let term2 =
            n.nadd
              (n.nmul
                (n.nmul
                  (n.ndiv
                    (n.nmul (n.nsub (delta n i j) (delta n j l))
                      (n.nofZ (Zpos (XO (XI (XO XH))))))
                    (n.nofZ (Zpos (XI XH)))) (masses j)) (q14 i l))
              (n.nmul
                (n.nmul
                  (n.nmul (n.nadd (delta n i j) (delta n j l))
                    (n.nofZ (Zpos (XO XH)))) (masses l)) (q24 i l))
          in
          n.nmul term1 term2) (seq O nb_species)))
  in
  n.nmul
    (n.nmul (n.nmul (n.nofZ (Zpos (XO (XO (XO XH))))) (number_densities i))
      (n.ndiv (masses i) (masses j))) sumval0

(** val qhat01 :
    'a1 num -> (nat -> nat -> 'a1) -> (nat -> nat -> 'a1) -> (nat -> nat ->
    'a1) -> (nat -> nat -> 'a1) -> (nat -> 'a1) -> nat -> (nat -> 'a1) -> nat
    -> nat -> 'a1 **)

let qhat01 n q14 q15 q24 q25 masses nb_species number_densities i j =
  let sumval = Z0 in
  let sumval0 =
    n.nadd (n.nofZ sumval)
      (sum_left n
        (map (fun l ->
          let term1 =
            n.ndiv
              (n.nmul (number_densities l)
                (n.nrpow (masses l)
                  (n.ndiv (n.nofZ (Zpos (XI XH))) (n.nofZ (Zpos (XO XH))))))
              (n.nrpow (n.nadd (masses i) (masses l))
                (n.ndiv (n.nofZ (Zpos (XI (XO XH)))) (n.nofZ (Zpos (XO XH)))))
          in
          let term2 =
            n.nadd
              (n.nmul
                (n.nmul (n.nsub (delta n i j) (delta n j l)) (masses j))
                (n.nsub
                  (n.nmul
                    (n.ndiv (n.nofZ (Zpos (XI (XI (XO (XO (XO XH)))))))
                      (n.nofZ (Zpos (XI XH)))) (q14 i l))
                  (n.nmul (n.nofZ (Zpos (XO (XI (XI XH))))) (q15 i l))))
              (n.nmul
                (n.nmul (n.nadd (delta n i j) (delta n j l)) (masses l))
                (n.nsub (n.nmul (n.nofZ (Zpos (XI (XI XH)))) (q24 i l))
                  (n.nmul (n.nofZ (Zpos (XO (XO (XO XH))))) (q25 i l))))
          in
          n.nmul term1 term2) (seq O nb_species)))
  in
  n.nmul
    (n.nmul (n.nmul (n.nofZ (Zpos (XO (XO (XO XH))))) (number_densities i))
      (n.npow (n.ndiv (masses i) (masses j)) (S (S O)))) sumval0

(** val qhat11 :
    'a1 num -> (nat -> nat -> 'a1) -> (nat -> nat -> 'a1) -> (nat -> nat ->
    'a1) -> (nat -> nat -> 'a1) -> (nat -> nat -> 'a1) -> (nat -> nat -> 'a1)
    -> (nat -> nat -> 'a1) -> (nat -> 'a1) -> nat -> (nat -> 'a1) -> nat ->
    nat -> 'a1 **)

let qhat11 n q14 q15 q16 q24 q25 q26 q34 masses nb_species number_densities i j =
  let sumval = Z0 in
  let sumval0 =
    n.nadd (n.nofZ sumval)
      (sum_left n
        (map (fun l ->
          let term1 =
            n.ndiv
              (n.nmul (number_densities l)
                (n.nrpow (masses l)
                  (n.ndiv (n.nofZ (Zpos XH)) (n.nofZ (Zpos (XO XH))))))
              (n.nrpow (n.nadd (masses i) (masses l))
                (n.ndiv (n.nofZ (Zpos (XI (XI XH)))) (n.nofZ (Zpos (XO XH)))))
          in
          let term2 =
            n.nadd
              (n.nmul
                (n.nmul (n.nsub (delta n i j) (delta n j l)) (masses j))
                (n.nsub
                  (n.nmul
                    (n.nmul
                      (n.ndiv (n.nofZ (Zpos XH)) (n.nofZ (Zpos (XO (XI XH)))))
                      (n.nadd
                        (n.nmul
                          (n.nofZ (Zpos (XO (XO (XI (XI (XO (XO (XO
                            XH))))))))) (n.npow (masses j) (S (S O))))
                        (n.nmul
                          (n.nofZ (Zpos (XI (XO (XI (XO (XI (XI (XI
                            XH))))))))) (n.npow (masses l) (S (S O))))))
                    (q14 i l))
                  (n.nmul (n.npow (masses l) (S (S O)))
                    (n.nsub
                      (n.nsub
                        (n.nmul
                          (n.nofZ (Zpos (XO (XI (XO (XO (XO (XI XH))))))))
                          (q15 i l))
                        (n.nmul
                          (n.nofZ (Zpos (XO (XO (XO (XO (XO (XO XH))))))))
                          (q16 i l)))
                      (n.nmul (n.nofZ (Zpos (XO (XO (XO (XI XH))))))
                        (q34 i l))))))
              (n.nmul
                (n.nmul (n.nadd (delta n i j) (delta n j l)) (masses l))
                (n.nsub
                  (n.nmul
                    (n.nmul
                      (n.ndiv (n.nofZ (Zpos XH)) (n.nofZ (Zpos (XO (XI XH)))))
                      (n.nadd
                        (n.nmul
                          (n.nofZ (Zpos (XO (XI (XO (XI (XI (XO (XO
                            XH))))))))) (n.npow (masses j) (S (S O))))
                        (n.nmul
                          (n.nofZ (Zpos (XI (XI (XO (XO (XI (XO (XO
                            XH))))))))) (n.npow (masses l) (S (S O))))))
                    (q24 i l))
                  (n.nmul (n.npow (masses l) (S (S O)))
                    (n.nsub
                      (n.nmul (n.nofZ (Zpos (XO (XO (XO (XI (XI XH)))))))
                        (q25 i l))
                      (n.nmul (n.nofZ (Zpos (XO (XO (XO (XI (XO XH)))))))
                        (q26 i l))))))
          in
          n.nmul term1 term2) (seq O nb_species)))
  in
  n.nmul
    (n.nmul (n.nmul (n.nofZ (Zpos (XO (XO (XO XH))))) (number_densities i))
      (n.npow (n.ndiv (masses i) (masses j)) (S (S O)))) sumval0

(** val c_nn_tab : 'a1 num -> nat -> nat -> (('a1 * 'a1) * 'a1) list **)

let c_nn_tab n l s =
  match l with
  | O -> []
  | S n0 ->
    (match n0 with
     | O ->
       (match s with
        | O -> []
        | S n1 ->
          (match n1 with
           | O ->
             (((n.ndiv
                 (n.nofZ (Zpos (XI (XO (XI (XO (XI (XI (XI (XI (XI (XI (XO
                   (XO (XI (XO (XO (XO (XO (XI (XI (XI
                   XH))))))))))))))))))))))
                 (n.nofZ (Zpos (XO (XO (XO (XO (XO (XI (XO (XI (XI (XO (XI
                   (XO (XO (XI (XO (XO (XO (XI (XI (XO (XO
                   XH)))))))))))))))))))))))),
               (n.ndiv
                 (n.nofZ (Zneg (XI (XI (XI (XI (XO (XI (XO (XI (XO (XI (XO
                   (XI (XI (XO (XO (XI (XO (XI (XO (XO
                   XH))))))))))))))))))))))
                 (n.nofZ (Zpos (XO (XO (XO (XO (XO (XO (XO (XI (XO (XO (XO
                   (XO (XI (XI (XI (XI (XO (XI (XO (XI (XI (XI (XI (XI (XO
                   XH))))))))))))))))))))))))))))),
               (n.nofZ Z0)) :: ((((n.ndiv
                                    (n.nofZ (Zneg (XI (XI (XI (XO (XI (XI (XO
                                      (XO (XO (XI (XI (XI (XO (XO (XO (XO (XI
                                      (XO (XI (XI (XO
                                      XH)))))))))))))))))))))))
                                    (n.nofZ (Zpos (XO (XO (XO (XO (XO (XO (XO
                                      (XI (XO (XI (XI (XO (XI (XO (XO (XI (XO
                                      (XO (XO (XI (XI (XO (XO
                                      XH)))))))))))))))))))))))))),
               (n.ndiv
                 (n.nofZ (Zneg (XI (XO (XI (XO (XI (XO (XO (XO (XI (XO (XI
                   (XI (XI (XO (XO (XI (XO (XI (XO (XI
                   XH))))))))))))))))))))))
                 (n.nofZ (Zpos (XO (XO (XO (XO (XO (XO (XO (XO (XO (XI (XO
                   (XI (XO (XO (XI (XI (XO (XI (XO (XI (XI (XO (XO (XI (XI
                   (XI (XO (XI (XI XH))))))))))))))))))))))))))))))))),
               (n.nofZ Z0)) :: ((((n.ndiv
                                    (n.nofZ (Zpos (XI (XI (XI (XO (XI (XI (XO
                                      (XO (XI (XI (XI (XO (XO (XI (XO (XO (XI
                                      (XI (XO (XO XH))))))))))))))))))))))
                                    (n.nofZ (Zpos (XO (XO (XO (XO (XO (XI (XO
                                      (XI (XI (XO (XI (XO (XO (XI (XO (XO (XO
                                      (XI (XI (XO (XO
                                      XH)))))))))))))))))))))))),
               (n.ndiv
                 (n.nofZ (Zpos (XI (XO (XI (XO (XO (XI (XO (XI (XO (XO (XI
                   (XI (XO (XI (XO (XO (XI (XO (XI XH)))))))))))))))))))))
                 (n.nofZ (Zpos (XO (XO (XO (XO (XO (XO (XO (XO (XI (XO (XI
                   (XI (XO (XI (XO (XO (XI (XO (XO (XO (XI (XI (XO (XO
                   XH)))))))))))))))))))))))))))),
               (n.nofZ Z0)) :: ((((n.ndiv
                                    (n.nofZ (Zneg (XI (XI (XO (XI (XI (XO (XO
                                      (XO (XO (XI (XI (XO (XO (XI (XI (XI (XO
                                      (XI XH))))))))))))))))))))
                                    (n.nofZ (Zpos (XO (XO (XO (XO (XO (XI (XO
                                      (XO (XI (XO (XO (XO (XO (XI (XO (XI (XI
                                      (XI XH))))))))))))))))))))),
               (n.ndiv
                 (n.nofZ (Zneg (XI (XI (XI (XI (XO (XO (XI (XI (XI (XI (XO
                   (XI (XO (XO (XI (XO (XI (XO (XI (XI (XI
                   XH)))))))))))))))))))))))
                 (n.nofZ (Zpos (XO (XO (XO (XO (XO (XO (XO (XO (XI (XO (XO
                   (XO (XO (XI (XI (XI (XI (XO (XI (XO (XI (XI (XI (XI (XI
                   (XO XH)))))))))))))))))))))))))))))),
               (n.nofZ Z0)) :: ((((n.ndiv
                                    (n.nofZ (Zneg (XI (XO (XO (XO (XO (XO (XO
                                      (XO (XO (XO (XI (XI (XI (XI (XO (XI (XI
                                      (XO (XO (XI XH))))))))))))))))))))))
                                    (n.nofZ (Zpos (XO (XO (XO (XO (XO (XI (XO
                                      (XO (XI (XO (XO (XO (XO (XI (XO (XI (XI
                                      (XI XH))))))))))))))))))))),
               (n.ndiv
                 (n.nofZ (Zpos (XI (XO (XI (XO (XI (XO (XI (XI (XI (XO (XO
                   (XO (XO (XO (XI (XI (XO (XI (XO (XO
                   XH))))))))))))))))))))))
                 (n.nofZ (Zpos (XO (XO (XO (XO (XO (XO (XI (XO (XI (XI (XO
                   (XI (XO (XO (XI (XO (XO (XO (XI (XI (XO (XO
                   XH)))))))))))))))))))))))))),
               (n.ndiv
                 (n.nofZ (Zneg (XI (XI (XI (XI (XI (XI (XI (XO (XI (XO (XO
                   (XO (XO (XO (XO (XO (XO (XI (XO (XI (XO (XO
                   XH))))))))))))))))))))))))
                 (n.nofZ (Zpos (XO (XO (XO (XO (XO (XO (XO (XO (XO (XI (XO
                   (XI (XO (XO (XI (XI (XO (XI (XO (XI (XI (XO (XO (XI (XI
                   (XI (XO (XI (XI XH))))))))))))))))))))))))))))))))) :: (((
               (n.ndiv
                 (n.nofZ (Zpos (XI (XO (XI (XI (XI (XI (XO (XI (XI (XO (XO
                   (XO (XO (XO (XO (XI (XI (XI (XI (XI (XI
                   XH)))))))))))))))))))))))
                 (n.nofZ (Zpos (XO (XO (XO (XO (XO (XO (XI (XO (XO (XI (XO
                   (XO (XO (XO (XI (XO (XI (XI (XI XH)))))))))))))))))))))),
               (n.ndiv
                 (n.nofZ (Zpos (XI (XO (XO (XO (XI (XI (XI (XO (XO (XO (XI
                   (XI (XI (XO (XO (XI (XI (XO (XO (XO (XO
                   XH)))))))))))))))))))))))
                 (n.nofZ (Zpos (XO (XO (XO (XO (XO (XO (XO (XI (XO (XI (XI
                   (XO (XI (XO (XO (XI (XO (XO (XO (XI (XI (XO (XO
                   XH))))))))))))))))))))))))))),
               (n.ndiv
                 (n.nofZ (Zneg (XI (XO (XO (XI (XI (XO (XO (XO (XI (XI (XI
                   (XI (XI (XO (XO (XI (XO XH)))))))))))))))))))
                 (n.nofZ (Zpos (XO (XO (XO (XO (XO (XO (XO (XI (XO (XI (XI
                   (XO (XI (XO (XO (XI (XO (XO (XO (XI (XI (XO (XO
                   XH))))))))))))))))))))))))))) :: ((((n.ndiv
                                                         (n.nofZ (Zpos (XI
                                                           (XI (XO (XI (XI
                                                           (XI (XO (XO (XI
                                                           (XI (XO (XO (XI
                                                           (XO (XO (XI (XI
                                                           (XO (XI (XO (XO
                                                           XH)))))))))))))))))))))))
                                                         (n.nofZ (Zpos (XO
                                                           (XO (XO (XO (XO
                                                           (XO (XI (XO (XO
                                                           (XI (XO (XO (XO
                                                           (XO (XI (XO (XI
                                                           (XI (XI
                                                           XH)))))))))))))))))))))),
               (n.ndiv
                 (n.nofZ (Zpos (XI (XI (XO (XO (XI (XO (XO (XI (XI (XI (XO
                   (XO (XI (XO (XI (XO (XO (XO (XI XH)))))))))))))))))))))
                 (n.nofZ (Zpos (XO (XO (XO (XO (XO (XI (XO (XI (XI (XO (XI
                   (XO (XO (XI (XO (XO (XO (XI (XI (XO (XO
                   XH))))))))))))))))))))))))),
               (n.ndiv
                 (n.nofZ (Zneg (XI (XI (XI (XO (XO (XI (XI (XI (XO (XO (XI
                   (XI (XO (XI (XO (XO (XO XH)))))))))))))))))))
                 (n.nofZ (Zpos (XO (XO (XO (XO (XI (XO (XO (XO (XO (XI (XI
                   (XI (XI (XO (XI (XO (XI (XI (XI (XI (XI (XO
                   XH)))))))))))))))))))))))))) :: []))))))
           | S n2 ->
             (match n2 with
              | O ->
                (((n.ndiv
                    (n.nofZ (Zpos (XI (XO (XO (XI (XO (XO (XI (XO (XI (XO (XI
                      (XI (XI (XI (XO (XI (XI (XO (XI (XO
                      XH))))))))))))))))))))))
                    (n.nofZ (Zpos (XO (XO (XO (XO (XO (XO (XO (XI (XO (XO (XI
                      (XO (XO (XO (XO (XI (XO (XI (XI (XI
                      XH))))))))))))))))))))))),
                  (n.ndiv
                    (n.nofZ (Zneg (XI (XI (XI (XO (XO (XO (XO (XO (XO (XO (XI
                      (XO (XI (XO XH))))))))))))))))
                    (n.nofZ (Zpos (XO (XO (XO (XO (XO (XO (XO (XO (XI (XO (XI
                      (XO (XI (XI (XO (XO (XO (XO (XI XH))))))))))))))))))))))),
                  (n.nofZ Z0)) :: ((((n.ndiv
                                       (n.nofZ (Zneg (XI (XO (XI (XI (XO (XI
                                         (XI (XI (XO (XO (XO (XO (XI (XI (XI
                                         (XO (XO (XO XH))))))))))))))))))))
                                       (n.nofZ (Zpos (XO (XO (XO (XO (XO (XO
                                         (XI (XO (XO (XI (XO (XO (XO (XO (XI
                                         (XO (XI (XI (XI
                                         XH)))))))))))))))))))))),
                  (n.ndiv
                    (n.nofZ (Zneg (XI (XI (XI (XI (XO (XI (XO (XI (XO (XI (XO
                      (XO (XO (XO (XI (XO XH))))))))))))))))))
                    (n.nofZ (Zpos (XO (XO (XO (XO (XO (XO (XO (XO (XO (XI (XO
                      (XI (XI (XO (XI (XO (XO (XI (XO (XO (XO (XI (XI (XO (XO
                      XH))))))))))))))))))))))))))))),
                  (n.nofZ Z0)) :: ((((n.ndiv
                                       (n.nofZ (Zpos (XI (XO (XI (XO (XO (XI
                                         (XO (XO (XI (XI (XI (XO (XO (XO (XI
                                         (XI (XO (XO (XI
                                         XH)))))))))))))))))))))
                                       (n.nofZ (Zpos (XO (XO (XO (XO (XO (XO
                                         (XO (XO (XI (XO (XI (XI (XO (XI (XO
                                         (XO (XI (XO (XO (XO (XI (XI (XO (XO
                                         XH))))))))))))))))))))))))))),
                  (n.ndiv
                    (n.nofZ (Zpos (XI (XI (XO (XO (XI (XO (XO (XO (XI (XO (XI
                      (XI (XI (XI (XI (XO (XI (XI (XI XH)))))))))))))))))))))
                    (n.nofZ (Zpos (XO (XO (XO (XO (XO (XO (XI (XO (XO (XO (XO
                      (XI (XI (XI (XI (XO (XI (XO (XI (XI (XI (XI (XI (XO
                      XH)))))))))))))))))))))))))))),
                  (n.nofZ Z0)) :: ((((n.ndiv
                                       (n.nofZ (Zneg (XI (XO (XO (XO (XO (XO
                                         (XO (XO (XO (XO (XO (XI (XI (XO (XI
                                         (XO (XO (XO (XI (XI
                                         XH))))))))))))))))))))))
                                       (n.nofZ (Zpos (XO (XO (XO (XO (XO (XO
                                         (XO (XI (XO (XO (XI (XO (XO (XO (XO
                                         (XI (XO (XI (XI (XI
                                         XH))))))))))))))))))))))),
                  (n.ndiv
                    (n.nofZ (Zneg (XI (XI (XO (XO (XI (XI (XI (XI (XO (XI (XO
                      (XO (XI (XO (XO (XI (XI XH)))))))))))))))))))
                    (n.nofZ (Zpos (XO (XO (XO (XO (XO (XO (XO (XI (XO (XI (XI
                      (XO (XI (XO (XO (XI (XO (XO (XO (XI (XI (XO (XO
                      XH))))))))))))))))))))))))))),
                  (n.nofZ Z0)) :: ((((n.ndiv
                                       (n.nofZ (Zneg (XI (XI (XI (XO (XO (XI
                                         (XI (XO (XO (XO (XI (XO (XI (XI (XI
                                         (XO (XI (XI (XO (XI
                                         XH))))))))))))))))))))))
                                       (n.nofZ (Zpos (XO (XO (XO (XO (XO (XI
                                         (XO (XO (XI (XO (XO (XO (XO (XI (XO
                                         (XI (XI (XI XH))))))))))))))))))))),
                  (n.ndiv
                    (n.nofZ (Zpos (XI (XI (XO (XO (XO (XI (XO (XO (XO (XI (XI
                      (XI (XI XH)))))))))))))))
                    (n.nofZ (Zpos (XO (XO (XI (XO (XO (XI (XO (XO (XO (XO (XI
                      (XO (XI (XI (XI XH))))))))))))))))))),
                  (n.ndiv
                    (n.nofZ (Zneg (XI (XI (XI (XO (XO (XO (XI (XO (XO (XO (XO
                      (XO (XO (XO (XI (XI (XI (XI (XO (XO (XO
                      XH)))))))))))))))))))))))
                    (n.nofZ (Zpos (XO (XO (XO (XO (XO (XO (XO (XO (XI (XO (XI
                      (XO (XO (XI (XI (XO (XI (XO (XI (XI (XO (XO (XI (XI (XI
                      (XO (XI (XI XH)))))))))))))))))))))))))))))))) :: (((
                  (n.ndiv
                    (n.nofZ (Zpos (XI (XO (XI (XI (XO (XO (XI (XO (XI (XO (XO
                      (XO (XO (XO (XO (XI (XI (XI XH))))))))))))))))))))
                    (n.nofZ (Zpos (XO (XO (XO (XI (XO (XO (XI (XO (XO (XO (XO
                      (XI (XO (XI (XI (XI XH))))))))))))))))))),
                  (n.ndiv
                    (n.nofZ (Zpos (XI (XO (XI (XO (XI (XO (XI (XO (XO (XI (XI
                      (XO (XO (XI (XO (XO (XI (XO XH))))))))))))))))))))
                    (n.nofZ (Zpos (XO (XO (XO (XO (XI (XO (XI (XI (XO (XI (XO
                      (XO (XI (XO (XO (XO (XI (XI (XO (XO
                      XH)))))))))))))))))))))))),
                  (n.ndiv
                    (n.nofZ (Zneg (XI (XI (XI (XI (XO (XO (XO (XI (XI (XO (XI
                      (XO (XI (XO (XI (XO (XI (XI (XI XH)))))))))))))))))))))
                    (n.nofZ (Zpos (XO (XO (XO (XO (XO (XO (XO (XI (XO (XO (XO
                      (XO (XI (XI (XI (XI (XO (XI (XO (XI (XI (XI (XI (XI (XO
                      XH))))))))))))))))))))))))))))) :: ((((n.ndiv
                                                              (n.nofZ (Zpos
                                                                (XI (XO (XO
                                                                (XI (XO (XI
                                                                (XO (XI (XI
                                                                (XO (XI (XO
                                                                (XI (XO (XI
                                                                (XI (XI (XO
                                                                (XO
                                                                XH)))))))))))))))))))))
                                                              (n.nofZ (Zpos
                                                                (XO (XO (XO
                                                                (XO (XI (XO
                                                                (XO (XI (XO
                                                                (XO (XO (XO
                                                                (XI (XO (XI
                                                                (XI (XI
                                                                XH)))))))))))))))))))),
                  (n.ndiv
                    (n.nofZ (Zpos (XI (XI (XO (XO (XO (XO (XO (XI (XO (XI (XO
                      (XO (XI (XO (XI XH)))))))))))))))))
                    (n.nofZ (Zpos (XO (XI (XO (XI (XI (XO (XI (XO (XO (XI (XO
                      (XO (XO (XI (XI (XO (XO XH))))))))))))))))))))),
                  (n.ndiv
                    (n.nofZ (Zneg (XI (XI (XI (XO (XI (XO (XO (XI (XI (XI (XI
                      (XI (XI (XI (XI (XO (XI XH)))))))))))))))))))
                    (n.nofZ (Zpos (XO (XO (XO (XO (XO (XO (XO (XI (XO (XI (XI
                      (XO (XI (XO (XO (XI (XO (XO (XO (XI (XI (XO (XO
                      XH))))))))))))))))))))))))))) :: []))))))
              | S n3 ->
                (match n3 with
                 | O ->
                   (((n.ndiv
                       (n.nofZ (Zpos (XI (XI (XO (XO (XO (XI (XI (XO (XO (XI
                         (XI (XO (XO (XI (XI (XO (XO (XI (XO (XO (XI
                         XH)))))))))))))))))))))))
                       (n.nofZ (Zpos (XO (XO (XO (XO (XO (XO (XI (XO (XI (XI
                         (XO (XI (XO (XO (XI (XO (XO (XO (XI (XI (XO (XO
                         XH))))))))))))))))))))))))),
                     (n.ndiv
                       (n.nofZ (Zneg (XI (XI (XO (XI (XO (XO (XO (XI (XO (XI
                         (XI (XO (XO (XI (XI (XO (XI (XO
                         XH))))))))))))))))))))
                       (n.nofZ (Zpos (XO (XO (XO (XO (XO (XI (XO (XO (XO (XO
                         (XI (XI (XI (XI (XO (XI (XO (XI (XI (XI (XI (XI (XO
                         XH))))))))))))))))))))))))))),
                     (n.nofZ Z0)) :: ((((n.ndiv
                                          (n.nofZ (Zneg (XI (XO (XI (XO (XO
                                            (XI (XO (XO (XO (XO (XO (XO (XI
                                            (XI XH))))))))))))))))
                                          (n.nofZ (Zpos (XO (XO (XO (XO (XO
                                            (XI (XO (XI (XO (XI (XI (XO (XO
                                            (XO (XO (XI XH))))))))))))))))))),
                     (n.ndiv
                       (n.nofZ (Zneg (XI (XI (XO (XI (XI (XI (XI (XI (XI (XO
                         (XO (XO (XI (XO (XO (XO (XO (XI (XO (XO (XO
                         XH)))))))))))))))))))))))
                       (n.nofZ (Zpos (XO (XO (XO (XO (XO (XO (XO (XO (XO (XI
                         (XO (XI (XO (XO (XI (XI (XO (XI (XO (XI (XI (XO (XO
                         (XI (XI (XI (XO (XI (XI
                         XH))))))))))))))))))))))))))))))))),
                     (n.nofZ Z0)) :: ((((n.ndiv
                                          (n.nofZ (Zneg (XI (XO (XO (XO (XO
                                            (XO (XI (XO (XO (XO (XO (XI (XI
                                            (XO (XI (XI (XI
                                            XH)))))))))))))))))))
                                          (n.nofZ (Zpos (XO (XO (XO (XO (XO
                                            (XO (XI (XO (XO (XI (XO (XO (XO
                                            (XO (XI (XO (XI (XI (XI
                                            XH)))))))))))))))))))))),
                     (n.ndiv
                       (n.nofZ (Zpos (XI (XI (XO (XO (XO (XI (XO (XI (XO (XI
                         (XI (XO (XO (XI (XO (XI (XI (XO (XO (XI (XI
                         XH)))))))))))))))))))))))
                       (n.nofZ (Zpos (XO (XO (XO (XO (XO (XO (XO (XO (XI (XO
                         (XO (XO (XO (XI (XI (XI (XI (XO (XI (XO (XI (XI (XI
                         (XI (XI (XO XH)))))))))))))))))))))))))))))),
                     (n.nofZ Z0)) :: ((((n.ndiv
                                          (n.nofZ (Zneg (XI (XI (XO (XI (XI
                                            (XO (XO (XO (XO (XO (XI (XI (XI
                                            (XI (XI (XI (XI (XO (XI (XO (XO
                                            (XO XH))))))))))))))))))))))))
                                          (n.nofZ (Zpos (XO (XO (XO (XO (XO
                                            (XO (XI (XO (XI (XI (XO (XI (XO
                                            (XO (XI (XO (XO (XO (XI (XI (XO
                                            (XO XH))))))))))))))))))))))))),
                     (n.ndiv
                       (n.nofZ (Zneg (XI (XI (XI (XO (XO (XO (XI (XI (XO (XO
                         (XI (XI (XI (XO (XO (XO (XI (XI
                         XH))))))))))))))))))))
                       (n.nofZ (Zpos (XO (XO (XO (XO (XO (XO (XI (XO (XO (XO
                         (XO (XI (XI (XI (XI (XO (XI (XO (XI (XI (XI (XI (XI
                         (XO XH)))))))))))))))))))))))))))),
                     (n.nofZ Z0)) :: ((((n.ndiv
                                          (n.nofZ (Zneg (XI (XI (XO (XI (XO
                                            (XO (XI (XO (XO (XO (XO (XI (XO
                                            (XI (XI (XO (XO (XI (XI
                                            XH)))))))))))))))))))))
                                          (n.nofZ (Zpos (XO (XO (XO (XO (XI
                                            (XO (XO (XI (XO (XO (XO (XO (XI
                                            (XO (XI (XI (XI
                                            XH)))))))))))))))))))),
                     (n.ndiv
                       (n.nofZ (Zpos (XI (XO (XI (XI (XO (XI (XO (XO (XI (XI
                         (XI (XI (XO (XI (XI (XO (XO XH)))))))))))))))))))
                       (n.nofZ (Zpos (XO (XO (XO (XI (XO (XI (XI (XO (XI (XO
                         (XO (XI (XO (XO (XO (XI (XI (XO (XO
                         XH))))))))))))))))))))))),
                     (n.ndiv
                       (n.nofZ (Zneg (XI (XO (XI (XO (XI (XO (XO (XI (XI (XI
                         (XO (XI (XI (XI (XO (XO (XI XH)))))))))))))))))))
                       (n.nofZ (Zpos (XO (XO (XO (XO (XO (XO (XO (XI (XO (XO
                         (XO (XO (XI (XI (XI (XI (XO (XI (XO (XI (XI (XI (XI
                         (XI (XO XH))))))))))))))))))))))))))))) :: (((
                     (n.ndiv
                       (n.nofZ (Zpos (XI (XI (XI (XO (XO (XI (XO (XO (XI (XI
                         (XI (XI (XI (XI (XI (XO (XI (XO (XO (XI (XI
                         XH)))))))))))))))))))))))
                       (n.nofZ (Zpos (XO (XO (XO (XO (XO (XO (XI (XO (XO (XI
                         (XO (XO (XO (XO (XI (XO (XI (XI (XI
                         XH)))))))))))))))))))))),
                     (n.ndiv
                       (n.nofZ (Zpos (XI (XO (XO (XI (XI (XI (XI (XI (XO (XO
                         (XI (XI (XO (XI (XI (XI XH))))))))))))))))))
                       (n.nofZ (Zpos (XO (XO (XO (XO (XO (XO (XO (XI (XO (XI
                         (XO (XI (XI (XO (XO (XO (XO (XI
                         XH)))))))))))))))))))))),
                     (n.ndiv
                       (n.nofZ (Zneg (XI (XO (XO (XO (XO (XI (XI (XO (XI (XI
                         (XO (XI (XI (XO (XI (XI (XI (XO (XO (XO (XO
                         XH)))))))))))))))))))))))
                       (n.nofZ (Zpos (XO (XO (XO (XO (XO (XO (XO (XO (XI (XO
                         (XO (XO (XO (XI (XI (XI (XI (XO (XI (XO (XI (XI (XI
                         (XI (XI (XO XH)))))))))))))))))))))))))))))) :: (((
                     (n.ndiv
                       (n.nofZ (Zpos (XI (XO (XI (XI (XI (XO (XO (XI (XI (XI
                         (XO (XO (XO (XO (XO XH)))))))))))))))))
                       (n.nofZ (Zpos (XO (XO (XI (XO (XI (XO (XI (XI (XO (XO
                         (XO (XO (XI XH)))))))))))))))),
                     (n.ndiv
                       (n.nofZ (Zpos (XI (XI (XI (XO (XI (XO (XI (XO (XI (XI
                         (XO (XO (XI (XI (XI (XO (XI (XI (XO (XI
                         XH))))))))))))))))))))))
                       (n.nofZ (Zpos (XO (XO (XO (XO (XO (XO (XI (XO (XI (XI
                         (XO (XI (XO (XO (XI (XO (XO (XO (XI (XI (XO (XO
                         XH)))))))))))))))))))))))))),
                     (n.ndiv
                       (n.nofZ (Zneg (XI (XI (XI (XI (XO (XI (XI (XI (XI (XI
                         (XO (XI (XO (XO (XI (XO (XI (XO (XO (XO
                         XH))))))))))))))))))))))
                       (n.nofZ (Zpos (XO (XO (XO (XO (XO (XO (XO (XI (XO (XO
                         (XO (XO (XI (XI (XI (XI (XO (XI (XO (XI (XI (XI (XI
                         (XI (XO XH))))))))))))))))))))))))))))) :: []))))))
                 | S n4 ->
                   (match n4 with
                    | O ->
                      (((n.ndiv
                          (n.nofZ (Zpos (XI (XI (XI (XO (XO (XO (XI (XO (XO
                            (XI (XO (XI (XI (XI (XI (XI (XI (XO
                            XH))))))))))))))))))))
                          (n.nofZ (Zpos (XO (XO (XO (XI (XO (XI (XI (XO (XI
                            (XO (XO (XI (XO (XO (XO (XI (XI (XO (XO
                            XH)))))))))))))))))))))),
                        (n.ndiv
                          (n.nofZ (Zneg (XI (XI (XO (XI (XI (XO (XO (XO (XO
                            (XO (XO (XI (XI (XI (XI (XO (XO (XI (XI (XO
                            XH))))))))))))))))))))))
                          (n.nofZ (Zpos (XO (XO (XO (XO (XO (XO (XO (XI (XO
                            (XO (XO (XO (XI (XI (XI (XI (XO (XI (XO (XI (XI
                            (XI (XI (XI (XO XH))))))))))))))))))))))))))))),
                        (n.nofZ Z0)) :: ((((n.ndiv
                                             (n.nofZ (Zneg (XI (XO (XO (XI
                                               (XI (XI (XI (XI (XO (XO (XO
                                               (XI (XI (XO (XO (XI (XI (XO
                                               (XI (XO
                                               XH))))))))))))))))))))))
                                             (n.nofZ (Zpos (XO (XO (XO (XO
                                               (XO (XO (XI (XO (XI (XI (XO
                                               (XI (XO (XO (XI (XO (XO (XO
                                               (XI (XI (XO (XO
                                               XH))))))))))))))))))))))))),
                        (n.ndiv
                          (n.nofZ (Zneg (XI (XO (XO (XI (XI (XI (XO (XI (XI
                            (XI (XI (XO (XO (XO (XO (XO (XO (XO (XI (XO (XO
                            XH)))))))))))))))))))))))
                          (n.nofZ (Zpos (XO (XO (XO (XO (XO (XO (XO (XO (XO
                            (XI (XO (XI (XO (XO (XI (XI (XO (XI (XO (XI (XI
                            (XO (XO (XI (XI (XI (XO (XI (XI
                            XH))))))))))))))))))))))))))))))))),
                        (n.nofZ Z0)) :: ((((n.ndiv
                                             (n.nofZ (Zneg (XI (XI (XI (XO
                                               (XI (XI (XO (XO (XO (XO (XI
                                               (XO (XI (XO (XO (XI (XI (XO
                                               (XI (XO (XO (XO
                                               XH))))))))))))))))))))))))
                                             (n.nofZ (Zpos (XO (XO (XO (XO
                                               (XO (XO (XO (XI (XO (XI (XI
                                               (XO (XI (XO (XO (XI (XO (XO
                                               (XO (XI (XI (XO (XO
                                               XH)))))))))))))))))))))))))),
                        (n.ndiv
                          (n.nofZ (Zpos (XI (XO (XO (XO (XO (XI (XI (XI (XI
                            (XO (XO (XI (XO (XI (XI (XO XH))))))))))))))))))
                          (n.nofZ (Zpos (XO (XO (XO (XO (XO (XI (XO (XI (XI
                            (XO (XI (XO (XO (XI (XO (XO (XO (XI (XI (XO (XO
                            XH))))))))))))))))))))))))),
                        (n.nofZ Z0)) :: ((((n.ndiv
                                             (n.nofZ (Zneg (XI (XI (XI (XO
                                               (XI (XI (XO (XI (XI (XI (XI
                                               (XO (XI (XI (XO (XO (XI (XI
                                               (XI (XO (XO (XO
                                               XH))))))))))))))))))))))))
                                             (n.nofZ (Zpos (XO (XO (XO (XO
                                               (XO (XO (XI (XO (XI (XI (XO
                                               (XI (XO (XO (XI (XO (XO (XO
                                               (XI (XI (XO (XO
                                               XH))))))))))))))))))))))))),
                        (n.ndiv
                          (n.nofZ (Zneg (XI (XO (XO (XO (XI (XO (XI (XI (XO
                            (XO (XI (XI (XO (XI (XI (XO (XI (XI (XO (XI
                            XH))))))))))))))))))))))
                          (n.nofZ (Zpos (XO (XO (XO (XO (XO (XO (XO (XO (XI
                            (XO (XO (XO (XO (XI (XI (XI (XI (XO (XI (XO (XI
                            (XI (XI (XI (XI (XO XH)))))))))))))))))))))))))))))),
                        (n.nofZ Z0)) :: ((((n.ndiv
                                             (n.nofZ (Zneg (XI (XI (XO (XI
                                               (XO (XO (XO (XO (XO (XI (XO
                                               (XI (XI (XI (XO (XO (XO (XO
                                               (XI (XI (XI
                                               XH)))))))))))))))))))))))
                                             (n.nofZ (Zpos (XO (XO (XO (XO
                                               (XO (XO (XI (XO (XO (XI (XO
                                               (XO (XO (XO (XI (XO (XI (XI
                                               (XI XH)))))))))))))))))))))),
                        (n.ndiv
                          (n.nofZ (Zpos (XI (XI (XO (XI (XI (XI (XI (XI (XI
                            (XO (XI (XO (XI (XO (XI (XO (XI (XO (XI (XO (XO
                            XH)))))))))))))))))))))))
                          (n.nofZ (Zpos (XO (XO (XO (XO (XO (XO (XO (XI (XO
                            (XI (XI (XO (XI (XO (XO (XI (XO (XO (XO (XI (XI
                            (XO (XO XH))))))))))))))))))))))))))),
                        (n.ndiv
                          (n.nofZ (Zneg (XI (XI (XO (XI (XI (XO (XI (XI (XI
                            (XI (XO (XI (XI (XI (XO (XO (XO (XO (XO (XI
                            XH))))))))))))))))))))))
                          (n.nofZ (Zpos (XO (XO (XO (XO (XO (XO (XO (XO (XI
                            (XO (XI (XO (XO (XI (XI (XO (XI (XO (XI (XI (XO
                            (XO (XI (XI (XI (XO (XI (XI
                            XH)))))))))))))))))))))))))))))))) :: (((
                        (n.ndiv
                          (n.nofZ (Zpos (XI (XI (XO (XO (XI (XI (XO (XI (XI
                            (XO (XO (XO (XI (XI (XO (XI (XI (XI (XO (XI
                            XH))))))))))))))))))))))
                          (n.nofZ (Zpos (XO (XO (XO (XO (XO (XI (XO (XO (XI
                            (XO (XO (XO (XO (XI (XO (XI (XI (XI
                            XH))))))))))))))))))))),
                        (n.ndiv
                          (n.nofZ (Zpos (XI (XI (XI (XI (XO (XO (XO (XI (XO
                            (XO (XI (XI (XO (XI (XO (XO (XI (XI
                            XH))))))))))))))))))))
                          (n.nofZ (Zpos (XO (XO (XO (XO (XI (XO (XI (XI (XO
                            (XI (XO (XO (XI (XO (XO (XO (XI (XI (XO (XO
                            XH)))))))))))))))))))))))),
                        (n.ndiv
                          (n.nofZ (Zneg (XI (XO (XO (XI (XO (XO (XI (XI (XO
                            (XO (XI (XI (XO (XI (XO (XI (XO (XO
                            XH))))))))))))))))))))
                          (n.nofZ (Zpos (XO (XO (XO (XO (XO (XI (XO (XO (XO
                            (XO (XI (XI (XI (XI (XO (XI (XO (XI (XI (XI (XI
                            (XI (XO XH))))))))))))))))))))))))))) :: (((
                        (n.ndiv
                          (n.nofZ (Zpos (XI (XO (XI (XO (XI (XI (XI (XI (XO
                            (XI (XI (XI (XI (XO (XO (XI (XO (XO (XO
                            XH)))))))))))))))))))))
                          (n.nofZ (Zpos (XO (XO (XO (XO (XO (XO (XI (XO (XI
                            (XO (XI (XI (XO (XO (XO (XO (XI
                            XH)))))))))))))))))))),
                        (n.ndiv
                          (n.nofZ (Zpos (XI (XO (XI (XI (XO (XO (XI (XO (XO
                            (XO (XI (XO (XI (XI (XO (XI (XI (XO (XO (XI (XI
                            XH)))))))))))))))))))))))
                          (n.nofZ (Zpos (XO (XO (XO (XO (XO (XO (XO (XI (XO
                            (XI (XI (XO (XI (XO (XO (XI (XO (XO (XO (XI (XI
                            (XO (XO XH))))))))))))))))))))))))))),
                        (n.ndiv
                          (n.nofZ (Zneg (XI (XO (XI (XO (XO (XI (XI (XO (XO
                            (XI (XI (XI (XO (XI (XO (XO (XI (XO (XO (XO
                            XH))))))))))))))))))))))
                          (n.nofZ (Zpos (XO (XO (XO (XO (XO (XO (XO (XI (XO
                            (XO (XO (XO (XI (XI (XI (XI (XO (XI (XO (XI (XI
                            (XI (XI (XI (XO XH))))))))))))))))))))))))))))) :: []))))))
                    | S n5 ->
                      (match n5 with
                       | O ->
                         (((n.ndiv
                             (n.nofZ (Zpos (XI (XI (XO (XI (XI (XI (XI (XI
                               (XO (XO (XI (XO (XO (XI (XI (XI (XO (XI (XO
                               (XI (XI (XO XH))))))))))))))))))))))))
                             (n.nofZ (Zpos (XO (XO (XO (XO (XO (XO (XO (XI
                               (XO (XI (XI (XO (XI (XO (XO (XI (XO (XO (XO
                               (XI (XI (XO (XO XH)))))))))))))))))))))))))),
                           (n.ndiv
                             (n.nofZ (Zneg (XI (XO (XI (XO (XI (XI (XO (XO
                               (XO (XI (XI (XI (XI (XI (XI (XO (XO (XO (XI
                               (XI (XO XH)))))))))))))))))))))))
                             (n.nofZ (Zpos (XO (XO (XO (XO (XO (XO (XO (XO
                               (XI (XO (XO (XO (XO (XI (XI (XI (XI (XO (XI
                               (XO (XI (XI (XI (XI (XI (XO
                               XH)))))))))))))))))))))))))))))),
                           (n.nofZ Z0)) :: ((((n.ndiv
                                                (n.nofZ (Zneg (XI (XO (XI (XI
                                                  (XI (XI (XI (XI (XO (XO (XI
                                                  (XI (XO (XO (XI (XI (XO (XI
                                                  (XO (XI (XO
                                                  XH)))))))))))))))))))))))
                                                (n.nofZ (Zpos (XO (XO (XO (XO
                                                  (XO (XO (XO (XI (XO (XI (XI
                                                  (XO (XI (XO (XO (XI (XO (XO
                                                  (XO (XI (XI (XO (XO
                                                  XH)))))))))))))))))))))))))),
                           (n.ndiv
                             (n.nofZ (Zneg (XI (XI (XO (XI (XO (XO (XO (XI
                               (XO (XI (XO (XO (XO (XI (XI (XO (XO (XO
                               XH))))))))))))))))))))
                             (n.nofZ (Zpos (XO (XO (XO (XO (XO (XO (XI (XO
                               (XI (XO (XO (XI (XI (XO (XI (XO (XI (XI (XO
                               (XO (XI (XI (XI (XO (XI (XI
                               XH)))))))))))))))))))))))))))))),
                           (n.nofZ Z0)) :: ((((n.ndiv
                                                (n.nofZ (Zneg (XI (XI (XI (XI
                                                  (XO (XI (XI (XI (XO (XI (XI
                                                  (XO (XO (XO (XO (XO (XI (XI
                                                  (XO (XI (XI (XO
                                                  XH))))))))))))))))))))))))
                                                (n.nofZ (Zpos (XO (XO (XO (XO
                                                  (XO (XO (XO (XI (XO (XI (XI
                                                  (XO (XI (XO (XO (XI (XO (XO
                                                  (XO (XI (XI (XO (XO
                                                  XH)))))))))))))))))))))))))),
                           (n.ndiv
                             (n.nofZ (Zpos (XI (XI (XI (XI (XO (XI (XO (XI
                               (XI (XO (XI (XI (XI (XO (XI (XO (XI (XI (XO
                               XH)))))))))))))))))))))
                             (n.nofZ (Zpos (XO (XO (XO (XO (XO (XO (XO (XO
                               (XI (XO (XI (XI (XO (XI (XO (XO (XI (XO (XO
                               (XO (XI (XI (XO (XO
                               XH)))))))))))))))))))))))))))),
                           (n.nofZ Z0)) :: ((((n.ndiv
                                                (n.nofZ (Zneg (XI (XO (XO (XO
                                                  (XI (XO (XI (XO (XI (XO (XO
                                                  (XO (XO (XO (XO (XI (XO (XO
                                                  (XO (XI (XO (XO (XO
                                                  XH)))))))))))))))))))))))))
                                                (n.nofZ (Zpos (XO (XO (XO (XO
                                                  (XO (XO (XO (XI (XO (XI (XI
                                                  (XO (XI (XO (XO (XI (XO (XO
                                                  (XO (XI (XI (XO (XO
                                                  XH)))))))))))))))))))))))))),
                           (n.ndiv
                             (n.nofZ (Zneg (XI (XI (XO (XI (XO (XO (XI (XI
                               (XI (XI (XO (XI (XO (XI (XI (XI (XO (XI (XI
                               (XO (XO XH)))))))))))))))))))))))
                             (n.nofZ (Zpos (XO (XO (XO (XO (XO (XO (XO (XO
                               (XI (XO (XO (XO (XO (XI (XI (XI (XI (XO (XI
                               (XO (XI (XI (XI (XI (XI (XO
                               XH)))))))))))))))))))))))))))))),
                           (n.nofZ Z0)) :: ((((n.ndiv
                                                (n.nofZ (Zneg (XI (XI (XI (XI
                                                  (XI (XI (XI (XO (XO (XI (XO
                                                  (XI (XI (XO (XO (XO (XI (XI
                                                  (XI (XI
                                                  XH))))))))))))))))))))))
                                                (n.nofZ (Zpos (XO (XO (XO (XO
                                                  (XO (XI (XO (XO (XI (XO (XO
                                                  (XO (XO (XI (XO (XI (XI (XI
                                                  XH))))))))))))))))))))),
                           (n.ndiv
                             (n.nofZ (Zpos (XI (XO (XI (XO (XO (XI (XI (XO
                               (XI (XO (XO (XO (XI (XO (XO (XI (XI (XI
                               XH))))))))))))))))))))
                             (n.nofZ (Zpos (XO (XO (XO (XO (XO (XI (XO (XI
                               (XI (XO (XI (XO (XO (XI (XO (XO (XO (XI (XI
                               (XO (XO XH))))))))))))))))))))))))),
                           (n.ndiv
                             (n.nofZ (Zneg (XI (XO (XI (XI (XI (XI (XO (XO
                               (XI (XO (XI (XI (XO (XO (XI (XO (XI (XI (XI
                               XH)))))))))))))))))))))
                             (n.nofZ (Zpos (XO (XO (XO (XO (XO (XO (XO (XO
                               (XO (XO (XI (XO (XI (XO (XO (XI (XI (XO (XI
                               (XO (XI (XI (XO (XO (XI (XI (XI (XO (XI (XI
                               XH)))))))))))))))))))))))))))))))))) :: (((
                           (n.ndiv
                             (n.nofZ (Zpos (XI (XO (XI (XI (XI (XO (XO (XI
                               (XO (XI (XO (XO (XO (XI (XI (XO (XO (XI (XO
                               (XI XH))))))))))))))))))))))
                             (n.nofZ (Zpos (XO (XO (XO (XO (XO (XI (XO (XO
                               (XI (XO (XO (XO (XO (XI (XO (XI (XI (XI
                               XH))))))))))))))))))))),
                           (n.ndiv
                             (n.nofZ (Zpos (XI (XI (XO (XI (XI (XO (XO (XO
                               (XI (XI (XI (XI (XO (XO (XO (XI (XO (XI (XI
                               XH)))))))))))))))))))))
                             (n.nofZ (Zpos (XO (XO (XO (XO (XO (XO (XO (XI
                               (XO (XO (XI (XO (XO (XO (XO (XI (XO (XI (XI
                               (XI XH)))))))))))))))))))))))),
                           (n.ndiv
                             (n.nofZ (Zneg (XI (XI (XO (XO (XI (XO (XO (XI
                               (XO (XI (XI (XI (XO (XI (XI (XO (XO (XO (XI
                               (XO XH))))))))))))))))))))))
                             (n.nofZ (Zpos (XO (XO (XO (XO (XO (XO (XO (XI
                               (XO (XO (XO (XO (XI (XI (XI (XI (XO (XI (XO
                               (XI (XI (XI (XI (XI (XO
                               XH))))))))))))))))))))))))))))) :: (((
                           (n.ndiv
                             (n.nofZ (Zpos (XI (XO (XO (XI (XI (XI (XI (XO
                               (XO (XI (XI (XO (XO (XO (XI (XO (XO
                               XH)))))))))))))))))))
                             (n.nofZ (Zpos (XO (XO (XO (XO (XI (XO (XI (XO
                               (XI (XI (XO (XO (XO (XO (XI XH)))))))))))))))))),
                           (n.ndiv
                             (n.nofZ (Zpos (XI (XI (XO (XI (XI (XI (XI (XO
                               (XO (XO (XO (XO (XI (XO (XI (XO (XI (XI (XI
                               XH)))))))))))))))))))))
                             (n.nofZ (Zpos (XO (XO (XO (XO (XO (XI (XO (XI
                               (XI (XO (XI (XO (XO (XI (XO (XO (XO (XI (XI
                               (XO (XO XH))))))))))))))))))))))))),
                           (n.ndiv
                             (n.nofZ (Zneg (XI (XO (XO (XI (XI (XI (XI (XO
                               (XO (XI (XO (XO (XO (XI (XO (XI
                               XH))))))))))))))))))
                             (n.nofZ (Zpos (XO (XO (XO (XO (XO (XO (XI (XO
                               (XI (XI (XO (XI (XO (XO (XI (XO (XO (XO (XI
                               (XI (XO (XO XH)))))))))))))))))))))))))) :: []))))))
                       | S _ -> []))))))
     | S n1 ->
       (match n1 with
        | O ->
          (match s with
           | O -> []
           | S n2 ->
             (match n2 with
              | O -> []
              | S n3 ->
                (match n3 with
                 | O ->
                   (((n.ndiv
                       (n.nofZ (Zpos (XI (XI (XI (XO (XO (XI (XI (XO (XI (XO
                         (XO (XO (XO (XI (XO (XO (XO (XI (XI (XI
                         XH))))))))))))))))))))))
                       (n.nofZ (Zpos (XO (XO (XO (XO (XO (XI (XO (XI (XI (XO
                         (XI (XO (XO (XI (XO (XO (XO (XI (XI (XO (XO
                         XH)))))))))))))))))))))))),
                     (n.ndiv
                       (n.nofZ (Zneg (XI (XI (XI (XO (XO (XI (XO (XI (XI (XI
                         (XO (XO (XI (XI (XI (XO (XO (XI
                         XH))))))))))))))))))))
                       (n.nofZ (Zpos (XO (XO (XO (XO (XO (XO (XO (XO (XI (XO
                         (XI (XI (XO (XI (XO (XO (XI (XO (XO (XO (XI (XI (XO
                         (XO XH)))))))))))))))))))))))))))),
                     (n.nofZ Z0)) :: ((((n.ndiv
                                          (n.nofZ (Zneg (XI (XO (XI (XI (XI
                                            (XI (XI (XO (XO (XO (XI (XO (XI
                                            (XO (XI (XI XH))))))))))))))))))
                                          (n.nofZ (Zpos (XO (XO (XO (XO (XO
                                            (XO (XO (XI (XO (XI (XO (XI (XI
                                            (XO (XO (XO (XO (XI
                                            XH))))))))))))))))))))),
                     (n.ndiv
                       (n.nofZ (Zneg (XI (XO (XO (XI (XO (XO (XI (XO (XI (XI
                         (XO (XI (XI (XI (XI (XI (XO (XI (XO (XO
                         XH))))))))))))))))))))))
                       (n.nofZ (Zpos (XO (XO (XO (XO (XO (XO (XO (XO (XO (XI
                         (XO (XI (XO (XO (XI (XI (XO (XI (XO (XI (XI (XO (XO
                         (XI (XI (XI (XO (XI (XI
                         XH))))))))))))))))))))))))))))))))),
                     (n.nofZ Z0)) :: ((((n.ndiv
                                          (n.nofZ (Zpos (XI (XI (XI (XI (XO
                                            (XI (XI (XI (XO (XO (XI (XI (XI
                                            (XI (XI (XI (XI (XI (XO (XI (XO
                                            (XI XH))))))))))))))))))))))))
                                          (n.nofZ (Zpos (XO (XO (XO (XO (XO
                                            (XO (XO (XI (XO (XI (XI (XO (XI
                                            (XO (XO (XI (XO (XO (XO (XI (XI
                                            (XO (XO
                                            XH)))))))))))))))))))))))))),
                     (n.ndiv
                       (n.nofZ (Zpos (XI (XI (XO (XO (XO (XI (XO (XI (XI (XI
                         (XI (XI (XO (XI (XO (XI (XO (XI (XI (XO (XI
                         XH)))))))))))))))))))))))
                       (n.nofZ (Zpos (XO (XO (XO (XO (XO (XO (XO (XO (XI (XO
                         (XO (XO (XO (XI (XI (XI (XI (XO (XI (XO (XI (XI (XI
                         (XI (XI (XO XH)))))))))))))))))))))))))))))),
                     (n.nofZ Z0)) :: ((((n.ndiv
                                          (n.nofZ (Zneg (XI (XO (XO (XI (XO
                                            (XI (XO (XI (XO (XO (XI (XO (XO
                                            (XO (XO (XI (XO (XO (XO (XI (XO
                                            (XO (XO
                                            XH)))))))))))))))))))))))))
                                          (n.nofZ (Zpos (XO (XO (XO (XO (XO
                                            (XO (XO (XI (XO (XI (XI (XO (XI
                                            (XO (XO (XI (XO (XO (XO (XI (XI
                                            (XO (XO
                                            XH)))))))))))))))))))))))))),
                     (n.ndiv
                       (n.nofZ (Zneg (XI (XI (XO (XI (XI (XO (XI (XI (XI (XI
                         (XI (XI (XI (XI (XO (XI (XI (XO (XI (XO (XO
                         XH)))))))))))))))))))))))
                       (n.nofZ (Zpos (XO (XO (XO (XO (XO (XO (XO (XO (XI (XO
                         (XO (XO (XO (XI (XI (XI (XI (XO (XI (XO (XI (XI (XI
                         (XI (XI (XO XH)))))))))))))))))))))))))))))),
                     (n.nofZ Z0)) :: ((((n.ndiv
                                          (n.nofZ (Zneg (XI (XO (XO (XI (XI
                                            (XI (XI (XO (XO (XI (XI (XO (XO
                                            (XI (XO (XO (XI (XO (XI (XI (XO
                                            XH)))))))))))))))))))))))
                                          (n.nofZ (Zpos (XO (XO (XO (XO (XO
                                            (XO (XI (XO (XO (XI (XO (XO (XO
                                            (XO (XI (XO (XI (XI (XI
                                            XH)))))))))))))))))))))),
                     (n.ndiv
                       (n.nofZ (Zpos (XI (XI (XI (XI (XI (XI (XO (XI (XO (XI
                         (XO (XO (XI (XO (XO (XI (XI (XO (XO (XO
                         XH))))))))))))))))))))))
                       (n.nofZ (Zpos (XO (XO (XO (XO (XO (XO (XI (XO (XI (XI
                         (XO (XI (XO (XO (XI (XO (XO (XO (XI (XI (XO (XO
                         XH)))))))))))))))))))))))))),
                     (n.ndiv
                       (n.nofZ (Zneg (XI (XO (XO (XO (XO (XI (XO (XO (XO (XO
                         (XO (XO (XO (XI (XI (XI (XI (XI (XI (XO (XO
                         XH)))))))))))))))))))))))
                       (n.nofZ (Zpos (XO (XO (XO (XO (XO (XO (XO (XO (XI (XO
                         (XI (XO (XO (XI (XI (XO (XI (XO (XI (XI (XO (XO (XI
                         (XI (XI (XO (XI (XI XH)))))))))))))))))))))))))))))))) :: (((
                     (n.ndiv
                       (n.nofZ (Zpos (XI (XI (XI (XI (XI (XI (XI (XO (XO (XI
                         (XI (XO (XI (XO (XO (XI (XO (XO (XO (XO
                         XH))))))))))))))))))))))
                       (n.nofZ (Zpos (XO (XO (XO (XO (XI (XO (XO (XI (XO (XO
                         (XO (XO (XI (XO (XI (XI (XI XH)))))))))))))))))))),
                     (n.ndiv
                       (n.nofZ (Zpos (XI (XO (XO (XO (XO (XO (XI (XO (XI (XO
                         (XI (XI (XO (XO (XI (XO (XI (XO (XI (XI
                         XH))))))))))))))))))))))
                       (n.nofZ (Zpos (XO (XO (XO (XO (XO (XO (XO (XI (XO (XI
                         (XI (XO (XI (XO (XO (XI (XO (XO (XO (XI (XI (XO (XO
                         XH))))))))))))))))))))))))))),
                     (n.ndiv
                       (n.nofZ (Zneg (XI (XO (XI (XI (XO (XI (XI (XI (XI (XO
                         (XI (XO (XI (XO (XI (XI (XO (XI (XI (XO
                         XH))))))))))))))))))))))
                       (n.nofZ (Zpos (XO (XO (XO (XO (XO (XO (XO (XO (XI (XO
                         (XO (XO (XO (XI (XI (XI (XI (XO (XI (XO (XI (XI (XI
                         (XI (XI (XO XH)))))))))))))))))))))))))))))) :: (((
                     (n.ndiv
                       (n.nofZ (Zpos (XO (XO (XI (XI (XO (XI (XI (XI (XO (XI
                         (XO (XI XH))))))))))))))
                       (n.nofZ (Zpos (XI (XO (XI (XO (XI (XI (XO (XO (XO (XO
                         (XI XH)))))))))))))),
                     (n.ndiv
                       (n.nofZ (Zpos (XI (XI (XO (XO (XI (XI (XI (XO (XI (XI
                         (XO (XI (XO (XI (XO (XO (XI (XI (XI (XO (XO
                         XH)))))))))))))))))))))))
                       (n.nofZ (Zpos (XO (XO (XO (XO (XO (XO (XO (XI (XO (XI
                         (XI (XO (XI (XO (XO (XI (XO (XO (XO (XI (XI (XO (XO
                         XH))))))))))))))))))))))))))),
                     (n.ndiv
                       (n.nofZ (Zneg (XI (XI (XI (XI (XO (XI (XI (XI (XO (XI
                         (XI (XO (XO (XI (XI (XO (XO (XO (XI (XI
                         XH))))))))))))))))))))))
                       (n.nofZ (Zpos (XO (XO (XO (XO (XO (XO (XO (XO (XI (XO
                         (XO (XO (XO (XI (XI (XI (XI (XO (XI (XO (XI (XI (XI
                         (XI (XI (XO XH)))))))))))))))))))))))))))))) :: []))))))
                 | S n4 ->
                   (match n4 with
                    | O ->
                      (((n.ndiv
                          (n.nofZ (Zpos (XI (XI (XI (XO (XO (XO (XI (XO (XI
                            (XO (XI (XO (XI (XI (XI (XO (XI (XI (XI (XO (XI
                            XH)))))))))))))))))))))))
                          (n.nofZ (Zpos (XO (XO (XO (XO (XO (XO (XI (XO (XI
                            (XI (XO (XI (XO (XO (XI (XO (XO (XO (XI (XI (XO
                            (XO XH))))))))))))))))))))))))),
                        (n.ndiv
                          (n.nofZ (Zneg (XI (XO (XI (XO (XO (XO (XO (XO (XI
                            (XI (XO (XI (XO (XO (XO (XO (XI (XO (XO (XO
                            XH))))))))))))))))))))))
                          (n.nofZ (Zpos (XO (XO (XO (XO (XO (XO (XO (XI (XO
                            (XO (XO (XO (XI (XI (XI (XI (XO (XI (XO (XI (XI
                            (XI (XI (XI (XO XH))))))))))))))))))))))))))))),
                        (n.nofZ Z0)) :: ((((n.ndiv
                                             (n.nofZ (Zneg (XI (XO (XO (XI
                                               (XO (XI (XO (XI (XI (XO (XI
                                               (XO (XI (XO (XI (XI (XO
                                               XH)))))))))))))))))))
                                             (n.nofZ (Zpos (XO (XO (XO (XI
                                               (XO (XI (XI (XO (XI (XO (XO
                                               (XI (XO (XO (XO (XI (XI (XO
                                               (XO XH)))))))))))))))))))))),
                        (n.ndiv
                          (n.nofZ (Zneg (XI (XI (XI (XI (XI (XO (XO (XO (XO
                            (XO (XO (XI (XO (XI (XO (XI (XO
                            XH)))))))))))))))))))
                          (n.nofZ (Zpos (XO (XO (XO (XO (XO (XO (XI (XO (XI
                            (XO (XO (XI (XI (XO (XI (XO (XI (XI (XO (XO (XI
                            (XI (XI (XO (XI (XI XH)))))))))))))))))))))))))))))),
                        (n.nofZ Z0)) :: ((((n.ndiv
                                             (n.nofZ (Zpos (XI (XI (XI (XO
                                               (XI (XO (XO (XO (XI (XO (XI
                                               (XO (XI (XI (XI (XI (XI (XO
                                               XH))))))))))))))))))))
                                             (n.nofZ (Zpos (XO (XO (XO (XO
                                               (XO (XO (XI (XO (XO (XI (XO
                                               (XO (XO (XO (XI (XO (XI (XI
                                               (XI XH)))))))))))))))))))))),
                        (n.ndiv
                          (n.nofZ (Zpos (XI (XI (XO (XI (XI (XI (XO (XI (XO
                            (XO (XI (XI (XI (XO (XI (XI (XI (XO (XO
                            XH)))))))))))))))))))))
                          (n.nofZ (Zpos (XO (XO (XO (XO (XO (XO (XO (XO (XI
                            (XO (XI (XI (XO (XI (XO (XO (XI (XO (XO (XO (XI
                            (XI (XO (XO XH)))))))))))))))))))))))))))),
                        (n.nofZ Z0)) :: ((((n.ndiv
                                             (n.nofZ (Zneg (XI (XO (XO (XI
                                               (XI (XO (XO (XI (XI (XI (XO
                                               (XO (XI (XO (XO (XO (XO (XO
                                               (XO (XO (XI (XO (XO
                                               XH)))))))))))))))))))))))))
                                             (n.nofZ (Zpos (XO (XO (XO (XO
                                               (XO (XO (XO (XI (XO (XI (XI
                                               (XO (XI (XO (XO (XI (XO (XO
                                               (XO (XI (XI (XO (XO
                                               XH)))))))))))))))))))))))))),
                        (n.ndiv
                          (n.nofZ (Zneg (XI (XO (XO (XO (XI (XO (XI (XI (XI
                            (XI (XI (XI (XO (XO (XO (XI (XO (XO
                            XH))))))))))))))))))))
                          (n.nofZ (Zpos (XO (XO (XO (XO (XO (XO (XO (XO (XI
                            (XO (XI (XI (XO (XI (XO (XO (XI (XO (XO (XO (XI
                            (XI (XO (XO XH)))))))))))))))))))))))))))),
                        (n.nofZ Z0)) :: ((((n.ndiv
                                             (n.nofZ (Zneg (XI (XO (XO (XI
                                               (XO (XO (XI (XO (XO (XO (XO
                                               (XI (XI (XI (XI (XI (XI (XI
                                               (XO XH)))))))))))))))))))))
                                             (n.nofZ (Zpos (XO (XO (XO (XO
                                               (XI (XO (XO (XI (XO (XO (XO
                                               (XO (XI (XO (XI (XI (XI
                                               XH)))))))))))))))))))),
                        (n.ndiv
                          (n.nofZ (Zpos (XI (XI (XI (XO (XI (XI (XI (XI (XO
                            (XI (XO (XO (XI (XO (XI (XI (XI (XI (XO (XO (XO
                            XH)))))))))))))))))))))))
                          (n.nofZ (Zpos (XO (XO (XO (XO (XO (XO (XO (XI (XO
                            (XI (XI (XO (XI (XO (XO (XI (XO (XO (XO (XI (XI
                            (XO (XO XH))))))))))))))))))))))))))),
                        (n.ndiv
                          (n.nofZ (Zneg (XI (XI (XO (XI (XO (XO (XO (XI (XO
                            (XI (XI (XI (XI (XI (XO (XI (XI (XI (XO (XI (XO
                            (XO XH))))))))))))))))))))))))
                          (n.nofZ (Zpos (XO (XO (XO (XO (XO (XO (XO (XO (XO
                            (XI (XO (XI (XO (XO (XI (XI (XO (XI (XO (XI (XI
                            (XO (XO (XI (XI (XI (XO (XI (XI
                            XH))))))))))))))))))))))))))))))))) :: (((
                        (n.ndiv
                          (n.nofZ (Zpos (XI (XO (XI (XI (XI (XO (XI (XI (XO
                            (XO (XI (XO (XO (XI (XI (XO (XO (XI
                            XH))))))))))))))))))))
                          (n.nofZ (Zpos (XO (XO (XO (XO (XO (XI (XO (XI (XO
                            (XI (XI (XO (XO (XO (XO (XI XH))))))))))))))))))),
                        (n.ndiv
                          (n.nofZ (Zpos (XI (XO (XI (XO (XO (XO (XO (XO (XI
                            (XI (XO (XO (XI (XI (XI (XI (XO (XO (XO
                            XH)))))))))))))))))))))
                          (n.nofZ (Zpos (XO (XO (XO (XO (XO (XI (XO (XI (XI
                            (XO (XI (XO (XO (XI (XO (XO (XO (XI (XI (XO (XO
                            XH))))))))))))))))))))))))),
                        (n.ndiv
                          (n.nofZ (Zneg (XI (XI (XO (XO (XI (XI (XO (XI (XO
                            (XI (XO (XI (XI (XI (XO (XO (XO (XI (XO (XI
                            XH))))))))))))))))))))))
                          (n.nofZ (Zpos (XO (XO (XO (XO (XO (XO (XO (XO (XI
                            (XO (XO (XO (XO (XI (XI (XI (XI (XO (XI (XO (XI
                            (XI (XI (XI (XI (XO XH)))))))))))))))))))))))))))))) :: (((
                        (n.ndiv
                          (n.nofZ (Zpos (XI (XI (XI (XO (XO (XO (XO (XI (XI
                            (XO (XI (XO (XO (XI (XI (XO (XI (XI (XO (XO (XO
                            XH)))))))))))))))))))))))
                          (n.nofZ (Zpos (XO (XO (XO (XO (XO (XO (XI (XO (XO
                            (XI (XO (XO (XO (XO (XI (XO (XI (XI (XI
                            XH)))))))))))))))))))))),
                        (n.ndiv
                          (n.nofZ (Zpos (XI (XI (XO (XO (XI (XI (XI (XI (XO
                            (XO (XI (XI (XO (XO (XI (XO (XO (XI (XO
                            XH)))))))))))))))))))))
                          (n.nofZ (Zpos (XO (XO (XO (XO (XO (XI (XO (XI (XI
                            (XO (XI (XO (XO (XI (XO (XO (XO (XI (XI (XO (XO
                            XH))))))))))))))))))))))))),
                        (n.ndiv
                          (n.nofZ (Zneg (XI (XO (XO (XI (XO (XO (XO (XO (XI
                            (XI (XO (XI (XO (XO (XI (XO (XO (XO (XI (XI
                            XH))))))))))))))))))))))
                          (n.nofZ (Zpos (XO (XO (XO (XO (XO (XO (XO (XO (XI
                            (XO (XO (XO (XO (XI (XI (XI (XI (XO (XI (XO (XI
                            (XI (XI (XI (XI (XO XH)))))))))))))))))))))))))))))) :: []))))))
                    | S n5 ->
                      (match n5 with
                       | O ->
                         (((n.ndiv
                             (n.nofZ (Zpos (XI (XI (XI (XO (XO (XI (XI (XO
                               (XO (XO (XI (XO (XI (XI (XO (XO (XO (XO (XO
                               (XI (XO (XI XH))))))))))))))))))))))))
                             (n.nofZ (Zpos (XO (XO (XO (XO (XO (XO (XO (XI
                               (XO (XI (XI (XO (XI (XO (XO (XI (XO (XO (XO
                               (XI (XI (XO (XO XH)))))))))))))))))))))))))),
                           (n.ndiv
                             (n.nofZ (Zneg (XI (XI (XO (XI (XI (XO (XI (XO
                               (XO (XO (XO (XI (XI (XO (XO (XI (XI (XI (XO
                               (XO (XO XH)))))))))))))))))))))))
                             (n.nofZ (Zpos (XO (XO (XO (XO (XO (XO (XO (XO
                               (XI (XO (XO (XO (XO (XI (XI (XI (XI (XO (XI
                               (XO (XI (XI (XI (XI (XI (XO
                               XH)))))))))))))))))))))))))))))),
                           (n.nofZ Z0)) :: ((((n.ndiv
                                                (n.nofZ (Zneg (XO (XI (XO (XO
                                                  (XI (XO (XI (XI (XI (XO (XO
                                                  (XI (XI (XO
                                                  XH))))))))))))))))
                                                (n.nofZ (Zpos (XI (XO (XI (XI
                                                  (XO (XI (XO (XO (XI (XO (XO
                                                  (XO (XI (XI (XO (XO
                                                  XH))))))))))))))))))),
                           (n.ndiv
                             (n.nofZ (Zneg (XI (XO (XO (XI (XO (XI (XO (XI
                               (XI (XO (XI (XI (XO (XO (XO (XI (XI (XI (XO
                               XH)))))))))))))))))))))
                             (n.nofZ (Zpos (XO (XO (XO (XO (XO (XO (XO (XO
                               (XI (XO (XI (XO (XO (XI (XI (XO (XI (XO (XI
                               (XI (XO (XO (XI (XI (XI (XO (XI (XI
                               XH)))))))))))))))))))))))))))))))),
                           (n.nofZ Z0)) :: ((((n.ndiv
                                                (n.nofZ (Zpos (XI (XI (XI (XI
                                                  (XI (XO (XI (XI (XI (XO (XI
                                                  (XO (XI (XO (XO (XI (XI (XO
                                                  (XI (XO
                                                  XH))))))))))))))))))))))
                                                (n.nofZ (Zpos (XO (XO (XO (XO
                                                  (XO (XO (XO (XI (XO (XI (XI
                                                  (XO (XI (XO (XO (XI (XO (XO
                                                  (XO (XI (XI (XO (XO
                                                  XH)))))))))))))))))))))))))),
                           (n.ndiv
                             (n.nofZ (Zpos (XI (XI (XI (XO (XI (XO (XO (XO
                               (XI (XO (XI (XI (XO (XI (XI (XI (XO (XI (XI
                               (XI (XO XH)))))))))))))))))))))))
                             (n.nofZ (Zpos (XO (XO (XO (XO (XO (XO (XO (XO
                               (XI (XO (XO (XO (XO (XI (XI (XI (XI (XO (XI
                               (XO (XI (XI (XI (XI (XI (XO
                               XH)))))))))))))))))))))))))))))),
                           (n.nofZ Z0)) :: ((((n.ndiv
                                                (n.nofZ (Zneg (XI (XO (XO (XI
                                                  (XO (XI (XI (XO (XO (XO (XI
                                                  (XO (XI (XO (XO (XO (XI (XO
                                                  (XI (XO (XO
                                                  XH)))))))))))))))))))))))
                                                (n.nofZ (Zpos (XO (XO (XO (XO
                                                  (XO (XI (XO (XI (XI (XO (XI
                                                  (XO (XO (XI (XO (XO (XO (XI
                                                  (XI (XO (XO
                                                  XH)))))))))))))))))))))))),
                           (n.ndiv
                             (n.nofZ (Zneg (XI (XO (XI (XO (XI (XO (XO (XO
                               (XO (XI (XO (XI (XI (XO (XI (XI (XI (XI (XI
                               XH)))))))))))))))))))))
                             (n.nofZ (Zpos (XO (XO (XO (XO (XO (XO (XO (XO
                               (XI (XO (XO (XO (XO (XI (XI (XI (XI (XO (XI
                               (XO (XI (XI (XI (XI (XI (XO
                               XH)))))))))))))))))))))))))))))),
                           (n.nofZ Z0)) :: ((((n.ndiv
                                                (n.nofZ (Zneg (XI (XI (XO (XI
                                                  (XI (XI (XI (XI (XO (XO (XI
                                                  (XI (XI (XO (XO (XO (XO (XI
                                                  (XO (XO (XI
                                                  XH)))))))))))))))))))))))
                                                (n.nofZ (Zpos (XO (XO (XO (XO
                                                  (XO (XO (XI (XO (XO (XI (XO
                                                  (XO (XO (XO (XI (XO (XI (XI
                                                  (XI XH)))))))))))))))))))))),
                           (n.ndiv
                             (n.nofZ (Zpos (XI (XI (XI (XO (XI (XI (XO (XI
                               (XO (XO (XI (XI (XI (XI (XO (XO (XO (XI (XO
                               (XO (XO XH)))))))))))))))))))))))
                             (n.nofZ (Zpos (XO (XO (XO (XO (XO (XO (XO (XI
                               (XO (XI (XI (XO (XI (XO (XO (XI (XO (XO (XO
                               (XI (XI (XO (XO XH))))))))))))))))))))))))))),
                           (n.ndiv
                             (n.nofZ (Zneg (XI (XO (XO (XO (XI (XO (XI (XO
                               (XI (XO (XI (XO (XI (XI (XO (XI (XI (XI (XO
                               (XI (XI XH)))))))))))))))))))))))
                             (n.nofZ (Zpos (XO (XO (XO (XO (XO (XO (XO (XO
                               (XO (XI (XO (XI (XO (XO (XI (XI (XO (XI (XO
                               (XI (XI (XO (XO (XI (XI (XI (XO (XI (XI
                               XH))))))))))))))))))))))))))))))))) :: (((
                           (n.ndiv
                             (n.nofZ (Zpos (XI (XI (XO (XI (XO (XI (XO (XI
                               (XI (XO (XI (XI (XO (XO (XI (XO (XI (XI (XI
                               XH)))))))))))))))))))))
                             (n.nofZ (Zpos (XO (XO (XO (XO (XI (XO (XO (XI
                               (XO (XO (XO (XO (XI (XO (XI (XI (XI
                               XH)))))))))))))))))))),
                           (n.ndiv
                             (n.nofZ (Zpos (XI (XI (XO (XI (XI (XO (XO (XI
                               (XO (XI (XO (XI (XI (XO (XI (XI (XI (XO (XI
                               (XI (XO XH)))))))))))))))))))))))
                             (n.nofZ (Zpos (XO (XO (XO (XO (XO (XO (XO (XI
                               (XO (XI (XI (XO (XI (XO (XO (XI (XO (XO (XO
                               (XI (XI (XO (XO XH))))))))))))))))))))))))))),
                           (n.ndiv
                             (n.nofZ (Zneg (XI (XO (XI (XO (XI (XO (XI (XI
                               (XO (XO (XI (XO (XI (XI (XO (XI (XO (XI (XI
                               (XI XH))))))))))))))))))))))
                             (n.nofZ (Zpos (XO (XO (XO (XO (XO (XO (XO (XO
                               (XI (XO (XO (XO (XO (XI (XI (XI (XI (XO (XI
                               (XO (XI (XI (XI (XI (XI (XO
                               XH)))))))))))))))))))))))))))))) :: (((
                           (n.ndiv
                             (n.nofZ (Zpos (XI (XO (XO (XO (XO (XI (XI (XI
                               (XI (XI (XO (XO (XO (XI (XO (XI (XO (XO (XI
                               (XO (XO XH)))))))))))))))))))))))
                             (n.nofZ (Zpos (XO (XO (XO (XO (XO (XO (XI (XO
                               (XO (XI (XO (XO (XO (XO (XI (XO (XI (XI (XI
                               XH)))))))))))))))))))))),
                           (n.ndiv
                             (n.nofZ (Zpos (XI (XI (XI (XI (XI (XI (XO (XI
                               (XO (XO (XI (XI XH))))))))))))))
                             (n.nofZ (Zpos (XO (XO (XO (XI (XO (XI (XO (XI
                               (XI (XO (XO (XO (XO (XI XH)))))))))))))))))),
                           (n.ndiv
                             (n.nofZ (Zneg (XI (XI (XI (XO (XI (XO (XI (XO
                               (XI (XO (XO (XO (XO (XO (XI (XI (XO (XO (XI
                               (XI XH))))))))))))))))))))))
                             (n.nofZ (Zpos (XO (XO (XO (XO (XO (XO (XO (XO
                               (XI (XO (XO (XO (XO (XI (XI (XI (XI (XO (XI
                               (XO (XI (XI (XI (XI (XI (XO
                               XH)))))))))))))))))))))))))))))) :: []))))))
                       | S _ -> [])))))
        | S n2 ->
          (match n2 with
           | O ->
             (match s with
              | O -> []
              | S n3 ->
                (match n3 with
                 | O -> []
                 | S n4 ->
                   (match n4 with
                    | O -> []
                    | S n5 ->
                      (match n5 with
                       | O ->
                         (((n.ndiv
                             (n.nofZ (Zpos (XI (XO (XI (XI (XO (XI (XI (XI
                               (XO (XI (XI (XO (XI (XI (XI (XI (XI (XO (XO
                               (XO (XI (XI XH))))))))))))))))))))))))
                             (n.nofZ (Zpos (XO (XO (XO (XO (XO (XO (XO (XI
                               (XO (XI (XI (XO (XI (XO (XO (XI (XO (XO (XO
                               (XI (XI (XO (XO XH)))))))))))))))))))))))))),
                           (n.ndiv
                             (n.nofZ (Zneg (XI (XI (XO (XI (XI (XI (XO (XO
                               (XO (XI (XI (XO (XI (XI (XO (XO (XI (XI (XO
                               (XO XH))))))))))))))))))))))
                             (n.nofZ (Zpos (XO (XO (XO (XO (XO (XO (XO (XI
                               (XO (XO (XO (XO (XI (XI (XI (XI (XO (XI (XO
                               (XI (XI (XI (XI (XI (XO
                               XH))))))))))))))))))))))))))))),
                           (n.nofZ Z0)) :: ((((n.ndiv
                                                (n.nofZ (Zneg (XI (XI (XI (XO
                                                  (XI (XI (XO (XI (XO (XO (XI
                                                  (XI (XI (XI (XI (XO (XO (XI
                                                  (XI (XO
                                                  XH))))))))))))))))))))))
                                                (n.nofZ (Zpos (XO (XO (XO (XO
                                                  (XO (XO (XI (XO (XI (XI (XO
                                                  (XI (XO (XO (XI (XO (XO (XO
                                                  (XI (XI (XO (XO
                                                  XH))))))))))))))))))))))))),
                           (n.ndiv
                             (n.nofZ (Zneg (XI (XI (XO (XO (XI (XI (XI (XO
                               (XO (XO (XI (XO (XO (XI (XO (XI (XI (XI (XO
                               (XI XH))))))))))))))))))))))
                             (n.nofZ (Zpos (XO (XO (XO (XO (XO (XO (XO (XO
                               (XO (XI (XO (XI (XO (XO (XI (XI (XO (XI (XO
                               (XI (XI (XO (XO (XI (XI (XI (XO (XI (XI
                               XH))))))))))))))))))))))))))))))))),
                           (n.nofZ Z0)) :: ((((n.ndiv
                                                (n.nofZ (Zpos (XI (XI (XI (XI
                                                  (XO (XI (XI (XO (XI (XO (XO
                                                  (XO (XO (XI (XO (XO (XO
                                                  XH)))))))))))))))))))
                                                (n.nofZ (Zpos (XO (XO (XO (XI
                                                  (XO (XI (XI (XO (XI (XO (XO
                                                  (XI (XO (XO (XO (XI (XI (XO
                                                  (XO XH)))))))))))))))))))))),
                           (n.ndiv
                             (n.nofZ (Zpos (XI (XO (XI (XI (XO (XI (XO (XI
                               (XI (XO (XI (XO (XI (XO (XO (XO (XO (XO (XI
                               (XI XH))))))))))))))))))))))
                             (n.nofZ (Zpos (XO (XO (XO (XO (XO (XO (XO (XI
                               (XO (XO (XO (XO (XI (XI (XI (XI (XO (XI (XO
                               (XI (XI (XI (XI (XI (XO
                               XH))))))))))))))))))))))))))))),
                           (n.nofZ Z0)) :: ((((n.ndiv
                                                (n.nofZ (Zneg (XI (XI (XI (XI
                                                  (XI (XI (XO (XO (XI (XI (XO
                                                  (XO (XI (XI (XO (XO (XO (XO
                                                  (XO (XI (XI (XO (XO
                                                  XH)))))))))))))))))))))))))
                                                (n.nofZ (Zpos (XO (XO (XO (XO
                                                  (XO (XO (XO (XI (XO (XI (XI
                                                  (XO (XI (XO (XO (XI (XO (XO
                                                  (XO (XI (XI (XO (XO
                                                  XH)))))))))))))))))))))))))),
                           (n.ndiv
                             (n.nofZ (Zneg (XI (XO (XO (XO (XI (XO (XO (XI
                               (XO (XI (XI (XO (XO (XI (XO (XO (XO (XO (XO
                               XH)))))))))))))))))))))
                             (n.nofZ (Zpos (XO (XO (XO (XO (XO (XO (XO (XO
                               (XI (XO (XI (XI (XO (XI (XO (XO (XI (XO (XO
                               (XO (XI (XI (XO (XO
                               XH)))))))))))))))))))))))))))),
                           (n.nofZ Z0)) :: ((((n.ndiv
                                                (n.nofZ (Zneg (XI (XI (XO (XI
                                                  (XI (XO (XO (XO (XO (XI (XO
                                                  (XI (XI (XO (XO (XI (XI (XI
                                                  (XO (XO (XI
                                                  XH)))))))))))))))))))))))
                                                (n.nofZ (Zpos (XO (XO (XO (XO
                                                  (XO (XO (XI (XO (XO (XI (XO
                                                  (XO (XO (XO (XI (XO (XI (XI
                                                  (XI XH)))))))))))))))))))))),
                           (n.ndiv
                             (n.nofZ (Zpos (XI (XO (XO (XO (XI (XO (XI (XO
                               (XI (XO (XI (XI (XO (XO (XO (XO (XI (XO (XO
                               XH)))))))))))))))))))))
                             (n.nofZ (Zpos (XO (XO (XO (XO (XO (XI (XO (XI
                               (XI (XO (XI (XO (XO (XI (XO (XO (XO (XI (XI
                               (XO (XO XH))))))))))))))))))))))))),
                           (n.ndiv
                             (n.nofZ (Zneg (XI (XO (XI (XI (XO (XO (XO (XO
                               (XI (XO (XO (XO (XI (XI (XO (XI (XO (XO (XO
                               (XO (XO (XO XH))))))))))))))))))))))))
                             (n.nofZ (Zpos (XO (XO (XO (XO (XO (XO (XO (XO
                               (XO (XI (XO (XI (XO (XO (XI (XI (XO (XI (XO
                               (XI (XI (XO (XO (XI (XI (XI (XO (XI (XI
                               XH))))))))))))))))))))))))))))))))) :: (((
                           (n.ndiv
                             (n.nofZ (Zpos (XI (XI (XI (XO (XI (XI (XO (XI
                               (XI (XI (XI (XI (XI (XO (XO (XO (XI
                               XH)))))))))))))))))))
                             (n.nofZ (Zpos (XO (XO (XO (XO (XI (XO (XI (XO
                               (XI (XI (XO (XO (XO (XO (XI XH)))))))))))))))))),
                           (n.ndiv
                             (n.nofZ (Zpos (XI (XO (XO (XI (XI (XI (XO (XI
                               (XI (XI (XI (XO (XO (XO (XO (XO (XI (XO (XI
                               (XO XH))))))))))))))))))))))
                             (n.nofZ (Zpos (XO (XO (XO (XO (XO (XO (XI (XO
                               (XI (XI (XO (XI (XO (XO (XI (XO (XO (XO (XI
                               (XI (XO (XO XH)))))))))))))))))))))))))),
                           (n.ndiv
                             (n.nofZ (Zneg (XI (XI (XO (XI (XO (XO (XO (XI
                               (XO (XO (XO (XI (XO (XI (XO (XI (XO (XI (XI
                               (XI XH))))))))))))))))))))))
                             (n.nofZ (Zpos (XO (XO (XO (XO (XO (XO (XO (XO
                               (XI (XO (XO (XO (XO (XI (XI (XI (XI (XO (XI
                               (XO (XI (XI (XI (XI (XI (XO
                               XH)))))))))))))))))))))))))))))) :: (((
                           (n.ndiv
                             (n.nofZ (Zpos (XI (XI (XI (XO (XI (XI (XO (XO
                               (XO (XO (XO (XI (XO (XO (XI (XI (XI (XO (XI
                               (XO (XO XH)))))))))))))))))))))))
                             (n.nofZ (Zpos (XO (XO (XO (XO (XO (XO (XI (XO
                               (XO (XI (XO (XO (XO (XO (XI (XO (XI (XI (XI
                               XH)))))))))))))))))))))),
                           (n.ndiv
                             (n.nofZ (Zpos (XI (XO (XO (XO (XI (XO (XO (XO
                               (XI (XI (XI (XI (XO (XI (XO (XO (XI (XO (XO
                               (XI XH))))))))))))))))))))))
                             (n.nofZ (Zpos (XO (XO (XO (XO (XO (XO (XI (XO
                               (XI (XI (XO (XI (XO (XO (XI (XO (XO (XO (XI
                               (XI (XO (XO XH)))))))))))))))))))))))))),
                           (n.ndiv
                             (n.nofZ (Zneg (XI (XO (XI (XO (XI (XO (XI (XI
                               (XO (XO (XI (XI (XO (XI (XI (XI (XI (XO (XO
                               (XO (XO XH)))))))))))))))))))))))
                             (n.nofZ (Zpos (XO (XO (XO (XO (XO (XO (XO (XO
                               (XI (XO (XO (XO (XO (XI (XI (XI (XI (XO (XI
                               (XO (XI (XI (XI (XI (XI (XO
                               XH)))))))))))))))))))))))))))))) :: []))))))
                       | S _ -> []))))
           | S n3 ->
             (match n3 with
              | O ->
                (match s with
                 | O -> []
                 | S n4 ->
                   (match n4 with
                    | O -> []
                    | S n5 ->
                      (match n5 with
                       | O -> []
                       | S n6 ->
                         (match n6 with
                          | O -> []
                          | S n7 ->
                            (match n7 with
                             | O ->
                               (((n.ndiv
                                   (n.nofZ (Zpos (XI (XI (XO (XO (XO (XI (XO
                                     (XO (XI (XO (XI (XI (XI (XI (XO (XO (XI
                                     (XI (XO XH)))))))))))))))))))))
                                   (n.nofZ (Zpos (XO (XO (XO (XO (XO (XO (XI
                                     (XO (XO (XI (XO (XO (XO (XO (XI (XO (XI
                                     (XI (XI XH)))))))))))))))))))))),
                                 (n.ndiv
                                   (n.nofZ (Zneg (XI (XO (XI (XO (XI (XI (XO
                                     (XO (XI (XI (XI (XO (XI (XI (XO (XO (XO
                                     (XI (XO (XO (XO XH)))))))))))))))))))))))
                                   (n.nofZ (Zpos (XO (XO (XO (XO (XO (XO (XO
                                     (XO (XI (XO (XO (XO (XO (XI (XI (XI (XI
                                     (XO (XI (XO (XI (XI (XI (XI (XI (XO
                                     XH)))))))))))))))))))))))))))))),
                                 (n.nofZ Z0)) :: ((((n.ndiv
                                                      (n.nofZ (Zneg (XI (XO
                                                        (XI (XI (XO (XI (XI
                                                        (XI (XI (XI (XI (XO
                                                        (XO (XI (XI
                                                        XH)))))))))))))))))
                                                      (n.nofZ (Zpos (XO (XO
                                                        (XO (XO (XO (XO (XI
                                                        (XO (XI (XO (XI (XI
                                                        (XO (XO (XO (XO (XI
                                                        XH)))))))))))))))))))),
                                 (n.ndiv
                                   (n.nofZ (Zneg (XI (XI (XO (XI (XI (XI (XI
                                     (XI (XI (XO (XO (XI (XO (XI (XO (XI (XO
                                     XH)))))))))))))))))))
                                   (n.nofZ (Zpos (XO (XO (XO (XO (XO (XO (XI
                                     (XO (XI (XO (XO (XI (XI (XO (XI (XO (XI
                                     (XI (XO (XO (XI (XI (XI (XO (XI (XI
                                     XH)))))))))))))))))))))))))))))),
                                 (n.nofZ Z0)) :: ((((n.ndiv
                                                      (n.nofZ (Zpos (XI (XI
                                                        (XI (XO (XO (XO (XI
                                                        (XI (XI (XI (XI (XI
                                                        (XO (XI (XI (XO (XI
                                                        (XI (XO
                                                        XH)))))))))))))))))))))
                                                      (n.nofZ (Zpos (XO (XO
                                                        (XO (XO (XO (XO (XO
                                                        (XI (XO (XO (XI (XO
                                                        (XO (XO (XO (XI (XO
                                                        (XI (XI (XI
                                                        XH))))))))))))))))))))))),
                                 (n.ndiv
                                   (n.nofZ (Zpos (XI (XI (XI (XO (XI (XO (XI
                                     (XO (XI (XO (XO (XO (XI (XI (XI (XO (XI
                                     (XI (XO (XI (XO XH)))))))))))))))))))))))
                                   (n.nofZ (Zpos (XO (XO (XO (XO (XO (XO (XO
                                     (XO (XI (XO (XO (XO (XO (XI (XI (XI (XI
                                     (XO (XI (XO (XI (XI (XI (XI (XI (XO
                                     XH)))))))))))))))))))))))))))))),
                                 (n.nofZ Z0)) :: ((((n.ndiv
                                                      (n.nofZ (Zneg (XI (XO
                                                        (XO (XI (XI (XI (XI
                                                        (XI (XO (XI (XI (XI
                                                        (XO (XI (XI (XI (XI
                                                        (XO (XI (XO (XO
                                                        XH)))))))))))))))))))))))
                                                      (n.nofZ (Zpos (XO (XO
                                                        (XO (XO (XO (XI (XO
                                                        (XI (XI (XO (XI (XO
                                                        (XO (XI (XO (XO (XO
                                                        (XI (XI (XO (XO
                                                        XH)))))))))))))))))))))))),
                                 (n.ndiv
                                   (n.nofZ (Zneg (XI (XI (XI (XO (XI (XI (XO
                                     (XO (XI (XO (XI (XO (XO (XO (XO (XI (XO
                                     (XI (XO XH)))))))))))))))))))))
                                   (n.nofZ (Zpos (XO (XO (XO (XO (XO (XO (XO
                                     (XI (XO (XO (XO (XO (XI (XI (XI (XI (XO
                                     (XI (XO (XI (XI (XI (XI (XI (XO
                                     XH))))))))))))))))))))))))))))),
                                 (n.nofZ Z0)) :: ((((n.ndiv
                                                      (n.nofZ (Zneg (XI (XI
                                                        (XO (XO (XO (XO (XO
                                                        (XI (XO (XI (XO (XO
                                                        (XI (XO (XO (XI (XI
                                                        (XO (XO
                                                        XH)))))))))))))))))))))
                                                      (n.nofZ (Zpos (XO (XO
                                                        (XO (XO (XO (XO (XI
                                                        (XO (XI (XO (XI (XI
                                                        (XO (XO (XO (XO (XI
                                                        XH)))))))))))))))))))),
                                 (n.ndiv
                                   (n.nofZ (Zpos (XI (XO (XO (XI (XI (XO (XO
                                     (XI (XI (XO (XI (XO (XI (XI (XO (XO (XI
                                     (XO (XO (XO (XO XH)))))))))))))))))))))))
                                   (n.nofZ (Zpos (XO (XO (XO (XO (XO (XO (XO
                                     (XI (XO (XI (XI (XO (XI (XO (XO (XI (XO
                                     (XO (XO (XI (XI (XO (XO
                                     XH))))))))))))))))))))))))))),
                                 (n.ndiv
                                   (n.nofZ (Zneg (XI (XI (XI (XI (XO (XI (XI
                                     (XO (XI (XI (XI (XI (XI (XI (XI (XO (XI
                                     (XI (XO (XI (XI XH)))))))))))))))))))))))
                                   (n.nofZ (Zpos (XO (XO (XO (XO (XO (XO (XO
                                     (XO (XO (XI (XO (XI (XO (XO (XI (XI (XO
                                     (XI (XO (XI (XI (XO (XO (XI (XI (XI (XO
                                     (XI (XI XH))))))))))))))))))))))))))))))))) :: (((
                                 (n.ndiv
                                   (n.nofZ (Zpos (XI (XI (XI (XI (XO (XO (XI
                                     (XI (XO (XI (XO (XO (XO (XO (XI (XO (XI
                                     (XI (XI (XI (XI XH)))))))))))))))))))))))
                                   (n.nofZ (Zpos (XO (XO (XO (XO (XO (XO (XI
                                     (XO (XO (XI (XO (XO (XO (XO (XI (XO (XI
                                     (XI (XI XH)))))))))))))))))))))),
                                 (n.ndiv
                                   (n.nofZ (Zpos (XI (XI (XI (XO (XO (XI (XI
                                     (XI (XO (XO (XI (XO (XO (XI (XI (XI (XO
                                     (XI (XO XH)))))))))))))))))))))
                                   (n.nofZ (Zpos (XO (XO (XO (XO (XO (XI (XO
                                     (XI (XI (XO (XI (XO (XO (XI (XO (XO (XO
                                     (XI (XI (XO (XO XH))))))))))))))))))))))))),
                                 (n.ndiv
                                   (n.nofZ (Zneg (XI (XI (XI (XI (XI (XI (XI
                                     (XI (XI (XO (XI (XO (XO (XI (XI (XO (XI
                                     (XI XH))))))))))))))))))))
                                   (n.nofZ (Zpos (XO (XO (XO (XO (XO (XO (XI
                                     (XO (XO (XO (XO (XI (XI (XI (XI (XO (XI
                                     (XO (XI (XI (XI (XI (XI (XO
                                     XH)))))))))))))))))))))))))))) :: (((
                                 (n.ndiv
                                   (n.nofZ (Zpos (XI (XI (XO (XO (XO (XO (XI
                                     (XO (XI (XO (XI (XO (XI (XO (XI (XI (XO
                                     (XO (XO XH)))))))))))))))))))))
                                   (n.nofZ (Zpos (XO (XO (XO (XO (XI (XO (XO
                                     (XI (XO (XO (XO (XO (XI (XO (XI (XI (XI
                                     XH)))))))))))))))))))),
                                 (n.ndiv
                                   (n.nofZ (Zpos (XI (XO (XI (XO (XO (XI (XI
                                     (XO (XI (XO (XO (XO (XO (XI (XI (XO (XI
                                     (XI (XO (XI (XO XH)))))))))))))))))))))))
                                   (n.nofZ (Zpos (XO (XO (XO (XO (XO (XO (XO
                                     (XI (XO (XI (XI (XO (XI (XO (XO (XI (XO
                                     (XO (XO (XI (XI (XO (XO
                                     XH))))))))))))))))))))))))))),
                                 (n.ndiv
                                   (n.nofZ (Zneg (XI (XI (XI (XI (XO (XO (XO
                                     (XO (XI (XO (XI (XI (XO (XO (XI (XO (XO
                                     (XI (XI XH)))))))))))))))))))))
                                   (n.nofZ (Zpos (XO (XO (XO (XO (XO (XO (XO
                                     (XI (XO (XO (XO (XO (XI (XI (XI (XI (XO
                                     (XI (XO (XI (XI (XI (XI (XI (XO
                                     XH))))))))))))))))))))))))))))) :: []))))))
                             | S _ -> [])))))
              | S _ -> []))))

(** val c_in_tab : 'a1 num -> nat -> nat -> (('a1 * 'a1) * 'a1) list **)

let c_in_tab n l s =
  match l with
  | O -> []
  | S n0 ->
    (match n0 with
     | O ->
       (match s with
        | O -> []
        | S n1 ->
          (match n1 with
           | O ->
             (((n.ndiv
                 (n.nofZ (Zpos (XI (XI (XI (XI (XO (XI (XO (XI (XO (XO (XO
                   (XO (XI (XO (XO (XO (XO (XI (XI (XI
                   XH))))))))))))))))))))))
                 (n.nofZ (Zpos (XO (XO (XO (XO (XO (XO (XO (XI (XO (XO (XI
                   (XO (XO (XO (XO (XI (XO (XI (XI (XI
                   XH))))))))))))))))))))))),
               (n.ndiv
                 (n.nofZ (Zneg (XI (XI (XO (XI (XI (XO (XI (XI (XO (XO (XI
                   (XI (XI (XI (XO (XI (XO XH)))))))))))))))))))
                 (n.nofZ (Zpos (XO (XO (XO (XO (XI (XO (XO (XO (XO (XI (XI
                   (XI (XI (XO (XI (XO (XI (XI (XI (XI (XI (XO
                   XH)))))))))))))))))))))))))),
               (n.nofZ Z0)) :: ((((n.ndiv
                                    (n.nofZ (Zneg (XI (XO (XO (XI (XO (XO (XO
                                      (XI (XO (XO (XI (XI (XI (XO
                                      XH))))))))))))))))
                                    (n.nofZ (Zpos (XO (XO (XO (XO (XI (XO (XI
                                      (XO (XI (XI (XO (XO (XO (XO (XI
                                      XH)))))))))))))))))),
               (n.ndiv
                 (n.nofZ (Zneg (XI (XO (XI (XI (XI (XO (XO (XO (XI (XO (XI
                   (XI (XI (XO (XO (XI (XO XH)))))))))))))))))))
                 (n.nofZ (Zpos (XO (XO (XO (XO (XO (XO (XI (XO (XI (XO (XO
                   (XI (XI (XO (XI (XO (XI (XI (XO (XO (XI (XI (XI (XO (XI
                   (XI XH)))))))))))))))))))))))))))))),
               (n.nofZ Z0)) :: ((((n.ndiv
                                    (n.nofZ (Zpos (XI (XI (XI (XI (XI (XO (XI
                                      (XO (XI (XI (XO (XI (XO (XO (XO (XO (XO
                                      (XO (XI (XI (XO (XI
                                      XH))))))))))))))))))))))))
                                    (n.nofZ (Zpos (XO (XO (XO (XO (XO (XO (XO
                                      (XI (XO (XI (XI (XO (XI (XO (XO (XI (XO
                                      (XO (XO (XI (XI (XO (XO
                                      XH)))))))))))))))))))))))))),
               (n.ndiv
                 (n.nofZ (Zpos (XI (XO (XI (XO (XO (XO (XO (XO (XI (XO (XI
                   (XI (XI (XO (XI (XO (XO (XO XH))))))))))))))))))))
                 (n.nofZ (Zpos (XO (XO (XO (XO (XO (XI (XO (XI (XO (XO (XI
                   (XI (XO (XI (XO (XI (XI (XO (XO (XI (XI (XI (XO (XI (XI
                   XH))))))))))))))))))))))))))))),
               (n.nofZ Z0)) :: ((((n.ndiv
                                    (n.nofZ (Zneg (XI (XI (XI (XI (XO (XO (XO
                                      (XI (XI (XO (XO (XI (XO (XI (XI (XI (XO
                                      (XI (XO (XO XH))))))))))))))))))))))
                                    (n.nofZ (Zpos (XO (XO (XO (XO (XO (XO (XI
                                      (XO (XO (XI (XO (XO (XO (XO (XI (XO (XI
                                      (XI (XI XH)))))))))))))))))))))),
               (n.ndiv
                 (n.nofZ (Zneg (XI (XO (XO (XO (XI (XO (XI (XI (XI (XO (XI
                   (XI (XI (XI (XO (XO (XI (XI (XO XH)))))))))))))))))))))
                 (n.nofZ (Zpos (XO (XO (XO (XO (XO (XO (XO (XO (XI (XO (XI
                   (XI (XO (XI (XO (XO (XI (XO (XO (XO (XI (XI (XO (XO
                   XH)))))))))))))))))))))))))))),
               (n.nofZ Z0)) :: ((((n.ndiv
                                    (n.nofZ (Zneg (XI (XI (XO (XO (XO (XO (XO
                                      (XO (XI (XI (XI (XO (XO (XO (XI (XI (XO
                                      (XI (XI (XO (XO (XO
                                      XH))))))))))))))))))))))))
                                    (n.nofZ (Zpos (XO (XO (XO (XO (XO (XO (XI
                                      (XO (XO (XI (XO (XO (XO (XO (XI (XO (XI
                                      (XI (XI XH)))))))))))))))))))))),
               (n.ndiv
                 (n.nofZ (Zpos (XI (XI (XO (XI (XO (XI (XO (XI (XI (XO (XI
                   (XI (XO (XI (XI (XO (XO (XO (XO XH)))))))))))))))))))))
                 (n.nofZ (Zpos (XO (XO (XO (XO (XI (XO (XI (XI (XO (XI (XO
                   (XO (XI (XO (XO (XO (XI (XI (XO (XO
                   XH)))))))))))))))))))))))),
               (n.ndiv
                 (n.nofZ (Zneg (XI (XO (XO (XO (XI (XI (XO (XI (XI (XI (XI
                   (XO (XO (XI (XO (XI (XO (XO XH))))))))))))))))))))
                 (n.nofZ (Zpos (XO (XO (XO (XO (XO (XO (XI (XO (XO (XO (XO
                   (XI (XI (XI (XI (XO (XI (XO (XI (XI (XI (XI (XI (XO
                   XH)))))))))))))))))))))))))))) :: ((((n.ndiv
                                                          (n.nofZ (Zpos (XI
                                                            (XI (XI (XI (XO
                                                            (XI (XI (XO (XI
                                                            (XO (XO (XI (XI
                                                            (XI (XO (XI (XI
                                                            (XI (XO
                                                            XH)))))))))))))))))))))
                                                          (n.nofZ (Zpos (XO
                                                            (XO (XO (XO (XO
                                                            (XO (XI (XO (XI
                                                            (XO (XI (XI (XO
                                                            (XO (XO (XO (XI
                                                            XH)))))))))))))))))))),
               (n.ndiv
                 (n.nofZ (Zpos (XI (XO (XI (XI (XO (XI (XO (XI (XI (XO (XO
                   (XO (XO (XO (XO (XO (XI (XO (XO (XI
                   XH))))))))))))))))))))))
                 (n.nofZ (Zpos (XO (XO (XO (XO (XO (XO (XI (XO (XI (XI (XO
                   (XI (XO (XO (XI (XO (XO (XO (XI (XI (XO (XO
                   XH)))))))))))))))))))))))))),
               (n.ndiv
                 (n.nofZ (Zneg (XI (XI (XO (XI (XO (XI (XO (XI (XI (XI (XI
                   (XI (XI (XO (XO (XI XH))))))))))))))))))
                 (n.nofZ (Zpos (XO (XO (XO (XO (XO (XO (XO (XO (XI (XO (XO
                   (XI (XO (XO (XO (XO (XI (XO (XI (XI (XI
                   XH))))))))))))))))))))))))) :: ((((n.ndiv
                                                       (n.nofZ (Zpos (XI (XI
                                                         (XI (XI (XO (XO (XO
                                                         (XO (XO (XI (XI (XI
                                                         (XO (XI (XO (XI (XI
                                                         (XO (XO (XO
                                                         XH))))))))))))))))))))))
                                                       (n.nofZ (Zpos (XO (XO
                                                         (XO (XO (XO (XI (XO
                                                         (XO (XI (XO (XO (XO
                                                         (XO (XI (XO (XI (XI
                                                         (XI
                                                         XH))))))))))))))))))))),
               (n.ndiv
                 (n.nofZ (Zpos (XI (XO (XO (XO (XI (XO (XI (XI (XO (XI (XI
                   (XI (XO (XI (XI XH)))))))))))))))))
                 (n.nofZ (Zpos (XO (XI (XO (XI (XI (XO (XI (XO (XO (XI (XO
                   (XO (XO (XI (XI (XO (XO XH))))))))))))))))))))),
               (n.ndiv
                 (n.nofZ (Zneg (XI (XI (XI (XI (XI (XO (XI (XI (XO (XI (XO
                   (XI (XI (XO (XI (XI (XI (XI (XI (XI (XO
                   XH)))))))))))))))))))))))
                 (n.nofZ (Zpos (XO (XO (XO (XO (XO (XO (XO (XO (XI (XO (XO
                   (XO (XO (XI (XI (XI (XI (XO (XI (XO (XI (XI (XI (XI (XI
                   (XO XH)))))))))))))))))))))))))))))) :: []))))))
           | S n2 ->
             (match n2 with
              | O ->
                (((n.ndiv
                    (n.nofZ (Zpos (XI (XI (XI (XO (XI (XO (XO (XO (XI (XI (XI
                      (XO (XI (XO (XO (XI (XI (XI (XI (XI (XI (XI
                      XH))))))))))))))))))))))))
                    (n.nofZ (Zpos (XO (XO (XO (XO (XO (XO (XO (XI (XO (XI (XI
                      (XO (XI (XO (XO (XI (XO (XO (XO (XI (XI (XO (XO
                      XH)))))))))))))))))))))))))),
                  (n.ndiv
                    (n.nofZ (Zneg (XI (XI (XO (XO (XO (XO (XI (XO (XO (XI (XI
                      (XO (XI (XI (XO (XO (XO (XO (XI XH)))))))))))))))))))))
                    (n.nofZ (Zpos (XO (XO (XO (XO (XO (XO (XI (XO (XO (XO (XO
                      (XI (XI (XI (XI (XO (XI (XO (XI (XI (XI (XI (XI (XO
                      XH)))))))))))))))))))))))))))),
                  (n.nofZ Z0)) :: ((((n.ndiv
                                       (n.nofZ (Zneg (XI (XI (XI (XI (XI (XO
                                         (XO (XI (XI (XO (XI (XI (XI (XO (XI
                                         (XO (XO (XI (XI
                                         XH)))))))))))))))))))))
                                       (n.nofZ (Zpos (XO (XO (XO (XO (XO (XO
                                         (XO (XI (XO (XO (XI (XO (XO (XO (XO
                                         (XI (XO (XI (XI (XI
                                         XH))))))))))))))))))))))),
                  (n.ndiv
                    (n.nofZ (Zneg (XI (XO (XI (XI (XI (XI (XI (XO (XI (XO (XI
                      (XI (XO (XO (XI (XI (XO (XI XH))))))))))))))))))))
                    (n.nofZ (Zpos (XO (XO (XO (XO (XO (XO (XO (XI (XO (XI (XO
                      (XO (XI (XI (XO (XI (XO (XI (XI (XO (XO (XI (XI (XI (XO
                      (XI (XI XH))))))))))))))))))))))))))))))),
                  (n.nofZ Z0)) :: ((((n.ndiv
                                       (n.nofZ (Zpos (XI (XO (XI (XO (XI (XO
                                         (XO (XI (XO (XI (XI (XO (XO (XO (XO
                                         (XO (XI (XI (XO (XI
                                         XH))))))))))))))))))))))
                                       (n.nofZ (Zpos (XO (XO (XO (XO (XO (XO
                                         (XO (XI (XO (XI (XI (XO (XI (XO (XO
                                         (XI (XO (XO (XO (XI (XI (XO (XO
                                         XH)))))))))))))))))))))))))),
                  (n.ndiv
                    (n.nofZ (Zpos (XI (XO (XI (XO (XO (XI (XO (XO (XI (XO (XI
                      (XO (XO (XI (XI (XI (XI (XO (XO (XO
                      XH))))))))))))))))))))))
                    (n.nofZ (Zpos (XO (XO (XO (XO (XO (XO (XO (XO (XI (XO (XO
                      (XO (XO (XI (XI (XI (XI (XO (XI (XO (XI (XI (XI (XI (XI
                      (XO XH)))))))))))))))))))))))))))))),
                  (n.nofZ Z0)) :: ((((n.ndiv
                                       (n.nofZ (Zneg (XI (XO (XO (XI (XI (XO
                                         (XO (XO (XI (XO (XI (XO (XI (XI (XO
                                         (XI (XO (XO (XO (XO
                                         XH))))))))))))))))))))))
                                       (n.nofZ (Zpos (XO (XO (XO (XO (XO (XO
                                         (XI (XO (XO (XI (XO (XO (XO (XO (XI
                                         (XO (XI (XI (XI
                                         XH)))))))))))))))))))))),
                  (n.ndiv
                    (n.nofZ (Zneg (XI (XI (XI (XO (XO (XI (XO (XO (XI (XO (XI
                      (XO (XO (XO (XI (XI (XI (XI (XI (XO
                      XH))))))))))))))))))))))
                    (n.nofZ (Zpos (XO (XO (XO (XO (XO (XO (XO (XI (XO (XO (XO
                      (XO (XI (XI (XI (XI (XO (XI (XO (XI (XI (XI (XI (XI (XO
                      XH))))))))))))))))))))))))))))),
                  (n.nofZ Z0)) :: ((((n.ndiv
                                       (n.nofZ (Zneg (XO (XO (XI (XI (XI (XI
                                         (XO (XI (XI (XI (XI (XI (XO (XI (XO
                                         (XO XH))))))))))))))))))
                                       (n.nofZ (Zpos (XI (XO (XO (XI (XO (XO
                                         (XO (XO (XI (XO (XI (XI (XI
                                         XH)))))))))))))))),
                  (n.ndiv
                    (n.nofZ (Zpos (XI (XO (XI (XO (XI (XI (XI (XO (XI (XI (XO
                      (XI (XO (XI (XI (XI (XI (XI (XO (XO (XO
                      XH)))))))))))))))))))))))
                    (n.nofZ (Zpos (XO (XO (XO (XO (XO (XO (XI (XO (XI (XI (XO
                      (XI (XO (XO (XI (XO (XO (XO (XI (XI (XO (XO
                      XH)))))))))))))))))))))))))),
                  (n.ndiv
                    (n.nofZ (Zneg (XI (XO (XI (XO (XI (XI (XI (XO (XI (XI (XO
                      (XI (XO (XO (XI (XI (XI (XO (XO XH)))))))))))))))))))))
                    (n.nofZ (Zpos (XO (XO (XO (XO (XO (XO (XO (XI (XO (XO (XO
                      (XO (XI (XI (XI (XI (XO (XI (XO (XI (XI (XI (XI (XI (XO
                      XH))))))))))))))))))))))))))))) :: ((((n.ndiv
                                                              (n.nofZ (Zpos
                                                                (XI (XO (XO
                                                                (XO (XI (XI
                                                                (XO (XI (XI
                                                                (XO (XO (XO
                                                                (XO (XI (XO
                                                                (XI (XI (XI
                                                                (XI (XO (XI
                                                                XH)))))))))))))))))))))))
                                                              (n.nofZ (Zpos
                                                                (XO (XO (XO
                                                                (XO (XO (XO
                                                                (XI (XO (XO
                                                                (XI (XO (XO
                                                                (XO (XO (XI
                                                                (XO (XI (XI
                                                                (XI
                                                                XH)))))))))))))))))))))),
                  (n.ndiv
                    (n.nofZ (Zpos (XI (XI (XI (XI (XI (XI (XO (XI (XO (XO (XI
                      (XI (XI (XO (XO (XO (XO (XI (XI XH)))))))))))))))))))))
                    (n.nofZ (Zpos (XO (XO (XO (XO (XO (XI (XO (XI (XI (XO (XI
                      (XO (XO (XI (XO (XO (XO (XI (XI (XO (XO
                      XH))))))))))))))))))))))))),
                  (n.ndiv
                    (n.nofZ (Zneg (XI (XI (XO (XO (XO (XI (XO (XI (XO (XI (XI
                      (XO (XO (XI (XI (XO (XI (XI (XO XH)))))))))))))))))))))
                    (n.nofZ (Zpos (XO (XO (XO (XO (XO (XO (XI (XO (XO (XO (XO
                      (XI (XI (XI (XI (XO (XI (XO (XI (XI (XI (XI (XI (XO
                      XH)))))))))))))))))))))))))))) :: ((((n.ndiv
                                                             (n.nofZ (Zpos
                                                               (XI (XI (XI
                                                               (XI (XI (XI
                                                               (XO (XO (XO
                                                               (XO (XI (XO
                                                               (XI (XO (XO
                                                               XH)))))))))))))))))
                                                             (n.nofZ (Zpos
                                                               (XI (XO (XO
                                                               (XI (XO (XO
                                                               (XO (XO (XI
                                                               (XO (XI (XI
                                                               (XI
                                                               XH)))))))))))))))),
                  (n.ndiv
                    (n.nofZ (Zpos (XI (XI (XI (XO (XI (XO (XI (XO (XI (XO (XI
                      (XI (XI (XO (XO (XO (XI (XO (XO (XO (XO (XO
                      XH))))))))))))))))))))))))
                    (n.nofZ (Zpos (XO (XO (XO (XO (XO (XO (XO (XI (XO (XI (XI
                      (XO (XI (XO (XO (XI (XO (XO (XO (XI (XI (XO (XO
                      XH))))))))))))))))))))))))))),
                  (n.ndiv
                    (n.nofZ (Zneg (XI (XO (XI (XI (XO (XO (XO (XO (XO (XO (XI
                      (XO (XO (XO (XO (XO (XI (XO (XO (XI
                      XH))))))))))))))))))))))
                    (n.nofZ (Zpos (XO (XO (XO (XO (XO (XO (XO (XI (XO (XO (XO
                      (XO (XI (XI (XI (XI (XO (XI (XO (XI (XI (XI (XI (XI (XO
                      XH))))))))))))))))))))))))))))) :: []))))))
              | S n3 ->
                (match n3 with
                 | O ->
                   (((n.ndiv
                       (n.nofZ (Zpos (XI (XO (XO (XI (XI (XO (XI (XO (XO (XO
                         (XI (XO (XO (XO (XI (XI (XO (XO (XO (XI (XI
                         XH)))))))))))))))))))))))
                       (n.nofZ (Zpos (XO (XO (XO (XO (XO (XO (XI (XO (XI (XI
                         (XO (XI (XO (XO (XI (XO (XO (XO (XI (XI (XO (XO
                         XH))))))))))))))))))))))))),
                     (n.ndiv
                       (n.nofZ (Zneg (XI (XI (XO (XI (XI (XO (XO (XI (XI (XI
                         (XO (XO (XI (XI (XO (XI (XO (XO (XI (XO (XI
                         XH)))))))))))))))))))))))
                       (n.nofZ (Zpos (XO (XO (XO (XO (XO (XO (XO (XO (XI (XO
                         (XO (XO (XO (XI (XI (XI (XI (XO (XI (XO (XI (XI (XI
                         (XI (XI (XO XH)))))))))))))))))))))))))))))),
                     (n.nofZ Z0)) :: ((((n.ndiv
                                          (n.nofZ (Zneg (XI (XO (XO (XI (XI
                                            (XO (XI (XO (XO (XI (XI (XO (XO
                                            (XO (XO (XI (XI (XI (XO (XO (XO
                                            XH)))))))))))))))))))))))
                                          (n.nofZ (Zpos (XO (XO (XO (XO (XO
                                            (XO (XI (XO (XI (XI (XO (XI (XO
                                            (XO (XI (XO (XO (XO (XI (XI (XO
                                            (XO XH))))))))))))))))))))))))),
                     (n.ndiv
                       (n.nofZ (Zneg (XI (XO (XI (XI (XO (XI (XI (XI (XO (XI
                         (XO (XO (XO (XO (XO (XO (XO (XO (XO (XO (XO
                         XH)))))))))))))))))))))))
                       (n.nofZ (Zpos (XO (XO (XO (XO (XO (XO (XO (XO (XO (XI
                         (XO (XI (XO (XO (XI (XI (XO (XI (XO (XI (XI (XO (XO
                         (XI (XI (XI (XO (XI (XI
                         XH))))))))))))))))))))))))))))))))),
                     (n.nofZ Z0)) :: ((((n.ndiv
                                          (n.nofZ (Zneg (XI (XI (XO (XO (XI
                                            (XI (XO (XI (XI (XI (XO (XI (XO
                                            (XO (XI (XI (XO
                                            XH)))))))))))))))))))
                                          (n.nofZ (Zpos (XO (XO (XO (XO (XI
                                            (XO (XI (XI (XO (XI (XO (XO (XI
                                            (XO (XO (XO (XI (XI (XO (XO
                                            XH))))))))))))))))))))))),
                     (n.ndiv
                       (n.nofZ (Zpos (XI (XO (XO (XO (XO (XO (XI (XO (XI (XO
                         (XO (XO (XI (XO (XO (XO (XO (XI (XI (XO
                         XH))))))))))))))))))))))
                       (n.nofZ (Zpos (XO (XO (XO (XO (XO (XO (XO (XO (XI (XO
                         (XO (XO (XO (XI (XI (XI (XI (XO (XI (XO (XI (XI (XI
                         (XI (XI (XO XH)))))))))))))))))))))))))))))),
                     (n.nofZ Z0)) :: ((((n.ndiv
                                          (n.nofZ (Zneg (XI (XO (XO (XI (XO
                                            (XO (XO (XO (XO (XI (XI (XO (XO
                                            (XI (XO (XI XH))))))))))))))))))
                                          (n.nofZ (Zpos (XO (XO (XO (XO (XO
                                            (XI (XO (XI (XO (XI (XI (XO (XO
                                            (XO (XO (XI XH))))))))))))))))))),
                     (n.ndiv
                       (n.nofZ (Zneg (XI (XO (XI (XI (XI (XO (XI (XI (XI (XO
                         (XO (XO (XO (XI (XI (XO (XI (XO (XO (XI (XO
                         XH)))))))))))))))))))))))
                       (n.nofZ (Zpos (XO (XO (XO (XO (XO (XO (XO (XO (XI (XO
                         (XO (XO (XO (XI (XI (XI (XI (XO (XI (XO (XI (XI (XI
                         (XI (XI (XO XH)))))))))))))))))))))))))))))),
                     (n.nofZ Z0)) :: ((((n.ndiv
                                          (n.nofZ (Zneg (XI (XI (XO (XO (XI
                                            (XI (XI (XI (XO (XO (XI (XI (XI
                                            (XO (XI (XI (XI (XI (XI (XI (XO
                                            (XO XH))))))))))))))))))))))))
                                          (n.nofZ (Zpos (XO (XO (XO (XO (XO
                                            (XO (XI (XO (XO (XI (XO (XO (XO
                                            (XO (XI (XO (XI (XI (XI
                                            XH)))))))))))))))))))))),
                     (n.ndiv
                       (n.nofZ (Zpos (XI (XI (XO (XO (XO (XI (XI (XO (XO (XO
                         (XI (XO (XI (XI (XI (XI (XI (XO (XO (XI (XO (XO
                         XH))))))))))))))))))))))))
                       (n.nofZ (Zpos (XO (XO (XO (XO (XO (XO (XO (XI (XO (XI
                         (XI (XO (XI (XO (XO (XI (XO (XO (XO (XI (XI (XO (XO
                         XH))))))))))))))))))))))))))),
                     (n.ndiv
                       (n.nofZ (Zneg (XI (XO (XI (XI (XO (XI (XO (XI (XO (XO
                         (XI (XO (XO (XO (XI (XI (XI (XO (XO
                         XH)))))))))))))))))))))
                       (n.nofZ (Zpos (XO (XO (XO (XO (XO (XO (XO (XI (XO (XO
                         (XO (XO (XI (XI (XI (XI (XO (XI (XO (XI (XI (XI (XI
                         (XI (XO XH))))))))))))))))))))))))))))) :: (((
                     (n.ndiv
                       (n.nofZ (Zpos (XI (XI (XO (XI (XO (XO (XO (XO (XO (XO
                         (XO (XO (XO (XI (XO (XI (XO (XI (XO (XI
                         XH))))))))))))))))))))))
                       (n.nofZ (Zpos (XO (XO (XO (XO (XO (XI (XO (XO (XI (XO
                         (XO (XO (XO (XI (XO (XI (XI (XI
                         XH))))))))))))))))))))),
                     (n.ndiv
                       (n.nofZ (Zpos (XI (XI (XO (XI (XO (XO (XI (XO (XI (XO
                         (XO (XO (XI (XO (XI (XO (XO (XI
                         XH))))))))))))))))))))
                       (n.nofZ (Zpos (XO (XO (XO (XO (XO (XO (XI (XO (XO (XI
                         (XO (XO (XO (XO (XI (XO (XI (XI (XI
                         XH))))))))))))))))))))))),
                     (n.ndiv
                       (n.nofZ (Zneg (XI (XO (XI (XI (XO (XI (XI (XI (XI (XI
                         (XO (XI (XO (XO (XI (XI (XO (XO (XO (XI
                         XH))))))))))))))))))))))
                       (n.nofZ (Zpos (XO (XO (XO (XO (XO (XO (XO (XI (XO (XO
                         (XO (XO (XI (XI (XI (XI (XO (XI (XO (XI (XI (XI (XI
                         (XI (XO XH))))))))))))))))))))))))))))) :: (((
                     (n.ndiv
                       (n.nofZ (Zpos (XI (XI (XI (XO (XO (XO (XI (XI (XO (XO
                         (XI (XI (XO (XO (XI (XO (XI (XI (XO (XO
                         XH))))))))))))))))))))))
                       (n.nofZ (Zpos (XO (XO (XO (XO (XO (XI (XO (XO (XI (XO
                         (XO (XO (XO (XI (XO (XI (XI (XI
                         XH))))))))))))))))))))),
                     (n.ndiv
                       (n.nofZ (Zpos (XI (XO (XO (XO (XI (XO (XI (XO (XO (XI
                         (XI (XI (XO (XO (XI (XO (XO (XO
                         XH))))))))))))))))))))
                       (n.nofZ (Zpos (XO (XO (XO (XI (XO (XI (XI (XO (XI (XO
                         (XO (XI (XO (XO (XO (XI (XI (XO (XO
                         XH))))))))))))))))))))))),
                     (n.ndiv
                       (n.nofZ (Zneg (XI (XO (XI (XI (XI (XO (XO (XO (XO (XO
                         (XI (XO (XI (XI (XI (XI (XO (XI (XO (XO (XI
                         XH)))))))))))))))))))))))
                       (n.nofZ (Zpos (XO (XO (XO (XO (XO (XO (XO (XO (XI (XO
                         (XO (XO (XO (XI (XI (XI (XI (XO (XI (XO (XI (XI (XI
                         (XI (XI (XO XH)))))))))))))))))))))))))))))) :: []))))))
                 | S n4 ->
                   (match n4 with
                    | O ->
                      (((n.ndiv
                          (n.nofZ (Zpos (XI (XO (XI (XO (XO (XO (XI (XI (XO
                            (XO (XI (XI (XO (XO (XO (XI (XO
                            XH)))))))))))))))))))
                          (n.nofZ (Zpos (XO (XO (XO (XO (XI (XO (XO (XI (XO
                            (XO (XO (XO (XI (XO (XI (XI (XI
                            XH)))))))))))))))))))),
                        (n.ndiv
                          (n.nofZ (Zneg (XI (XI (XO (XO (XO (XI (XO (XI (XO
                            (XI (XO (XI (XI (XI (XO (XI (XO (XI (XO
                            XH)))))))))))))))))))))
                          (n.nofZ (Zpos (XO (XO (XO (XO (XO (XO (XO (XO (XI
                            (XO (XI (XI (XO (XI (XO (XO (XI (XO (XO (XO (XI
                            (XI (XO (XO XH)))))))))))))))))))))))))))),
                        (n.nofZ Z0)) :: ((((n.ndiv
                                             (n.nofZ (Zneg (XI (XI (XI (XI
                                               (XI (XO (XI (XO (XI (XI (XO
                                               (XO (XO (XO (XI (XO (XI (XI
                                               (XO (XO (XO
                                               XH)))))))))))))))))))))))
                                             (n.nofZ (Zpos (XO (XO (XO (XO
                                               (XO (XO (XI (XO (XI (XI (XO
                                               (XI (XO (XO (XI (XO (XO (XO
                                               (XI (XI (XO (XO
                                               XH))))))))))))))))))))))))),
                        (n.ndiv
                          (n.nofZ (Zneg (XI (XI (XI (XO (XI (XO (XO (XI (XO
                            (XO (XO (XO (XO XH)))))))))))))))
                          (n.nofZ (Zpos (XO (XI (XO (XI (XO (XO (XI (XI (XO
                            (XI (XO (XI (XI (XO (XO (XI (XI (XI (XO (XI (XI
                            XH))))))))))))))))))))))))),
                        (n.nofZ Z0)) :: ((((n.ndiv
                                             (n.nofZ (Zneg (XI (XI (XO (XO
                                               (XO (XO (XO (XI (XI (XO (XO
                                               (XI (XO (XO (XI (XO (XI (XO
                                               XH))))))))))))))))))))
                                             (n.nofZ (Zpos (XO (XO (XO (XO
                                               (XO (XO (XI (XO (XO (XI (XO
                                               (XO (XO (XO (XI (XO (XI (XI
                                               (XI XH)))))))))))))))))))))),
                        (n.ndiv
                          (n.nofZ (Zpos (XI (XO (XI (XO (XI (XO (XO (XO (XO
                            (XI (XO (XO (XI (XI (XO (XO (XO (XI (XO
                            XH)))))))))))))))))))))
                          (n.nofZ (Zpos (XO (XO (XO (XO (XO (XO (XO (XI (XO
                            (XO (XO (XO (XI (XI (XI (XI (XO (XI (XO (XI (XI
                            (XI (XI (XI (XO XH))))))))))))))))))))))))))))),
                        (n.nofZ Z0)) :: ((((n.ndiv
                                             (n.nofZ (Zneg (XI (XI (XO (XO
                                               (XI (XO (XI (XO (XI (XI (XO
                                               (XI (XO (XO (XO (XO (XO (XO
                                               (XO XH)))))))))))))))))))))
                                             (n.nofZ (Zpos (XO (XO (XO (XO
                                               (XO (XI (XO (XO (XI (XO (XO
                                               (XO (XO (XI (XO (XI (XI (XI
                                               XH))))))))))))))))))))),
                        (n.ndiv
                          (n.nofZ (Zneg (XI (XO (XO (XI (XO (XO (XO (XO (XO
                            (XI (XI (XI (XO (XO (XO (XO (XO (XO (XO (XO (XI
                            XH)))))))))))))))))))))))
                          (n.nofZ (Zpos (XO (XO (XO (XO (XO (XO (XO (XO (XI
                            (XO (XO (XO (XO (XI (XI (XI (XI (XO (XI (XO (XI
                            (XI (XI (XI (XI (XO XH)))))))))))))))))))))))))))))),
                        (n.nofZ Z0)) :: ((((n.ndiv
                                             (n.nofZ (Zneg (XI (XO (XI (XI
                                               (XI (XI (XO (XI (XO (XI (XI
                                               (XO (XO (XI (XI (XO (XI (XI
                                               (XO (XO (XI (XO
                                               XH))))))))))))))))))))))))
                                             (n.nofZ (Zpos (XO (XO (XO (XO
                                               (XO (XO (XI (XO (XO (XI (XO
                                               (XO (XO (XO (XI (XO (XI (XI
                                               (XI XH)))))))))))))))))))))),
                        (n.ndiv
                          (n.nofZ (Zpos (XI (XI (XO (XI (XI (XI (XI (XO (XI
                            (XI (XI (XO (XI (XO (XO (XI (XO (XI (XO (XI (XO
                            (XO XH))))))))))))))))))))))))
                          (n.nofZ (Zpos (XO (XO (XO (XO (XO (XO (XO (XI (XO
                            (XI (XI (XO (XI (XO (XO (XI (XO (XO (XO (XI (XI
                            (XO (XO XH))))))))))))))))))))))))))),
                        (n.ndiv
                          (n.nofZ (Zneg (XI (XO (XO (XI (XI (XI (XO (XI (XI
                            (XI (XI (XI (XI (XO (XI (XI XH))))))))))))))))))
                          (n.nofZ (Zpos (XO (XO (XO (XO (XO (XO (XO (XI (XO
                            (XI (XI (XO (XI (XO (XO (XI (XO (XO (XO (XI (XI
                            (XO (XO XH))))))))))))))))))))))))))) :: (((
                        (n.ndiv
                          (n.nofZ (Zpos (XI (XI (XO (XI (XO (XO (XO (XO (XI
                            (XI (XI (XI (XI (XI (XO (XI (XI (XO (XO (XI
                            XH))))))))))))))))))))))
                          (n.nofZ (Zpos (XO (XO (XO (XO (XO (XI (XO (XO (XI
                            (XO (XO (XO (XO (XI (XO (XI (XI (XI
                            XH))))))))))))))))))))),
                        (n.ndiv
                          (n.nofZ (Zpos (XI (XO (XO (XI (XI (XO (XO (XI (XO
                            (XI (XI (XI (XO (XO (XO (XI (XI (XO (XO (XO
                            XH))))))))))))))))))))))
                          (n.nofZ (Zpos (XO (XO (XO (XO (XO (XI (XO (XI (XI
                            (XO (XI (XO (XO (XI (XO (XO (XO (XI (XI (XO (XO
                            XH))))))))))))))))))))))))),
                        (n.ndiv
                          (n.nofZ (Zneg (XI (XO (XO (XO (XO (XI (XO (XI (XI
                            (XI (XI (XO (XI (XO (XI (XI (XO (XO (XI (XO (XI
                            XH)))))))))))))))))))))))
                          (n.nofZ (Zpos (XO (XO (XO (XO (XO (XO (XO (XO (XI
                            (XO (XO (XO (XO (XI (XI (XI (XI (XO (XI (XO (XI
                            (XI (XI (XI (XI (XO XH)))))))))))))))))))))))))))))) :: (((
                        (n.ndiv
                          (n.nofZ (Zpos (XI (XI (XI (XO (XI (XO (XO (XO (XI
                            (XO (XI (XO (XI (XI (XO (XO (XO (XO (XI (XO
                            XH))))))))))))))))))))))
                          (n.nofZ (Zpos (XO (XO (XO (XO (XO (XI (XO (XO (XI
                            (XO (XO (XO (XO (XI (XO (XI (XI (XI
                            XH))))))))))))))))))))),
                        (n.ndiv
                          (n.nofZ (Zpos (XI (XO (XO (XO (XO (XI (XO (XO (XI
                            (XI (XI (XI (XI (XO (XI (XO (XI (XI (XI (XO (XO
                            (XO XH))))))))))))))))))))))))
                          (n.nofZ (Zpos (XO (XO (XO (XO (XO (XO (XO (XI (XO
                            (XI (XI (XO (XI (XO (XO (XI (XO (XO (XO (XI (XI
                            (XO (XO XH))))))))))))))))))))))))))),
                        (n.ndiv
                          (n.nofZ (Zneg (XI (XO (XO (XO (XO (XI (XO (XO (XO
                            (XO (XI (XO (XI (XI (XI (XI (XO (XI (XO (XO (XI
                            XH)))))))))))))))))))))))
                          (n.nofZ (Zpos (XO (XO (XO (XO (XO (XO (XO (XO (XI
                            (XO (XO (XO (XO (XI (XI (XI (XI (XO (XI (XO (XI
                            (XI (XI (XI (XI (XO XH)))))))))))))))))))))))))))))) :: []))))))
                    | S n5 ->
                      (match n5 with
                       | O ->
                         (((n.ndiv
                             (n.nofZ (Zpos (XI (XI (XO (XI (XO (XO (XI (XI
                               (XI (XO (XI (XI (XI (XO (XO (XO (XO (XO (XO
                               (XO (XO (XI XH))))))))))))))))))))))))
                             (n.nofZ (Zpos (XO (XO (XO (XO (XO (XO (XO (XI
                               (XO (XI (XI (XO (XI (XO (XO (XI (XO (XO (XO
                               (XI (XI (XO (XO XH)))))))))))))))))))))))))),
                           (n.ndiv
                             (n.nofZ (Zneg (XI (XO (XI (XI (XI (XO XH))))))))
                             (n.nofZ (Zpos (XO (XO (XI (XO (XO (XO (XI (XI
                               (XI (XO (XO XH))))))))))))))),
                           (n.nofZ Z0)) :: ((((n.ndiv
                                                (n.nofZ (Zneg (XI (XO (XO (XI
                                                  (XI (XO (XO (XO (XO (XO (XO
                                                  (XI (XI (XO (XO (XI (XI (XO
                                                  (XI (XO (XO (XO
                                                  XH))))))))))))))))))))))))
                                                (n.nofZ (Zpos (XO (XO (XO (XO
                                                  (XO (XO (XO (XI (XO (XI (XI
                                                  (XO (XI (XO (XO (XI (XO (XO
                                                  (XO (XI (XI (XO (XO
                                                  XH)))))))))))))))))))))))))),
                           (n.ndiv
                             (n.nofZ (Zneg (XI (XI (XO (XO (XO (XO (XO (XI
                               (XO (XI (XI (XI (XO (XO (XO (XI (XO (XO (XI
                               (XO (XO XH)))))))))))))))))))))))
                             (n.nofZ (Zpos (XO (XO (XO (XO (XO (XO (XO (XO
                               (XO (XI (XO (XI (XO (XO (XI (XI (XO (XI (XO
                               (XI (XI (XO (XO (XI (XI (XI (XO (XI (XI
                               XH))))))))))))))))))))))))))))))))),
                           (n.nofZ Z0)) :: ((((n.ndiv
                                                (n.nofZ (Zneg (XI (XI (XO (XI
                                                  (XI (XO (XO (XO (XO (XO (XI
                                                  (XO (XO (XI (XI (XI (XI (XI
                                                  (XI (XO (XO
                                                  XH)))))))))))))))))))))))
                                                (n.nofZ (Zpos (XO (XO (XO (XO
                                                  (XO (XO (XI (XO (XI (XI (XO
                                                  (XI (XO (XO (XI (XO (XO (XO
                                                  (XI (XI (XO (XO
                                                  XH))))))))))))))))))))))))),
                           (n.ndiv
                             (n.nofZ (Zpos (XI (XO (XI (XO (XO (XI (XI (XI
                               (XO (XI (XI (XI (XO (XI (XI (XO (XO
                               XH)))))))))))))))))))
                             (n.nofZ (Zpos (XO (XO (XO (XO (XO (XO (XO (XI
                               (XO (XI (XI (XO (XI (XO (XO (XI (XO (XO (XO
                               (XI (XI (XO (XO XH))))))))))))))))))))))))))),
                           (n.nofZ Z0)) :: ((((n.ndiv
                                                (n.nofZ (Zneg (XI (XO (XI (XI
                                                  (XI (XI (XO (XI (XI (XI (XI
                                                  (XI (XO (XI (XO
                                                  XH)))))))))))))))))
                                                (n.nofZ (Zpos (XO (XO (XO (XO
                                                  (XO (XO (XI (XO (XO (XO (XI
                                                  (XI (XI (XO (XO
                                                  XH)))))))))))))))))),
                           (n.ndiv
                             (n.nofZ (Zneg (XI (XO (XO (XI (XO (XO (XO (XI
                               (XO (XI (XI (XO (XI (XO (XI (XI (XI (XO (XI
                               (XO XH))))))))))))))))))))))
                             (n.nofZ (Zpos (XO (XO (XO (XO (XO (XO (XO (XI
                               (XO (XO (XO (XO (XI (XI (XI (XI (XO (XI (XO
                               (XI (XI (XI (XI (XI (XO
                               XH))))))))))))))))))))))))))))),
                           (n.nofZ Z0)) :: ((((n.ndiv
                                                (n.nofZ (Zneg (XI (XO (XI (XI
                                                  (XI (XO (XO (XO (XO (XO (XI
                                                  (XO (XO (XI (XI (XO (XI (XI
                                                  (XO (XI (XO
                                                  XH)))))))))))))))))))))))
                                                (n.nofZ (Zpos (XO (XO (XO (XO
                                                  (XO (XI (XO (XO (XI (XO (XO
                                                  (XO (XO (XI (XO (XI (XI (XI
                                                  XH))))))))))))))))))))),
                           (n.ndiv
                             (n.nofZ (Zpos (XI (XO (XI (XO (XO (XI (XO (XO
                               (XI (XO (XO (XO (XI (XI (XI (XI (XI (XI (XI
                               (XO (XO (XO XH))))))))))))))))))))))))
                             (n.nofZ (Zpos (XO (XO (XO (XO (XO (XO (XO (XI
                               (XO (XI (XI (XO (XI (XO (XO (XI (XO (XO (XO
                               (XI (XI (XO (XO XH))))))))))))))))))))))))))),
                           (n.ndiv
                             (n.nofZ (Zneg (XI (XO (XI (XI (XO (XI (XO (XI
                               (XI (XI (XI (XI (XO (XO (XO (XO (XO (XO (XO
                               XH)))))))))))))))))))))
                             (n.nofZ (Zpos (XO (XO (XO (XO (XO (XO (XO (XI
                               (XO (XO (XO (XO (XI (XI (XI (XI (XO (XI (XO
                               (XI (XI (XI (XI (XI (XO
                               XH))))))))))))))))))))))))))))) :: (((
                           (n.ndiv
                             (n.nofZ (Zpos (XI (XO (XI (XI (XI (XI (XI (XO
                               (XO (XO (XI (XI (XI (XO (XI (XI (XI (XO (XO
                               (XO (XI XH)))))))))))))))))))))))
                             (n.nofZ (Zpos (XO (XO (XO (XO (XO (XO (XI (XO
                               (XO (XI (XO (XO (XO (XO (XI (XO (XI (XI (XI
                               XH)))))))))))))))))))))),
                           (n.ndiv
                             (n.nofZ (Zpos (XI (XI (XO (XI (XO (XO (XO (XI
                               (XO (XI (XI (XO (XI (XO (XO (XI (XO (XO (XO
                               (XO (XI (XO XH))))))))))))))))))))))))
                             (n.nofZ (Zpos (XO (XO (XO (XO (XO (XO (XO (XI
                               (XO (XI (XI (XO (XI (XO (XO (XI (XO (XO (XO
                               (XI (XI (XO (XO XH))))))))))))))))))))))))))),
                           (n.ndiv
                             (n.nofZ (Zneg (XI (XO (XI (XO (XI (XO (XO (XI
                               (XO (XI (XO (XO (XO (XI (XO (XO (XO (XO (XO
                               (XI (XI XH)))))))))))))))))))))))
                             (n.nofZ (Zpos (XO (XO (XO (XO (XO (XO (XO (XO
                               (XI (XO (XO (XO (XO (XI (XI (XI (XI (XO (XI
                               (XO (XI (XI (XI (XI (XI (XO
                               XH)))))))))))))))))))))))))))))) :: (((
                           (n.ndiv
                             (n.nofZ (Zpos (XI (XO (XI (XI (XI (XO (XO (XO
                               (XI (XI (XO (XO (XI (XI (XO (XI
                               XH))))))))))))))))))
                             (n.nofZ (Zpos (XO (XO (XO (XO (XO (XO (XI (XO
                               (XO (XO (XI (XI (XI (XO (XO XH)))))))))))))))))),
                           (n.ndiv
                             (n.nofZ (Zpos (XI (XI (XI (XO (XI (XO (XO (XO
                               (XI (XO (XI (XI (XI (XI (XO XH)))))))))))))))))
                             (n.nofZ (Zpos (XO (XO (XO (XO (XO (XI (XO (XI
                               (XO (XI (XI (XO (XO (XO (XO (XI
                               XH)))))))))))))))))))),
                           (n.ndiv
                             (n.nofZ (Zneg (XI (XI (XI (XO (XO (XI (XI (XO
                               (XO (XI (XO (XO (XI (XO (XI (XI (XI (XO (XO
                               (XO (XI XH)))))))))))))))))))))))
                             (n.nofZ (Zpos (XO (XO (XO (XO (XO (XO (XO (XO
                               (XI (XO (XO (XO (XO (XI (XI (XI (XI (XO (XI
                               (XO (XI (XI (XI (XI (XI (XO
                               XH)))))))))))))))))))))))))))))) :: []))))))
                       | S _ -> []))))))
     | S n1 ->
       (match n1 with
        | O ->
          (match s with
           | O -> []
           | S n2 ->
             (match n2 with
              | O -> []
              | S n3 ->
                (match n3 with
                 | O ->
                   (((n.ndiv
                       (n.nofZ (Zpos (XI (XI (XO (XO (XI (XO (XI (XO (XI (XO
                         (XI (XI (XI (XO (XO (XI (XI (XO (XI (XO (XO (XO
                         XH))))))))))))))))))))))))
                       (n.nofZ (Zpos (XO (XO (XO (XO (XO (XO (XI (XO (XI (XI
                         (XO (XI (XO (XO (XI (XO (XO (XO (XI (XI (XO (XO
                         XH))))))))))))))))))))))))),
                     (n.ndiv
                       (n.nofZ (Zneg (XI (XO (XI (XI (XI (XI (XI (XI (XO (XO
                         (XO (XI (XI (XO (XO (XI (XO (XO (XI (XO (XO
                         XH)))))))))))))))))))))))
                       (n.nofZ (Zpos (XO (XO (XO (XO (XO (XO (XO (XO (XI (XO
                         (XO (XO (XO (XI (XI (XI (XI (XO (XI (XO (XI (XI (XI
                         (XI (XI (XO XH)))))))))))))))))))))))))))))),
                     (n.nofZ Z0)) :: ((((n.ndiv
                                          (n.nofZ (Zneg (XI (XI (XO (XO (XO
                                            (XI (XI (XO (XI (XO (XI (XI (XI
                                            (XI (XO (XO (XO
                                            XH)))))))))))))))))))
                                          (n.nofZ (Zpos (XO (XO (XI (XO (XI
                                            (XI (XO (XI (XO (XO (XI (XO (XO
                                            (XO (XI (XI (XO (XO
                                            XH))))))))))))))))))))),
                     (n.ndiv
                       (n.nofZ (Zneg (XI (XO (XO (XO (XI (XO (XO (XI (XO (XI
                         (XO (XI (XO (XI (XO (XO (XI (XI (XI (XO (XI (XI
                         XH))))))))))))))))))))))))
                       (n.nofZ (Zpos (XO (XO (XO (XO (XO (XO (XO (XO (XO (XO
                         (XI (XO (XO (XI (XI (XI (XI (XI (XO (XI (XO (XO (XO
                         (XO (XO (XO (XI (XO (XI (XO (XI (XO (XO
                         XH))))))))))))))))))))))))))))))))))))),
                     (n.nofZ Z0)) :: ((((n.ndiv
                                          (n.nofZ (Zpos (XI (XO (XI (XI (XO
                                            (XO (XO (XI (XI (XI (XO (XI (XI
                                            (XI (XO (XI (XI (XI (XI
                                            XH)))))))))))))))))))))
                                          (n.nofZ (Zpos (XO (XO (XO (XO (XO
                                            (XO (XI (XO (XO (XI (XO (XO (XO
                                            (XO (XI (XO (XI (XI (XI
                                            XH)))))))))))))))))))))),
                     (n.ndiv
                       (n.nofZ (Zpos (XI (XO (XO (XI (XO (XO (XI (XO (XO (XI
                         (XI (XO (XO (XO (XO (XI (XI (XI (XI
                         XH)))))))))))))))))))))
                       (n.nofZ (Zpos (XO (XO (XO (XO (XO (XO (XO (XI (XO (XI
                         (XO (XO (XI (XI (XO (XI (XO (XI (XI (XO (XO (XI (XI
                         (XI (XO (XI (XI XH))))))))))))))))))))))))))))))),
                     (n.nofZ Z0)) :: ((((n.ndiv
                                          (n.nofZ (Zneg (XI (XI (XI (XI (XO
                                            (XI (XI (XO (XO (XI (XO (XO (XI
                                            (XO (XI (XO (XO (XO (XO
                                            XH)))))))))))))))))))))
                                          (n.nofZ (Zpos (XO (XO (XO (XO (XO
                                            (XI (XO (XO (XI (XO (XO (XO (XO
                                            (XI (XO (XI (XI (XI
                                            XH))))))))))))))))))))),
                     (n.ndiv
                       (n.nofZ (Zneg (XI (XO (XO (XO (XI (XI (XI (XI (XO (XO
                         (XI (XO (XI (XI (XO (XO (XI (XO (XO
                         XH)))))))))))))))))))))
                       (n.nofZ (Zpos (XO (XO (XO (XO (XO (XO (XI (XO (XO (XO
                         (XO (XI (XI (XI (XI (XO (XI (XO (XI (XI (XI (XI (XI
                         (XO XH)))))))))))))))))))))))))))),
                     (n.nofZ Z0)) :: ((((n.ndiv
                                          (n.nofZ (Zneg (XI (XI (XO (XI (XO
                                            (XO (XO (XO (XO (XI (XO (XI (XI
                                            (XI (XI (XI (XO (XI (XI (XI (XI
                                            XH)))))))))))))))))))))))
                                          (n.nofZ (Zpos (XO (XO (XO (XO (XO
                                            (XO (XI (XO (XO (XI (XO (XO (XO
                                            (XO (XI (XO (XI (XI (XI
                                            XH)))))))))))))))))))))),
                     (n.ndiv
                       (n.nofZ (Zpos (XI (XI (XO (XI (XO (XO (XI (XO (XI (XI
                         (XI (XO (XO (XI (XO (XI (XI (XO (XO (XO (XO (XO
                         XH))))))))))))))))))))))))
                       (n.nofZ (Zpos (XO (XO (XO (XO (XO (XO (XO (XI (XO (XI
                         (XI (XO (XI (XO (XO (XI (XO (XO (XO (XI (XI (XO (XO
                         XH))))))))))))))))))))))))))),
                     (n.ndiv
                       (n.nofZ (Zneg (XI (XO (XI (XO (XI (XO (XI (XO (XO (XI
                         (XO (XO (XI (XO (XI (XO (XO (XI (XO
                         XH)))))))))))))))))))))
                       (n.nofZ (Zpos (XO (XO (XO (XO (XO (XO (XO (XI (XO (XO
                         (XO (XO (XI (XI (XI (XI (XO (XI (XO (XI (XI (XI (XI
                         (XI (XO XH))))))))))))))))))))))))))))) :: (((
                     (n.ndiv
                       (n.nofZ (Zpos (XI (XI (XO (XO (XO (XI (XI (XI (XI (XI
                         (XI (XO (XI (XI (XI (XI (XO (XI (XI (XI
                         XH))))))))))))))))))))))
                       (n.nofZ (Zpos (XO (XO (XO (XO (XO (XI (XO (XO (XI (XO
                         (XO (XO (XO (XI (XO (XI (XI (XI
                         XH))))))))))))))))))))),
                     (n.ndiv
                       (n.nofZ (Zpos (XI (XI (XO (XO (XO (XO (XO (XO (XO (XI
                         (XO (XO (XO (XI (XO (XI (XI (XI (XI (XO (XO
                         XH)))))))))))))))))))))))
                       (n.nofZ (Zpos (XO (XO (XO (XO (XO (XO (XO (XI (XO (XI
                         (XI (XO (XI (XO (XO (XI (XO (XO (XO (XI (XI (XO (XO
                         XH))))))))))))))))))))))))))),
                     (n.ndiv
                       (n.nofZ (Zneg (XI (XI (XI (XI (XI (XO (XI (XO (XO (XO
                         (XI (XI (XI (XO (XO (XO (XI (XO (XO (XO (XO
                         XH)))))))))))))))))))))))
                       (n.nofZ (Zpos (XO (XO (XO (XO (XO (XO (XO (XO (XI (XO
                         (XO (XO (XO (XI (XI (XI (XI (XO (XI (XO (XI (XI (XI
                         (XI (XI (XO XH)))))))))))))))))))))))))))))) :: (((
                     (n.ndiv
                       (n.nofZ (Zpos (XI (XO (XI (XI (XI (XI (XI (XI (XI (XI
                         (XO (XI (XO (XI (XI (XI (XI (XI (XI
                         XH)))))))))))))))))))))
                       (n.nofZ (Zpos (XO (XO (XO (XO (XO (XI (XO (XO (XI (XO
                         (XO (XO (XO (XI (XO (XI (XI (XI
                         XH))))))))))))))))))))),
                     (n.ndiv
                       (n.nofZ (Zpos (XI (XI (XI (XI (XI (XI (XO (XI (XO (XO
                         (XI (XO (XI (XI (XI (XO (XO (XO
                         XH))))))))))))))))))))
                       (n.nofZ (Zpos (XO (XO (XO (XO (XO (XO (XI (XO (XO (XI
                         (XO (XO (XO (XO (XI (XO (XI (XI (XI
                         XH))))))))))))))))))))))),
                     (n.ndiv
                       (n.nofZ (Zneg (XI (XO (XI (XO (XI (XI (XO (XI (XI (XO
                         (XO (XO (XI (XO (XO (XO (XI (XI (XI (XO (XO
                         XH)))))))))))))))))))))))
                       (n.nofZ (Zpos (XO (XO (XO (XO (XO (XO (XO (XO (XI (XO
                         (XO (XO (XO (XI (XI (XI (XI (XO (XI (XO (XI (XI (XI
                         (XI (XI (XO XH)))))))))))))))))))))))))))))) :: []))))))
                 | S n4 ->
                   (match n4 with
                    | O ->
                      (((n.ndiv
                          (n.nofZ (Zpos (XI (XI (XO (XO (XI (XI (XI (XI (XO
                            (XO (XO (XO (XI (XI (XO (XO (XI (XI (XO (XI (XI
                            (XI XH))))))))))))))))))))))))
                          (n.nofZ (Zpos (XO (XO (XO (XO (XO (XO (XO (XI (XO
                            (XI (XI (XO (XI (XO (XO (XI (XO (XO (XO (XI (XI
                            (XO (XO XH)))))))))))))))))))))))))),
                        (n.ndiv
                          (n.nofZ (Zneg (XI (XI (XI (XI (XO (XI (XO (XO (XO
                            (XI (XI (XO (XI (XI (XI (XO (XO
                            XH)))))))))))))))))))
                          (n.nofZ (Zpos (XO (XO (XO (XO (XI (XO (XO (XO (XO
                            (XI (XI (XI (XI (XO (XI (XO (XI (XI (XI (XI (XI
                            (XO XH)))))))))))))))))))))))))),
                        (n.nofZ Z0)) :: ((((n.ndiv
                                             (n.nofZ (Zneg (XI (XO (XO (XO
                                               (XO (XO (XI (XI (XO (XO (XI
                                               (XO (XI (XO (XO (XI (XI (XI
                                               (XO (XO (XO
                                               XH)))))))))))))))))))))))
                                             (n.nofZ (Zpos (XO (XO (XO (XO
                                               (XO (XO (XI (XO (XI (XI (XO
                                               (XI (XO (XO (XI (XO (XO (XO
                                               (XI (XI (XO (XO
                                               XH))))))))))))))))))))))))),
                        (n.ndiv
                          (n.nofZ (Zneg (XI (XI (XI (XI (XI (XI (XI (XO (XO
                            (XO (XO (XI (XI (XI (XO (XI (XI (XI (XI
                            XH)))))))))))))))))))))
                          (n.nofZ (Zpos (XO (XO (XO (XO (XO (XO (XO (XO (XO
                            (XI (XO (XI (XO (XO (XI (XI (XO (XI (XO (XI (XI
                            (XO (XO (XI (XI (XI (XO (XI (XI
                            XH))))))))))))))))))))))))))))))))),
                        (n.nofZ Z0)) :: ((((n.ndiv
                                             (n.nofZ (Zpos (XI (XI (XO (XI
                                               (XO (XI (XI (XO (XI (XI (XO
                                               (XI (XI (XI (XO (XI (XI (XI
                                               (XI (XI (XO
                                               XH)))))))))))))))))))))))
                                             (n.nofZ (Zpos (XO (XO (XO (XO
                                               (XO (XO (XI (XO (XI (XI (XO
                                               (XI (XO (XO (XI (XO (XO (XO
                                               (XI (XI (XO (XO
                                               XH))))))))))))))))))))))))),
                        (n.ndiv
                          (n.nofZ (Zpos (XI (XO (XO (XO (XO (XI (XI (XO (XO
                            (XO (XI (XI (XI (XO (XI (XO (XO (XI (XI (XI (XI
                            XH)))))))))))))))))))))))
                          (n.nofZ (Zpos (XO (XO (XO (XO (XO (XO (XO (XO (XO
                            (XI (XO (XI (XO (XO (XI (XI (XO (XI (XO (XI (XI
                            (XO (XO (XI (XI (XI (XO (XI (XI
                            XH))))))))))))))))))))))))))))))))),
                        (n.nofZ Z0)) :: ((((n.ndiv
                                             (n.nofZ (Zneg (XI (XO (XI (XI
                                               (XO (XO (XO (XO (XO (XI (XO
                                               (XI (XI (XI (XO (XO (XO (XO
                                               (XO (XO
                                               XH))))))))))))))))))))))
                                             (n.nofZ (Zpos (XO (XO (XO (XO
                                               (XO (XO (XI (XO (XO (XI (XO
                                               (XO (XO (XO (XI (XO (XI (XI
                                               (XI XH)))))))))))))))))))))),
                        (n.ndiv
                          (n.nofZ (Zneg (XI (XO (XO (XO (XO (XI (XO (XO (XO
                            (XI (XO (XI (XI (XO (XI (XI (XO (XI (XO (XO
                            XH))))))))))))))))))))))
                          (n.nofZ (Zpos (XO (XO (XO (XO (XO (XO (XO (XO (XI
                            (XO (XO (XO (XO (XI (XI (XI (XI (XO (XI (XO (XI
                            (XI (XI (XI (XI (XO XH)))))))))))))))))))))))))))))),
                        (n.nofZ Z0)) :: ((((n.ndiv
                                             (n.nofZ (Zneg (XI (XO (XI (XO
                                               (XO (XI (XO (XI (XO (XI (XI
                                               (XI (XI (XO (XO (XI (XO (XI
                                               (XO (XO (XO (XO
                                               XH))))))))))))))))))))))))
                                             (n.nofZ (Zpos (XO (XO (XO (XO
                                               (XO (XO (XI (XO (XO (XI (XO
                                               (XO (XO (XO (XI (XO (XI (XI
                                               (XI XH)))))))))))))))))))))),
                        (n.ndiv
                          (n.nofZ (Zpos (XI (XI (XI (XI (XO (XO (XO (XO (XI
                            (XO (XO (XO (XO (XO (XO (XI (XI (XO (XO (XO (XO
                            XH)))))))))))))))))))))))
                          (n.nofZ (Zpos (XO (XO (XO (XO (XO (XO (XI (XO (XI
                            (XI (XO (XI (XO (XO (XI (XO (XO (XO (XI (XI (XO
                            (XO XH)))))))))))))))))))))))))),
                        (n.ndiv
                          (n.nofZ (Zneg (XI (XI (XO (XI (XO (XO (XO (XO (XI
                            (XI (XO (XO (XO (XO (XO (XO (XO (XO
                            XH))))))))))))))))))))
                          (n.nofZ (Zpos (XO (XO (XO (XO (XO (XO (XO (XO (XI
                            (XO (XI (XI (XO (XI (XO (XO (XI (XO (XO (XO (XI
                            (XI (XO (XO XH)))))))))))))))))))))))))))) :: (((
                        (n.ndiv
                          (n.nofZ (Zpos (XI (XO (XI (XO (XO (XO (XO (XO (XO
                            (XO (XO (XI (XO (XI (XI (XO (XI (XO (XI (XI
                            XH))))))))))))))))))))))
                          (n.nofZ (Zpos (XO (XO (XO (XO (XO (XI (XO (XO (XI
                            (XO (XO (XO (XO (XI (XO (XI (XI (XI
                            XH))))))))))))))))))))),
                        (n.ndiv
                          (n.nofZ (Zpos (XI (XI (XO (XO (XO (XI (XI (XI (XI
                            (XI (XO (XO (XO (XI (XO (XO (XO (XI
                            XH))))))))))))))))))))
                          (n.nofZ (Zpos (XO (XO (XO (XO (XI (XO (XI (XI (XO
                            (XI (XO (XO (XI (XO (XO (XO (XI (XI (XO (XO
                            XH)))))))))))))))))))))))),
                        (n.ndiv
                          (n.nofZ (Zneg (XI (XO (XI (XO (XO (XI (XI (XO (XI
                            (XI (XO (XI (XI (XI (XI (XO (XI (XI (XI (XO (XO
                            XH)))))))))))))))))))))))
                          (n.nofZ (Zpos (XO (XO (XO (XO (XO (XO (XO (XO (XI
                            (XO (XO (XO (XO (XI (XI (XI (XI (XO (XI (XO (XI
                            (XI (XI (XI (XI (XO XH)))))))))))))))))))))))))))))) :: (((
                        (n.ndiv
                          (n.nofZ (Zpos (XI (XI (XI (XI (XI (XO (XO (XI (XI
                            (XI (XI (XI (XI (XI (XO (XI (XO (XO (XO (XO (XO
                            XH)))))))))))))))))))))))
                          (n.nofZ (Zpos (XO (XO (XO (XO (XO (XO (XI (XO (XO
                            (XI (XO (XO (XO (XO (XI (XO (XI (XI (XI
                            XH)))))))))))))))))))))),
                        (n.ndiv
                          (n.nofZ (Zpos (XI (XO (XO (XI (XO (XO (XO (XI (XI
                            (XO (XO (XI (XO (XO (XO (XI (XO
                            XH)))))))))))))))))))
                          (n.nofZ (Zpos (XO (XO (XO (XO (XO (XI (XO (XO (XI
                            (XO (XO (XO (XO (XI (XO (XI (XI (XI
                            XH)))))))))))))))))))))),
                        (n.ndiv
                          (n.nofZ (Zneg (XI (XI (XI (XI (XO (XI (XI (XI (XI
                            (XI (XI (XI (XI (XI (XI (XI (XO (XO (XO (XI (XO
                            XH)))))))))))))))))))))))
                          (n.nofZ (Zpos (XO (XO (XO (XO (XO (XO (XO (XO (XI
                            (XO (XO (XO (XO (XI (XI (XI (XI (XO (XI (XO (XI
                            (XI (XI (XI (XI (XO XH)))))))))))))))))))))))))))))) :: []))))))
                    | S n5 ->
                      (match n5 with
                       | O ->
                         (((n.ndiv
                             (n.nofZ (Zpos (XI (XO (XI (XO (XI (XO (XI (XI
                               (XI (XO (XO (XO (XO (XO (XI (XI (XI (XI (XI
                               (XI (XO (XI XH))))))))))))))))))))))))
                             (n.nofZ (Zpos (XO (XO (XO (XO (XO (XO (XO (XI
                               (XO (XI (XI (XO (XI (XO (XO (XI (XO (XO (XO
                               (XI (XI (XO (XO XH)))))))))))))))))))))))))),
                           (n.ndiv
                             (n.nofZ (Zneg (XI (XI (XO (XI (XI (XI (XO (XI
                               (XO (XO (XI (XO (XI (XO (XO (XO (XO
                               XH)))))))))))))))))))
                             (n.nofZ (Zpos (XO (XO (XO (XO (XO (XO (XI (XO
                               (XI (XI (XO (XI (XO (XO (XI (XO (XO (XO (XI
                               (XI (XO (XO XH)))))))))))))))))))))))))),
                           (n.nofZ Z0)) :: ((((n.ndiv
                                                (n.nofZ (Zneg (XI (XI (XI (XO
                                                  (XO (XI (XI (XO (XO (XI (XO
                                                  (XI (XO (XO (XI (XO (XI (XI
                                                  (XO (XO (XO
                                                  XH)))))))))))))))))))))))
                                                (n.nofZ (Zpos (XO (XO (XO (XO
                                                  (XO (XO (XI (XO (XI (XI (XO
                                                  (XI (XO (XO (XI (XO (XO (XO
                                                  (XI (XI (XO (XO
                                                  XH))))))))))))))))))))))))),
                           (n.ndiv
                             (n.nofZ (Zneg (XI (XO (XO (XI (XI (XO (XO (XI
                               (XI (XI (XO (XI (XO (XI (XO (XI (XO (XO
                               XH))))))))))))))))))))
                             (n.nofZ (Zpos (XO (XO (XO (XO (XO (XO (XO (XI
                               (XO (XI (XO (XO (XI (XI (XO (XI (XO (XI (XI
                               (XO (XO (XI (XI (XI (XO (XI (XI
                               XH))))))))))))))))))))))))))))))),
                           (n.nofZ Z0)) :: ((((n.ndiv
                                                (n.nofZ (Zpos (XI (XI (XI (XI
                                                  (XI (XO (XO (XI (XO (XO (XO
                                                  (XI (XI (XO (XO (XI (XO (XI
                                                  (XO (XO (XI
                                                  XH)))))))))))))))))))))))
                                                (n.nofZ (Zpos (XO (XO (XO (XO
                                                  (XO (XO (XO (XI (XO (XI (XI
                                                  (XO (XI (XO (XO (XI (XO (XO
                                                  (XO (XI (XI (XO (XO
                                                  XH)))))))))))))))))))))))))),
                           (n.ndiv
                             (n.nofZ (Zpos (XI (XO (XO (XO (XI (XO (XI (XI
                               (XI (XI (XO (XO (XO (XO (XI (XI (XI (XO (XI
                               XH)))))))))))))))))))))
                             (n.nofZ (Zpos (XO (XO (XO (XO (XO (XO (XI (XO
                               (XI (XO (XO (XI (XI (XO (XI (XO (XI (XI (XO
                               (XO (XI (XI (XI (XO (XI (XI
                               XH)))))))))))))))))))))))))))))),
                           (n.nofZ Z0)) :: ((((n.ndiv
                                                (n.nofZ (Zneg (XI (XO (XI (XI
                                                  (XO (XI (XI (XI (XI (XO (XI
                                                  (XI (XO (XO (XO (XO (XO (XO
                                                  (XO XH)))))))))))))))))))))
                                                (n.nofZ (Zpos (XO (XO (XO (XO
                                                  (XO (XI (XO (XO (XI (XO (XO
                                                  (XO (XO (XI (XO (XI (XI (XI
                                                  XH))))))))))))))))))))),
                           (n.ndiv
                             (n.nofZ (Zneg (XI (XI (XO (XO (XI (XO (XO (XO
                               (XI (XI (XO (XO (XO (XO XH))))))))))))))))
                             (n.nofZ (Zpos (XO (XO (XO (XO (XO (XO (XO (XI
                               (XO (XO (XI (XO (XO (XO (XO (XI (XO (XI (XI
                               (XI XH)))))))))))))))))))))))),
                           (n.nofZ Z0)) :: ((((n.ndiv
                                                (n.nofZ (Zneg (XI (XI (XI (XO
                                                  (XO (XO (XI (XI (XI (XI (XI
                                                  (XI (XI (XO (XI (XI (XO (XI
                                                  (XO (XO (XO
                                                  XH)))))))))))))))))))))))
                                                (n.nofZ (Zpos (XO (XO (XO (XO
                                                  (XO (XI (XO (XO (XI (XO (XO
                                                  (XO (XO (XI (XO (XI (XI (XI
                                                  XH))))))))))))))))))))),
                           (n.ndiv
                             (n.nofZ (Zpos (XI (XI (XO (XI (XI (XI (XO (XO
                               (XO (XI (XI (XO (XI (XO (XI (XO (XI
                               XH)))))))))))))))))))
                             (n.nofZ (Zpos (XO (XO (XO (XO (XO (XI (XO (XO
                               (XI (XO (XO (XO (XO (XI (XO (XI (XI (XI
                               XH)))))))))))))))))))))),
                           (n.ndiv
                             (n.nofZ (Zneg (XI (XO (XO (XO (XI (XO (XI (XO
                               (XI (XI (XO (XO (XO (XI (XO (XI (XO (XI (XO
                               (XO XH))))))))))))))))))))))
                             (n.nofZ (Zpos (XO (XO (XO (XO (XO (XO (XO (XO
                               (XI (XO (XO (XO (XO (XI (XI (XI (XI (XO (XI
                               (XO (XI (XI (XI (XI (XI (XO
                               XH)))))))))))))))))))))))))))))) :: (((
                           (n.ndiv
                             (n.nofZ (Zpos (XI (XI (XO (XI (XI (XI (XO (XO
                               (XI (XI (XI (XI (XI (XO (XO (XO (XO (XO (XI
                               (XI XH))))))))))))))))))))))
                             (n.nofZ (Zpos (XO (XO (XO (XO (XO (XI (XO (XO
                               (XI (XO (XO (XO (XO (XI (XO (XI (XI (XI
                               XH))))))))))))))))))))),
                           (n.ndiv
                             (n.nofZ (Zpos (XI (XO (XI (XI (XI (XO (XO (XI
                               (XO (XO (XO (XO (XI (XO (XI (XI (XO (XI (XO
                               (XI (XI XH)))))))))))))))))))))))
                             (n.nofZ (Zpos (XO (XO (XO (XO (XO (XO (XO (XI
                               (XO (XI (XI (XO (XI (XO (XO (XI (XO (XO (XO
                               (XI (XI (XO (XO XH))))))))))))))))))))))))))),
                           (n.ndiv
                             (n.nofZ (Zneg (XI (XI (XI (XO (XI (XO (XO (XI
                               (XO (XI (XI (XO (XO (XI (XI (XO
                               XH))))))))))))))))))
                             (n.nofZ (Zpos (XO (XO (XO (XI (XO (XO (XO (XO
                               (XI (XI (XI (XI (XO (XI (XO (XI (XI (XI (XI
                               (XI (XO XH))))))))))))))))))))))))) :: (((
                           (n.ndiv
                             (n.nofZ (Zpos (XI (XO (XI (XO (XO (XI (XO (XI
                               (XI (XI (XI (XO (XI (XO (XI (XI (XI (XO (XO
                               (XO (XO XH)))))))))))))))))))))))
                             (n.nofZ (Zpos (XO (XO (XO (XO (XO (XO (XI (XO
                               (XO (XI (XO (XO (XO (XO (XI (XO (XI (XI (XI
                               XH)))))))))))))))))))))),
                           (n.ndiv
                             (n.nofZ (Zpos (XI (XI (XO (XI (XI (XO (XI (XI
                               (XI (XI (XO (XO (XO (XI (XI (XI (XI (XO (XI
                               XH)))))))))))))))))))))
                             (n.nofZ (Zpos (XO (XO (XO (XO (XO (XI (XO (XI
                               (XI (XO (XI (XO (XO (XI (XO (XO (XO (XI (XI
                               (XO (XO XH))))))))))))))))))))))))),
                           (n.ndiv
                             (n.nofZ (Zneg (XI (XI (XO (XO (XO (XO (XI (XI
                               (XO (XI (XO (XO (XO (XI (XO (XI (XO
                               XH)))))))))))))))))))
                             (n.nofZ (Zpos (XO (XO (XO (XO (XI (XO (XO (XO
                               (XO (XI (XI (XI (XI (XO (XI (XO (XI (XI (XI
                               (XI (XI (XO XH)))))))))))))))))))))))))) :: []))))))
                       | S _ -> [])))))
        | S n2 ->
          (match n2 with
           | O ->
             (match s with
              | O -> []
              | S n3 ->
                (match n3 with
                 | O -> []
                 | S n4 ->
                   (match n4 with
                    | O -> []
                    | S n5 ->
                      (match n5 with
                       | O ->
                         (((n.ndiv
                             (n.nofZ (Zpos (XI (XI (XI (XI (XI (XI (XI (XI
                               (XI (XI (XI (XO (XI (XI (XO (XO (XO (XO (XO
                               (XO (XO (XO (XO XH)))))))))))))))))))))))))
                             (n.nofZ (Zpos (XO (XO (XO (XO (XO (XO (XO (XI
                               (XO (XI (XI (XO (XI (XO (XO (XI (XO (XO (XO
                               (XI (XI (XO (XO XH)))))))))))))))))))))))))),
                           (n.ndiv
                             (n.nofZ (Zneg (XI (XI (XI (XO (XI (XI (XO (XI
                               (XI (XO (XO (XO (XO (XO (XI (XI (XI (XO (XI
                               (XO XH))))))))))))))))))))))
                             (n.nofZ (Zpos (XO (XO (XO (XO (XO (XO (XO (XI
                               (XO (XO (XO (XO (XI (XI (XI (XI (XO (XI (XO
                               (XI (XI (XI (XI (XI (XO
                               XH))))))))))))))))))))))))))))),
                           (n.nofZ Z0)) :: ((((n.ndiv
                                                (n.nofZ (Zneg (XI (XO (XI (XI
                                                  (XO (XO (XO (XI (XO (XI (XO
                                                  (XO (XO (XI (XO (XO (XO (XO
                                                  (XO (XI (XO (XO
                                                  XH))))))))))))))))))))))))
                                                (n.nofZ (Zpos (XO (XO (XO (XO
                                                  (XO (XO (XO (XI (XO (XI (XI
                                                  (XO (XI (XO (XO (XI (XO (XO
                                                  (XO (XI (XI (XO (XO
                                                  XH)))))))))))))))))))))))))),
                           (n.ndiv
                             (n.nofZ (Zneg (XI (XO (XO (XI (XO (XI (XI (XO
                               (XO (XO (XI (XO (XO (XO (XI (XO
                               XH))))))))))))))))))
                             (n.nofZ (Zpos (XO (XO (XO (XO (XO (XI (XO (XI
                               (XO (XO (XI (XI (XO (XI (XO (XI (XI (XO (XO
                               (XI (XI (XI (XO (XI (XI
                               XH))))))))))))))))))))))))))))),
                           (n.nofZ Z0)) :: ((((n.ndiv
                                                (n.nofZ (Zpos (XI (XO (XO (XO
                                                  (XO (XO (XO (XI (XI (XO (XI
                                                  (XO (XO (XO (XO (XO (XO (XI
                                                  (XO (XO
                                                  XH))))))))))))))))))))))
                                                (n.nofZ (Zpos (XO (XO (XO (XO
                                                  (XO (XI (XO (XI (XI (XO (XI
                                                  (XO (XO (XI (XO (XO (XO (XI
                                                  (XI (XO (XO
                                                  XH)))))))))))))))))))))))),
                           (n.ndiv
                             (n.nofZ (Zpos (XI (XI (XO (XI (XO (XI (XO (XI
                               (XI (XO (XI (XO (XI (XO (XO (XI (XI (XO (XI
                               (XO (XI (XI XH))))))))))))))))))))))))
                             (n.nofZ (Zpos (XO (XO (XO (XO (XO (XO (XO (XO
                               (XO (XI (XO (XI (XO (XO (XI (XI (XO (XI (XO
                               (XI (XI (XO (XO (XI (XI (XI (XO (XI (XI
                               XH))))))))))))))))))))))))))))))))),
                           (n.nofZ Z0)) :: ((((n.ndiv
                                                (n.nofZ (Zneg (XI (XI (XO (XI
                                                  (XO (XO (XO (XO (XI (XO (XI
                                                  (XI (XO (XI (XI
                                                  XH)))))))))))))))))
                                                (n.nofZ (Zpos (XO (XO (XO (XO
                                                  (XI (XO (XI (XO (XI (XI (XO
                                                  (XO (XO (XO (XI
                                                  XH)))))))))))))))))),
                           (n.ndiv
                             (n.nofZ (Zneg (XI (XO (XO (XI (XO (XI (XI (XI
                               (XI (XI (XO (XI (XO (XO (XI (XO (XI
                               XH)))))))))))))))))))
                             (n.nofZ (Zpos (XO (XO (XO (XO (XI (XO (XO (XO
                               (XO (XI (XI (XI (XI (XO (XI (XO (XI (XI (XI
                               (XI (XI (XO XH)))))))))))))))))))))))))),
                           (n.nofZ Z0)) :: ((((n.ndiv
                                                (n.nofZ (Zneg (XI (XI (XO (XI
                                                  (XO (XI (XI (XI (XO (XO (XI
                                                  (XO (XO (XO (XO (XI (XI (XI
                                                  (XO (XO (XO
                                                  XH)))))))))))))))))))))))
                                                (n.nofZ (Zpos (XO (XO (XO (XO
                                                  (XO (XI (XO (XO (XI (XO (XO
                                                  (XO (XO (XI (XO (XI (XI (XI
                                                  XH))))))))))))))))))))),
                           (n.ndiv
                             (n.nofZ (Zpos (XI (XO (XO (XO (XO (XI (XI (XO
                               (XO (XI (XO (XO (XO (XI (XO (XI (XI (XO (XI
                               XH)))))))))))))))))))))
                             (n.nofZ (Zpos (XO (XO (XO (XO (XO (XO (XO (XI
                               (XO (XO (XI (XO (XO (XO (XO (XI (XO (XI (XI
                               (XI XH)))))))))))))))))))))))),
                           (n.ndiv
                             (n.nofZ (Zneg (XI (XO (XI (XI (XO (XI (XI (XO
                               (XO (XO (XI (XI (XI (XO (XI (XO (XO
                               XH)))))))))))))))))))
                             (n.nofZ (Zpos (XO (XO (XO (XO (XO (XI (XO (XO
                               (XO (XO (XI (XI (XI (XI (XO (XI (XO (XI (XI
                               (XI (XI (XI (XO XH))))))))))))))))))))))))))) :: (((
                           (n.ndiv
                             (n.nofZ (Zpos (XI (XO (XI (XI (XO (XI (XI (XO
                               (XI (XI (XI (XI (XI (XO (XO (XO (XI (XO (XI
                               (XI XH))))))))))))))))))))))
                             (n.nofZ (Zpos (XO (XO (XO (XO (XO (XI (XO (XO
                               (XI (XO (XO (XO (XO (XI (XO (XI (XI (XI
                               XH))))))))))))))))))))),
                           (n.ndiv
                             (n.nofZ (Zpos (XI (XI (XI (XO (XI (XI (XO (XO
                               (XO (XO (XI (XI (XO (XI (XO (XI (XO
                               XH)))))))))))))))))))
                             (n.nofZ (Zpos (XO (XO (XO (XO (XO (XI (XO (XO
                               (XI (XO (XO (XO (XO (XI (XO (XI (XI (XI
                               XH)))))))))))))))))))))),
                           (n.ndiv
                             (n.nofZ (Zneg (XI (XO (XI (XO (XI (XI (XI (XO
                               (XI (XO (XO (XI (XO (XI (XI (XO (XI (XO (XI
                               (XO XH))))))))))))))))))))))
                             (n.nofZ (Zpos (XO (XO (XO (XO (XO (XO (XO (XI
                               (XO (XO (XO (XO (XI (XI (XI (XI (XO (XI (XO
                               (XI (XI (XI (XI (XI (XO
                               XH))))))))))))))))))))))))))))) :: (((
                           (n.ndiv
                             (n.nofZ (Zpos (XI (XO (XO (XO (XI (XI (XI (XI
                               (XI (XO (XI (XO (XO (XI (XO (XI (XI (XO (XO
                               (XO XH))))))))))))))))))))))
                             (n.nofZ (Zpos (XO (XO (XO (XO (XO (XI (XO (XO
                               (XI (XO (XO (XO (XO (XI (XO (XI (XI (XI
                               XH))))))))))))))))))))),
                           (n.ndiv
                             (n.nofZ (Zpos (XI (XO (XO (XI (XO (XI (XO (XI
                               (XO (XI (XI (XO (XI (XO (XI (XI (XO (XI (XI
                               XH)))))))))))))))))))))
                             (n.nofZ (Zpos (XO (XO (XO (XO (XO (XI (XO (XI
                               (XI (XO (XI (XO (XO (XI (XO (XO (XO (XI (XI
                               (XO (XO XH))))))))))))))))))))))))),
                           (n.ndiv
                             (n.nofZ (Zneg (XI (XI (XO (XI (XO (XI (XI (XI
                               (XI (XO (XI (XI (XI (XO (XO (XI (XI (XI (XI
                               (XI (XO XH)))))))))))))))))))))))
                             (n.nofZ (Zpos (XO (XO (XO (XO (XO (XO (XO (XO
                               (XI (XO (XO (XO (XO (XI (XI (XI (XI (XO (XI
                               (XO (XI (XI (XI (XI (XI (XO
                               XH)))))))))))))))))))))))))))))) :: []))))))
                       | S _ -> []))))
           | S n3 ->
             (match n3 with
              | O ->
                (match s with
                 | O -> []
                 | S n4 ->
                   (match n4 with
                    | O -> []
                    | S n5 ->
                      (match n5 with
                       | O -> []
                       | S n6 ->
                         (match n6 with
                          | O -> []
                          | S n7 ->
                            (match n7 with
                             | O ->
                               (((n.ndiv
                                   (n.nofZ (Zpos (XI (XO (XI (XO (XO (XO (XO
                                     (XI (XO (XI (XI (XO (XI (XI (XO (XI (XI
                                     (XO (XI (XI (XI XH)))))))))))))))))))))))
                                   (n.nofZ (Zpos (XO (XO (XO (XO (XO (XO (XI
                                     (XO (XI (XI (XO (XI (XO (XO (XI (XO (XO
                                     (XO (XI (XI (XO (XO
                                     XH))))))))))))))))))))))))),
                                 (n.ndiv
                                   (n.nofZ (Zneg (XI (XI (XO (XI (XI (XI (XI
                                     (XO (XO (XI (XI (XI (XO (XO (XO (XI (XI
                                     (XI (XI (XO (XO XH)))))))))))))))))))))))
                                   (n.nofZ (Zpos (XO (XO (XO (XO (XO (XO (XO
                                     (XO (XI (XO (XO (XO (XO (XI (XI (XI (XI
                                     (XO (XI (XO (XI (XI (XI (XI (XI (XO
                                     XH)))))))))))))))))))))))))))))),
                                 (n.nofZ Z0)) :: ((((n.ndiv
                                                      (n.nofZ (Zneg (XI (XI
                                                        (XO (XI (XI (XO (XO
                                                        (XO (XI (XO (XO (XI
                                                        (XI (XO (XO (XO (XI
                                                        (XI (XI (XO (XO (XO
                                                        XH))))))))))))))))))))))))
                                                      (n.nofZ (Zpos (XO (XO
                                                        (XO (XO (XO (XO (XO
                                                        (XI (XO (XI (XI (XO
                                                        (XI (XO (XO (XI (XO
                                                        (XO (XO (XI (XI (XO
                                                        (XO
                                                        XH)))))))))))))))))))))))))),
                                 (n.ndiv
                                   (n.nofZ (Zneg (XI (XI (XI (XI (XI (XI (XO
                                     (XI (XO (XO (XI (XO (XO (XI (XI (XI (XI
                                     (XI (XI XH)))))))))))))))))))))
                                   (n.nofZ (Zpos (XO (XO (XO (XO (XO (XO (XO
                                     (XO (XO (XI (XO (XI (XO (XO (XI (XI (XO
                                     (XI (XO (XI (XI (XO (XO (XI (XI (XI (XO
                                     (XI (XI XH))))))))))))))))))))))))))))))))),
                                 (n.nofZ Z0)) :: ((((n.ndiv
                                                      (n.nofZ (Zpos (XI (XO
                                                        (XI (XO (XI (XI (XO
                                                        (XI (XO (XO (XO (XI
                                                        (XI (XI (XI (XI (XO
                                                        (XO (XI (XI (XI (XO
                                                        XH))))))))))))))))))))))))
                                                      (n.nofZ (Zpos (XO (XO
                                                        (XO (XO (XO (XO (XO
                                                        (XI (XO (XI (XI (XO
                                                        (XI (XO (XO (XI (XO
                                                        (XO (XO (XI (XI (XO
                                                        (XO
                                                        XH)))))))))))))))))))))))))),
                                 (n.ndiv
                                   (n.nofZ (Zpos (XI (XO (XO (XI (XI (XO (XI
                                     (XI (XI (XO (XI (XO (XO (XI (XI (XI (XO
                                     (XI (XO XH)))))))))))))))))))))
                                   (n.nofZ (Zpos (XO (XO (XO (XO (XO (XO (XO
                                     (XO (XI (XO (XI (XO (XO (XI (XI (XO (XI
                                     (XO (XI (XI (XO (XO (XI (XI (XI (XO (XI
                                     (XI XH)))))))))))))))))))))))))))))))),
                                 (n.nofZ Z0)) :: ((((n.ndiv
                                                      (n.nofZ (Zneg (XI (XI
                                                        (XO (XI (XO (XI (XI
                                                        (XI (XO (XO (XI (XI
                                                        (XI (XI (XI (XI (XO
                                                        (XO (XO (XO
                                                        XH))))))))))))))))))))))
                                                      (n.nofZ (Zpos (XO (XO
                                                        (XO (XO (XO (XO (XI
                                                        (XO (XO (XI (XO (XO
                                                        (XO (XO (XI (XO (XI
                                                        (XI (XI
                                                        XH)))))))))))))))))))))),
                                 (n.ndiv
                                   (n.nofZ (Zneg (XI (XI (XO (XI (XO (XO (XI
                                     (XI (XO (XI (XI (XI (XI (XO (XI (XI (XI
                                     (XI XH))))))))))))))))))))
                                   (n.nofZ (Zpos (XO (XO (XO (XO (XO (XO (XO
                                     (XI (XO (XO (XO (XO (XI (XI (XI (XI (XO
                                     (XI (XO (XI (XI (XI (XI (XI (XO
                                     XH))))))))))))))))))))))))))))),
                                 (n.nofZ Z0)) :: ((((n.ndiv
                                                      (n.nofZ (Zneg (XI (XO
                                                        (XI (XO (XO (XO (XI
                                                        (XI (XI (XO (XI (XO
                                                        (XO (XO (XI (XO (XI
                                                        (XO (XI
                                                        XH)))))))))))))))))))))
                                                      (n.nofZ (Zpos (XO (XO
                                                        (XO (XO (XO (XO (XI
                                                        (XO (XI (XO (XI (XI
                                                        (XO (XO (XO (XO (XI
                                                        XH)))))))))))))))))))),
                                 (n.ndiv
                                   (n.nofZ (Zpos (XI (XI (XO (XI (XO (XI (XI
                                     (XI (XI (XO (XO (XO (XI (XO (XI (XO (XO
                                     (XO (XO (XO (XO XH)))))))))))))))))))))))
                                   (n.nofZ (Zpos (XO (XO (XO (XO (XO (XO (XI
                                     (XO (XI (XI (XO (XI (XO (XO (XI (XO (XO
                                     (XO (XI (XI (XO (XO
                                     XH)))))))))))))))))))))))))),
                                 (n.ndiv
                                   (n.nofZ (Zneg (XI (XI (XO (XI (XO (XO (XI
                                     (XO (XO (XI (XI (XI (XI (XO (XO (XI (XO
                                     (XO XH))))))))))))))))))))
                                   (n.nofZ (Zpos (XO (XO (XO (XO (XO (XO (XI
                                     (XO (XO (XO (XO (XI (XI (XI (XI (XO (XI
                                     (XO (XI (XI (XI (XI (XI (XO
                                     XH)))))))))))))))))))))))))))) :: (((
                                 (n.ndiv
                                   (n.nofZ (Zpos (XI (XI (XO (XO (XI (XI (XI
                                     (XI (XO (XI (XO (XI (XO (XI (XI (XO (XO
                                     (XI (XO (XI (XI XH)))))))))))))))))))))))
                                   (n.nofZ (Zpos (XO (XO (XO (XO (XO (XO (XI
                                     (XO (XO (XI (XO (XO (XO (XO (XI (XO (XI
                                     (XI (XI XH)))))))))))))))))))))),
                                 (n.ndiv
                                   (n.nofZ (Zpos (XI (XO (XI (XO (XI (XO (XI
                                     (XI (XO (XI (XI (XO (XO (XO (XO (XI (XO
                                     (XI (XI (XO (XI XH)))))))))))))))))))))))
                                   (n.nofZ (Zpos (XO (XO (XO (XO (XO (XO (XO
                                     (XI (XO (XI (XI (XO (XI (XO (XO (XI (XO
                                     (XO (XO (XI (XI (XO (XO
                                     XH))))))))))))))))))))))))))),
                                 (n.ndiv
                                   (n.nofZ (Zneg (XI (XI (XO (XO (XO (XI (XI
                                     (XI (XI (XO (XI (XI (XO (XO (XO (XO (XI
                                     (XO (XI (XO XH))))))))))))))))))))))
                                   (n.nofZ (Zpos (XO (XO (XO (XO (XO (XO (XO
                                     (XI (XO (XO (XO (XO (XI (XI (XI (XI (XO
                                     (XI (XO (XI (XI (XI (XI (XI (XO
                                     XH))))))))))))))))))))))))))))) :: (((
                                 (n.ndiv
                                   (n.nofZ (Zpos (XI (XI (XO (XO (XI (XO (XO
                                     (XO (XO (XI (XI (XI (XO (XO (XI (XO
                                     XH))))))))))))))))))
                                   (n.nofZ (Zpos (XO (XO (XO (XO (XO (XO (XI
                                     (XO (XO (XO (XI (XI (XI (XO (XO
                                     XH)))))))))))))))))),
                                 (n.ndiv
                                   (n.nofZ (Zpos (XI (XO (XI (XO (XI (XO (XI
                                     (XO (XO (XI (XI (XO (XI (XI (XI (XO (XO
                                     (XI XH))))))))))))))))))))
                                   (n.nofZ (Zpos (XO (XO (XO (XO (XI (XO (XI
                                     (XI (XO (XI (XO (XO (XI (XO (XO (XO (XI
                                     (XI (XO (XO XH)))))))))))))))))))))))),
                                 (n.ndiv
                                   (n.nofZ (Zneg (XI (XO (XO (XI (XI (XO (XI
                                     (XI (XI (XO (XI (XO (XO (XO (XI (XO
                                     XH))))))))))))))))))
                                   (n.nofZ (Zpos (XO (XO (XO (XI (XO (XO (XO
                                     (XO (XI (XI (XI (XI (XO (XI (XO (XI (XI
                                     (XI (XI (XI (XO XH))))))))))))))))))))))))) :: []))))))
                             | S _ -> [])))))
              | S _ -> []))))

(** val fit_coeffs :
    'a1 num -> (('a1 * 'a1) * 'a1) list -> 'a1 -> 'a1 list **)

let fit_coeffs n tab beta_value =
  map (fun c ->
    let (y, c2) = c in
    let (c0, c1) = y in
    n.nadd (n.nadd c0 (n.nmul c1 beta_value))
      (n.nmul c2 (n.npow beta_value (S (S O))))) tab

(** val pot_nn : 'a1 num -> 'a1 species -> 'a1 species -> 'a1 * 'a1 **)

let pot_nn n species_i species_j =
  let alpha_i =
    n.nmul species_i.polarisability
      (n.nofZ (Zpos (XO (XO (XO (XO (XO (XO (XO (XO (XO (XO (XO (XO (XO (XO
        (XO (XO (XO (XO (XO (XO (XO (XO (XO (XO (XO (XO (XO (XO (XO (XO (XI
        (XO (XO (XI (XO (XI (XO (XI (XI (XI (XI (XO (XI (XI (XO (XI (XI (XI
        (XO (XO (XI (XO (XI (XI (XI (XO (XO (XI (XI (XO (XO (XO (XI (XO (XO
        (XO (XO (XO (XI (XO (XI (XI (XO (XO (XI (XI (XI (XO (XO (XI (XO (XO
        (XI (XI (XO (XI (XO (XO (XI (XI (XI (XI (XI (XO (XO (XI (XO (XO (XI
        XH)))))))))))))))))))))))))))))))))))))))))))))))))))))))))))))))))))))))))))))))))))))))))))))))))))))
  in
  let alpha_j =
    n.nmul species_j.polarisability
      (n.nofZ (Zpos (XO (XO (XO (XO (XO (XO (XO (XO (XO (XO (XO (XO (XO (XO
        (XO (XO (XO (XO (XO (XO (XO (XO (XO (XO (XO (XO (XO (XO (XO (XO (XI
        (XO (XO (XI (XO (XI (XO (XI (XI (XI (XI (XO (XI (XI (XO (XI (XI (XI
        (XO (XO (XI (XO (XI (XI (XI (XO (XO (XI (XI (XO (XO (XO (XI (XO (XO
        (XO (XO (XO (XI (XO (XI (XI (XO (XO (XI (XI (XI (XO (XO (XI (XO (XO
        (XI (XI (XO (XI (XO (XO (XI (XI (XI (XI (XI (XO (XO (XI (XO (XO (XI
        XH)))))))))))))))))))))))))))))))))))))))))))))))))))))))))))))))))))))))))))))))))))))))))))))))))))))
  in
  if (||)
       (match species_i.effective_electrons with
        | Some _ -> false
        | None -> true)
       (match species_j.effective_electrons with
        | Some _ -> false
        | None -> true)
  then ((n.ndiv (n.nofZ Z0) (n.nofZ Z0)), (n.ndiv (n.nofZ Z0) (n.nofZ Z0)))
  else let n_eff_i = species_i.effective_electrons in
       let n_eff_j = species_j.effective_electrons in
       let c_d =
         n.ndiv
           (n.nmul
             (n.nmul
               (n.ndiv (n.nofZ (Zpos (XI (XO (XI (XI (XI (XO (XO XH)))))))))
                 (n.nofZ (Zpos (XO (XI (XO XH)))))) alpha_i) alpha_j)
           (n.nadd
             (n.nsqrt
               (n.ndiv alpha_i
                 (match n_eff_i with
                  | Some vopt -> vopt
                  | None -> n.ndiv (n.nofZ Z0) (n.nofZ Z0))))
             (n.nsqrt
               (n.ndiv alpha_j
                 (match n_eff_j with
                  | Some vopt -> vopt
                  | None -> n.ndiv (n.nofZ Z0) (n.nofZ Z0)))))
       in
       let r_e =
         n.ndiv
           (n.nmul
             (n.ndiv
               (n.nofZ (Zpos (XI (XI (XI (XO (XO (XI (XI (XI (XO (XI
                 XH))))))))))))
               (n.nofZ (Zpos (XO (XO (XO (XI (XO (XI (XI (XI (XI XH))))))))))))
             (n.nadd
               (n.nrpow alpha_i
                 (n.ndiv (n.nofZ (Zpos XH)) (n.nofZ (Zpos (XI XH)))))
               (n.nrpow alpha_j
                 (n.ndiv (n.nofZ (Zpos XH)) (n.nofZ (Zpos (XI XH)))))))
           (n.nrpow (n.nmul alpha_i alpha_j)
             (n.ndiv (n.nofZ (Zpos (XI (XI (XO (XO XH))))))
               (n.nofZ (Zpos (XO (XO (XO (XI (XO (XO (XI XH)))))))))))
       in
       let epsilon_1 =
         n.ndiv
           (n.nmul
             (n.ndiv (n.nofZ (Zpos (XO (XI (XO (XO XH))))))
               (n.nofZ (Zpos (XI (XO (XO (XI XH))))))) c_d)
           (n.npow r_e (S (S (S (S (S (S O)))))))
       in
       (r_e, epsilon_1)

(** val pot_in : 'a1 num -> 'a1 species -> 'a1 species -> 'a1 * 'a1 **)

let pot_in n species_ion species_neutral =
  let alpha_i =
    n.nmul species_ion.polarisability
      (n.nofZ (Zpos (XO (XO (XO (XO (XO (XO (XO (XO (XO (XO (XO (XO (XO (XO
        (XO (XO (XO (XO (XO (XO (XO (XO (XO (XO (XO (XO (XO (XO (XO (XO (XI
        (XO (XO (XI (XO (XI (XO (XI (XI (XI (XI (XO (XI (XI (XO (XI (XI (XI
        (XO (XO (XI (XO (XI (XI (XI (XO (XO (XI (XI (XO (XO (XO (XI (XO (XO
        (XO (XO (XO (XI (XO (XI (XI (XO (XO (XI (XI (XI (XO (XO (XI (XO (XO
        (XI (XI (XO (XI (XO (XO (XI (XI (XI (XI (XI (XO (XO (XI (XO (XO (XI
        XH)))))))))))))))))))))))))))))))))))))))))))))))))))))))))))))))))))))))))))))))))))))))))))))))))))))
  in
  let alpha_n =
    n.nmul species_neutral.polarisability
      (n.nofZ (Zpos (XO (XO (XO (XO (XO (XO (XO (XO (XO (XO (XO (XO (XO (XO
        (XO (XO (XO (XO (XO (XO (XO (XO (XO (XO (XO (XO (XO (XO (XO (XO (XI
        (XO (XO (XI (XO (XI (XO (XI (XI (XI (XI (XO (XI (XI (XO (XI (XI (XI
        (XO (XO (XI (XO (XI (XI (XI (XO (XO (XI (XI (XO (XO (XO (XI (XO (XO
        (XO (XO (XO (XI (XO (XI (XI (XO (XO (XI (XI (XI (XO (XO (XI (XO (XO
        (XI (XI (XO (XI (XO (XO (XI (XI (XI (XI (XI (XO (XO (XI (XO (XO (XI
        XH)))))))))))))))))))))))))))))))))))))))))))))))))))))))))))))))))))))))))))))))))))))))))))))))))))))
  in
  let z_ion = species_ion.charge_number in
  let rho =
    n.ndiv alpha_i
      (n.nmul
        (n.nmul (n.nofZ (Z.pow z_ion (Zpos (XO XH)))) (n.nsqrt alpha_n))
        (n.nadd (n.nofZ (Zpos XH))
          (n.nrpow (n.ndiv (n.nmul (n.nofZ (Zpos (XO XH))) alpha_i) alpha_n)
            (n.ndiv (n.nofZ (Zpos (XO XH))) (n.nofZ (Zpos (XI XH)))))))
  in
  let r_e =
    n.ndiv
      (n.nmul
        (n.ndiv
          (n.nofZ (Zpos (XI (XI (XI (XO (XO (XI (XI (XI (XO (XI XH))))))))))))
          (n.nofZ (Zpos (XO (XO (XO (XI (XO (XI (XI (XI (XI XH))))))))))))
        (n.nadd
          (n.nrpow alpha_i
            (n.ndiv (n.nofZ (Zpos XH)) (n.nofZ (Zpos (XI XH)))))
          (n.nrpow alpha_n
            (n.ndiv (n.nofZ (Zpos XH)) (n.nofZ (Zpos (XI XH)))))))
      (n.nrpow
        (n.nmul (n.nmul alpha_i alpha_n)
          (n.nadd (n.nofZ (Zpos XH)) (n.ndiv (n.nofZ (Zpos XH)) rho)))
        (n.ndiv (n.nofZ (Zpos (XI (XI (XO (XO XH))))))
          (n.nofZ (Zpos (XO (XO (XO (XI (XO (XO (XI XH)))))))))))
  in
  let epsilon_1 =
    n.ndiv
      (n.nmul
        (n.nmul
          (n.nmul
            (n.ndiv (n.nofZ (Zpos (XO (XI (XO (XI XH))))))
              (n.nofZ (Zpos (XI (XO XH)))))
            (n.nofZ (Z.pow z_ion (Zpos (XO XH))))) alpha_n)
        (n.nadd (n.nofZ (Zpos XH)) rho)) (n.npow r_e (S (S (S (S O)))))
  in
  (r_e, epsilon_1)

(** val beta_par : 'a1 num -> 'a1 species -> 'a1 species -> 'a1 **)

let beta_par n species_i species_j =
  let alpha_i =
    n.nmul species_i.polarisability
      (n.nofZ (Zpos (XO (XO (XO (XO (XO (XO (XO (XO (XO (XO (XO (XO (XO (XO
        (XO (XO (XO (XO (XO (XO (XO (XO (XO (XO (XO (XO (XO (XO (XO (XO (XI
        (XO (XO (XI (XO (XI (XO (XI (XI (XI (XI (XO (XI (XI (XO (XI (XI (XI
        (XO (XO (XI (XO (XI (XI (XI (XO (XO (XI (XI (XO (XO (XO (XI (XO (XO
        (XO (XO (XO (XI (XO (XI (XI (XO (XO (XI (XI (XI (XO (XO (XI (XO (XO
        (XI (XI (XO (XI (XO (XO (XI (XI (XI (XI (XI (XO (XO (XI (XO (XO (XI
        XH)))))))))))))))))))))))))))))))))))))))))))))))))))))))))))))))))))))))))))))))))))))))))))))))))))))
  in
  let alpha_j =
    n.nmul species_j.polarisability
      (n.nofZ (Zpos (XO (XO (XO (XO (XO (XO (XO (XO (XO (XO (XO (XO (XO (XO
        (XO (XO (XO (XO (XO (XO (XO (XO (XO (XO (XO (XO (XO (XO (XO (XO (XI
        (XO (XO (XI (XO (XI (XO (XI (XI (XI (XI (XO (XI (XI (XO (XI (XI (XI
        (XO (XO (XI (XO (XI (XI (XI (XO (XO (XI (XI (XO (XO (XO (XI (XO (XO
        (XO (XO (XO (XI (XO (XI (XI (XO (XO (XI (XI (XI (XO (XO (XI (XO (XO
        (XI (XI (XO (XI (XO (XO (XI (XI (XI (XI (XI (XO (XO (XI (XO (XO (XI
        XH)))))))))))))))))))))))))))))))))))))))))))))))))))))))))))))))))))))))))))))))))))))))))))))))))))))
  in
  let s_i =
    n.nmul
      (n.nrpow alpha_i (n.ndiv (n.nofZ (Zpos XH)) (n.nofZ (Zpos (XI XH)))))
      species_i.multiplicity
  in
  let s_j =
    n.nmul
      (n.nrpow alpha_j (n.ndiv (n.nofZ (Zpos XH)) (n.nofZ (Zpos (XI XH)))))
      species_j.multiplicity
  in
  n.nadd (n.nofZ (Zpos (XO (XI XH))))
    (n.ndiv (n.nofZ (Zpos (XI (XO XH)))) (n.nadd s_i s_j))

(** val x0_nn : 'a1 num -> 'a1 -> 'a1 **)

let x0_nn n beta_value =
  n.nmul
    (n.ndiv
      (n.nofZ (Zpos (XI (XO (XO (XO (XO (XI (XO (XI (XI (XI (XI
        XH)))))))))))))
      (n.nofZ (Zpos (XO (XO (XO (XI (XO (XO (XO (XI (XI (XI (XO (XO
        XH)))))))))))))))
    (n.nrpow beta_value
      (n.ndiv
        (n.nofZ (Zpos (XI (XO (XI (XI (XO (XO (XO (XO (XO (XO (XO (XI
          XH))))))))))))))
        (n.nofZ (Zpos (XO (XO (XO (XI (XO (XO (XI (XO (XO (XO (XO (XI (XO (XI
          (XI (XI XH))))))))))))))))))))

(** val x0_in : 'a1 num -> 'a1 -> 'a1 **)

let x0_in n beta_value =
  n.nmul
    (n.ndiv
      (n.nofZ (Zpos (XI (XI (XO (XO (XO (XI (XI (XO (XI (XI XH))))))))))))
      (n.nofZ (Zpos (XO (XO (XI (XO (XO (XO (XI (XI (XI (XO (XO
        XH))))))))))))))
    (n.nrpow beta_value
      (n.ndiv
        (n.nofZ (Zpos (XI (XO (XO (XI (XI (XI (XI (XO (XO (XI (XO (XO (XI
          XH)))))))))))))))
        (n.nofZ (Zpos (XO (XO (XO (XO (XO (XO (XI (XO (XI (XO (XI (XI (XO (XO
          (XO (XO (XI XH)))))))))))))))))))))

(** val cl_charged :
    'a1 num -> 'a1 units -> 'a1 species -> 'a1 species -> 'a1 -> 'a1 -> 'a1
    -> 'a1 **)

let cl_charged n u species_i species_j n_i n_j t =
  let t_eV = n.nmul t u.k_to_eV in
  if (&&) (Nat.eqb species_i.sname O) (Nat.eqb species_j.sname O)
  then let ne_cgs =
         n.nmul n_i
           (n.ndiv (n.nofZ (Zpos XH))
             (n.nofZ (Zpos (XO (XO (XO (XO (XO (XO (XI (XO (XO (XI (XO (XO
               (XO (XO (XI (XO (XI (XI (XI XH))))))))))))))))))))))
       in
       n.nsub
         (n.nsub
           (n.ndiv (n.nofZ (Zpos (XI (XI (XI (XI (XO XH)))))))
             (n.nofZ (Zpos (XO XH))))
           (n.nln
             (n.nmul
               (n.nrpow ne_cgs
                 (n.ndiv (n.nofZ (Zpos XH)) (n.nofZ (Zpos (XO XH)))))
               (n.nrpow t_eV
                 (n.ndiv (n.nofZ (Zneg (XI (XO XH))))
                   (n.nofZ (Zpos (XO (XO XH)))))))))
         (n.nrpow
           (n.nadd
             (n.ndiv (n.nofZ (Zpos XH))
               (n.nofZ (Zpos (XO (XO (XO (XO (XO (XI (XO (XI (XO (XI (XI (XO
                 (XO (XO (XO (XI XH)))))))))))))))))))
             (n.ndiv
               (n.npow (n.nsub (n.nln t_eV) (n.nofZ (Zpos (XO XH)))) (S (S
                 O))) (n.nofZ (Zpos (XO (XO (XO (XO XH))))))))
           (n.ndiv (n.nofZ (Zpos XH)) (n.nofZ (Zpos (XO XH)))))
  else if Nat.eqb species_i.sname O
       then let ne_cgs =
              n.nmul n_i
                (n.ndiv (n.nofZ (Zpos XH))
                  (n.nofZ (Zpos (XO (XO (XO (XO (XO (XO (XI (XO (XO (XI (XO
                    (XO (XO (XO (XI (XO (XI (XI (XI XH))))))))))))))))))))))
            in
            let z_ion = species_j.charge_number in
            n.nsub (n.nofZ (Zpos (XI (XI (XI (XO XH))))))
              (n.nln
                (n.nmul
                  (n.nmul
                    (n.nrpow ne_cgs
                      (n.ndiv (n.nofZ (Zpos XH)) (n.nofZ (Zpos (XO XH)))))
                    (n.nofZ (Z.abs z_ion)))
                  (n.nrpow t_eV
                    (n.ndiv (n.nofZ (Zneg (XI XH))) (n.nofZ (Zpos (XO XH)))))))
       else if Nat.eqb species_j.sname O
            then let ne_cgs =
                   n.nmul n_j
                     (n.ndiv (n.nofZ (Zpos XH))
                       (n.nofZ (Zpos (XO (XO (XO (XO (XO (XO (XI (XO (XO (XI
                         (XO (XO (XO (XO (XI (XO (XI (XI (XI
                         XH))))))))))))))))))))))
                 in
                 let z_ion = species_i.charge_number in
                 n.nsub (n.nofZ (Zpos (XI (XI (XI (XO XH))))))
                   (n.nln
                     (n.nmul
                       (n.nmul
                         (n.nrpow ne_cgs
                           (n.ndiv (n.nofZ (Zpos XH)) (n.nofZ (Zpos (XO XH)))))
                         (n.nofZ (Z.abs z_ion)))
                       (n.nrpow t_eV
                         (n.ndiv (n.nofZ (Zneg (XI XH)))
                           (n.nofZ (Zpos (XO XH)))))))
            else let ni_cgs =
                   n.nmul n_i
                     (n.ndiv (n.nofZ (Zpos XH))
                       (n.nofZ (Zpos (XO (XO (XO (XO (XO (XO (XI (XO (XO (XI
                         (XO (XO (XO (XO (XI (XO (XI (XI (XI
                         XH))))))))))))))))))))))
                 in
                 let nj_cgs =
                   n.nmul n_j
                     (n.ndiv (n.nofZ (Zpos XH))
                       (n.nofZ (Zpos (XO (XO (XO (XO (XO (XO (XI (XO (XO (XI
                         (XO (XO (XO (XO (XI (XO (XI (XI (XI
                         XH))))))))))))))))))))))
                 in
                 let z_ion_i = species_i.charge_number in
                 let z_ion_j = species_j.charge_number in
                 n.nsub (n.nofZ (Zpos (XI (XI (XI (XO XH))))))
                   (n.nln
                     (n.nmul
                       (n.ndiv (n.nofZ (Z.abs (Z.mul z_ion_i z_ion_j))) t_eV)
                       (n.nrpow
                         (n.nadd
                           (n.ndiv
                             (n.nmul ni_cgs
                               (n.nofZ (Z.pow (Z.abs z_ion_i) (Zpos (XO XH)))))
                             t_eV)
                           (n.ndiv
                             (n.nmul nj_cgs
                               (n.nofZ (Z.pow (Z.abs z_ion_j) (Zpos (XO XH)))))
                             t_eV))
                         (n.ndiv (n.nofZ (Zpos XH)) (n.nofZ (Zpos (XO XH)))))))

(** val a_fit : 'a1 num -> 'a1 units -> 'a1 -> 'a1 **)

let a_fit n u ionisation_energy0 =
  let ie_eV = n.nmul ionisation_energy0 u.j_to_eV in
  n.ndiv
    (n.nmul (n.nsqrt n.npi)
      (n.ndiv
        (n.nofZ (Zpos (XI (XO (XI (XO (XI (XO (XI (XO (XO (XO (XI (XI (XO (XI
          (XI (XO (XO (XO (XI (XO (XI (XI (XO (XI (XI (XI (XO
          XH)))))))))))))))))))))))))))))
        (n.nofZ (Zpos (XO (XO (XO (XO (XO (XO (XO (XO (XO (XO (XO (XO (XO (XO
          (XO (XO (XO (XI (XO (XO (XO (XO (XO (XI (XI (XI (XI (XI (XI (XO (XI
          (XI (XO (XO (XI (XO (XO (XI (XI (XI (XI (XO (XI (XI (XO (XO (XO (XO
          (XI (XI (XI (XO (XO (XO
          XH))))))))))))))))))))))))))))))))))))))))))))))))))))))))))
    (n.nrpow ie_eV
      (n.ndiv
        (n.nofZ (Zpos (XI (XO (XI (XO (XO (XI (XI (XI (XI (XI (XI (XI (XI (XO
          (XI (XI (XO (XI (XI (XI (XO (XI (XI (XO (XI (XO
          XH))))))))))))))))))))))))))))
        (n.nofZ (Zpos (XO (XO (XO (XO (XO (XO (XI (XO (XI (XO (XO (XI (XI (XO
          (XI (XO (XI (XI (XO (XO (XI (XI (XI (XO (XI (XI
          XH))))))))))))))))))))))))))))))

(** val b_fit : 'a1 num -> 'a1 units -> 'a1 -> 'a1 **)

let b_fit n u ionisation_energy0 =
  let ie_eV = n.nmul ionisation_energy0 u.j_to_eV in
  n.ndiv
    (n.nmul (n.nsqrt n.npi)
      (n.ndiv
        (n.nofZ (Zpos (XI (XI (XI (XI (XO (XO (XO (XO (XO (XI (XO (XO (XO (XI
          (XO (XI (XI (XO (XO (XO (XO (XO (XO (XI (XO (XO (XI (XI
          XH))))))))))))))))))))))))))))))
        (n.nofZ (Zpos (XO (XO (XO (XO (XO (XO (XO (XO (XO (XO (XO (XO (XO (XO
          (XO (XO (XO (XO (XI (XO (XO (XI (XI (XO (XI (XI (XI (XO (XO (XI (XO
          (XI (XI (XI (XO (XO (XI (XI (XO (XI (XO (XI (XI (XO (XI (XI (XO (XI
          (XO (XO (XO (XO (XO (XI (XI (XI (XI (XO (XI
          XH)))))))))))))))))))))))))))))))))))))))))))))))))))))))))))))))
    (n.nrpow ie_eV
      (n.ndiv
        (n.nofZ (Zpos (XI (XO (XO (XO (XI (XI (XO (XI (XI (XI (XI (XO (XI (XI
          (XO (XO (XI (XO (XO (XI (XO (XI (XO (XO (XI (XI (XI (XO (XO
          XH)))))))))))))))))))))))))))))))
        (n.nofZ (Zpos (XO (XO (XO (XO (XO (XO (XO (XO (XO (XI (XO (XI (XO (XO
          (XI (XI (XO (XI (XO (XI (XI (XO (XO (XI (XI (XI (XO (XI (XI
          XH)))))))))))))))))))))))))))))))))

(** val qe_closed :
    'a1 num -> 'a1 units -> 'a1 -> 'a1 -> 'a1 -> 'a1 -> 'a1 species -> nat ->
    nat -> 'a1 -> 'a1 **)

let qe_closed n u d1 d2 d3 d4 _ _ s_ t =
  let barg =
    n.nadd
      (n.nadd (n.ndiv d3 (n.nofZ (Zpos (XO XH)))) (n.nofZ (Z.of_nat s_)))
      (n.nofZ (Zpos (XO XH)))
  in
  let tau =
    n.ndiv
      (n.nsqrt
        (n.nmul (n.nmul (n.nmul (n.nofZ (Zpos (XO XH))) u.m_e) u.k_b) t))
      u.hbar
  in
  n.nadd d1
    (n.ndiv (n.nmul (n.nmul d2 (n.nrpow tau d3)) (n.ngamma barg))
      (n.nmul (n.ngamma (n.nofZ (Z.add (Z.of_nat s_) (Zpos (XO XH)))))
        (n.nrpow
          (n.nadd (n.nmul d4 (n.npow tau (S (S O)))) (n.nofZ (Zpos XH))) barg)))

(** val qe :
    'a1 num -> 'a1 units -> 'a1 species -> nat -> nat -> 'a1 -> 'a1 **)

let qe n u species_i l s_ t =
  match species_i.electron_cross_section with
  | Some p ->
    let (p0, d4) = p in
    let (p1, d3) = p0 in
    let (d1, d2) = p1 in qe_closed n u d1 d2 d3 d4 species_i l s_ t
  | None -> n.ndiv (n.nofZ Z0) (n.nofZ Z0)

(** val qnn_guard : nat -> nat -> bool **)

let qnn_guard l s_ =
  (||)
    ((&&) (Z.eqb (Z.of_nat l) (Zpos XH))
      (Z.leb (Zpos (XO (XI XH))) (Z.of_nat s_)))
    ((||)
      ((&&) (Z.eqb (Z.of_nat l) (Zpos (XO XH)))
        (Z.leb (Zpos (XI (XO XH))) (Z.of_nat s_)))
      ((||)
        ((&&) (Z.eqb (Z.of_nat l) (Zpos (XI XH)))
          (Z.leb (Zpos (XO (XO XH))) (Z.of_nat s_)))
        ((&&) (Z.eqb (Z.of_nat l) (Zpos (XO (XO XH))))
          (Z.leb (Zpos (XI (XO XH))) (Z.of_nat s_)))))

(** val qnn_fit :
    'a1 num -> 'a1 units -> 'a1 species -> 'a1 species -> nat -> nat -> 'a1
    -> 'a1 **)

let qnn_fit n u species_i species_j l s_ t =
  let (r_e, epsilon_1) = pot_nn n species_i species_j in
  let beta_value = beta_par n species_i species_j in
  let x0 = x0_nn n beta_value in
  let a = fit_coeffs n (c_nn_tab n l s_) beta_value in
  let sigma = n.nmul r_e x0 in
  let t_star = n.ndiv (n.nmul t u.k_to_eV) epsilon_1 in
  let x = n.nln t_star in
  let lnS1 =
    n.ndiv
      (n.nmul
        (n.nadd (nth O a (n.nofZ Z0)) (n.nmul (nth (S O) a (n.nofZ Z0)) x))
        (n.nexp
          (n.ndiv (n.nsub x (nth (S (S O)) a (n.nofZ Z0)))
            (nth (S (S (S O))) a (n.nofZ Z0)))))
      (n.nadd
        (n.nexp
          (n.ndiv (n.nsub x (nth (S (S O)) a (n.nofZ Z0)))
            (nth (S (S (S O))) a (n.nofZ Z0))))
        (n.nexp
          (n.ndiv (n.nsub (nth (S (S O)) a (n.nofZ Z0)) x)
            (nth (S (S (S O))) a (n.nofZ Z0)))))
  in
  let lnS2 =
    n.ndiv
      (n.nmul (nth (S (S (S (S O)))) a (n.nofZ Z0))
        (n.nexp
          (n.ndiv (n.nsub x (nth (S (S (S (S (S O))))) a (n.nofZ Z0)))
            (nth (S (S (S (S (S (S O)))))) a (n.nofZ Z0)))))
      (n.nadd
        (n.nexp
          (n.ndiv (n.nsub x (nth (S (S (S (S (S O))))) a (n.nofZ Z0)))
            (nth (S (S (S (S (S (S O)))))) a (n.nofZ Z0))))
        (n.nexp
          (n.ndiv (n.nsub (nth (S (S (S (S (S O))))) a (n.nofZ Z0)) x)
            (nth (S (S (S (S (S (S O)))))) a (n.nofZ Z0)))))
  in
  let omega_reduced = n.nexp (n.nadd lnS1 lnS2) in
  n.nmul (n.nmul (n.nmul omega_reduced n.npi) (n.npow sigma (S (S O))))
    (n.ndiv (n.nofZ (Zpos XH))
      (n.nofZ (Zpos (XO (XO (XO (XO (XO (XO (XO (XO (XO (XO (XO (XO (XO (XO
        (XO (XO (XO (XO (XO (XO (XI (XO (XO (XO (XI (XI (XO (XO (XO (XI (XI
        (XO (XI (XO (XI (XI (XO (XI (XO (XO (XO (XI (XI (XI (XI (XO (XI (XO
        (XI (XI (XI (XO (XO (XO (XI (XI (XI (XI (XO (XI (XO (XI (XI (XO (XI
        (XO
        XH)))))))))))))))))))))))))))))))))))))))))))))))))))))))))))))))))))))

(** val qnn :
    'a1 num -> 'a1 units -> 'a1 species -> 'a1 species -> nat -> nat -> 'a1
    -> 'a1 **)

let qnn n u species_i species_j l s_ t =
  q_recursion n (qnn_guard l) (qnn_fit n u species_i species_j l) (S (S (S (S
    (S (S (S (S O)))))))) s_ t

(** val qin_guard : nat -> nat -> bool **)

let qin_guard l s_ =
  (||)
    ((&&) (Z.eqb (Z.of_nat l) (Zpos XH))
      (Z.leb (Zpos (XO (XI XH))) (Z.of_nat s_)))
    ((||)
      ((&&) (Z.eqb (Z.of_nat l) (Zpos (XO XH)))
        (Z.leb (Zpos (XI (XO XH))) (Z.of_nat s_)))
      ((||)
        ((&&) (Z.eqb (Z.of_nat l) (Zpos (XI XH)))
          (Z.leb (Zpos (XO (XO XH))) (Z.of_nat s_)))
        ((&&) (Z.eqb (Z.of_nat l) (Zpos (XO (XO XH))))
          (Z.leb (Zpos (XI (XO XH))) (Z.of_nat s_)))))

(** val qin_fit :
    'a1 num -> 'a1 units -> 'a1 species -> 'a1 species -> nat -> nat -> 'a1
    -> 'a1 **)

let qin_fit n u species_i species_j l s_ t =
  let (r_e, epsilon_1) = pot_in n species_i species_j in
  let beta_value = beta_par n species_i species_j in
  let x0 = x0_in n beta_value in
  let a = fit_coeffs n (c_in_tab n l s_) beta_value in
  let sigma = n.nmul r_e x0 in
  let t_star = n.ndiv (n.nmul t u.k_to_eV) epsilon_1 in
  let x = n.nln t_star in
  let lnS1 =
    n.ndiv
      (n.nmul
        (n.nadd (nth O a (n.nofZ Z0)) (n.nmul (nth (S O) a (n.nofZ Z0)) x))
        (n.nexp
          (n.ndiv (n.nsub x (nth (S (S O)) a (n.nofZ Z0)))
            (nth (S (S (S O))) a (n.nofZ Z0)))))
      (n.nadd
        (n.nexp
          (n.ndiv (n.nsub x (nth (S (S O)) a (n.nofZ Z0)))
            (nth (S (S (S O))) a (n.nofZ Z0))))
        (n.nexp
          (n.ndiv (n.nsub (nth (S (S O)) a (n.nofZ Z0)) x)
            (nth (S (S (S O))) a (n.nofZ Z0)))))
  in
  let lnS2 =
    n.ndiv
      (n.nmul (nth (S (S (S (S O)))) a (n.nofZ Z0))
        (n.nexp
          (n.ndiv (n.nsub x (nth (S (S (S (S (S O))))) a (n.nofZ Z0)))
            (nth (S (S (S (S (S (S O)))))) a (n.nofZ Z0)))))
      (n.nadd
        (n.nexp
          (n.ndiv (n.nsub x (nth (S (S (S (S (S O))))) a (n.nofZ Z0)))
            (nth (S (S (S (S (S (S O)))))) a (n.nofZ Z0))))
        (n.nexp
          (n.ndiv (n.nsub (nth (S (S (S (S (S O))))) a (n.nofZ Z0)) x)
            (nth (S (S (S (S (S (S O)))))) a (n.nofZ Z0)))))
  in
  let omega_reduced = n.nexp (n.nadd lnS1 lnS2) in
  n.nmul (n.nmul (n.nmul omega_reduced n.npi) (n.npow sigma (S (S O))))
    (n.ndiv (n.nofZ (Zpos XH))
      (n.nofZ (Zpos (XO (XO (XO (XO (XO (XO (XO (XO (XO (XO (XO (XO (XO (XO
        (XO (XO (XO (XO (XO (XO (XI (XO (XO (XO (XI (XI (XO (XO (XO (XI (XI
        (XO (XI (XO (XI (XI (XO (XI (XO (XO (XO (XI (XI (XI (XI (XO (XI (XO
        (XI (XI (XI (XO (XO (XO (XI (XI (XI (XI (XO (XI (XO (XI (XI (XO (XI
        (XO
        XH)))))))))))))))))))))))))))))))))))))))))))))))))))))))))))))))))))))

(** val qin :
    'a1 num -> 'a1 units -> 'a1 species -> 'a1 species -> nat -> nat -> 'a1
    -> 'a1 **)

let qin n u species_i species_j l s_ t =
  q_recursion n (qin_guard l) (qin_fit n u species_i species_j l) (S (S (S (S
    (S (S (S (S O)))))))) s_ t

(** val qtr :
    'a1 num -> 'a1 units -> 'a1 species -> 'a1 species -> nat -> 'a1 -> 'a1 **)

let qtr n u species_i species_j s_ t =
  let (p, m) =
    if Z.ltb species_i.charge_number species_j.charge_number
    then let a = a_fit n u species_i.ionisation_energy in
         let b = b_fit n u species_i.ionisation_energy in
         let m = species_i.molar_mass in ((a, b), m)
    else let a = a_fit n u species_j.ionisation_energy in
         let b = b_fit n u species_j.ionisation_energy in
         let m = species_j.molar_mass in ((a, b), m)
  in
  let (a, b) = p in
  let ln_term =
    n.nln (n.ndiv (n.nmul (n.nmul (n.nofZ (Zpos (XO (XO XH)))) u.r_gas) t) m)
  in
  let zeta_1 = sum1 n u s_ in
  let zeta_2 = sum2 n s_ in
  let cterm =
    n.nadd
      (n.nsub (n.ndiv (n.npow n.npi (S (S O))) (n.nofZ (Zpos (XO (XI XH)))))
        zeta_2) (n.npow zeta_1 (S (S O)))
  in
  n.nadd
    (n.nadd
      (n.nadd (n.nsub (n.npow a (S (S O))) (n.nmul (n.nmul zeta_1 a) b))
        (n.nmul (n.npow (n.ndiv b (n.nofZ (Zpos (XO XH)))) (S (S O))) cterm))
      (n.nmul (n.npow (n.ndiv b (n.nofZ (Zpos (XO XH)))) (S (S O)))
        (n.npow ln_term (S (S O)))))
    (n.nmul
      (n.nsub
        (n.ndiv (n.nmul zeta_1 (n.npow b (S (S O)))) (n.nofZ (Zpos (XO XH))))
        (n.nmul a b)) ln_term)

(** val qc :
    'a1 num -> 'a1 units -> 'a1 species -> 'a1 -> 'a1 species -> 'a1 -> nat
    -> nat -> 'a1 -> 'a1 **)

let qc n u species_i n_i species_j n_j l s_ t =
  let c1 = (Zpos (XO (XO XH))) :: ((Zpos (XO (XO (XI XH)))) :: ((Zpos (XO (XO
    (XI XH)))) :: ((Zpos (XO (XO (XO (XO XH))))) :: [])))
  in
  let c2 =
    (n.ndiv (n.nofZ (Zpos XH)) (n.nofZ (Zpos (XO XH)))) :: ((n.nofZ (Zpos XH)) :: (
    (n.ndiv (n.nofZ (Zpos (XI (XI XH)))) (n.nofZ (Zpos (XO (XI XH))))) :: (
    (n.ndiv (n.nofZ (Zpos (XO (XO XH)))) (n.nofZ (Zpos (XI XH)))) :: [])))
  in
  let term1 =
    n.ndiv
      (n.nmul (n.nofZ (nth (Z.to_nat (Z.sub (Z.of_nat l) (Zpos XH))) c1 Z0))
        n.npi) (n.nofZ (Z.mul (Z.of_nat s_) (Z.add (Z.of_nat s_) (Zpos XH))))
  in
  let term2 =
    n.npow
      (n.ndiv
        (n.nmul
          (n.nmul (n.nmul u.ke_c (n.nofZ species_i.charge_number))
            (n.nofZ species_j.charge_number)) (n.npow u.e_ch (S (S O))))
        (n.nmul (n.nmul (n.nofZ (Zpos (XO XH))) u.k_b) t)) (S (S O))
  in
  let term3 =
    n.nadd
      (n.nsub
        (n.nsub
          (n.nadd (cl_charged n u species_i species_j n_i n_j t)
            (n.nln (n.nofZ (Zpos (XO XH)))))
          (nth (Z.to_nat (Z.sub (Z.of_nat l) (Zpos XH))) c2 (n.nofZ Z0)))
        (n.nmul (n.nofZ (Zpos (XO XH))) u.egamma)) (psiconst n s_)
  in
  n.nmul (n.nmul term1 term2) term3

(** val qij :
    'a1 num -> 'a1 units -> 'a1 species -> 'a1 -> 'a1 species -> 'a1 -> nat
    -> nat -> 'a1 -> 'a1 **)

let qij n u species_i ni species_j nj l s_ t =
  if (&&) (negb (Z.eqb species_i.charge_number Z0))
       (negb (Z.eqb species_j.charge_number Z0))
  then qc n u species_i ni species_j nj l s_ t
  else if Nat.eqb species_j.sname O
       then qe n u species_i l s_ t
       else if Nat.eqb species_i.sname O
            then qe n u species_j l s_ t
            else if (&&) (Z.eqb species_i.charge_number Z0)
                      (Z.eqb species_j.charge_number Z0)
                 then qnn n u species_i species_j l s_ t
                 else if (&&)
                           (stoich_eqb species_i.stoichiometry
                             species_j.stoichiometry)
                           ((&&)
                             (Z.eqb
                               (Z.abs
                                 (Z.sub species_i.charge_number
                                   species_j.charge_number)) (Zpos XH))
                             (Z.eqb (Z.modulo (Z.of_nat l) (Zpos (XO XH)))
                               (Zpos XH)))
                      then qtr n u species_i species_j s_ t
                      else if Z.eqb species_i.charge_number Z0
                           then qin n u species_j species_i l s_ t
                           else if Z.eqb species_j.charge_number Z0
                                then qin n u species_i species_j l s_ t
                                else n.ndiv (n.nofZ Z0) (n.nofZ Z0)

(** val qij_class :
    'a1 species -> 'a1 -> 'a1 species -> 'a1 -> nat -> nat -> 'a1 -> qclass **)

let qij_class species_i _ species_j _ l _ _ =
  if (&&) (negb (Z.eqb species_i.charge_number Z0))
       (negb (Z.eqb species_j.charge_number Z0))
  then CCall (Qc_tag, true)
  else if Nat.eqb species_j.sname O
       then CCall (Qe_tag, true)
       else if Nat.eqb species_i.sname O
            then CCall (Qe_tag, false)
            else if (&&) (Z.eqb species_i.charge_number Z0)
                      (Z.eqb species_j.charge_number Z0)
                 then CCall (Qnn_tag, true)
                 else if (&&)
                           (stoich_eqb species_i.stoichiometry
                             species_j.stoichiometry)
                           ((&&)
                             (Z.eqb
                               (Z.abs
                                 (Z.sub species_i.charge_number
                                   species_j.charge_number)) (Zpos XH))
                             (Z.eqb (Z.modulo (Z.of_nat l) (Zpos (XO XH)))
                               (Zpos XH)))
                      then CCall (Qtr_tag, true)
                      else if Z.eqb species_i.charge_number Z0
                           then CCall (Qin_tag, false)
                           else if Z.eqb species_j.charge_number Z0
                                then CCall (Qin_tag, true)
                                else CUnknown

type 'a qints = { i11 : (nat -> nat -> 'a); i12 : (nat -> nat -> 'a);
                  i13 : (nat -> nat -> 'a); i14 : (nat -> nat -> 'a);
                  i15 : (nat -> nat -> 'a); i16 : (nat -> nat -> 'a);
                  i17 : (nat -> nat -> 'a); i22 : (nat -> nat -> 'a);
                  i23 : (nat -> nat -> 'a); i24 : (nat -> nat -> 'a);
                  i25 : (nat -> nat -> 'a); i26 : (nat -> nat -> 'a);
                  i33 : (nat -> nat -> 'a); i34 : (nat -> nat -> 'a);
                  i35 : (nat -> nat -> 'a); i44 : (nat -> nat -> 'a) }

(** val mr : 'a1 num -> (nat -> 'a1) -> nat -> nat -> 'a1 **)

let mr n masses i j =
  n.ndiv (masses j) (masses i)

(** val b00 :
    'a1 num -> 'a1 qints -> (nat -> 'a1) -> nat -> (nat -> 'a1) -> nat -> nat
    -> 'a1 **)

let b00 n q masses nb nd =
  q00 n q.i11 masses nb nd

(** val b01 :
    'a1 num -> 'a1 qints -> (nat -> 'a1) -> nat -> (nat -> 'a1) -> nat -> nat
    -> 'a1 **)

let b01 n q masses nb nd =
  q01 n q.i11 q.i12 masses nb nd

(** val b02 :
    'a1 num -> 'a1 qints -> (nat -> 'a1) -> nat -> (nat -> 'a1) -> nat -> nat
    -> 'a1 **)

let b02 n q masses nb nd =
  q02 n q.i11 q.i12 q.i13 masses nb nd

(** val b03 :
    'a1 num -> 'a1 qints -> (nat -> 'a1) -> nat -> (nat -> 'a1) -> nat -> nat
    -> 'a1 **)

let b03 n q masses nb nd =
  q03 n q.i11 q.i12 q.i13 q.i14 masses nb nd

(** val b11 :
    'a1 num -> 'a1 qints -> (nat -> 'a1) -> nat -> (nat -> 'a1) -> nat -> nat
    -> 'a1 **)

let b11 n q masses nb nd =
  q11 n q.i11 q.i12 q.i13 q.i22 masses nb nd

(** val b12 :
    'a1 num -> 'a1 qints -> (nat -> 'a1) -> nat -> (nat -> 'a1) -> nat -> nat
    -> 'a1 **)

let b12 n q masses nb nd =
  q12 n q.i11 q.i12 q.i13 q.i14 q.i22 q.i23 masses nb nd

(** val b13 :
    'a1 num -> 'a1 qints -> (nat -> 'a1) -> nat -> (nat -> 'a1) -> nat -> nat
    -> 'a1 **)

let b13 n q masses nb nd =
  q13 n q.i11 q.i12 q.i13 q.i14 q.i15 q.i22 q.i23 q.i24 masses nb nd

(** val b22 :
    'a1 num -> 'a1 qints -> (nat -> 'a1) -> nat -> (nat -> 'a1) -> nat -> nat
    -> 'a1 **)

let b22 n q masses nb nd =
  q22 n q.i11 q.i12 q.i13 q.i14 q.i15 q.i22 q.i23 q.i24 q.i33 masses nb nd

(** val b23 :
    'a1 num -> 'a1 qints -> (nat -> 'a1) -> nat -> (nat -> 'a1) -> nat -> nat
    -> 'a1 **)

let b23 n q masses nb nd =
  q23 n q.i11 q.i12 q.i13 q.i14 q.i15 q.i16 q.i22 q.i23 q.i24 q.i25 q.i33
    q.i34 masses nb nd

(** val b33 :
    'a1 num -> 'a1 qints -> (nat -> 'a1) -> nat -> (nat -> 'a1) -> nat -> nat
    -> 'a1 **)

let b33 n q masses nb nd =
  q33 n q.i11 q.i12 q.i13 q.i14 q.i15 q.i16 q.i17 q.i22 q.i23 q.i24 q.i25
    q.i26 q.i33 q.i34 q.i35 q.i44 masses nb nd

(** val h00 :
    'a1 num -> 'a1 qints -> (nat -> 'a1) -> nat -> (nat -> 'a1) -> nat -> nat
    -> 'a1 **)

let h00 n q masses nb nd =
  qhat00 n q.i11 q.i22 masses nb nd

(** val h01 :
    'a1 num -> 'a1 qints -> (nat -> 'a1) -> nat -> (nat -> 'a1) -> nat -> nat
    -> 'a1 **)

let h01 n q masses nb nd =
  qhat01 n q.i11 q.i12 q.i22 q.i23 masses nb nd

(** val h11 :
    'a1 num -> 'a1 qints -> (nat -> 'a1) -> nat -> (nat -> 'a1) -> nat -> nat
    -> 'a1 **)

let h11 n q masses nb nd =
  qhat11 n q.i11 q.i12 q.i13 q.i22 q.i23 q.i24 q.i33 masses nb nd

(** val qblock :
    'a1 num -> 'a1 qints -> (nat -> 'a1) -> nat -> (nat -> 'a1) -> nat -> nat
    -> nat -> nat -> 'a1 **)

let qblock n q masses nb nd a b i j =
  match a with
  | O ->
    (match b with
     | O -> b00 n q masses nb nd i j
     | S n0 ->
       (match n0 with
        | O -> b01 n q masses nb nd i j
        | S n1 ->
          (match n1 with
           | O -> b02 n q masses nb nd i j
           | S n2 ->
             (match n2 with
              | O -> b03 n q masses nb nd i j
              | S _ -> n.nofZ Z0))))
  | S n0 ->
    (match n0 with
     | O ->
       (match b with
        | O -> n.nmul (mr n masses i j) (b01 n q masses nb nd i j)
        | S n1 ->
          (match n1 with
           | O -> b11 n q masses nb nd i j
           | S n2 ->
             (match n2 with
              | O -> b12 n q masses nb nd i j
              | S n3 ->
                (match n3 with
                 | O -> b13 n q masses nb nd i j
                 | S _ -> n.nofZ Z0))))
     | S n1 ->
       (match n1 with
        | O ->
          (match b with
           | O ->
             n.nmul (n.npow (mr n masses i j) (S (S O)))
               (b02 n q masses nb nd i j)
           | S n2 ->
             (match n2 with
              | O -> n.nmul (mr n masses i j) (b12 n q masses nb nd i j)
              | S n3 ->
                (match n3 with
                 | O -> b22 n q masses nb nd i j
                 | S n4 ->
                   (match n4 with
                    | O -> b23 n q masses nb nd i j
                    | S _ -> n.nofZ Z0))))
        | S n2 ->
          (match n2 with
           | O ->
             (match b with
              | O ->
                n.nmul (n.npow (mr n masses i j) (S (S (S O))))
                  (b03 n q masses nb nd i j)
              | S n3 ->
                (match n3 with
                 | O ->
                   n.nmul (n.npow (mr n masses i j) (S (S O)))
                     (b13 n q masses nb nd i j)
                 | S n4 ->
                   (match n4 with
                    | O -> n.nmul (mr n masses i j) (b23 n q masses nb nd i j)
                    | S n5 ->
                      (match n5 with
                       | O -> b33 n q masses nb nd i j
                       | S _ -> n.nofZ Z0))))
           | S _ -> n.nofZ Z0)))

(** val qhatblock :
    'a1 num -> 'a1 qints -> (nat -> 'a1) -> nat -> (nat -> 'a1) -> nat -> nat
    -> nat -> nat -> 'a1 **)

let qhatblock n q masses nb nd a b i j =
  match a with
  | O ->
    (match b with
     | O -> h00 n q masses nb nd i j
     | S n0 ->
       (match n0 with
        | O -> h01 n q masses nb nd i j
        | S _ -> n.nofZ Z0))
  | S n0 ->
    (match n0 with
     | O ->
       (match b with
        | O -> n.nmul (mr n masses i j) (h01 n q masses nb nd i j)
        | S n1 ->
          (match n1 with
           | O -> h11 n q masses nb nd i j
           | S _ -> n.nofZ Z0))
     | S _ -> n.nofZ Z0)

(** val qentry :
    'a1 num -> 'a1 qints -> (nat -> 'a1) -> nat -> (nat -> 'a1) -> nat -> nat
    -> 'a1 **)

let qentry n q masses nb nd r c =
  qblock n q masses nb nd (Nat.div r nb) (Nat.div c nb) (Nat.modulo r nb)
    (Nat.modulo c nb)

(** val qhatentry :
    'a1 num -> 'a1 qints -> (nat -> 'a1) -> nat -> (nat -> 'a1) -> nat -> nat
    -> 'a1 **)

let qhatentry n q masses nb nd r c =
  qhatblock n q masses nb nd (Nat.div r nb) (Nat.div c nb) (Nat.modulo r nb)
    (Nat.modulo c nb)

(** val kTv : 'a1 num -> 'a1 units -> 'a1 -> 'a1 **)

let kTv n u t =
  n.nmul u.k_b t

(** val dij_rhs : 'a1 num -> nat -> nat -> nat -> 'a1 **)

let dij_rhs n i j h =
  n.nmul (n.nmul (n.nofZ (Zpos (XI XH))) (n.nsqrt n.npi))
    (n.nsub (delta n h i) (delta n h j))

(** val dij_value :
    'a1 num -> 'a1 units -> 'a1 -> 'a1 -> 'a1 -> (nat -> 'a1) -> (nat -> 'a1)
    -> nat -> nat -> 'a1 -> 'a1 **)

let dij_value n u rho ntot t masses nd i j c0i =
  n.nmul
    (n.nmul
      (n.ndiv (n.nmul rho (nd i))
        (n.nmul (n.nmul (n.nofZ (Zpos (XO XH))) ntot) (masses j)))
      (n.nsqrt
        (n.ndiv (n.nmul (n.nofZ (Zpos (XO XH))) (kTv n u t)) (masses i)))) c0i

(** val dTi_rhs1 : 'a1 num -> (nat -> 'a1) -> nat -> 'a1 **)

let dTi_rhs1 n nd i =
  n.nmul
    (n.nmul
      (n.ndiv (n.nopp (n.nofZ (Zpos (XI (XI (XI XH))))))
        (n.nofZ (Zpos (XO XH)))) (n.nsqrt n.npi)) (nd i)

(** val dTi_value :
    'a1 num -> 'a1 units -> 'a1 -> (nat -> 'a1) -> (nat -> 'a1) -> nat -> 'a1
    -> 'a1 **)

let dTi_value n u t masses nd i a0i =
  n.nmul
    (n.nmul
      (n.nmul
        (n.nmul (n.ndiv (n.nofZ (Zpos XH)) (n.nofZ (Zpos (XO XH)))) (nd i))
        (masses i))
      (n.nsqrt
        (n.ndiv (n.nmul (n.nofZ (Zpos (XO XH))) (kTv n u t)) (masses i)))) a0i

(** val visc_rhs0 :
    'a1 num -> 'a1 units -> 'a1 -> (nat -> 'a1) -> (nat -> 'a1) -> nat -> 'a1 **)

let visc_rhs0 n u t masses nd i =
  n.nmul (n.nmul (n.nofZ (Zpos (XI (XO XH)))) (nd i))
    (n.nsqrt
      (n.ndiv (n.nmul (n.nmul (n.nofZ (Zpos (XO XH))) n.npi) (masses i))
        (kTv n u t)))

(** val visc_value :
    'a1 num -> 'a1 units -> 'a1 -> (nat -> 'a1) -> nat -> (nat -> 'a1) -> 'a1 **)

let visc_value n u t nd nb b0 =
  n.nmul
    (n.nmul (n.ndiv (n.nofZ (Zpos XH)) (n.nofZ (Zpos (XO XH)))) (kTv n u t))
    (sum_left n (map (fun i -> n.nmul (nd i) (b0 i)) (seq O nb)))

(** val kdash_value :
    'a1 num -> 'a1 units -> 'a1 -> (nat -> 'a1) -> (nat -> 'a1) -> nat ->
    (nat -> 'a1) -> 'a1 **)

let kdash_value n u t masses nd nb a1 =
  n.nmul
    (n.nmul
      (n.ndiv (n.nopp (n.nofZ (Zpos (XI (XO XH)))))
        (n.nofZ (Zpos (XO (XO XH))))) u.k_b)
    (sum_left n
      (map (fun i ->
        n.nmul
          (n.nmul (nd i)
            (n.nsqrt
              (n.ndiv (n.nmul (n.nofZ (Zpos (XO XH))) (kTv n u t)) (masses i))))
          (a1 i)) (seq O nb)))

(** val sigma_value :
    'a1 num -> 'a1 units -> 'a1 -> 'a1 -> 'a1 -> (nat -> 'a1) -> (nat -> 'a1)
    -> (nat -> 'a1) -> nat -> (nat -> 'a1) -> 'a1 **)

let sigma_value n u rho ntot t masses nd charges nb de =
  n.nmul
    (n.ndiv (n.nmul (n.npow u.e_ch (S (S O))) ntot) (n.nmul rho (kTv n u t)))
    (sum_left n
      (map (fun j ->
        n.nmul (n.nmul (n.nmul (nd j) (masses j)) (charges j)) (de j))
        (seq O nb)))

(** val hv_rescaled :
    'a1 num -> 'a1 -> 'a1 -> (nat -> 'a1) -> (nat -> 'a1) -> nat -> 'a1 **)

let hv_rescaled n rho ntot masses h i =
  n.ndiv (n.nmul (h i) (masses i)) (n.ndiv rho ntot)

(** val idx_sum : 'a1 num -> nat -> (nat -> 'a1) -> 'a1 **)

let idx_sum n nb f =
  sum_left n (map f (seq O nb))

(** val dxdT_value :
    'a1 num -> 'a1 -> 'a1 -> nat -> (nat -> 'a1) -> (nat -> 'a1) -> nat -> 'a1 **)

let dxdT_value n t delta0 nb npos nneg j =
  n.ndiv
    (n.nsub (n.ndiv (npos j) (idx_sum n nb npos))
      (n.ndiv (nneg j) (idx_sum n nb nneg)))
    (n.nmul (n.nmul (n.nofZ (Zpos (XO XH))) delta0) t)

(** val kdt_value :
    'a1 num -> 'a1 -> nat -> (nat -> 'a1) -> (nat -> 'a1) -> 'a1 **)

let kdt_value n t nb hv dT =
  idx_sum n nb (fun i -> n.ndiv (n.nmul (hv i) (dT i)) t)

(** val krxn_enth_value :
    'a1 num -> 'a1 -> 'a1 -> (nat -> 'a1) -> (nat -> 'a1) -> (nat -> 'a1) ->
    (nat -> nat -> 'a1) -> nat -> 'a1 **)

let krxn_enth_value n rho ntot masses hv dxdT d nb =
  n.nmul (n.ndiv (n.nopp (n.npow ntot (S (S O)))) rho)
    (idx_sum n nb (fun j ->
      idx_sum n nb (fun i ->
        n.nmul
          (n.nmul (n.nmul (n.nmul (masses j) (masses i)) (hv i)) (d i j))
          (dxdT j))))

(** val krxn_therm_value :
    'a1 num -> 'a1 units -> 'a1 -> 'a1 -> 'a1 -> (nat -> 'a1) -> (nat -> 'a1)
    -> (nat -> 'a1) -> (nat -> 'a1) -> nat -> 'a1 **)

let krxn_therm_value n u ntot t ni_limit masses nd dT dxdT nb =
  n.nmul (n.nmul (n.nmul ntot u.k_b) t)
    (idx_sum n nb (fun i ->
      n.ndiv
        (n.nmul (dT i) (if n.nltb (nd i) ni_limit then n.nofZ Z0 else dxdT i))
        (n.nmul (nd i) (masses i))))

(** val kappa_total :
    'a1 num -> 'a1 units -> bool -> 'a1 -> 'a1 -> 'a1 -> 'a1 -> (nat -> 'a1)
    -> (nat -> 'a1) -> (nat -> 'a1) -> (nat -> 'a1) -> (nat -> 'a1) -> (nat
    -> nat -> 'a1) -> nat -> 'a1 -> 'a1 **)

let kappa_total n u dt_terms rho ntot t ni_limit masses nd hv dT dxdT d nb kdash =
  n.nadd
    (n.nadd
      (n.nadd kdash (if dt_terms then kdt_value n t nb hv dT else n.nofZ Z0))
      (krxn_enth_value n rho ntot masses hv dxdT d nb))
    (if dt_terms
     then krxn_therm_value n u ntot t ni_limit masses nd dT dxdT nb
     else n.nofZ Z0)
