(* Single-gas, rigid-sphere limits computed from the bracket tables: the classical Chapman-Cowling ratios. *)
From Coq Require Import Reals Lra.
From MPC Require Import BracketTables ChapmanEnskog C11_base.
Open Scope R_scope.

(* rigid spheres: every reduced collision integral equals the same cross-section (taken as 1): W l r = ofac l r *)
Definition hsW (l r : nat) : R := ofac l r.
(* simple gas: a^2 = b^2 = 1/2; same-molecule plus unlike-molecule bracket (the vector unlike bracket carries a b = 1/2) *)
Definition h (t11 t12 : table) : R := t11 (1/2) (1/2) hsW + t12 (1/2) (1/2) hsW.
Definition av (t11 t12 : table) : R := t11 (1/2) (1/2) hsW + 1/2 * t12 (1/2) (1/2) hsW.

Ltac evalW := unfold hsW; rewrite ?ofac_11, ?ofac_12, ?ofac_13, ?ofac_14, ?ofac_15, ?ofac_16, ?ofac_17, ?ofac_22, ?ofac_23, ?ofac_24,
                                  ?ofac_25, ?ofac_26, ?ofac_33, ?ofac_34, ?ofac_35, ?ofac_44.

Lemma h00 : h t11_00 t12_00 = 1. Proof. unfold h, t11_00, t12_00. evalW. lra. Qed.
Lemma h01 : h t11_01 t12_01 = -1/4. Proof. unfold h, t11_01, t12_01. evalW. lra. Qed.
Lemma h11 : h t11_11 t12_11 = 205/48. Proof. unfold h, t11_11, t12_11. evalW. lra. Qed.
Lemma a11 : av v11_11 v12_11 = 1. Proof. unfold av, v11_11, v12_11. evalW. lra. Qed.
Lemma a12 : av v11_12 v12_12 = -1/4. Proof. unfold av, v11_12, v12_12. evalW. lra. Qed.
Lemma a13 : av v11_13 v12_13 = -1/32. Proof. unfold av, v11_13, v12_13. evalW. lra. Qed.
Lemma a22 : av v11_22 v12_22 = 45/16. Proof. unfold av, v11_22, v12_22. evalW. lra. Qed.
Lemma a23 : av v11_23 v12_23 = -103/128. Proof. unfold av, v11_23, v12_23. evalW. lra. Qed.
Lemma a33 : av v11_33 v12_33 = 5657/1024. Proof. unfold av, v11_33, v12_33. evalW. lra. Qed.

(* second-approximation viscosity over first: 1 + b12^2 / (b11 b22 - b12^2) = 205/202 = 1.01485 *)
Theorem hard_sphere_viscosity_ratio :
  1 + h t11_01 t12_01 ^ 2 / (h t11_00 t12_00 * h t11_11 t12_11 - h t11_01 t12_01 ^ 2) = 205 / 202.
Proof. rewrite h00, h01, h11. field. Qed.

(* second-approximation conductivity over first: 45/44 = 1.02273 *)
Theorem hard_sphere_lambda_ratio_2 :
  1 + av v11_12 v12_12 ^ 2 / (av v11_11 v12_11 * av v11_22 v12_22 - av v11_12 v12_12 ^ 2) = 45 / 44.
Proof. rewrite a11, a12, a22. field. Qed.

(* third approximation: a11 * (A^-1)_11 for the 3 x 3 matrix (a_pq), p, q = 1..3: 60989/59512 = 1.02482 *)
Definition ratio3 (x11 x12 x13 x22 x23 x33 : R) : R :=
  x11 * (x22 * x33 - x23 * x23) /
  (x11 * (x22 * x33 - x23 * x23) - x12 * (x12 * x33 - x23 * x13) + x13 * (x12 * x23 - x22 * x13)).
Theorem hard_sphere_lambda_ratio_3 :
  ratio3 (av v11_11 v12_11) (av v11_12 v12_12) (av v11_13 v12_13) (av v11_22 v12_22) (av v11_23 v12_23) (av v11_33 v12_33)
  = 60989 / 59512 /\ Rabs (60989 / 59512 - 1.02482) < 5 / 1000000.
Proof.
  rewrite a11, a12, a13, a22, a23, a33. split; [unfold ratio3; field|].
  apply Rabs_def1; lra.
Qed.

