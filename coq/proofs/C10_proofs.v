(* Lemmas behind thm/C10.v: internal energies increase with temperature (frozen heat capacity positive);
   ideal-mixture pressure response of exact minimisers (revealed preference); single ionisation in closed form. *)
From Coq Require Import Reals List Lra Lia Arith ZArith.
Import ListNotations.
From MPC Require Import Num Species RInst StatMech RVec RSumIdx GenSpecies GenMixture RefEnergy Gibbs
                        C07_proofs C08_proofs C01_proofs C02_proofs C09_proofs C15_proofs.
Open Scope R_scope.

(* ------------------------------------------------------------------------------------------------ *)
(* A. the Boltzmann mean of the level energies does not decrease with temperature                     *)
(* ------------------------------------------------------------------------------------------------ *)
Section LevelMean.
Variables (kB T1 T2 : R).
Hypothesis HkB : 0 < kB.
Hypothesis HT1 : 0 < T1.
Hypothesis HT12 : T1 <= T2.

Let a (p : R * R) := level_weight kB T1 p.
Let b (p : R * R) := level_weight kB T2 p.
Definition g_ok (p : R * R) : Prop := 0 <= fst p.

Lemma beta_order : / (kB * T2) <= / (kB * T1).
Proof. apply Rinv_le_contravar; [apply Rmult_lt_0_compat; assumption | apply Rmult_le_compat_l; lra]. Qed.

(* the likelihood ratio b/a is non-decreasing in the energy: (E_p - E_q) (a_p b_q - a_q b_p) <= 0 *)
Lemma pair_term p q : g_ok p -> g_ok q -> (snd p - snd q) * (a p * b q - a q * b p) <= 0.
Proof.
  intros Hp Hq. unfold a, b, level_weight. destruct p as [Jp Ep], q as [Jq Eq]. unfold g_ok in *. cbn [fst snd] in *.
  set (b1 := / (kB * T1)). set (b2 := / (kB * T2)).
  assert (Hb : b2 <= b1) by apply beta_order.
  replace (- Ep / (kB * T1)) with (- Ep * b1) by (unfold b1, Rdiv; ring).
  replace (- Eq / (kB * T2)) with (- Eq * b2) by (unfold b2, Rdiv; ring).
  replace (- Eq / (kB * T1)) with (- Eq * b1) by (unfold b1, Rdiv; ring).
  replace (- Ep / (kB * T2)) with (- Ep * b2) by (unfold b2, Rdiv; ring).
  replace ((2 * Jp + 1) * exp (- Ep * b1) * ((2 * Jq + 1) * exp (- Eq * b2)) - (2 * Jq + 1) * exp (- Eq * b1) * ((2 * Jp + 1) * exp (- Ep * b2)))
    with ((2 * Jp + 1) * (2 * Jq + 1) * (exp (- Ep * b1 + - Eq * b2) - exp (- Eq * b1 + - Ep * b2)))
    by (rewrite !exp_plus; ring).
  assert (Hg : 0 <= (2 * Jp + 1) * (2 * Jq + 1)) by (apply Rmult_le_pos; lra).
  destruct (Rle_lt_dec Ep Eq) as [Hle|Hlt].
  - (* E_p <= E_q: first exponent is the larger *)
    assert (He : exp (- Eq * b1 + - Ep * b2) <= exp (- Ep * b1 + - Eq * b2)).
    { destruct (Req_dec (- Eq * b1 + - Ep * b2) (- Ep * b1 + - Eq * b2)) as [->|Hne]; [lra|].
      left. apply exp_increasing. assert (0 <= (Eq - Ep) * (b1 - b2)) by (apply Rmult_le_pos; lra). lra. }
    assert (0 <= (2 * Jp + 1) * (2 * Jq + 1) * (exp (- Ep * b1 + - Eq * b2) - exp (- Eq * b1 + - Ep * b2)))
      by (apply Rmult_le_pos; lra).
    assert (Ep - Eq <= 0) by lra. nra.
  - assert (He : exp (- Ep * b1 + - Eq * b2) <= exp (- Eq * b1 + - Ep * b2)).
    { destruct (Req_dec (- Ep * b1 + - Eq * b2) (- Eq * b1 + - Ep * b2)) as [->|Hne]; [lra|].
      left. apply exp_increasing. assert (0 <= (Ep - Eq) * (b1 - b2)) by (apply Rmult_le_pos; lra). lra. }
    assert (0 <= (2 * Jp + 1) * (2 * Jq + 1) * (exp (- Eq * b1 + - Ep * b2) - exp (- Ep * b1 + - Eq * b2)))
      by (apply Rmult_le_pos; lra).
    assert (0 < Ep - Eq) by lra. nra.
Qed.

Definition Sa (l : list (R * R)) := Rsum (map a l).
Definition Sb (l : list (R * R)) := Rsum (map b l).
Definition SEa (l : list (R * R)) := Rsum (map (fun p => snd p * a p) l).
Definition SEb (l : list (R * R)) := Rsum (map (fun p => snd p * b p) l).

Lemma cross_step x (r : list (R * R)) :
  SEa (x :: r) * Sb (x :: r) - SEb (x :: r) * Sa (x :: r)
  = SEa r * Sb r - SEb r * Sa r + Rsum (map (fun q => (snd x - snd q) * (a x * b q - a q * b x)) r).
Proof.
  unfold SEa, SEb, Sa, Sb. cbn [map Rsum].
  assert (E : Rsum (map (fun q => (snd x - snd q) * (a x * b q - a q * b x)) r)
              = snd x * a x * Rsum (map b r) - snd x * b x * Rsum (map a r)
                - a x * Rsum (map (fun p => snd p * b p) r) + b x * Rsum (map (fun p => snd p * a p) r)).
  { induction r as [|q r IH]; cbn [map Rsum]; [ring | rewrite IH; ring]. }
  rewrite E. ring.
Qed.

Lemma cross_nonpos (l : list (R * R)) : Forall g_ok l -> SEa l * Sb l - SEb l * Sa l <= 0.
Proof.
  intros H. induction H as [|x r Hx Hr IH]; [unfold SEa, SEb, Sa, Sb; cbn; lra|].
  rewrite cross_step.
  assert (Rsum (map (fun q => (snd x - snd q) * (a x * b q - a q * b x)) r) <= 0).
  { clear IH. induction Hr as [|q r Hq _ IH]; cbn [map Rsum]; [lra|]. assert (G := pair_term x q Hx Hq). lra. }
  lra.
Qed.

(* mean energy at T1 <= mean energy at T2 *)
Lemma level_mean_monotone (l : list (R * R)) :
  Forall g_ok l -> 0 < Sa l -> 0 < Sb l -> SEa l / Sa l <= SEb l / Sb l.
Proof.
  intros H Ha Hb. assert (G := cross_nonpos l H).
  apply Rmult_le_reg_r with (r := Sa l * Sb l); [apply Rmult_lt_0_compat; assumption|].
  replace (SEa l / Sa l * (Sa l * Sb l)) with (SEa l * Sb l) by (field; lra).
  replace (SEb l / Sb l * (Sa l * Sb l)) with (SEb l * Sa l) by (field; lra). lra.
Qed.
End LevelMean.

(* ------------------------------------------------------------------------------------------------ *)
(* B. tanh is monotone on the positive axis; the harmonic-oscillator energy increases with temperature *)
(* ------------------------------------------------------------------------------------------------ *)
Lemma tanh_exp x : tanh x = (exp x - exp (- x)) / (exp x + exp (- x)).
Proof.
  unfold tanh, sinh, cosh. assert (0 < exp x) by apply exp_pos. assert (0 < exp (- x)) by apply exp_pos. field. lra.
Qed.

Lemma tanh_pos x : 0 < x -> 0 < tanh x.
Proof.
  intros Hx. rewrite tanh_exp. assert (0 < exp (- x)) by apply exp_pos.
  assert (exp (- x) < exp x) by (apply exp_increasing; lra).
  apply Rdiv_lt_0_compat; lra.
Qed.

Lemma tanh_monotone x y : 0 < x -> x <= y -> tanh x <= tanh y.
Proof.
  intros Hx Hxy. rewrite !tanh_exp.
  assert (Ex : exp (- x) = / exp x) by apply exp_Ropp. assert (Ey : exp (- y) = / exp y) by apply exp_Ropp.
  rewrite Ex, Ey. set (u := exp x). set (v := exp y).
  assert (Hu : 1 < u) by (unfold u; rewrite <- exp_0; apply exp_increasing; lra).
  assert (Huv : u <= v).
  { unfold u, v. destruct (Req_dec x y) as [->|Hne]; [lra | left; apply exp_increasing; lra]. }
  replace ((u - / u) / (u + / u)) with ((u * u - 1) / (u * u + 1)) by (field; split; nra).
  replace ((v - / v) / (v + / v)) with ((v * v - 1) / (v * v + 1)) by (field; split; nra).
  apply Rmult_le_reg_r with (r := (u * u + 1) * (v * v + 1)); [nra|].
  replace ((u * u - 1) / (u * u + 1) * ((u * u + 1) * (v * v + 1))) with ((u * u - 1) * (v * v + 1)) by (field; nra).
  replace ((v * v - 1) / (v * v + 1) * ((u * u + 1) * (v * v + 1))) with ((v * v - 1) * (u * u + 1)) by (field; nra).
  nra.
Qed.

Lemma Evib_monotone kB w T1 T2 : 0 < kB -> 0 < w -> 0 < T1 -> T1 <= T2 -> Evib kB w T1 <= Evib kB w T2.
Proof.
  intros Hk Hw HT1 HT. unfold Evib.
  assert (H1 : 0 < kB * T1) by (apply Rmult_lt_0_compat; assumption).
  assert (H2 : 0 < kB * T2) by (apply Rmult_lt_0_compat; lra).
  set (x1 := w / (2 * (kB * T1))). set (x2 := w / (2 * (kB * T2))).
  assert (Hx2 : 0 < x2) by (unfold x2; apply Rdiv_lt_0_compat; lra).
  assert (Hx : x2 <= x1).
  { unfold x1, x2, Rdiv. apply Rmult_le_compat_l; [lra|]. apply Rinv_le_contravar; [lra|].
    apply Rmult_le_compat_l; [lra|]. apply Rmult_le_compat_l; lra. }
  assert (Ht2 : 0 < tanh x2) by (apply tanh_pos; exact Hx2).
  assert (Ht : tanh x2 <= tanh x1) by (apply tanh_monotone; assumption).
  unfold Rdiv. apply Rmult_le_compat_l; [lra|]. apply Rinv_le_contravar; lra.
Qed.

Lemma Evib_sum_monotone kB (ws : list R) T1 T2 :
  0 < kB -> Forall (fun w => 0 < w) ws -> 0 < T1 -> T1 <= T2 ->
  Rsum (map (fun w => Evib kB w T1) ws) <= Rsum (map (fun w => Evib kB w T2) ws).
Proof.
  intros Hk Hws HT1 HT. induction Hws as [|w ws Hw _ IH]; cbn [map Rsum]; [lra|].
  assert (G := Evib_monotone kB w T1 T2 Hk Hw HT1 HT). lra.
Qed.

(* ------------------------------------------------------------------------------------------------ *)
(* C. the internal energy kernels (regenerated from species.py) strictly increase with temperature    *)
(* ------------------------------------------------------------------------------------------------ *)
Section Uinc.
Variable U : Units R.
Notation kB := (k_b U).
Hypothesis HkB : 0 < kB.
Hypothesis HNA : 0 < N_a U.
Hypothesis Hh : h_pl U <> 0.

Lemma mono_U_increasing (s : species R) T1 T2 dE :
  0 < T1 -> T1 < T2 ->
  (forall JE, In JE (energy_levels s) -> 0 <= fst JE) ->
  (exists JE, In JE (energy_levels s) /\ snd JE < ionisation_energy s - dE) ->
  mono_U RNum U s T1 dE < mono_U RNum U s T2 dE.
Proof.
  intros HT1 HT HJ Hb.
  assert (HZ1 := mono_Zint_pos U s T1 dE HJ Hb). assert (HZ2 := mono_Zint_pos U s T2 dE HJ Hb).
  rewrite (mono_Zint_eq_spec U) in HZ1, HZ2. rewrite !(mono_U_eq_spec U). unfold Umono_spec, Zint_mono_spec in *.
  set (bl := bound_levels (ionisation_energy s) dE (energy_levels s)) in *.
  assert (Hg : Forall g_ok bl).
  { apply Forall_forall. intros p Hp. unfold bl, bound_levels in Hp. apply filter_In in Hp. apply HJ, Hp. }
  assert (G := level_mean_monotone kB T1 T2 HkB HT1 (Rlt_le _ _ HT) bl Hg HZ1 HZ2).
  unfold SEa, SEb, Sa, Sb in G.
  change (Rsum (map (fun JE => snd JE * level_weight kB T1 JE) bl) / Rsum (map (level_weight kB T1) bl)
          <= Rsum (map (fun JE => snd JE * level_weight kB T2 JE) bl) / Rsum (map (level_weight kB T2) bl)) in G.
  assert (3 / 2 * kB * T1 < 3 / 2 * kB * T2) by (apply Rmult_lt_compat_l; [lra | exact HT]). lra.
Qed.

Lemma di_U_increasing (s : species R) T1 T2 dE :
  0 < T1 -> T1 < T2 -> 0 < w_e s -> di_U RNum U s T1 dE < di_U RNum U s T2 dE.
Proof.
  intros HT1 HT Hw. unfold di_U. rnum. fold (Evib kB (w_e s) T1). fold (Evib kB (w_e s) T2).
  assert (G := Evib_monotone kB (w_e s) T1 T2 HkB Hw HT1 (Rlt_le _ _ HT)).
  assert (kB * T1 < kB * T2) by (apply Rmult_lt_compat_l; assumption). lra.
Qed.

Lemma poly_U_increasing (s : species R) T1 T2 dE :
  0 < T1 -> T1 < T2 -> Forall (fun w => 0 < w) (wi_e s) -> poly_U RNum U s T1 dE < poly_U RNum U s T2 dE.
Proof.
  intros HT1 HT Hw. unfold poly_U. cbv zeta. rewrite !(vib_sum_eq U). rnum.
  assert (G := Evib_sum_monotone kB (wi_e s) T1 T2 HkB Hw HT1 (Rlt_le _ _ HT)).
  assert (kB * T1 < kB * T2) by (apply Rmult_lt_compat_l; assumption). destruct (linear_yn s); lra.
Qed.

Lemma electron_U_increasing (s : species R) T1 T2 dE : T1 < T2 -> electron_U RNum U s T1 dE < electron_U RNum U s T2 dE.
Proof. intros HT. unfold electron_U. rnum. apply Rplus_lt_compat_r, Rmult_lt_compat_l; [lra | exact HT]. Qed.

(* data conditions under which the class's formula is meaningful *)
Definition thermo_ok (s : species R) (dE : R) : Prop :=
  match kind s with
  | KMono => (forall JE, In JE (energy_levels s) -> 0 <= fst JE) /\
             (exists JE, In JE (energy_levels s) /\ snd JE < ionisation_energy s - dE)
  | KDi => 0 < w_e s
  | KPoly => Forall (fun w => 0 < w) (wi_e s)
  | KElectron => True
  end.

Lemma Uint_increasing (s : species R) T1 T2 dE :
  0 < T1 -> T1 < T2 -> thermo_ok s dE -> Uint RNum U s T1 dE < Uint RNum U s T2 dE.
Proof.
  intros HT1 HT Hok. unfold Uint, thermo_ok in *. destruct (kind s).
  - destruct Hok as [HJ Hb]. apply mono_U_increasing; assumption.
  - apply di_U_increasing; assumption.
  - apply poly_U_increasing; assumption.
  - apply electron_U_increasing; assumption.
Qed.

(* per-particle enthalpy at fixed reference energy and lowering *)
Lemma h_particle_increasing (e : entry) T1 T2 :
  0 < T1 -> T1 < T2 -> thermo_ok (e_sp e) (e_dE e) -> h_particle U T1 e < h_particle U T2 e.
Proof.
  intros HT1 HT Hok. unfold h_particle. assert (G := Uint_increasing (e_sp e) T1 T2 (e_dE e) HT1 HT Hok).
  assert (kB * T1 < kB * T2) by (apply Rmult_lt_compat_l; assumption). lra.
Qed.

(* frozen heat capacity is positive: with composition, reference energies and lowerings held fixed the mixture
   enthalpy (regenerated kernel) strictly increases with temperature *)
Lemma frozen_enthalpy_increasing (l : list entry) T1 T2 :
  0 < T1 -> T1 < T2 ->
  Forall (fun e => 0 < molar_mass (e_sp e) /\ 0 <= e_n e /\ thermo_ok (e_sp e) (e_dE e)) l ->
  Exists (fun e => 0 < e_n e) l ->
  enthalpy RNum U T1 (map e_sp l) (map e_n l) (map e_E0 l) (map e_dE l)
  < enthalpy RNum U T2 (map e_sp l) (map e_n l) (map e_E0 l) (map e_dE l).
Proof.
  intros HT1 HT Hall Hex.
  assert (HM : Forall (fun e => molar_mass (e_sp e) <> 0) l).
  { apply Forall_forall. intros e He. rewrite Forall_forall in Hall. destruct (Hall e He) as [H _]. lra. }
  assert (Hrho : 0 < density_spec U l).
  { unfold density_spec. apply Rdiv_lt_0_compat; [|assumption].
    clear HM. induction Hall as [|e l [He1 [He2 He3]] Hall IH]; [inversion Hex|]. cbn [map Rsum].
    assert (0 <= Rsum (map (fun e0 => e_n e0 * molar_mass (e_sp e0)) l)).
    { apply Rsum_nonneg. intros x Hx. apply in_map_iff in Hx. destruct Hx as [e' [<- He']].
      rewrite Forall_forall in Hall. destruct (Hall e' He') as [G1 [G2 _]]. apply Rmult_le_pos; lra. }
    inversion Hex as [? ? Hpos | ? ? Hrest]; subst.
    - assert (0 < e_n e * molar_mass (e_sp e)) by (apply Rmult_lt_0_compat; assumption). lra.
    - assert (0 <= e_n e * molar_mass (e_sp e)) by (apply Rmult_le_pos; lra). specialize (IH Hrest). lra. }
  assert (D := enthalpy_difference U T1 T2 l l HM HM (Rgt_not_eq _ _ HNA) (Rgt_not_eq _ _ Hrho) (Rgt_not_eq _ _ Hrho) eq_refl).
  assert (S : Rsum (map (fun e => e_n e * h_particle U T1 e) l) < Rsum (map (fun e => e_n e * h_particle U T2 e) l)).
  { clear D HM Hrho. induction Hall as [|e l [He1 [He2 He3]] Hall IH]; [inversion Hex|]. cbn [map Rsum].
    assert (Hh' := h_particle_increasing e T1 T2 HT1 HT He3).
    assert (Hle : Rsum (map (fun e0 => e_n e0 * h_particle U T1 e0) l) <= Rsum (map (fun e0 => e_n e0 * h_particle U T2 e0) l)).
    { clear IH Hex. induction Hall as [|e' l' [G1 [G2 G3]] _ IH']; cbn [map Rsum]; [lra|].
      assert (G := h_particle_increasing e' T1 T2 HT1 HT G3). nra. }
    inversion Hex as [? ? Hpos | ? ? Hrest]; subst.
    - nra.
    - specialize (IH Hrest). nra. }
  assert (Rsum (map (fun e => e_n e * h_particle U T1 e) l) / density_spec U l
          < Rsum (map (fun e => e_n e * h_particle U T2 e) l) / density_spec U l).
  { unfold Rdiv. apply Rmult_lt_compat_r; [apply Rinv_0_lt_compat; exact Hrho | exact S]. }
  lra.
Qed.
End Uinc.

(* ------------------------------------------------------------------------------------------------ *)
(* D. ideal mixture: response of exact minimisers to pressure (revealed preference)                   *)
(* ------------------------------------------------------------------------------------------------ *)
Section Pressure.
Variable U : Units R.
Notation kB := (k_b U).

(* Gibbs function of the composition l at (T, P), from the chemical-potential kernel of the solver model:
   G = sum_i N_i mu_i(T, V(T, P, N)), reference energies and lowerings as carried by the entries *)
Definition Gibbs_fn (T P : R) (l : list entry) : R :=
  Rsum (map (fun e => e_n e * mu_entry RNum U T (volume RNum U T P (map e_n l)) (e_sp e) (e_n e) (e_E0 e) (e_dE e)) l).
Definition Ntot (l : list entry) : R := Rsum (map e_n l).
Definition entry_pos (T : R) (e : entry) : Prop :=
  0 < e_n e /\ 0 < translational_Z RNum U (e_sp e) T * Zint RNum U (e_sp e) T (e_dE e).

Lemma volume_R T P Ni : volume RNum U T P Ni = Rsum Ni * (kB * T) / P.
Proof. unfold volume, kT. rnum. rewrite sum_list_Rsum. reflexivity. Qed.

Lemma mu_pressure_shift T P1 P2 S (sp : species R) n e0 de :
  0 < kB * T -> 0 < P1 -> 0 < P2 -> 0 < S -> 0 < n -> 0 < translational_Z RNum U sp T * Zint RNum U sp T de ->
  mu_entry RNum U T (S * (kB * T) / P2) sp n e0 de
  = mu_entry RNum U T (S * (kB * T) / P1) sp n e0 de + kB * T * ln (P2 / P1).
Proof.
  intros HkT HP1 HP2 HS Hn Hq.
  assert (HV1 : 0 < S * (kB * T) / P1) by (apply Rdiv_lt_0_compat; [apply Rmult_lt_0_compat|]; assumption).
  assert (HV2 : 0 < S * (kB * T) / P2) by (apply Rdiv_lt_0_compat; [apply Rmult_lt_0_compat|]; assumption).
  rewrite !(mu_log_form U) by assumption.
  set (kt := kB * T) in *. clearbody kt.
  assert (E : ln (n / (S * kt / P2)) = ln (n / (S * kt / P1)) + ln (P2 / P1)).
  { rewrite <- ln_mult; [|apply Rdiv_lt_0_compat; assumption | apply Rdiv_lt_0_compat; assumption].
    f_equal. field. repeat split; lra. }
  rewrite E. ring.
Qed.

(* G(N; P2) = G(N; P1) + kT ln(P2/P1) sum N *)
Lemma Gibbs_pressure_shift T P1 P2 (l : list entry) :
  0 < kB * T -> 0 < P1 -> 0 < P2 -> l <> [] -> Forall (entry_pos T) l ->
  Gibbs_fn T P2 l = Gibbs_fn T P1 l + kB * T * ln (P2 / P1) * Ntot l.
Proof.
  intros HkT HP1 HP2 Hne Hall. unfold Gibbs_fn, Ntot. rewrite !volume_R.
  assert (HS : 0 < Rsum (map e_n l)).
  { apply Forall_pos_sum; [destruct l; [congruence | discriminate]|].
    apply Forall_forall. intros x Hx. apply in_map_iff in Hx. destruct Hx as [e [<- He]].
    rewrite Forall_forall in Hall. apply (Hall e He). }
  assert (G : forall S, 0 < S ->
    Rsum (map (fun e => e_n e * mu_entry RNum U T (S * (kB * T) / P2) (e_sp e) (e_n e) (e_E0 e) (e_dE e)) l)
    = Rsum (map (fun e => e_n e * mu_entry RNum U T (S * (kB * T) / P1) (e_sp e) (e_n e) (e_E0 e) (e_dE e)) l)
      + kB * T * ln (P2 / P1) * Rsum (map e_n l)).
  { intros S HS'. clear HS Hne. induction Hall as [|e l [Hn Hq] _ IH]; cbn [map Rsum]; [ring|].
    rewrite (mu_pressure_shift T P1 P2 S (e_sp e) (e_n e) (e_E0 e) (e_dE e)) by assumption.
    rewrite IH. ring. }
  apply G, HS.
Qed.

(* Le Chatelier for exact minimisers of the ideal Gibbs function: if l1 is at least as good as l2 at P1 and
   l2 at least as good as l1 at P2 > P1, the total particle number at P2 is not larger *)
Lemma pressure_response_ideal T P1 P2 (l1 l2 : list entry) :
  0 < kB * T -> 0 < P1 -> P1 < P2 -> l1 <> [] -> l2 <> [] -> Forall (entry_pos T) l1 -> Forall (entry_pos T) l2 ->
  Gibbs_fn T P1 l1 <= Gibbs_fn T P1 l2 -> Gibbs_fn T P2 l2 <= Gibbs_fn T P2 l1 ->
  Ntot l2 <= Ntot l1.
Proof.
  intros HkT HP1 HP H1 H2 Ha1 Ha2 Hopt1 Hopt2.
  rewrite (Gibbs_pressure_shift T P1 P2 l1), (Gibbs_pressure_shift T P1 P2 l2) in Hopt2 by (assumption || lra).
  assert (Hc : 0 < kB * T * ln (P2 / P1)).
  { apply Rmult_lt_0_compat; [assumption|]. rewrite <- ln_1. apply ln_increasing; [lra|].
    apply Rmult_lt_reg_r with (r := P1); [assumption|]. replace (P2 / P1 * P1) with P2 by (field; lra). lra. }
  set (c := kB * T * ln (P2 / P1)) in *. nra.
Qed.

(* hence the mean molar mass (same total mass, by element conservation) does not decrease with pressure *)
Definition mass_of (l : list entry) : R := Rsum (map (fun e => e_n e * molar_mass (e_sp e)) l).
Lemma mean_molar_mass_response (l1 l2 : list entry) :
  0 < Ntot l2 -> Ntot l2 <= Ntot l1 -> mass_of l1 = mass_of l2 -> 0 <= mass_of l1 ->
  mass_of l1 / Ntot l1 <= mass_of l2 / Ntot l2.
Proof.
  intros H2 H12 Hm Hpos. rewrite <- Hm. unfold Rdiv. apply Rmult_le_compat_l; [assumption|].
  apply Rinv_le_contravar; assumption.
Qed.
End Pressure.

(* ------------------------------------------------------------------------------------------------ *)
(* E. single ionisation X <-> X+ + e in closed form                                                   *)
(* ------------------------------------------------------------------------------------------------ *)
(* mass action between the three chemical potentials (the fixed-point condition of C01) fixes c+ ce / c0 to a
   quantity that does not involve the pressure *)
Lemma saha_constant_from_mass_action (U : Units R) T V (s0 sp se : species R) n0 np ne e0 ep ee d0 dp de :
  0 < k_b U * T -> 0 < V -> 0 < n0 -> 0 < np -> 0 < ne ->
  0 < translational_Z RNum U s0 T * Zint RNum U s0 T d0 ->
  0 < translational_Z RNum U sp T * Zint RNum U sp T dp ->
  0 < translational_Z RNum U se T * Zint RNum U se T de ->
  mu_entry RNum U T V s0 n0 e0 d0 = mu_entry RNum U T V sp np ep dp + mu_entry RNum U T V se ne ee de ->
  (np / V) * (ne / V) / (n0 / V)
  = translational_Z RNum U sp T * Zint RNum U sp T dp * (translational_Z RNum U se T * Zint RNum U se T de)
    / (translational_Z RNum U s0 T * Zint RNum U s0 T d0) * exp (- (ep + ee - e0) / (k_b U * T)).
Proof.
  intros HkT HV H0 Hp He Hq0 Hqp Hqe Hmu.
  rewrite !(mu_log_form U) in Hmu by assumption.
  set (q0 := translational_Z RNum U s0 T * Zint RNum U s0 T d0) in *.
  set (qp := translational_Z RNum U sp T * Zint RNum U sp T dp) in *.
  set (qe := translational_Z RNum U se T * Zint RNum U se T de) in *.
  assert (Hc0 : 0 < n0 / V) by (apply Rdiv_lt_0_compat; assumption).
  assert (Hcp : 0 < np / V) by (apply Rdiv_lt_0_compat; assumption).
  assert (Hce : 0 < ne / V) by (apply Rdiv_lt_0_compat; assumption).
  set (c0 := n0 / V) in *. set (cp := np / V) in *. set (ce := ne / V) in *.
  assert (L : ln (cp * ce / c0) = ln (qp * qe / q0) + - (ep + ee - e0) / (k_b U * T)).
  { set (kt := k_b U * T) in *. clearbody kt.
    unfold Rdiv at 1 2. rewrite !ln_mult, !ln_Rinv; try assumption;
      try (apply Rmult_lt_0_compat; assumption); try (apply Rinv_0_lt_compat; assumption).
    set (A0 := ln q0) in *. set (Ap := ln qp) in *. set (Ae := ln qe) in *.
    set (B0 := ln c0) in *. set (Bp := ln cp) in *. set (Be := ln ce) in *.
    assert (X : ep + ee - e0 = kt * ((Ap + Ae - A0) - (Bp + Be - B0))) by lra.
    rewrite X. field. lra. }
  apply ln_inv.
  - apply Rdiv_lt_0_compat; [apply Rmult_lt_0_compat|]; assumption.
  - apply Rmult_lt_0_compat; [apply Rdiv_lt_0_compat; [apply Rmult_lt_0_compat|]; assumption | apply exp_pos].
  - rewrite L. rewrite ln_mult; [|apply Rdiv_lt_0_compat; [apply Rmult_lt_0_compat|]; assumption | apply exp_pos].
    rewrite ln_exp. reflexivity.
Qed.

(* two ideal-gas states of {X, X+, e} at the same temperature: same Saha constant, neutrality, p = n kT.
   The electron mole fraction strictly decreases with pressure. *)
Lemma single_ionisation_pressure (S n1 n2 c0 ce c0' ce' : R) :
  0 < S -> 0 < n1 -> n1 < n2 -> 0 < c0 -> 0 < ce -> 0 < c0' -> 0 < ce' ->
  c0 + ce + ce = n1 -> c0' + ce' + ce' = n2 ->
  ce * ce = S * c0 -> ce' * ce' = S * c0' ->
  ce' / n2 < ce / n1.
Proof.
  intros HS Hn1 Hn H0 He H0' He' Hs1 Hs2 Hm1 Hm2.
  set (x := ce / n1). set (y := ce' / n2).
  assert (Hx : 0 < x) by (apply Rdiv_lt_0_compat; assumption).
  assert (Hy : 0 < y) by (apply Rdiv_lt_0_compat; lra).
  assert (Ex : x * x * n1 + 2 * S * x = S).
  { unfold x. apply Rmult_eq_reg_r with (r := n1); [|lra]. field_simplify; [|lra]. subst n1. nra. }
  assert (Ey : y * y * n2 + 2 * S * y = S).
  { unfold y. apply Rmult_eq_reg_r with (r := n2); [|lra]. field_simplify; [|lra]. subst n2. nra. }
  destruct (Rlt_le_dec y x) as [Hlt|Hge]; [exact Hlt|]. exfalso.
  assert (x * x <= y * y) by nra.
  assert (x * x * n1 < y * y * n2).
  { apply Rle_lt_trans with (r2 := y * y * n1); [apply Rmult_le_compat_r; lra|]. apply Rmult_lt_compat_l; [nra | exact Hn]. }
  nra.
Qed.
