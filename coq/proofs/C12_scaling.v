From Coq Require Import Reals List Lra Lia Arith ZArith.
Import ListNotations.
From MPC Require Import Num Species RInst StatMech RVec RSumIdx GenTransport Transport.
Open Scope R_scope.

(* every generated block is homogeneous of degree 2 in the densities (collision integrals held fixed), straight from
   the generated definitions — no reference to the first-principles tables, so q22 / q23 are covered as they stand *)
Ltac homog :=
  cbv zeta; rnum; rewrite !sum_left_R, !Rplus_0_l; rewrite <- !Rsum_map_scal, ?map_map;
  apply Rsum_map_ext_in; intros l _; cbv beta; unfold Rdiv; ring.

Section Homog.
Variables (masses nd : nat -> R) (nb : nat) (c : R).
Variables Q11 Q12 Q13 Q14 Q15 Q16 Q17 Q22 Q23 Q24 Q25 Q26 Q33 Q34 Q35 Q44 : nat -> nat -> R.
Notation ndc := (fun i => c * nd i).

Lemma q00_homog i j : q00 RNum Q11 masses nb ndc i j = c ^ 2 * q00 RNum Q11 masses nb nd i j.
Proof. unfold q00. homog. Qed.
Lemma q01_homog i j : q01 RNum Q11 Q12 masses nb ndc i j = c ^ 2 * q01 RNum Q11 Q12 masses nb nd i j.
Proof. unfold q01. homog. Qed.
Lemma q02_homog i j : q02 RNum Q11 Q12 Q13 masses nb ndc i j = c ^ 2 * q02 RNum Q11 Q12 Q13 masses nb nd i j.
Proof. unfold q02. homog. Qed.
Lemma q03_homog i j : q03 RNum Q11 Q12 Q13 Q14 masses nb ndc i j = c ^ 2 * q03 RNum Q11 Q12 Q13 Q14 masses nb nd i j.
Proof. unfold q03. homog. Qed.
Lemma q11_homog i j : q11 RNum Q11 Q12 Q13 Q22 masses nb ndc i j = c ^ 2 * q11 RNum Q11 Q12 Q13 Q22 masses nb nd i j.
Proof. unfold q11. homog. Qed.
Lemma q12_homog i j : q12 RNum Q11 Q12 Q13 Q14 Q22 Q23 masses nb ndc i j = c ^ 2 * q12 RNum Q11 Q12 Q13 Q14 Q22 Q23 masses nb nd i j.
Proof. unfold q12. homog. Qed.
Lemma q13_homog i j :
  q13 RNum Q11 Q12 Q13 Q14 Q15 Q22 Q23 Q24 masses nb ndc i j = c ^ 2 * q13 RNum Q11 Q12 Q13 Q14 Q15 Q22 Q23 Q24 masses nb nd i j.
Proof. unfold q13. homog. Qed.
Lemma q22_homog i j :
  q22 RNum Q11 Q12 Q13 Q14 Q15 Q22 Q23 Q24 Q33 masses nb ndc i j = c ^ 2 * q22 RNum Q11 Q12 Q13 Q14 Q15 Q22 Q23 Q24 Q33 masses nb nd i j.
Proof. unfold q22. homog. Qed.
Lemma q23_homog i j :
  q23 RNum Q11 Q12 Q13 Q14 Q15 Q16 Q22 Q23 Q24 Q25 Q33 Q34 masses nb ndc i j
  = c ^ 2 * q23 RNum Q11 Q12 Q13 Q14 Q15 Q16 Q22 Q23 Q24 Q25 Q33 Q34 masses nb nd i j.
Proof. unfold q23. homog. Qed.
Lemma q33_homog i j :
  q33 RNum Q11 Q12 Q13 Q14 Q15 Q16 Q17 Q22 Q23 Q24 Q25 Q26 Q33 Q34 Q35 Q44 masses nb ndc i j
  = c ^ 2 * q33 RNum Q11 Q12 Q13 Q14 Q15 Q16 Q17 Q22 Q23 Q24 Q25 Q26 Q33 Q34 Q35 Q44 masses nb nd i j.
Proof. unfold q33. homog. Qed.
Lemma qhat00_homog i j : qhat00 RNum Q11 Q22 masses nb ndc i j = c ^ 2 * qhat00 RNum Q11 Q22 masses nb nd i j.
Proof. unfold qhat00. homog. Qed.
Lemma qhat01_homog i j : qhat01 RNum Q11 Q12 Q22 Q23 masses nb ndc i j = c ^ 2 * qhat01 RNum Q11 Q12 Q22 Q23 masses nb nd i j.
Proof. unfold qhat01. homog. Qed.
Lemma qhat11_homog i j :
  qhat11 RNum Q11 Q12 Q13 Q22 Q23 Q24 Q33 masses nb ndc i j = c ^ 2 * qhat11 RNum Q11 Q12 Q13 Q22 Q23 Q24 Q33 masses nb nd i j.
Proof. unfold qhat11. homog. Qed.
End Homog.

(* ---- the assembled matrices, and what density scaling does to the two linear systems and their outputs ---- *)
Section Systems.
Variables (masses nd : nat -> R) (nb : nat).
Variable Q : @qints R.
Variable U : Units R.
Variable T : R.

Lemma qhatentry_scal c r col :
  qhatentry RNum Q masses nb (fun i => c * nd i) r col = c ^ 2 * qhatentry RNum Q masses nb nd r col.
Proof.
  unfold qhatentry, qhatblock, h00, h01, h11, mr. rnum.
  destruct (r / nb)%nat as [|[|a]], (col / nb)%nat as [|[|b]]; rewrite ?qhat00_homog, ?qhat01_homog, ?qhat11_homog; ring.
Qed.

Lemma qentry_scal c r col :
  qentry RNum Q masses nb (fun i => c * nd i) r col = c ^ 2 * qentry RNum Q masses nb nd r col.
Proof.
  unfold qentry, qblock, b00, b01, b02, b03, b11, b12, b13, b22, b23, b33, mr. rnum.
  destruct (r / nb)%nat as [|[|[|[|a]]]], (col / nb)%nat as [|[|[|[|b]]]];
    rewrite ?q00_homog, ?q01_homog, ?q02_homog, ?q03_homog, ?q11_homog, ?q12_homog, ?q13_homog, ?q22_homog, ?q23_homog, ?q33_homog; ring.
Qed.

(* functions_transport.viscosity: qhat b = (5 n sqrt(2 pi m / kT), 0), eta = 1/2 kT sum n_i b_{0,i} *)
Definition visc_system (nd' : nat -> R) (x : nat -> R) : Prop :=
  forall r, (r < 2 * nb)%nat ->
    sumn (2 * nb) (fun col => qhatentry RNum Q masses nb nd' r col * x col)
    = if Nat.ltb r nb then visc_rhs0 RNum U T masses nd' r else 0.

Theorem viscosity_density_scaling c x :
  c <> 0 -> visc_system nd x ->
  visc_system (fun i => c * nd i) (fun col => x col / c) /\
  visc_value RNum U T (fun i => c * nd i) nb (fun col => x col / c) = visc_value RNum U T nd nb x.
Proof.
  intros Hc Hsys. split.
  - intros r Hr. specialize (Hsys r Hr).
    rewrite (sumn_ext _ _ (fun col => c * (qhatentry RNum Q masses nb nd r col * x col))).
    + rewrite sumn_scal, Hsys. destruct (Nat.ltb r nb); [|ring]. unfold visc_rhs0. rnum. ring.
    + intros col _. cbv beta. rewrite qhatentry_scal. generalize (qhatentry RNum Q masses nb nd r col) (x col). intros qe xc. field. exact Hc.
  - unfold visc_value. rewrite !sum_left_R. f_equal.
    change (sumn nb (fun i => c * nd i * (x i / c)) = sumn nb (fun i => nd i * x i)).
    apply sumn_ext. intros i _. cbv beta. generalize (nd i) (x i). intros a b. field. exact Hc.
Qed.

(* functions_transport.thermal_conductivity, translational part: q a = (0, -15/2 sqrt(pi) n, 0, 0),
   k' = -5/4 k_B sum n_i sqrt(2 kT / m_i) a_{1,i}  (a_{1,i} = entry nb + i of the solution) *)
Definition kdash_system (nd' : nat -> R) (x : nat -> R) : Prop :=
  forall r, (r < 4 * nb)%nat ->
    sumn (4 * nb) (fun col => qentry RNum Q masses nb nd' r col * x col)
    = if (Nat.leb nb r && Nat.ltb r (2 * nb))%bool then DTi_rhs1 RNum nd' (r - nb) else 0.

Theorem kdash_density_scaling c x :
  c <> 0 -> kdash_system nd x ->
  kdash_system (fun i => c * nd i) (fun col => x col / c) /\
  kdash_value RNum U T masses (fun i => c * nd i) nb (fun i => x (nb + i)%nat / c) = kdash_value RNum U T masses nd nb (fun i => x (nb + i)%nat).
Proof.
  intros Hc Hsys. split.
  - intros r Hr. specialize (Hsys r Hr).
    rewrite (sumn_ext _ _ (fun col => c * (qentry RNum Q masses nb nd r col * x col))).
    + rewrite sumn_scal, Hsys. destruct (Nat.leb nb r && Nat.ltb r (2 * nb))%bool; [|ring]. unfold DTi_rhs1. rnum. ring.
    + intros col _. cbv beta. rewrite qentry_scal. generalize (qentry RNum Q masses nb nd r col) (x col). intros qe xc. field. exact Hc.
  - unfold kdash_value. rewrite !sum_left_R. f_equal.
    change (sumn nb (fun i => c * nd i * nsqrt RNum (nofZ RNum 2 * kTv RNum U T / masses i) * (x (nb + i)%nat / c))
            = sumn nb (fun i => nd i * nsqrt RNum (nofZ RNum 2 * kTv RNum U T / masses i) * x (nb + i)%nat)).
    apply sumn_ext. intros i _. cbv beta. generalize (nsqrt RNum (nofZ RNum 2 * kTv RNum U T / masses i)) (nd i) (x (nb + i)%nat). intros s a b. field. exact Hc.
Qed.
End Systems.
