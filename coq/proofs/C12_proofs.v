(* Lemmas behind thm/C12.v: conservation structure of the Devoto blocks (regenerated from functions_transport.py). *)
From Coq Require Import Reals List Lra Lia Arith ZArith.
Import ListNotations.
From MPC Require Import Num Species RInst StatMech RVec RSumIdx GenTransport Transport.
Open Scope R_scope.

Lemma Rpower_h1 x : 0 < x -> Rpower x (1 / 2) = sqrt x.
Proof. intros H. pose proof (Rpower_half_Z x 1 H) as E. cbn [Z.of_nat Pos.of_succ_nat pow] in E. rewrite E. ring. Qed.
Lemma Rpower_h3 x : 0 < x -> Rpower x (3 / 2) = sqrt x ^ 3.
Proof. intros H. exact (Rpower_half_Z x 3 H). Qed.
Lemma Rpower_h5 x : 0 < x -> Rpower x (5 / 2) = sqrt x ^ 5.
Proof. intros H. exact (Rpower_half_Z x 5 H). Qed.
Lemma Rpower_h7 x : 0 < x -> Rpower x (7 / 2) = sqrt x ^ 7.
Proof. intros H. exact (Rpower_half_Z x 7 H). Qed.
Lemma Rpower_h9 x : 0 < x -> Rpower x (9 / 2) = sqrt x ^ 9.
Proof. intros H. exact (Rpower_half_Z x 9 H). Qed.
Lemma Rpower_h11 x : 0 < x -> Rpower x (11 / 2) = sqrt x ^ 11.
Proof. intros H. exact (Rpower_half_Z x 11 H). Qed.
Lemma Rpower_h13 x : 0 < x -> Rpower x (13 / 2) = sqrt x ^ 13.
Proof. intros H. exact (Rpower_half_Z x 13 H). Qed.

Section C12.
Variables (masses nd : nat -> R) (nb : nat).
Hypothesis Hm : forall i, 0 < masses i.
Notation sm i := (sqrt (masses i)).
Notation sw i l := (sqrt (masses i + masses l)).

Lemma sm_pos i : 0 < sm i. Proof. apply sqrt_lt_R0, Hm. Qed.
Lemma sw_pos i l : 0 < sw i l. Proof. apply sqrt_lt_R0. pose proof (Hm i). pose proof (Hm l). lra. Qed.
Lemma sw_sym i l : sw i l = sw l i. Proof. f_equal. lra. Qed.
Lemma sqrt_ratio i j : sqrt (masses i / masses j) = sm i / sm j.
Proof. apply sqrt_div_pos; apply Hm. Qed.
Lemma ratio_pos i j : 0 < masses i / masses j. Proof. apply Rdiv_lt_0_compat; apply Hm. Qed.
Lemma msum_pos i l : 0 < masses i + masses l. Proof. pose proof (Hm i). pose proof (Hm l). lra. Qed.

(* q01: sum over the row index of column j vanishes for symmetric collision integrals *)
Lemma q01_form (Q11 Q12 : nat -> nat -> R) i j :
  q01 RNum Q11 Q12 masses nb nd i j =
  8 / sm j ^ 3 * sumn nb (fun l => (nd i * nd l * (sm i * sm l) ^ 3 / sw i l ^ 3 * (5 / 2 * Q11 i l - 3 * Q12 i l)) * (dlt i j - dlt j l)).
Proof.
  unfold q01. cbv zeta. rnum. rewrite sum_left_R. fold (sumn nb).
  rewrite (Rpower_h3 _ (ratio_pos i j)), sqrt_ratio.
  rewrite Rplus_0_l. unfold sumn.
  rewrite <- Rsum_map_scal. rewrite <- (Rsum_map_scal (8 / sm j ^ 3)). rewrite !map_map.
  apply Rsum_map_ext_in. intros l _. change (@delta R RNum) with dlt.
  rewrite (Rpower_h3 _ (Hm l)), (Rpower_h3 _ (msum_pos i l)).
  pose proof (sm_pos i). pose proof (sm_pos j). pose proof (sm_pos l). pose proof (sw_pos i l).
  field. repeat split; lra.
Qed.

Lemma col_sum_q01 (Q11 Q12 : nat -> nat -> R) j :
  (j < nb)%nat -> (forall i l, Q11 i l = Q11 l i) -> (forall i l, Q12 i l = Q12 l i) ->
  sumn nb (fun i => q01 RNum Q11 Q12 masses nb nd i j) = 0.
Proof.
  intros Hj H11 H12. rewrite (sumn_ext _ _ _ (fun i _ => q01_form Q11 Q12 i j)).
  rewrite sumn_scal. rewrite delta_antisym_sum; [lra | exact Hj |].
  intros i l. rewrite (sw_sym i l), (H11 i l), (H12 i l). unfold Rdiv. ring.
Qed.
Lemma q02_form (Q11 Q12 Q13 : nat -> nat -> R) i j :
  q02 RNum Q11 Q12 Q13 masses nb nd i j =
  8 / sm j ^ 5 * sumn nb (fun l => (nd i * nd l * (sm i * sm l) ^ 5 / sw i l ^ 5 * (35 / 8 * Q11 i l - 21 / 2 * Q12 i l + 6 * Q13 i l)) * (dlt i j - dlt j l)).
Proof.
  unfold q02. cbv zeta. rnum. rewrite sum_left_R. fold (sumn nb).
  rewrite (Rpower_h5 _ (ratio_pos i j)), sqrt_ratio.
  rewrite Rplus_0_l. unfold sumn.
  rewrite <- Rsum_map_scal. rewrite <- (Rsum_map_scal (8 / sm j ^ 5)). rewrite !map_map.
  apply Rsum_map_ext_in. intros l _. change (@delta R RNum) with dlt.
  rewrite (Rpower_h5 _ (Hm l)), (Rpower_h5 _ (msum_pos i l)).
  pose proof (sm_pos i). pose proof (sm_pos j). pose proof (sm_pos l). pose proof (sw_pos i l).
  field. repeat split; lra.
Qed.

Lemma col_sum_q02 (Q11 Q12 Q13 : nat -> nat -> R) j :
  (j < nb)%nat -> (forall i l, Q11 i l = Q11 l i) -> (forall i l, Q12 i l = Q12 l i) -> (forall i l, Q13 i l = Q13 l i) ->
  sumn nb (fun i => q02 RNum Q11 Q12 Q13 masses nb nd i j) = 0.
Proof.
  intros Hj H11 H12 H13. rewrite (sumn_ext _ _ _ (fun i _ => q02_form Q11 Q12 Q13 i j)).
  rewrite sumn_scal. rewrite delta_antisym_sum; [lra | exact Hj |].
  intros i l. rewrite (sw_sym i l), (H11 i l), (H12 i l), (H13 i l). unfold Rdiv. ring.
Qed.

Lemma q03_form (Q11 Q12 Q13 Q14 : nat -> nat -> R) i j :
  q03 RNum Q11 Q12 Q13 Q14 masses nb nd i j =
  8 / sm j ^ 7 * sumn nb (fun l => (nd i * nd l * (sm i * sm l) ^ 7 / sw i l ^ 7 *
                              (105 / 16 * Q11 i l - 189 / 8 * Q12 i l + 27 * Q13 i l - 10 * Q14 i l)) * (dlt i j - dlt j l)).
Proof.
  unfold q03. cbv zeta. rnum. rewrite sum_left_R. fold (sumn nb).
  rewrite (Rpower_h7 _ (ratio_pos i j)), sqrt_ratio.
  rewrite Rplus_0_l. unfold sumn.
  rewrite <- Rsum_map_scal. rewrite <- (Rsum_map_scal (8 / sm j ^ 7)). rewrite !map_map.
  apply Rsum_map_ext_in. intros l _. change (@delta R RNum) with dlt.
  rewrite (Rpower_h7 _ (Hm l)), (Rpower_h7 _ (msum_pos i l)).
  pose proof (sm_pos i). pose proof (sm_pos j). pose proof (sm_pos l). pose proof (sw_pos i l).
  field. repeat split; lra.
Qed.

Lemma col_sum_q03 (Q11 Q12 Q13 Q14 : nat -> nat -> R) j :
  (j < nb)%nat -> (forall i l, Q11 i l = Q11 l i) -> (forall i l, Q12 i l = Q12 l i) -> (forall i l, Q13 i l = Q13 l i) ->
  (forall i l, Q14 i l = Q14 l i) ->
  sumn nb (fun i => q03 RNum Q11 Q12 Q13 Q14 masses nb nd i j) = 0.
Proof.
  intros Hj H11 H12 H13 H14. rewrite (sumn_ext _ _ _ (fun i _ => q03_form Q11 Q12 Q13 Q14 i j)).
  rewrite sumn_scal. rewrite delta_antisym_sum; [lra | exact Hj |].
  intros i l. rewrite (sw_sym i l), (H11 i l), (H12 i l), (H13 i l), (H14 i l). unfold Rdiv. ring.
Qed.

(* q00: the antisymmetric part sums to zero; what remains is Devoto's constraint term *)
Definition Sconstraint (Q11 : nat -> nat -> R) : R :=
  8 * sumn nb (fun i => sumn nb (fun l => nd l * sm l / (sm i * sw i l) * Q11 i l * (1 - dlt i l))).

Lemma q00_form (Q11 : nat -> nat -> R) i j :
  q00 RNum Q11 masses nb nd i j =
  8 / sm j * sumn nb (fun l => (nd i * nd l * (sm i * sm l) / sw i l * Q11 i l) * (dlt i j - dlt j l))
  - nd j * sm j * (8 * sumn nb (fun l => nd l * sm l / (sm i * sw i l) * Q11 i l * (1 - dlt i l))).
Proof.
  unfold q00. cbv zeta. rnum. rewrite sum_left_R. fold (sumn nb). rewrite Rplus_0_l.
  set (G := fun l => (nd i * nd l * (sm i * sm l) / sw i l * Q11 i l) * (dlt i j - dlt j l)).
  set (H := fun l => nd l * sm l / (sm i * sw i l) * Q11 i l * (1 - dlt i l)).
  transitivity (sumn nb (fun l => 8 / sm j * G l - nd j * sm j * (8 * H l))).
  2: { rewrite sumn_minus, (sumn_scal nb (8 / sm j) G), (sumn_scal nb (nd j * sm j) (fun l => 8 * H l)), (sumn_scal nb 8 H). reflexivity. }
  unfold sumn. rewrite <- Rsum_map_scal, map_map. apply Rsum_map_ext_in. intros l _. unfold G, H. change (@delta R RNum) with dlt.
  assert (Hml : 0 < masses l / masses j) by apply ratio_pos.
  assert (Hmm : 0 < masses l * masses j) by (apply Rmult_lt_0_compat; apply Hm).
  rewrite (Rpower_h1 _ (Hm i)), (Rpower_h1 _ (msum_pos i l)), (Rpower_h1 _ Hml), (Rpower_h1 _ Hmm).
  rewrite sqrt_ratio, sqrt_mult by (left; apply Hm).
  assert (Emi : masses i = sm i * sm i) by (symmetry; apply sqrt_sqrt; left; apply Hm).
  pose proof (sm_pos i). pose proof (sm_pos j). pose proof (sm_pos l). pose proof (sw_pos i l).
  rewrite Emi at 3. field. repeat split; lra.
Qed.

Lemma col_sum_q00 (Q11 : nat -> nat -> R) j :
  (j < nb)%nat -> (forall i l, Q11 i l = Q11 l i) ->
  sumn nb (fun i => q00 RNum Q11 masses nb nd i j) = - (nd j * sm j * Sconstraint Q11).
Proof.
  intros Hj H11. rewrite (sumn_ext _ _ _ (fun i _ => q00_form Q11 i j)).
  rewrite sumn_minus, sumn_scal, sumn_scal. rewrite delta_antisym_sum; [|exact Hj|].
  - unfold Sconstraint. rewrite (sumn_scal nb 8). lra.
  - intros i l. rewrite (sw_sym i l), (H11 i l). unfold Rdiv. ring.
Qed.

(* ---- the momentum constraint carried by every solution of the first block row ---- *)
Section Momentum.
Variable Q : @qints R.
Hypothesis S11 : forall i l, I11 Q i l = I11 Q l i.
Hypothesis S12 : forall i l, I12 Q i l = I12 Q l i.
Hypothesis S13 : forall i l, I13 Q i l = I13 Q l i.
Hypothesis S14 : forall i l, I14 Q i l = I14 Q l i.
Notation blk := (qblock RNum Q masses nb nd).

(* rows (0, i), i < nb, of  q x = rhs *)
Definition row0 (x : nat -> nat -> R) (i : nat) : R :=
  sumn 4 (fun p => sumn nb (fun j => blk 0%nat p i j * x p j)).

Lemma row0_expand x i :
  row0 x i = sumn nb (fun j => b00 RNum Q masses nb nd i j * x 0%nat j) + sumn nb (fun j => b01 RNum Q masses nb nd i j * x 1%nat j)
           + sumn nb (fun j => b02 RNum Q masses nb nd i j * x 2%nat j) + sumn nb (fun j => b03 RNum Q masses nb nd i j * x 3%nat j).
Proof. unfold row0, sumn at 1. cbn [seq map Rsum qblock]. lra. Qed.

Lemma col_swap (B : nat -> nat -> R) (y : nat -> R) :
  sumn nb (fun i => sumn nb (fun j => B i j * y j)) = sumn nb (fun j => sumn nb (fun i => B i j) * y j).
Proof. rewrite sumn_swap. apply sumn_ext. intros j _. now rewrite sumn_scal_r. Qed.

Theorem momentum_constraint (x : nat -> nat -> R) (rhs : nat -> R) :
  (forall i, (i < nb)%nat -> row0 x i = rhs i) ->
  - Sconstraint (I11 Q) * sumn nb (fun j => nd j * sm j * x 0%nat j) = sumn nb rhs.
Proof.
  intros Hrows. rewrite <- (sumn_ext nb _ _ Hrows).
  rewrite (sumn_ext nb _ _ (fun i _ => row0_expand x i)). rewrite !sumn_plus, !col_swap.
  rewrite (sumn_ext nb (fun j => sumn nb (fun i => b01 RNum Q masses nb nd i j) * x 1%nat j) (fun _ => 0))
    by (intros j Hj; unfold b01; rewrite col_sum_q01 by (try assumption); lra).
  rewrite (sumn_ext nb (fun j => sumn nb (fun i => b02 RNum Q masses nb nd i j) * x 2%nat j) (fun _ => 0))
    by (intros j Hj; unfold b02; rewrite col_sum_q02 by (try assumption); lra).
  rewrite (sumn_ext nb (fun j => sumn nb (fun i => b03 RNum Q masses nb nd i j) * x 3%nat j) (fun _ => 0))
    by (intros j Hj; unfold b03; rewrite col_sum_q03 by (try assumption); lra).
  rewrite !sumn_zero.
  rewrite (sumn_ext nb (fun j => sumn nb (fun i => b00 RNum Q masses nb nd i j) * x 0%nat j)
                       (fun j => - Sconstraint (I11 Q) * (nd j * sm j * x 0%nat j)))
    by (intros j Hj; unfold b00; rewrite col_sum_q00 by assumption; lra).
  rewrite sumn_scal. lra.
Qed.

(* thermal diffusion: right-hand side zero in block 0  =>  sum_i D^T_i = 0 *)
Theorem thermal_diffusion_sums_to_zero (U : Units R) (T : R) (a : nat -> nat -> R) :
  Sconstraint (I11 Q) <> 0 -> 0 <= k_b U * T ->
  (forall i, (i < nb)%nat -> row0 a i = 0) ->
  sumn nb (fun i => DTi_value RNum U T masses nd i (a 0%nat i)) = 0.
Proof.
  intros HS HkT Hrows.
  pose proof (momentum_constraint a (fun _ => 0) Hrows) as Hc. rewrite sumn_zero in Hc.
  assert (Hz : sumn nb (fun j => nd j * sm j * a 0%nat j) = 0).
  { apply Rmult_integral in Hc. destruct Hc as [Hc|Hc]; [exfalso; apply HS; lra | exact Hc]. }
  rewrite (sumn_ext nb _ (fun i => (/ 2 * sqrt (2 * (k_b U * T))) * (nd i * sm i * a 0%nat i))).
  - rewrite sumn_scal, Hz. lra.
  - intros i _. unfold DTi_value, kTv. rnum.
    rewrite sqrt_div_alt by apply Hm. pose proof (sm_pos i) as Hs.
    assert (Emi : masses i = sm i * sm i) by (symmetry; apply sqrt_sqrt; left; apply Hm).
    rewrite Emi at 1. field. lra.
Qed.

(* diffusion: with y^k any solutions for the unit right-hand sides 3 sqrt(pi) e_k (block 0), the coefficients
   c^{ij} := y^i - y^j solve the (i,j) systems, and the resulting D satisfies D_ii = 0 and the mass identity *)
Theorem diffusion_identities (U : Units R) (rho ntot T : R) (y : nat -> nat -> nat -> R) :
  Sconstraint (I11 Q) <> 0 -> 0 <= k_b U * T -> ntot <> 0 ->
  (forall k, (k < nb)%nat -> forall i, (i < nb)%nat -> row0 (y k) i = 3 * sqrt PI * dlt i k) ->
  let c := fun i j p h => y i p h - y j p h in
  let D := fun i j => Dij_value RNum U rho ntot T masses nd i j (c i j 0%nat i) in
  (forall i j, (i < nb)%nat -> (j < nb)%nat -> forall h, (h < nb)%nat -> row0 (c i j) h = Dij_rhs RNum i j h) /\
  (forall i, D i i = 0) /\
  (forall h k, (h < nb)%nat -> (k < nb)%nat ->
     sumn nb (fun i => masses i * (masses h * D i h - masses k * D i k)) = 0).
Proof.
  intros HS HkT Hnt Hy c D. split; [|split].
  - intros i j Hi Hj h Hh. unfold c, row0.
    rewrite (sumn_ext 4 _ (fun p => sumn nb (fun j0 => blk 0%nat p h j0 * y i p j0) - sumn nb (fun j0 => blk 0%nat p h j0 * y j p j0)))
      by (intros p _; rewrite <- sumn_minus; apply sumn_ext; intros; lra).
    rewrite sumn_minus. fold (row0 (y i) h). fold (row0 (y j) h). rewrite (Hy i Hi h Hh), (Hy j Hj h Hh).
    unfold Dij_rhs. rnum. change (@delta R RNum) with dlt. lra.
  - intros i. unfold D, c, Dij_value. rnum. replace (y i 0%nat i - y i 0%nat i) with 0 by lra. lra.
  - intros h k Hh Hk.
    (* each y^k carries the same momentum: -S sum_i n_i sqrt(m_i) y^k_{0,i} = 3 sqrt(pi) *)
    assert (Hmom : forall k', (k' < nb)%nat -> - Sconstraint (I11 Q) * sumn nb (fun i => nd i * sm i * y k' 0%nat i) = 3 * sqrt PI).
    { intros k' Hk'. rewrite (momentum_constraint (y k') (fun i => 3 * sqrt PI * dlt i k') (Hy k' Hk')).
      rewrite sumn_scal. rewrite (sumn_ext nb _ (fun i => dlt i k' * 1)) by (intros; lra). rewrite sumn_delta by exact Hk'. lra. }
    assert (Heq : sumn nb (fun i => nd i * sm i * y h 0%nat i) = sumn nb (fun i => nd i * sm i * y k 0%nat i)).
    { pose proof (Hmom h Hh) as E1. pose proof (Hmom k Hk) as E2.
      apply Rmult_eq_reg_l with (r := - Sconstraint (I11 Q)); [lra | lra]. }
    rewrite (sumn_ext nb _ (fun i => (rho / (2 * ntot) * sqrt (2 * (k_b U * T))) *
                                     (nd i * sm i * y k 0%nat i - nd i * sm i * y h 0%nat i))).
    + rewrite sumn_scal, sumn_minus, Heq. lra.
    + intros i _. unfold D, c, Dij_value, kTv. rnum.
      rewrite sqrt_div_alt by apply Hm. pose proof (sm_pos i) as Hs. pose proof (Hm h). pose proof (Hm k).
      assert (Emi : masses i = sm i * sm i) by (symmetry; apply sqrt_sqrt; left; apply Hm).
      set (s := sm i) in *. rewrite Emi. field. repeat split; lra.
Qed.
End Momentum.

End C12.
