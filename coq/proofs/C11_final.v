(* The right-hand sides and final formulae of viscosity / DTi / Dij / electrical_conductivity, regenerated from
   functions_transport.py on every run (gen_* in GenTransport.v), ARE the ones of the hand-written model Transport.v that the
   C05 / C11 / C12 / C14 theorems talk about.  A change of the source that alters one of these formulae breaks this file. *)
From Coq Require Import Reals List Lra ZArith.
Import ListNotations.
From MPC Require Import Num Species RInst GenTransport Transport.
Open Scope R_scope.

Section Final.
Variable U : Units R.

Ltac deep := first [reflexivity | ring | (f_equal; deep)].
Ltac same := try unfold kTv; cbv zeta; rnum; deep.

Lemma sum_left_ext (f g : nat -> R) (l : list nat) : (forall i, f i = g i) -> sum_left RNum (map f l) = sum_left RNum (map g l).
Proof. intros H. f_equal. apply map_ext. exact H. Qed.

Lemma gen_visc_rhs0_model T masses nd i : gen_visc_rhs0 RNum U T masses nd i = visc_rhs0 RNum U T masses nd i.
Proof. unfold gen_visc_rhs0, visc_rhs0. same. Qed.

Lemma gen_visc_value_model T nd nb b0 : gen_visc_value RNum U T nd nb b0 = visc_value RNum U T nd nb b0.
Proof.
  unfold gen_visc_value, visc_value, kTv. rnum.
  first [ ring
        | rewrite (sum_left_ext _ (fun i => nd i * b0 i)) by (intros; ring); ring ].
Qed.

Lemma gen_DTi_rhs1_model nd i : gen_DTi_rhs1 RNum nd i = DTi_rhs1 RNum nd i.
Proof. unfold gen_DTi_rhs1, DTi_rhs1. same. Qed.

Lemma gen_DTi_value_model T masses nd a0 i : gen_DTi_value RNum U T masses nd a0 i = DTi_value RNum U T masses nd i (a0 i).
Proof. unfold gen_DTi_value, DTi_value. same. Qed.

Lemma gen_Dij_rhs_model i j h : gen_Dij_rhs RNum i j h = Dij_rhs RNum i j h.
Proof. unfold gen_Dij_rhs, Dij_rhs. same. Qed.

Lemma gen_Dij_value_model rho ntot T masses nd i j c0i :
  gen_Dij_value RNum U rho ntot T masses nd i j c0i = Dij_value RNum U rho ntot T masses nd i j c0i.
Proof. unfold gen_Dij_value, Dij_value. same. Qed.

Lemma gen_sigma_value_model rho ntot T masses nd charges nb De : rho <> 0 -> k_b U <> 0 -> T <> 0 ->
  gen_sigma_value RNum U rho ntot T masses nd charges nb De = sigma_value RNum U rho ntot T masses nd charges nb De.
Proof.
  intros Hr Hk HT. unfold gen_sigma_value, sigma_value, kTv. cbv zeta. rnum.
  first [ field; repeat split; assumption
        | rewrite (sum_left_ext _ (fun j => nd j * masses j * charges j * De j)) by (intros; ring); field; repeat split; assumption ].
Qed.
(* ---- thermal_conductivity: rescaled enthalpies, k', the thermal-diffusion and reaction parts, the assembly ---- *)
Lemma gen_kappa_rhs1_model nd i : gen_kappa_rhs1 RNum nd i = DTi_rhs1 RNum nd i.
Proof. unfold gen_kappa_rhs1, DTi_rhs1. same. Qed.

Lemma gen_hv_rescaled_model rho ntot masses h i : gen_hv_rescaled RNum rho ntot masses h i = hv_rescaled RNum rho ntot masses h i.
Proof. unfold gen_hv_rescaled, hv_rescaled. same. Qed.

Lemma gen_kdash_value_model T masses nd nb a1 : gen_kdash_value RNum U T masses nd nb a1 = kdash_value RNum U T masses nd nb a1.
Proof.
  unfold gen_kdash_value, kdash_value, kTv. rnum. f_equal. apply sum_left_ext. intros i. f_equal. f_equal. f_equal. f_equal. ring.
Qed.

Lemma gen_kdt_value_model T nb hv DT : gen_kdt_value RNum T nb hv DT = kdt_value RNum T nb hv DT.
Proof. unfold gen_kdt_value, kdt_value, idx_sum. rnum. apply sum_left_ext. intros i. reflexivity. Qed.

Lemma gen_dxdT_value_model T delta nb npos nneg j : gen_dxdT_value RNum T delta nb npos nneg j = dxdT_value RNum T delta nb npos nneg j.
Proof. unfold gen_dxdT_value, dxdT_value, idx_sum. rnum. reflexivity. Qed.

Lemma gen_krxn_enth_value_model rho ntot masses hv dxdT D nb :
  gen_krxn_enth_value RNum rho ntot masses hv dxdT D nb = krxn_enth_value RNum rho ntot masses hv dxdT D nb.
Proof. unfold gen_krxn_enth_value, krxn_enth_value, idx_sum. rnum. ring. Qed.

Lemma gen_krxn_therm_value_model ntot T ni_limit masses nd DT dxdT nb :
  gen_krxn_therm_value RNum U ntot T ni_limit masses nd DT dxdT nb = krxn_therm_value RNum U ntot T ni_limit masses nd DT dxdT nb.
Proof. unfold gen_krxn_therm_value, krxn_therm_value, idx_sum. rnum. reflexivity. Qed.

Lemma gen_kappa_total_model dt rho ntot T ni_limit masses nd hv DT dxdT D nb kdash :
  gen_kappa_total RNum U dt rho ntot T ni_limit masses nd hv DT dxdT D nb kdash
  = kappa_total RNum U dt rho ntot T ni_limit masses nd hv DT dxdT D nb kdash.
Proof.
  unfold gen_kappa_total, kappa_total. cbv zeta.
  rewrite gen_kdt_value_model, gen_krxn_enth_value_model, gen_krxn_therm_value_model. rnum. destruct dt; reflexivity.
Qed.

(* the perturbed temperatures at which the composition is re-solved for dx/dT *)
Lemma gen_kappa_T_pm T delta : gen_kappa_T_pos RNum T delta = T * (1 + delta) /\ gen_kappa_T_neg RNum T delta = T * (1 - delta).
Proof. unfold gen_kappa_T_pos, gen_kappa_T_neg. rnum. split; reflexivity. Qed.
(* ---- the assembly of q / qhat as coded (which collision integrals each block receives, the mass-ratio transposes, the
   np.block layout) is the block layout of the model ---- *)
Lemma gen_qblock_model (Q : qints) masses nb nd a b i j :
  gen_qblock RNum (I11 Q) (I12 Q) (I13 Q) (I14 Q) (I15 Q) (I16 Q) (I17 Q) (I22 Q) (I23 Q) (I24 Q) (I25 Q) (I26 Q)
             (I33 Q) (I34 Q) (I35 Q) (I44 Q) masses nb nd a b i j
  = qblock RNum Q masses nb nd a b i j.
Proof.
  unfold gen_qblock, qblock, b00, b01, b02, b03, b11, b12, b13, b22, b23, b33, mr.
  destruct a as [|[|[|[|a]]]]; destruct b as [|[|[|[|b]]]]; first [reflexivity | rnum; ring].
Qed.

Lemma gen_qhatblock_model (Q : qints) masses nb nd a b i j :
  gen_qhatblock RNum (I11 Q) (I12 Q) (I13 Q) (I22 Q) (I23 Q) (I24 Q) (I33 Q) masses nb nd a b i j
  = qhatblock RNum Q masses nb nd a b i j.
Proof.
  unfold gen_qhatblock, qhatblock, h00, h01, h11, mr.
  destruct a as [|[|a]]; destruct b as [|[|b]]; first [reflexivity | rnum; ring].
Qed.
End Final.
