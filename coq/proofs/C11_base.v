(* Lemmas behind thm/C11.v: each Devoto block regenerated from functions_transport.py equals the first-principles
   matrix element built from the bracket-integral tables. *)
From Coq Require Import Reals List Lra Lia Arith ZArith.
Import ListNotations.
From MPC Require Import Num Species RInst StatMech RVec RSumIdx BracketTables ChapmanEnskog GenTransport Transport C12_proofs.
Open Scope R_scope.

Lemma ofac_11 : ofac 1 1 = 1. Proof. unfold ofac. simpl. lra. Qed.
Lemma ofac_12 : ofac 1 2 = 3. Proof. unfold ofac. simpl. lra. Qed.
Lemma ofac_13 : ofac 1 3 = 12. Proof. unfold ofac. simpl. lra. Qed.
Lemma ofac_14 : ofac 1 4 = 60. Proof. unfold ofac. simpl. lra. Qed.
Lemma ofac_15 : ofac 1 5 = 360. Proof. unfold ofac. simpl. lra. Qed.
Lemma ofac_16 : ofac 1 6 = 2520. Proof. unfold ofac. simpl. lra. Qed.
Lemma ofac_17 : ofac 1 7 = 20160. Proof. unfold ofac. simpl. lra. Qed.
Lemma ofac_22 : ofac 2 2 = 2. Proof. unfold ofac. simpl. lra. Qed.
Lemma ofac_23 : ofac 2 3 = 8. Proof. unfold ofac. simpl. lra. Qed.
Lemma ofac_24 : ofac 2 4 = 40. Proof. unfold ofac. simpl. lra. Qed.
Lemma ofac_25 : ofac 2 5 = 240. Proof. unfold ofac. simpl. lra. Qed.
Lemma ofac_26 : ofac 2 6 = 1680. Proof. unfold ofac. simpl. lra. Qed.
Lemma ofac_33 : ofac 3 3 = 12. Proof. unfold ofac. simpl. lra. Qed.
Lemma ofac_34 : ofac 3 4 = 60. Proof. unfold ofac. simpl. lra. Qed.
Lemma ofac_35 : ofac 3 5 = 360. Proof. unfold ofac. simpl. lra. Qed.
Lemma ofac_44 : ofac 4 4 = 48. Proof. unfold ofac. simpl. lra. Qed.

Section C11.
Variables (masses nd : nat -> R) (nb : nat).
Hypothesis Hm : forall i, 0 < masses i.
Variable Qbar : nat -> nat -> nat -> nat -> R.
Notation sm i := (sqrt (masses i)).
Notation sw i l := (sqrt (masses i + masses l)).
Notation s2 i l := (sm i * sm i + sm l * sm l).

Lemma m_sq i : masses i = sm i * sm i. Proof. symmetry. apply sqrt_sqrt. left. apply Hm. Qed.
Lemma msum_sq i l : masses i + masses l = s2 i l. Proof. now rewrite <- !m_sq. Qed.
Lemma s2_pos i l : 0 < s2 i l. Proof. rewrite <- msum_sq. apply msum_pos, Hm. Qed.
Lemma sw_sq i l : sw i l * sw i l = s2 i l.
Proof. rewrite sqrt_sqrt; [apply msum_sq | left; apply msum_pos, Hm]. Qed.
Lemma A2_x i l : A2 masses i l = sm i * sm i / s2 i l. Proof. unfold A2. rewrite (msum_sq i l). rewrite (m_sq i) at 1. reflexivity. Qed.
Lemma B2_x i l : B2 masses i l = sm l * sm l / s2 i l. Proof. unfold B2. rewrite (msum_sq i l). rewrite (m_sq l) at 1. reflexivity. Qed.
Lemma inv_sqrt_mu i l : / sqrt (mu masses i l) = s2 i l / (sw i l * sm i * sm l).
Proof.
  unfold mu. rewrite sqrt_div_alt by (apply msum_pos, Hm). rewrite sqrt_mult by (left; apply Hm).
  pose proof (sm_pos masses Hm i). pose proof (sm_pos masses Hm l). pose proof (sw_pos masses Hm i l).
  rewrite <- sw_sq. field. repeat split; lra.
Qed.
Lemma sqrt_AB i l : sqrt (A2 masses i l * B2 masses i l) = sm i * sm l / s2 i l.
Proof.
  rewrite A2_x, B2_x. pose proof (sm_pos masses Hm i). pose proof (sm_pos masses Hm l). pose proof (s2_pos i l).
  replace (sm i * sm i / s2 i l * (sm l * sm l / s2 i l)) with ((sm i * sm l / s2 i l) * (sm i * sm l / s2 i l)) by (field; lra).
  apply sqrt_square. apply Rlt_le, Rdiv_lt_0_compat; [apply Rmult_lt_0_compat|]; assumption.
Qed.
Lemma sw_pow3 i l : sw i l ^ 3 = s2 i l * sw i l.
Proof. rewrite <- sw_sq. ring. Qed.
Lemma sw_pow5 i l : sw i l ^ 5 = s2 i l ^ 2 * sw i l.
Proof. rewrite <- sw_sq. ring. Qed.
Lemma sw_pow7 i l : sw i l ^ 7 = s2 i l ^ 3 * sw i l.
Proof. rewrite <- sw_sq. ring. Qed.
Lemma sw_pow9 i l : sw i l ^ 9 = s2 i l ^ 4 * sw i l.
Proof. rewrite <- sw_sq. ring. Qed.
Lemma sw_pow11 i l : sw i l ^ 11 = s2 i l ^ 5 * sw i l.
Proof. rewrite <- sw_sq. ring. Qed.
Lemma sw_pow13 i l : sw i l ^ 13 = s2 i l ^ 6 * sw i l.
Proof. rewrite <- sw_sq. ring. Qed.

End C11.

(* ---- the common proof script, parametric in the masses and their positivity ---- *)
Ltac block_start :=
  cbv zeta; rnum; rewrite sum_left_R, Rplus_0_l;
  unfold q_spec, qhat_spec, sumn;
  rewrite <- !Rsum_map_scal, ?map_map;
  apply Rsum_map_ext_in; intros l _; change (@delta R RNum) with dlt; unfold dlt.
Ltac pos M H := first [apply H | apply (ratio_pos M H) | apply (msum_pos M H) | apply Rmult_lt_0_compat; apply H].
Ltac halfpow M H :=
  repeat first [ rewrite Rpower_h1 by pos M H | rewrite Rpower_h3 by pos M H | rewrite Rpower_h5 by pos M H | rewrite Rpower_h7 by pos M H
               | rewrite Rpower_h9 by pos M H | rewrite Rpower_h11 by pos M H | rewrite Rpower_h13 by pos M H ];
  rewrite ?(sqrt_ratio M H);
  rewrite ?(sw_pow3 M H), ?(sw_pow5 M H), ?(sw_pow7 M H), ?(sw_pow9 M H), ?(sw_pow11 M H), ?(sw_pow13 M H).
Ltac ofacs := rewrite ?ofac_11, ?ofac_12, ?ofac_13, ?ofac_14, ?ofac_15, ?ofac_16, ?ofac_17, ?ofac_22, ?ofac_23, ?ofac_24,
                      ?ofac_25, ?ofac_26, ?ofac_33, ?ofac_34, ?ofac_35, ?ofac_44.
Ltac expand_spec M H := unfold Wt; rewrite ?(sqrt_AB M H), ?(A2_x M H), ?(B2_x M H); unfold Rdiv; rewrite ?(inv_sqrt_mu M H); ofacs.
Ltac nz M H a b :=
  pose proof (sm_pos M H a); pose proof (sm_pos M H b); pose proof (sw_pos M H a b); pose proof (s2_pos M H a b).
(* one delta case of a term of a block; `tabs` unfolds the tables of that block *)
Ltac solve_case M H a b tabs :=
  rewrite ?Nat.eqb_refl; halfpow M H; unfold BR, BRv12; tabs; expand_spec M H; nz M H a b;
  let Ea := fresh "Ea" in let Eb := fresh "Eb" in
  pose proof (m_sq M H a) as Ea; pose proof (m_sq M H b) as Eb;
  set (x := sqrt (M a)) in *; set (z := sqrt (M b)) in *; set (w := sqrt (M a + M b)) in *; clearbody w;
  rewrite ?Ea, ?Eb; clearbody x z; field; repeat split; lra.
Ltac block_cases M H i j l tabs :=
  destruct (Nat.eqb_spec i j) as [Eij|Nij];
  [ subst j; destruct (Nat.eqb_spec i l) as [Eil|Nil];
    [ subst l; solve_case M H i i tabs | solve_case M H i l tabs ]
  | destruct (Nat.eqb_spec j l) as [Ejl|Njl];
    [ subst l; solve_case M H i j tabs | unfold Rdiv; ring ] ].
