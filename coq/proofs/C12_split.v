(* C12, species splitting (viscosity): a species k of a mixture is replaced by two pseudo-species with the same mass and
   the same collision integrals that share its density (f n_k and (1 - f) n_k).  From the first-principles form of the
   qhat blocks (C11): every row of the split system is the corresponding original row times n'_i / n_i, so giving both
   copies the coefficient of the original species solves the split system, and the viscosity is unchanged. *)
From Coq Require Import Reals List Lra Lia Arith ZArith.
Import ListNotations.
From MPC Require Import Num Species RInst StatMech RVec RSumIdx BracketTables ChapmanEnskog GenTransport Transport C11_base C11_proofs.
Open Scope R_scope.

Lemma sumn_S n f : sumn (S n) f = sumn n f + f n.
Proof. unfold sumn. rewrite seq_S, map_app, Rsum_app. cbn [map Rsum plus]. lra. Qed.

(* ---- rows of a first-principles block, for any mixture ---- *)
Section Row.
Variables (masses nd : nat -> R) (nb : nat).
Variable Qbar : nat -> nat -> nat -> nat -> R.

Lemma hspec_row t11 t12 (y : nat -> R) i : (i < nb)%nat ->
  sumn nb (fun j => qhat_spec masses nd nb Qbar t11 t12 i j * y j)
  = sqrt (masses i) * nd i *
    (y i * sumn nb (fun l => nd l * BR masses Qbar t11 i l) + sumn nb (fun l => nd l * BR masses Qbar t12 i l * y l)).
Proof.
  intros Hi. unfold qhat_spec.
  rewrite (sumn_ext nb _ (fun j => sqrt (masses i) * nd i *
             (dlt i j * (y j * sumn nb (fun l => nd l * BR masses Qbar t11 i l))
              + sumn nb (fun l => dlt j l * (nd l * BR masses Qbar t12 i l * y j))))).
  - rewrite sumn_scal, sumn_plus. f_equal. f_equal.
    + rewrite (sumn_delta' nb (fun j => y j * sumn nb (fun l => nd l * BR masses Qbar t11 i l)) i Hi). reflexivity.
    + rewrite sumn_swap. apply sumn_ext. intros l Hl.
      rewrite (sumn_delta nb (fun j => nd l * BR masses Qbar t12 i l * y j) l Hl). reflexivity.
  - intros j _. cbv beta.
    rewrite (sumn_ext nb (fun l => nd i * nd l * (dlt i j * BR masses Qbar t11 i l + dlt j l * BR masses Qbar t12 i l))
                         (fun l => nd i * (dlt i j * (nd l * BR masses Qbar t11 i l)) + nd i * (dlt j l * (nd l * BR masses Qbar t12 i l))))
      by (intros; ring).
    rewrite sumn_plus, !sumn_scal.
    rewrite (sumn_ext nb (fun l => dlt j l * (nd l * BR masses Qbar t12 i l * y j)) (fun l => (dlt j l * (nd l * BR masses Qbar t12 i l)) * y j))
      by (intros; ring).
    rewrite sumn_scal_r. ring.
Qed.
End Row.

(* ---- the split mixture ---- *)
Section Split.
Variables (masses nd : nat -> R) (nb k : nat) (f : R).
Variable Qbar : nat -> nat -> nat -> nat -> R.
Hypothesis Hk : (k < nb)%nat.

Definition origin (i : nat) : nat := if Nat.eqb i nb then k else i.
Definition masses' (i : nat) : R := masses (origin i).
Definition nd' (i : nat) : R := if Nat.eqb i nb then (1 - f) * nd k else if Nat.eqb i k then f * nd k else nd i.
Definition Qbar' (l s i j : nat) : R := Qbar l s (origin i) (origin j).

Lemma origin_lt i : (i < S nb)%nat -> (origin i < nb)%nat.
Proof. unfold origin. destruct (Nat.eqb_spec i nb); lia. Qed.

(* sums over the split mixture of quantities that depend on a species only through its origin *)
Lemma split_sum (g : nat -> R) : sumn (S nb) (fun l => nd' l * g (origin l)) = sumn nb (fun l => nd l * g l).
Proof.
  rewrite sumn_S. unfold nd' at 2, origin at 2. rewrite Nat.eqb_refl.
  assert (E : sumn nb (fun l => nd' l * g (origin l)) = sumn nb (fun l => nd l * g l) - (1 - f) * nd k * g k).
  { rewrite (sumn_ext nb _ (fun l => nd l * g l - dlt l k * ((1 - f) * nd l * g l))).
    - rewrite sumn_minus. f_equal. apply (sumn_delta nb (fun l => (1 - f) * nd l * g l) k Hk).
    - intros l Hl. unfold nd', origin, dlt. destruct (Nat.eqb_spec l nb) as [->|_]; [lia|].
      destruct (Nat.eqb_spec l k) as [->|_]; ring. }
  rewrite E. ring.
Qed.

Lemma BR_split t i l : BR masses' Qbar' t i l = BR masses Qbar t (origin i) (origin l).
Proof. reflexivity. Qed.

(* a row of a split block applied to coefficients shared by the copies *)
Lemma split_row t11 t12 (y : nat -> R) i : (i < S nb)%nat ->
  nd (origin i) * sumn (S nb) (fun j => qhat_spec masses' nd' (S nb) Qbar' t11 t12 i j * y (origin j))
  = nd' i * sumn nb (fun j => qhat_spec masses nd nb Qbar t11 t12 (origin i) j * y j).
Proof.
  intros Hi. rewrite (hspec_row masses' nd' (S nb) Qbar' t11 t12 (fun j => y (origin j)) i Hi).
  rewrite (hspec_row masses nd nb Qbar t11 t12 y (origin i) (origin_lt i Hi)).
  rewrite (sumn_ext (S nb) (fun l => nd' l * BR masses' Qbar' t11 i l) (fun l => nd' l * BR masses Qbar t11 (origin i) (origin l))) by (intros; reflexivity).
  rewrite (split_sum (fun l => BR masses Qbar t11 (origin i) l)).
  rewrite (sumn_ext (S nb) (fun l => nd' l * BR masses' Qbar' t12 i l * y (origin l))
                           (fun l => nd' l * (BR masses Qbar t12 (origin i) (origin l) * y (origin l)))) by (intros; rewrite BR_split; ring).
  rewrite (split_sum (fun l => BR masses Qbar t12 (origin i) l * y l)).
  rewrite (sumn_ext nb (fun l => nd l * (BR masses Qbar t12 (origin i) l * y l)) (fun l => nd l * BR masses Qbar t12 (origin i) l * y l)) by (intros; ring).
  unfold masses'. ring.
Qed.
End Split.

(* ---- the viscosity system in block form and the theorem ---- *)
Definition qints_of (Qbar : nat -> nat -> nat -> nat -> R) : @qints R :=
  mkQints (Qbar 1%nat 1%nat) (Qbar 1%nat 2%nat) (Qbar 1%nat 3%nat) (Qbar 1%nat 4%nat) (Qbar 1%nat 5%nat) (Qbar 1%nat 6%nat) (Qbar 1%nat 7%nat)
          (Qbar 2%nat 2%nat) (Qbar 2%nat 3%nat) (Qbar 2%nat 4%nat) (Qbar 2%nat 5%nat) (Qbar 2%nat 6%nat)
          (Qbar 3%nat 3%nat) (Qbar 3%nat 4%nat) (Qbar 3%nat 5%nat) (Qbar 4%nat 4%nat).

Section Viscosity.
Variable U : Units R.
Variable T : R.

(* rows (p, i), p = 0, 1 of  qhat b = (5 n sqrt(2 pi m / kT), 0), blocks as assembled by the code (Transport.qhatblock) *)
Definition visc_rows (masses nd : nat -> R) (nb : nat) (Q : @qints R) (x : nat -> nat -> R) : Prop :=
  forall p i, (p < 2)%nat -> (i < nb)%nat ->
    sumn nb (fun j => qhatblock RNum Q masses nb nd p 0%nat i j * x 0%nat j) + sumn nb (fun j => qhatblock RNum Q masses nb nd p 1%nat i j * x 1%nat j)
    = if Nat.eqb p 0 then visc_rhs0 RNum U T masses nd i else 0.

(* the four assembled blocks in first-principles form, for any mixture *)
Lemma block_spec (ms ns : nat -> R) (n : nat) (Qb : nat -> nat -> nat -> nat -> R) (H : forall i, 0 < ms i) p p' i j :
  (p < 2)%nat -> (p' < 2)%nat ->
  qhatblock RNum (qints_of Qb) ms n ns p p' i j =
  qhat_spec ms ns n Qb
    (match p, p' with 0%nat, 0%nat => t11_00 | 0%nat, _ => t11_01 | _, 0%nat => t11_10 | _, _ => t11_11 end)
    (match p, p' with 0%nat, 0%nat => t12_00 | 0%nat, _ => t12_01 | _, 0%nat => t12_10 | _, _ => t12_11 end) i j.
Proof.
  intros Hp Hp'. unfold qhatblock, h00, h01, h11, mr, qints_of. cbn [I11 I12 I13 I22 I23 I24 I33]. rnum.
  destruct p as [|[|p]]; [| |lia]; (destruct p' as [|[|p']]; [| |lia]).
  - apply (qhat00_eq_spec ms ns n H Qb).
  - apply (qhat01_eq_spec ms ns n H Qb).
  - apply (qhat10_eq_spec ms ns n H Qb).
  - apply (qhat11_eq_spec ms ns n H Qb).
Qed.

Variables (masses nd : nat -> R) (nb k : nat) (f : R).
Variable Qbar : nat -> nat -> nat -> nat -> R.
Hypothesis Hm : forall i, 0 < masses i.
Hypothesis Hk : (k < nb)%nat.
Hypothesis Hn : forall i, (i < nb)%nat -> nd i <> 0.

Notation m' := (masses' masses nb k).
Notation n' := (nd' nd nb k f).
Notation Q' := (Qbar' nb k Qbar).
Notation o := (origin nb k).

Lemma Hm' : forall i, 0 < m' i.
Proof. intros i. apply Hm. Qed.

Definition tab11 (p p' : nat) := match p, p' with 0%nat, 0%nat => t11_00 | 0%nat, _ => t11_01 | _, 0%nat => t11_10 | _, _ => t11_11 end.
Definition tab12 (p p' : nat) := match p, p' with 0%nat, 0%nat => t12_00 | 0%nat, _ => t12_01 | _, 0%nat => t12_10 | _, _ => t12_11 end.

Theorem viscosity_split_invariant (x : nat -> nat -> R) :
  visc_rows masses nd nb (qints_of Qbar) x ->
  visc_rows m' n' (S nb) (qints_of Q') (fun p i => x p (o i)) /\
  visc_value RNum U T n' (S nb) (fun i => x 0%nat (o i)) = visc_value RNum U T nd nb (x 0%nat).
Proof.
  intros Hsys. split.
  - intros p i Hp Hi. specialize (Hsys p (o i) Hp (origin_lt nb k Hk i Hi)).
    assert (E' : forall p', (p' < 2)%nat ->
      sumn (S nb) (fun j => qhatblock RNum (qints_of Q') m' (S nb) n' p p' i j * x p' (o j))
      = sumn (S nb) (fun j => qhat_spec m' n' (S nb) Q' (tab11 p p') (tab12 p p') i j * x p' (o j))).
    { intros p' Hp'. apply sumn_ext. intros j _. rewrite (block_spec m' n' (S nb) Q' Hm' p p' i j Hp Hp'). reflexivity. }
    assert (E : forall p', (p' < 2)%nat ->
      sumn nb (fun j => qhatblock RNum (qints_of Qbar) masses nb nd p p' (o i) j * x p' j)
      = sumn nb (fun j => qhat_spec masses nd nb Qbar (tab11 p p') (tab12 p p') (o i) j * x p' j)).
    { intros p' Hp'. apply sumn_ext. intros j _. rewrite (block_spec masses nd nb Qbar Hm p p' (o i) j Hp Hp'). reflexivity. }
    rewrite (E 0%nat), (E 1%nat) in Hsys by lia. rewrite (E' 0%nat), (E' 1%nat) by lia.
    assert (R0 := split_row masses nd nb k f Qbar Hk (tab11 p 0) (tab12 p 0) (x 0%nat) i Hi).
    assert (R1 := split_row masses nd nb k f Qbar Hk (tab11 p 1) (tab12 p 1) (x 1%nat) i Hi).
    apply Rmult_eq_reg_l with (r := nd (o i)); [|apply Hn, (origin_lt nb k Hk i Hi)].
    rewrite Rmult_plus_distr_l, R0, R1, <- Rmult_plus_distr_l, Hsys.
    destruct (Nat.eqb p 0); [|ring]. unfold visc_rhs0. rnum. unfold masses'. ring.
  - unfold visc_value. rewrite !sum_left_R. f_equal.
    change (sumn (S nb) (fun i => n' i * x 0%nat (o i)) = sumn nb (fun i => nd i * x 0%nat i)).
    apply (split_sum nd nb k f Hk (x 0%nat)).
Qed.
End Viscosity.
