(* Lemmas behind thm/C07.v: generated partition-function kernels = documented sums. *)
From Coq Require Import Reals List Lra Permutation ZArith.
Import ListNotations.
From MPC Require Import Num Species RInst StatMech GenSpecies.
Open Scope R_scope.

Section C07.
Variable U : Units R.
Notation kB := (k_b U).

Lemma sum_list_Rsum l : sum_list RNum l = Rsum l.
Proof. induction l as [|x l IH]; cbn [sum_list Rsum]; rnum; [reflexivity | now rewrite IH]. Qed.
Lemma prod_list_Rprod l : prod_list RNum l = Rprod l.
Proof. induction l as [|x l IH]; cbn [prod_list Rprod]; rnum; [reflexivity | now rewrite IH]. Qed.

(* ---- monatomic ---- *)
Lemma mono_loop_spec (s : species R) dE beta acc l :
  mono_Zint_loop1 RNum s dE beta acc l =
  acc + Rsum (map (fun JE => (2 * fst JE + 1) * exp (- beta * snd JE))
                  (bound_levels (ionisation_energy s) dE l)).
Proof.
  revert acc; induction l as [|[J E] l IH]; intros acc; cbn [mono_Zint_loop1 bound_levels filter map Rsum].
  - lra.
  - rnum. rewrite IH. unfold Rltb, bound_levels. cbn [snd fst].
    destruct (Rlt_dec E (ionisation_energy s - dE)); cbn [map Rsum fst snd]; lra.
Qed.

Lemma mono_Zint_eq_spec (s : species R) T dE :
  mono_Zint RNum U s T dE = Zint_mono_spec kB (ionisation_energy s) (energy_levels s) T dE.
Proof.
  unfold mono_Zint, Zint_mono_spec. rewrite mono_loop_spec. rnum. rewrite Rplus_0_l.
  f_equal. apply map_ext. intros [J E]. unfold level_weight. cbn [fst snd].
  f_equal. f_equal. unfold Rdiv. ring.
Qed.

Lemma Rsum_perm l l' : Permutation l l' -> Rsum l = Rsum l'.
Proof. induction 1; cbn [Rsum]; lra. Qed.

Lemma bound_levels_perm IE dE l l' : Permutation l l' -> Permutation (bound_levels IE dE l) (bound_levels IE dE l').
Proof.
  unfold bound_levels. induction 1 as [| x l l' _ IH | x y l | l l' l'' _ IH1 _ IH2]; cbn [filter].
  - constructor.
  - destruct (Rlt_dec _ _); [constructor|]; exact IH.
  - destruct (Rlt_dec (snd x) _), (Rlt_dec (snd y) _); try apply Permutation_refl; apply perm_swap.
  - eapply Permutation_trans; eassumption.
Qed.

Lemma Zint_mono_spec_perm IE l l' T dE :
  Permutation l l' -> Zint_mono_spec kB IE l T dE = Zint_mono_spec kB IE l' T dE.
Proof. intros H. unfold Zint_mono_spec. apply Rsum_perm, Permutation_map, bound_levels_perm, H. Qed.

Definition with_levels (s : species R) (l : list (R * R)) : species R :=
  mkSpecies R (kind s) (sname s) (stoichiometry s) (molar_mass s) (charge_number s) (ionisation_energy s)
    (dissociation_energy s) l (g0 s) (w_e s) (b_e s) (sigma_s s) (linear_yn s) (wi_e s) (abc_e s)
    (polarisability s) (multiplicity s) (effective_electrons s) (electron_cross_section s) (emission_lines s).

Lemma mono_Zint_perm_invariant (s : species R) l' T dE :
  Permutation (energy_levels s) l' ->
  mono_Zint RNum U s T dE = mono_Zint RNum U (with_levels s l') T dE.
Proof. intros H. rewrite !mono_Zint_eq_spec. cbn [with_levels ionisation_energy energy_levels]. now apply Zint_mono_spec_perm. Qed.

(* lowering the ionisation energy further never increases the sum *)
Lemma Rsum_filter_antitone (f : R * R -> R) (c c' : R) l :
  (forall x, In x l -> 0 <= f x) -> c' <= c ->
  Rsum (map f (filter (fun JE => if Rlt_dec (snd JE) c' then true else false) l)) <=
  Rsum (map f (filter (fun JE => if Rlt_dec (snd JE) c then true else false) l)).
Proof.
  intros Hpos Hc. induction l as [|x l IH]; cbn [filter map Rsum]; [lra|].
  assert (IH' := IH (fun y Hy => Hpos y (or_intror Hy))).
  assert (Hx := Hpos x (or_introl eq_refl)).
  destruct (Rlt_dec (snd x) c'), (Rlt_dec (snd x) c); cbn [map Rsum]; lra.
Qed.

Lemma mono_Zint_antitone_in_dE (s : species R) T dE dE' :
  (forall JE, In JE (energy_levels s) -> 0 <= fst JE) -> dE <= dE' ->
  mono_Zint RNum U s T dE' <= mono_Zint RNum U s T dE.
Proof.
  intros HJ Hd. rewrite !mono_Zint_eq_spec. unfold Zint_mono_spec, bound_levels.
  apply Rsum_filter_antitone; [|lra].
  intros x Hx. unfold level_weight. specialize (HJ x Hx).
  apply Rmult_le_pos; [lra | left; apply exp_pos].
Qed.

Lemma Rsum_pos_exists (f : R * R -> R) l :
  (forall x, In x l -> 0 <= f x) -> (exists x, In x l /\ 0 < f x) -> 0 < Rsum (map f l).
Proof.
  induction l as [|y l IH]; intros Hnn [x [Hin Hx]]; [contradiction|].
  cbn [map Rsum]. assert (Hy := Hnn y (or_introl eq_refl)).
  assert (Hrest : 0 <= Rsum (map f l)).
  { clear IH Hin. induction l as [|z l IHl]; cbn [map Rsum]; [lra|].
    assert (0 <= f z) by (apply Hnn; right; left; reflexivity).
    assert (0 <= Rsum (map f l)) by (apply IHl; intros w [Hw|Hw]; apply Hnn; [left|right; right]; assumption). lra. }
  destruct Hin as [Heq|Hin]; [subst; lra|].
  assert (0 < Rsum (map f l)) by (apply IH; [intros w Hw; apply Hnn; right; exact Hw | exists x; split; assumption]). lra.
Qed.

(* a species with non-negative J and at least one level below the cutoff has Zint > 0 *)
Lemma mono_Zint_pos (s : species R) T dE :
  (forall JE, In JE (energy_levels s) -> 0 <= fst JE) ->
  (exists JE, In JE (energy_levels s) /\ snd JE < ionisation_energy s - dE) ->
  0 < mono_Zint RNum U s T dE.
Proof.
  intros HJ [JE [Hin Hlt]]. rewrite mono_Zint_eq_spec. unfold Zint_mono_spec.
  assert (Hw : forall x, In x (energy_levels s) -> 0 < level_weight kB T x).
  { intros x Hx. unfold level_weight. apply Rmult_lt_0_compat; [specialize (HJ x Hx); lra | apply exp_pos]. }
  apply Rsum_pos_exists.
  - intros x Hx. unfold bound_levels in Hx. apply filter_In in Hx. left. apply Hw, Hx.
  - exists JE. split; [|apply Hw, Hin]. unfold bound_levels. apply filter_In. split; [exact Hin|].
    destruct (Rlt_dec (snd JE) (ionisation_energy s - dE)); [reflexivity | contradiction].
Qed.

(* ---- translational, total ---- *)
Lemma translational_Z_eq_spec (s : species R) T :
  N_a U <> 0 -> h_pl U <> 0 ->
  translational_Z RNum U s T = Ztr_spec kB (N_a U) (h_pl U) (molar_mass s) T.
Proof.
  intros HN Hh. unfold translational_Z, Ztr_spec. rnum. f_equal. field; try split; assumption.
Qed.

Lemma total_Z_eq_spec (s : species R) V T dE :
  total_Z RNum U s V T dE = V * translational_Z RNum U s T * Zint RNum U s T dE.
Proof. reflexivity. Qed.

(* ---- diatomic, polyatomic, electron ---- *)
Lemma di_Zint_eq_spec (s : species R) T dE :
  di_Zint RNum U s T dE = Zint_di_spec kB (g0 s) (w_e s) (b_e s) (sigma_s s) T.
Proof. unfold di_Zint, Zint_di_spec, Zvib_spec, Zrot_linear_spec. rnum. unfold Rdiv. ring. Qed.

Lemma vib_prod_eq (ws : list R) T :
  prod_list RNum (map (fun wi => ndiv RNum (nexp RNum (ndiv RNum (nopp RNum wi) (nmul RNum (nofZ RNum 2%Z) (nmul RNum kB T))))
     (nsub RNum (nofZ RNum 1%Z) (nexp RNum (ndiv RNum (nopp RNum wi) (nmul RNum kB T))))) ws)
  = Rprod (map (fun w => Zvib_spec kB w T) ws).
Proof.
  rewrite prod_list_Rprod. reflexivity.
Qed.

Lemma poly_Zint_eq_spec_linear (s : species R) T dE :
  linear_yn s = true ->
  poly_Zint RNum U s T dE =
  Zint_poly_linear_spec kB (g0 s) (wi_e s) (nth 1 (abc_e s) 0) (sigma_s s) T.
Proof.
  intros Hl. unfold poly_Zint, Zint_poly_linear_spec, Zrot_linear_spec. rewrite Hl.
  cbv zeta. rewrite vib_prod_eq. rnum. reflexivity.
Qed.

Lemma poly_Zint_eq_spec_nonlinear (s : species R) T dE Ae Be Ce :
  linear_yn s = false -> abc_e s = [Ae; Be; Ce] ->
  poly_Zint RNum U s T dE =
  Zint_poly_nonlinear_spec kB (g0 s) (wi_e s) Ae Be Ce (sigma_s s) T.
Proof.
  intros Hl Habc. unfold poly_Zint, Zint_poly_nonlinear_spec, Zrot_nonlinear_spec. rewrite Hl, Habc.
  cbv zeta. rewrite vib_prod_eq. cbn [prod_list]. rnum.
  replace (Ae * (Be * (Ce * 1))) with (Ae * Be * Ce) by ring.
  replace (kB * T * (kB * T * (kB * T * 1))) with ((kB * T) ^ 3) by ring.
  reflexivity.
Qed.

Lemma electron_Zint_eq_2 (s : species R) T dE : electron_Zint RNum s T dE = 2.
Proof. reflexivity. Qed.

Lemma nonmono_Zint_indep_dE (s : species R) T dE dE' :
  kind s <> KMono -> Zint RNum U s T dE = Zint RNum U s T dE'.
Proof. unfold Zint. destruct (kind s); intros H; try reflexivity. contradiction. Qed.

Lemma Zint_antitone_in_dE (s : species R) T dE dE' :
  (forall JE, In JE (energy_levels s) -> 0 <= fst JE) -> dE <= dE' ->
  Zint RNum U s T dE' <= Zint RNum U s T dE.
Proof.
  intros HJ Hd. unfold Zint. destruct (kind s).
  - now apply mono_Zint_antitone_in_dE.
  - apply Req_le; reflexivity.
  - apply Req_le; reflexivity.
  - apply Req_le; reflexivity.
Qed.

End C07.

(* non-vacuity: an unsorted level list with levels on both sides of the cutoff *)
Example unsorted_levels_meet_hypotheses :
  let l := [(2, 0); (1/2, 5); (3/2, 1); (0, 7); (1, 2)] in
  Permutation l (rev l) /\
  (forall JE, In JE l -> 0 <= fst JE) /\
  length (bound_levels 4 1 l) = 3%nat.
Proof.
  cbv zeta. split; [|split].
  - apply Permutation_rev.
  - intros JE [H|[H|[H|[H|[H|[]]]]]]; subst; cbn [fst]; lra.
  - unfold bound_levels. cbn [filter snd].
    repeat match goal with |- context [Rlt_dec ?a ?b] => destruct (Rlt_dec a b); try lra end; reflexivity.
Qed.
