From Coq Require Import Reals List Lra Permutation ZArith.
Import ListNotations.
From MPC Require Import Num Species RInst StatMech Radiation GenSpecies GenRadiation C07_proofs.
Open Scope R_scope.

Section C15.
Variable U : Units R.
Notation kB := (k_b U).
Notation Z0 := (fun (s : species R) T => Zint RNum U s T 0).
Notation spec := (emission_spec kB (h_pl U) (c_light U) (species R) Z0 (@emission_lines R)).

Lemma loop2_spec Qi cst nv T acc lines :
  total_emission_coefficient_loop2 RNum U Qi cst nv T acc lines =
  acc + cst * Rsum (map (line_term kB T nv Qi) lines).
Proof.
  revert acc; induction lines as [|[[lam gA] E] l IH]; intros acc;
    cbn [total_emission_coefficient_loop2 map Rsum].
  - lra.
  - rewrite IH. rnum. unfold line_term. unfold Rdiv. rewrite (Rmult_comm Qi lam). ring.
Qed.

Lemma loop1_spec cst T acc l :
  total_emission_coefficient_loop1 RNum U cst T acc l =
  acc + cst * Rsum (map (species_emission kB (species R) Z0 (@emission_lines R) T) l).
Proof.
  revert acc; induction l as [|[nv sp] l IH]; intros acc;
    cbn [total_emission_coefficient_loop1 map Rsum].
  - lra.
  - cbv zeta. rewrite IH, loop2_spec. unfold species_emission. cbn [fst snd]. rnum. ring.
Qed.

Lemma emission_eq_spec_raw T sps nd :
  total_emission_coefficient RNum U T sps nd = spec T (combine (removelast nd) (removelast sps)).
Proof.
  unfold total_emission_coefficient, emission_spec. cbv zeta. rewrite loop1_spec. rnum. lra.
Qed.

(* electrons are the last species: whatever their density (and data), they contribute nothing *)
Lemma emission_eq_spec T heavy_sp heavy_nd e ne :
  length heavy_sp = length heavy_nd ->
  total_emission_coefficient RNum U T (heavy_sp ++ [e]) (heavy_nd ++ [ne]) = spec T (combine heavy_nd heavy_sp).
Proof. intros _. rewrite emission_eq_spec_raw, !removelast_last. reflexivity. Qed.

Lemma Rsum_app l1 l2 : Rsum (l1 ++ l2) = Rsum l1 + Rsum l2.
Proof. induction l1 as [|x l1 IH]; cbn [app Rsum]; [lra | rewrite IH; lra]. Qed.

Lemma emission_additive T l1 l2 : spec T (l1 ++ l2) = spec T l1 + spec T l2.
Proof. unfold emission_spec. rewrite map_app, Rsum_app. lra. Qed.

Lemma no_lines_zero T n sp : emission_lines sp = [] -> spec T [(n, sp)] = 0.
Proof. intros H. unfold emission_spec, species_emission. cbn [map fst snd Rsum]. rewrite H. cbn [map Rsum]. lra. Qed.

Lemma emission_perm_invariant T l l' : Permutation l l' -> spec T l = spec T l'.
Proof. intros H. unfold emission_spec. f_equal. apply Rsum_perm, Permutation_map, H. Qed.

Lemma Rsum_nonneg l : (forall x, In x l -> 0 <= x) -> 0 <= Rsum l.
Proof.
  induction l as [|x l IH]; cbn [Rsum]; intros H; [lra|].
  assert (0 <= x) by (apply H; now left). assert (0 <= Rsum l) by (apply IH; intros; apply H; now right). lra.
Qed.

End C15.
