(* Lemmas behind thm/C04.v and thm/C05.v: x0 enters only through the element totals, which are linear in x0;
   fixed points scale; species sums are permutation invariant. *)
From Coq Require Import Reals List Lra ZArith Permutation.
Import ListNotations.
From MPC Require Import Num Species RInst StatMech RVec GenSpecies GenMixture RefEnergy Gibbs C02_proofs C01_proofs C07_proofs.
Open Scope R_scope.

(* ---- element totals are linear in x0 ---- *)
Definition el_total (el : nat) (sps : list (species R)) (x0 : list R) : R :=
  fold_left (fun acc cx => acc + IZR (10 ^ 24) * IZR (Z.of_nat (coeff el (stoichiometry (fst cx)))) * snd cx)
            (combine sps x0) 0.

Lemma el_total_acc el (l : list (species R * R)) a :
  fold_left (fun acc cx => acc + IZR (10 ^ 24) * IZR (Z.of_nat (coeff el (stoichiometry (fst cx)))) * snd cx) l a
  = a + IZR (10 ^ 24) * Rsum (map (fun cx => IZR (Z.of_nat (coeff el (stoichiometry (fst cx)))) * snd cx) l).
Proof.
  revert a. induction l as [|cx l IH]; intros a; cbn [fold_left map Rsum]; [lra|]. rewrite IH. lra.
Qed.

(* b_k = 1e24 * sum_i c_ik x0_i *)
Lemma el_total_spec el sps x0 :
  el_total el sps x0 = IZR (10 ^ 24) * Rsum (map (fun cx => IZR (Z.of_nat (coeff el (stoichiometry (fst cx)))) * snd cx) (combine sps x0)).
Proof. unfold el_total. rewrite el_total_acc. lra. Qed.

Lemma combine_map_r {B C D} (f : C -> D) (l1 : list B) (l2 : list C) :
  combine l1 (map f l2) = map (fun p => (fst p, f (snd p))) (combine l1 l2).
Proof. revert l2. induction l1 as [|x l1 IH]; intros [|y l2]; cbn; try reflexivity. now rewrite IH. Qed.

Lemma el_total_scal el sps x0 c : el_total el sps (map (fun x => c * x) x0) = c * el_total el sps x0.
Proof.
  rewrite !el_total_spec, combine_map_r, map_map. cbn [fst snd].
  replace (map (fun x => IZR (Z.of_nat (coeff el (stoichiometry (fst x)))) * (c * snd x)) (combine sps x0))
    with (map (fun y => c * y) (map (fun x => IZR (Z.of_nat (coeff el (stoichiometry (fst x)))) * snd x) (combine sps x0)))
    by (rewrite map_map; apply map_ext; intros; lra).
  rewrite Rsum_map_scal. lra.
Qed.

Lemma bvec_R sps x0 : bvec RNum sps x0 = map (fun el => el_total el sps x0) (elements sps) ++ [0].
Proof. reflexivity. Qed.

(* x0 multiplied by a positive constant multiplies every right-hand side by that constant (charge row stays 0) *)
Lemma bvec_scal sps x0 c : bvec RNum sps (map (fun x => c * x) x0) = map (fun y => c * y) (bvec RNum sps x0).
Proof.
  rewrite !bvec_R, map_app, map_map. cbn [map]. f_equal.
  - apply map_ext. intros el. apply el_total_scal.
  - f_equal. lra.
Qed.

(* ---- scaling all particle numbers leaves densities, lowerings and chemical potentials unchanged ---- *)
Lemma densities_scal (U : Units R) T P Ni c :
  c <> 0 -> Rsum Ni <> 0 -> k_b U * T <> 0 -> P <> 0 ->
  densities RNum U T P (map (fun x => c * x) Ni) = densities RNum U T P Ni.
Proof.
  intros Hc Hs HkT HP. rewrite !densities_R, Rsum_map_scal, map_map. apply map_ext. intros x.
  field. assert (T <> 0) by (intros ->; apply HkT; ring). assert (k_b U <> 0) by (intros E; apply HkT; rewrite E; ring). auto.
Qed.

Lemma mu_entry_scal (U : Units R) T V (sp : species R) n e0 de c :
  c <> 0 -> V <> 0 -> n <> 0 ->
  mu_entry RNum U T (c * V) sp (c * n) e0 de = mu_entry RNum U T V sp n e0 de.
Proof.
  intros Hc HV Hn.
  assert (HcV : c * V <> 0) by (apply Rmult_integral_contrapositive_currified; assumption).
  assert (Hcn : c * n <> 0) by (apply Rmult_integral_contrapositive_currified; assumption).
  rewrite (mu_scale_free U T (c * V) sp (c * n) e0 de HcV Hcn), (mu_scale_free U T V sp n e0 de HV Hn).
  do 3 f_equal. field. auto.
Qed.

(* ---- species sums do not depend on the listing order ---- *)
Lemma density_perm (U : Units R) (l l' : list (R * species R)) :
  Permutation l l' ->
  Rsum (map (fun ns => fst ns * molar_mass (snd ns)) l) / N_a U = Rsum (map (fun ns => fst ns * molar_mass (snd ns)) l') / N_a U.
Proof. intros H. f_equal. apply Rsum_perm, Permutation_map, H. Qed.

Lemma el_total_perm el (l l' : list (species R * R)) :
  Permutation l l' ->
  Rsum (map (fun cx => IZR (Z.of_nat (coeff el (stoichiometry (fst cx)))) * snd cx) l)
  = Rsum (map (fun cx => IZR (Z.of_nat (coeff el (stoichiometry (fst cx)))) * snd cx) l').
Proof. intros H. apply Rsum_perm, Permutation_map, H. Qed.

(* the Stewart-Pyatt sums, and hence the effective charge, do not depend on the order *)
Lemma zsums_spec (sps : list (species R)) nd :
  zsums RNum sps nd =
  (Rsum (map (fun sn => if Z.ltb 0 (charge_number (fst sn)) then snd sn * IZR (charge_number (fst sn)) else 0) (combine sps nd)),
   Rsum (map (fun sn => if Z.ltb 0 (charge_number (fst sn)) then snd sn * IZR (Z.pow (charge_number (fst sn)) 2) else 0) (combine sps nd))).
Proof.
  unfold zsums.
  assert (G : forall l a b,
    fold_left (fun acc (sn : species R * R) => let '(s1, s2) := acc in let '(sp, n) := sn in
       if Z.ltb 0 (charge_number sp) then (nadd RNum s1 (nmul RNum n (nofZ RNum (charge_number sp))),
                                           nadd RNum s2 (nmul RNum n (nofZ RNum (Z.pow (charge_number sp) 2)))) else (s1, s2)) l (a, b)
    = (a + Rsum (map (fun sn => if Z.ltb 0 (charge_number (fst sn)) then snd sn * IZR (charge_number (fst sn)) else 0) l),
       b + Rsum (map (fun sn => if Z.ltb 0 (charge_number (fst sn)) then snd sn * IZR (Z.pow (charge_number (fst sn)) 2) else 0) l))).
  { induction l as [|[sp n] l IH]; intros a b; cbn [fold_left map Rsum fst snd].
    - f_equal; lra.
    - destruct (Z.ltb 0 (charge_number sp)); rewrite IH; rnum; f_equal; lra. }
  rnum. rewrite G. f_equal; lra.
Qed.

Lemma z_star_perm (l l' : list (species R * R)) :
  Permutation l l' ->
  z_star RNum (map fst l) (map snd l) = z_star RNum (map fst l') (map snd l').
Proof.
  intros H. unfold z_star. rewrite !zsums_spec.
  assert (C : forall l : list (species R * R), combine (map fst l) (map snd l) = l)
    by (induction l0 as [|[a b] l0 IH]; cbn; [reflexivity | now rewrite IH]).
  rewrite !C. rnum. f_equal; apply Rsum_perm, Permutation_map, H.
Qed.
