(* C12, species splitting, translational thermal conductivity k': same argument as for the viscosity, on the 4 nu x 4 nu
   system.  Every assembled block has the first-principles ROW FORM  sqrt(m_i) sum_l n_i n_l (delta_ij K1(i,l) + delta_jl K2(i,l))
   with kernels that depend on (i, l) only through the masses and collision integrals of the pair — for q22, q23, q32 with
   whichever coefficient tables the code currently has (the first-principles ones, or the ones of the recorded finding D4);
   q00 carries in addition Devoto's mass-flux constraint term, which multiplies sum_j n_j sqrt(m_j) x_0j and therefore
   drops out for every solution whose right-hand side sums to zero on the first block row (C12_momentum_constraint). *)
From Coq Require Import Reals List Lra Lia Arith ZArith.
Import ListNotations.
From MPC Require Import Num Species RInst StatMech RVec RSumIdx BracketTables ChapmanEnskog GenTransport Transport C12_proofs C11_base C11_proofs C12_split.
Open Scope R_scope.

(* ---- the three blocks touched by the recorded finding, in row form with SOME tables ---- *)
Definition v11_22_alt (A2 B2 : R) (W : nat -> nat -> R) : R := v11_22 A2 B2 W + 147 / 2 * A2 * B2 ^ 4 * W 2%nat 2%nat.
Definition v12_22_alt (A2 B2 : R) (W : nat -> nat -> R) : R := v12_22 A2 B2 W + 147 / 2 * A2 ^ 2 * B2 ^ 2 * W 2%nat 2%nat.
Definition v11_23_alt (A2 B2 : R) (W : nat -> nat -> R) : R := v11_23 A2 B2 W + 3087 / 8 * A2 * B2 ^ 5 * W 2%nat 2%nat.
Definition v12_23_alt (A2 B2 : R) (W : nat -> nat -> R) : R := v12_23 A2 B2 W + 3087 / 8 * A2 ^ 3 * B2 ^ 2 * W 2%nat 2%nat.
Definition v11_32_alt (A2 B2 : R) (W : nat -> nat -> R) : R := v11_32 A2 B2 W + 3087 / 8 * A2 * B2 ^ 5 * W 2%nat 2%nat.
Definition v12_32_alt (A2 B2 : R) (W : nat -> nat -> R) : R := v12_32 A2 B2 W + 3087 / 8 * A2 ^ 2 * B2 ^ 3 * W 2%nat 2%nat.

Ltac q_block_proof blk M H tabs :=
  intros; unfold blk; cbv zeta; rnum; rewrite sum_left_R, Rplus_0_l;
  unfold q_spec, qhat_spec, sumn; rewrite <- !Rsum_map_scal, ?map_map;
  apply Rsum_map_ext_in; intros l _; change (@delta R RNum) with dlt; unfold dlt;
  match goal with i : nat, j : nat |- _ => block_cases M H i j l tabs end.

Lemma q22_form : exists t11 t12 : table, forall (masses nd : nat -> R) (nb : nat) (Hm : forall i, 0 < masses i) (Qbar : nat -> nat -> nat -> nat -> R) i j,
  q22 RNum (Qbar 1%nat 1%nat) (Qbar 1%nat 2%nat) (Qbar 1%nat 3%nat) (Qbar 1%nat 4%nat) (Qbar 1%nat 5%nat) (Qbar 2%nat 2%nat) (Qbar 2%nat 3%nat) (Qbar 2%nat 4%nat) (Qbar 3%nat 3%nat) masses nb nd i j
  = q_spec masses nd nb Qbar t11 t12 i j.
Proof.
  first [ exists v11_22, v12_22; intros masses nd nb Hm Qbar i j; unfold q22; block_start; block_cases masses Hm i j l ltac:(unfold v11_22, v12_22)
        | exists v11_22_alt, v12_22_alt; intros masses nd nb Hm Qbar i j; unfold q22; block_start;
          block_cases masses Hm i j l ltac:(unfold v11_22_alt, v12_22_alt, v11_22, v12_22) ].
Qed.

Lemma q23_form : exists t11 t12 : table, forall (masses nd : nat -> R) (nb : nat) (Hm : forall i, 0 < masses i) (Qbar : nat -> nat -> nat -> nat -> R) i j,
  q23 RNum (Qbar 1%nat 1%nat) (Qbar 1%nat 2%nat) (Qbar 1%nat 3%nat) (Qbar 1%nat 4%nat) (Qbar 1%nat 5%nat) (Qbar 1%nat 6%nat) (Qbar 2%nat 2%nat) (Qbar 2%nat 3%nat) (Qbar 2%nat 4%nat) (Qbar 2%nat 5%nat) (Qbar 3%nat 3%nat) (Qbar 3%nat 4%nat) masses nb nd i j
  = q_spec masses nd nb Qbar t11 t12 i j.
Proof.
  first [ exists v11_23, v12_23; intros masses nd nb Hm Qbar i j; unfold q23; block_start; block_cases masses Hm i j l ltac:(unfold v11_23, v12_23)
        | exists v11_23_alt, v12_23_alt; intros masses nd nb Hm Qbar i j; unfold q23; block_start;
          block_cases masses Hm i j l ltac:(unfold v11_23_alt, v12_23_alt, v11_23, v12_23) ].
Qed.

Lemma q32_form : exists t11 t12 : table, forall (masses nd : nat -> R) (nb : nat) (Hm : forall i, 0 < masses i) (Qbar : nat -> nat -> nat -> nat -> R) i j,
  masses j / masses i * q23 RNum (Qbar 1%nat 1%nat) (Qbar 1%nat 2%nat) (Qbar 1%nat 3%nat) (Qbar 1%nat 4%nat) (Qbar 1%nat 5%nat) (Qbar 1%nat 6%nat) (Qbar 2%nat 2%nat) (Qbar 2%nat 3%nat) (Qbar 2%nat 4%nat) (Qbar 2%nat 5%nat) (Qbar 3%nat 3%nat) (Qbar 3%nat 4%nat) masses nb nd i j
  = q_spec masses nd nb Qbar t11 t12 i j.
Proof.
  first [ exists v11_32, v12_32; intros masses nd nb Hm Qbar i j; unfold q23; cbv zeta; rnum; rewrite sum_left_R, Rplus_0_l;
          unfold q_spec, qhat_spec, sumn; rewrite <- !Rsum_map_scal, ?map_map;
          apply Rsum_map_ext_in; intros l _; change (@delta R RNum) with dlt; unfold dlt;
          block_cases masses Hm i j l ltac:(unfold v11_32, v12_32)
        | exists v11_32_alt, v12_32_alt; intros masses nd nb Hm Qbar i j; unfold q23; cbv zeta; rnum; rewrite sum_left_R, Rplus_0_l;
          unfold q_spec, qhat_spec, sumn; rewrite <- !Rsum_map_scal, ?map_map;
          apply Rsum_map_ext_in; intros l _; change (@delta R RNum) with dlt; unfold dlt;
          block_cases masses Hm i j l ltac:(unfold v11_32_alt, v12_32_alt, v11_32, v12_32) ].
Qed.

(* ---- row form, generic in the two kernels ---- *)
Section GenRow.
Variables (masses nd : nat -> R) (nb : nat).
Definition gen_spec (K1 K2 : nat -> nat -> R) (i j : nat) : R :=
  sqrt (masses i) * sumn nb (fun l => nd i * nd l * (dlt i j * K1 i l + dlt j l * K2 i l)).

Lemma gen_row K1 K2 (y : nat -> R) i : (i < nb)%nat ->
  sumn nb (fun j => gen_spec K1 K2 i j * y j)
  = sqrt (masses i) * nd i * (y i * sumn nb (fun l => nd l * K1 i l) + sumn nb (fun l => nd l * K2 i l * y l)).
Proof.
  intros Hi. unfold gen_spec.
  rewrite (sumn_ext nb _ (fun j => sqrt (masses i) * nd i *
             (dlt i j * (y j * sumn nb (fun l => nd l * K1 i l)) + sumn nb (fun l => dlt j l * (nd l * K2 i l * y j))))).
  - rewrite sumn_scal, sumn_plus. f_equal. f_equal.
    + rewrite (sumn_delta' nb (fun j => y j * sumn nb (fun l => nd l * K1 i l)) i Hi). reflexivity.
    + rewrite sumn_swap. apply sumn_ext. intros l Hl. rewrite (sumn_delta nb (fun j => nd l * K2 i l * y j) l Hl). reflexivity.
  - intros j _. cbv beta.
    rewrite (sumn_ext nb (fun l => nd i * nd l * (dlt i j * K1 i l + dlt j l * K2 i l))
                         (fun l => nd i * (dlt i j * (nd l * K1 i l)) + nd i * (dlt j l * (nd l * K2 i l)))) by (intros; ring).
    rewrite sumn_plus, !sumn_scal.
    rewrite (sumn_ext nb (fun l => dlt j l * (nd l * K2 i l * y j)) (fun l => (dlt j l * (nd l * K2 i l)) * y j)) by (intros; ring).
    rewrite sumn_scal_r. ring.
Qed.

(* the constraint term of q00 against coefficients y: -(sum_j n_j sqrt(m_j) y_j) times a row factor *)
Lemma constraint_row (Qbar : nat -> nat -> nat -> nat -> R) (y : nat -> R) i :
  sumn nb (fun j => q00_constraint masses nd nb Qbar i j * y j)
  = - (sumn nb (fun j => nd j * sqrt (masses j) * y j)
       * (8 * sumn nb (fun l => nd l * sqrt (masses l) / (sqrt (masses i) * sqrt (masses i + masses l)) * Qbar 1%nat 1%nat i l * (1 - dlt i l)))).
Proof.
  unfold q00_constraint. set (C := 8 * sumn nb _).
  rewrite (sumn_ext nb _ (fun j => (nd j * sqrt (masses j) * y j) * (- C))) by (intros; ring).
  rewrite sumn_scal_r. ring.
Qed.
End GenRow.

Lemma q_spec_gen masses nd nb Qbar t11 t12 i j :
  q_spec masses nd nb Qbar t11 t12 i j = gen_spec masses nd nb (BR masses Qbar t11) (BRv12 masses Qbar t12) i j.
Proof. reflexivity. Qed.

(* ---- all sixteen assembled blocks in row form, with one choice of tables ---- *)
Lemma qblock_form : exists (T11 T12 : nat -> nat -> table),
  forall (masses nd : nat -> R) (nb : nat) (Hm : forall i, 0 < masses i) (Qbar : nat -> nat -> nat -> nat -> R) p p' i j,
  (p < 4)%nat -> (p' < 4)%nat ->
  qblock RNum (qints_of Qbar) masses nb nd p p' i j
  = q_spec masses nd nb Qbar (T11 p p') (T12 p p') i j
    + (if (Nat.eqb p 0 && Nat.eqb p' 0)%bool then q00_constraint masses nd nb Qbar i j else 0).
Proof.
  destruct q22_form as [ta22 [tb22 H22]]. destruct q23_form as [ta23 [tb23 H23]]. destruct q32_form as [ta32 [tb32 H32]].
  exists (fun p p' => match p, p' with
     | 0, 0 => v11_00 | 0, 1 => v11_01 | 0, 2 => v11_02 | 0, _ => v11_03
     | 1, 0 => v11_10 | 1, 1 => v11_11 | 1, 2 => v11_12 | 1, _ => v11_13
     | 2, 0 => v11_20 | 2, 1 => v11_21 | 2, 2 => ta22 | 2, _ => ta23
     | _, 0 => v11_30 | _, 1 => v11_31 | _, 2 => ta32 | _, _ => v11_33 end%nat).
  exists (fun p p' => match p, p' with
     | 0, 0 => v12_00 | 0, 1 => v12_01 | 0, 2 => v12_02 | 0, _ => v12_03
     | 1, 0 => v12_10 | 1, 1 => v12_11 | 1, 2 => v12_12 | 1, _ => v12_13
     | 2, 0 => v12_20 | 2, 1 => v12_21 | 2, 2 => tb22 | 2, _ => tb23
     | _, 0 => v12_30 | _, 1 => v12_31 | _, 2 => tb32 | _, _ => v12_33 end%nat).
  intros masses nd nb Hm Qbar p p' i j Hp Hp'.
  unfold qblock, b00, b01, b02, b03, b11, b12, b13, b22, b23, b33, mr, qints_of.
  cbn [I11 I12 I13 I14 I15 I16 I17 I22 I23 I24 I25 I26 I33 I34 I35 I44]. rnum.
  destruct p as [|[|[|[|p]]]]; [| | | |lia]; (destruct p' as [|[|[|[|p']]]]; [| | | |lia]); cbn [Nat.eqb andb]; rewrite ?Rplus_0_r.
  - apply (q00_eq_spec masses nd nb Hm Qbar).
  - apply (q01_eq_spec masses nd nb Hm Qbar).
  - apply (q02_eq_spec masses nd nb Hm Qbar).
  - apply (q03_eq_spec masses nd nb Hm Qbar).
  - apply (q10_eq_spec masses nd nb Hm Qbar).
  - apply (q11_eq_spec masses nd nb Hm Qbar).
  - apply (q12_eq_spec masses nd nb Hm Qbar).
  - apply (q13_eq_spec masses nd nb Hm Qbar).
  - apply (q20_eq_spec masses nd nb Hm Qbar).
  - apply (q21_eq_spec masses nd nb Hm Qbar).
  - apply (H22 masses nd nb Hm Qbar).
  - apply (H23 masses nd nb Hm Qbar).
  - apply (q30_eq_spec masses nd nb Hm Qbar).
  - apply (q31_eq_spec masses nd nb Hm Qbar).
  - apply (H32 masses nd nb Hm Qbar).
  - apply (q33_eq_spec masses nd nb Hm Qbar).
Qed.

