(* Lemmas behind thm/C08.v: the generated internal-energy kernels are kT^2 d/dT ln(Ztr Zint)
   of the generated partition-function kernels (Coquelicot derivatives). *)
From Coq Require Import Reals List Lra ZArith.
From Coquelicot Require Import Coquelicot.
Import ListNotations.
From MPC Require Import Num Species RInst StatMech GenSpecies C07_proofs.
Open Scope R_scope.

(* logarithmic derivative: f' = b * f *)
Definition lder (f : R -> R) (T b : R) := is_derive f T (b * f T).

Lemma lder_mult f g T a b : lder f T a -> lder g T b -> lder (fun t => f t * g t) T (a + b).
Proof.
  unfold lder; intros Hf Hg. cbv beta.
  assert (E : (a + b) * (f T * g T) = a * f T * g T + f T * (b * g T)) by ring.
  rewrite E. now apply (Derive.is_derive_mult f g T).
Qed.

Lemma lder_const c T : lder (fun _ => c) T 0.
Proof. unfold lder. rewrite Rmult_0_l. apply (@is_derive_const R_AbsRing R_NormedModule). Qed.

Lemma lder_ext f g T a : (forall t, f t = g t) -> lder f T a -> lder g T a.
Proof. unfold lder; intros H Hf. rewrite <- H. now apply (is_derive_ext f g). Qed.

Lemma lder_ln f T a : lder f T a -> 0 < f T -> is_derive (fun t => ln (f t)) T a.
Proof.
  unfold lder; intros Hf Hp.
  replace a with (a * f T * / f T) by (field; lra).
  apply (is_derive_comp ln f T (/ f T) (a * f T)); [apply is_derive_ln; exact Hp | exact Hf].
Qed.

Lemma lder_Rprod (fs : list (R -> R)) (bs : list R) T :
  List.Forall2 (fun f b => lder f T b) fs bs ->
  lder (fun t => Rprod (map (fun f => f t) fs)) T (Rsum bs).
Proof.
  induction 1 as [|f b fs bs Hf _ IH]; cbn [map Rprod Rsum].
  - apply lder_const.
  - now apply lder_mult.
Qed.

(* ---- building blocks ---- *)
Lemma lder_Rpower_32 c T : 0 < c -> 0 < T -> lder (fun t => Rpower (c * t) (3 / 2)) T (3 / (2 * T)).
Proof.
  intros Hc HT. unfold lder, Rpower. auto_derive.
  - apply Rmult_lt_0_compat; assumption.
  - field. split; lra.
Qed.

Lemma lder_linear c T : c <> 0 -> 0 < T -> lder (fun t => c * t) T (/ T).
Proof. intros Hc HT. unfold lder. auto_derive; [exact I | field; lra]. Qed.

Lemma exp_neg_lt_1 x : 0 < x -> exp (- x) < 1.
Proof. intros Hx. rewrite <- exp_0. apply exp_increasing. lra. Qed.

Definition Evib (kB w T : R) : R := w / (2 * tanh (w / (2 * (kB * T)))).

Lemma lder_Zvib kB w T : 0 < kB -> 0 < w -> 0 < T ->
  lder (fun t => Zvib_spec kB w t) T (Evib kB w T / (kB * T ^ 2)).
Proof.
  intros Hk Hw HT. unfold lder, Zvib_spec, Evib.
  assert (HkT : 0 < kB * T) by (apply Rmult_lt_0_compat; assumption).
  set (x := w / (2 * (kB * T))).
  assert (Hx : 0 < x) by (unfold x; apply Rdiv_lt_0_compat; lra).
  assert (Hy1 : exp (- x) < 1) by (apply exp_neg_lt_1; exact Hx).
  assert (Hy0 : 0 < exp (- x)) by apply exp_pos.
  assert (E1 : exp (- w / (2 * (kB * T))) = exp (- x)) by (f_equal; unfold x; field; lra).
  assert (E2 : exp (- w / (kB * T)) = exp (- x) * exp (- x))
    by (rewrite <- exp_plus; f_equal; unfold x; field; lra).
  assert (E1' : exp (- w * / (2 * (kB * T))) = exp (- x)) by (rewrite <- E1; f_equal).
  assert (E2' : exp (- w * / (kB * T)) = exp (- x) * exp (- x)) by (rewrite <- E2; f_equal).
  assert (Hd : 1 - exp (- x) * exp (- x) <> 0) by nra.
  auto_derive.
  - repeat split; try lra; try exact I; rewrite E2'; intros Hc; apply Hd; lra.
  - rewrite E1', E2', E1, E2. unfold tanh, sinh, cosh.
    replace (exp x) with (/ exp (- x)) by (rewrite exp_Ropp, Rinv_inv; reflexivity).
    set (y := exp (- x)) in *.
    assert (Hx2 : x = w / (2 * (kB * T))) by reflexivity.
    clearbody y. clear E1 E2 E1' E2'.
    assert (Hw' : w = x * (2 * (kB * T))) by (rewrite Hx2; field; lra).
    rewrite Hw'. field. repeat split; try lra; try nra.
Qed.

Lemma Zvib_pos kB w T : 0 < kB -> 0 < w -> 0 < T -> 0 < Zvib_spec kB w T.
Proof.
  intros Hk Hw HT. unfold Zvib_spec.
  assert (HkT : 0 < kB * T) by (apply Rmult_lt_0_compat; assumption).
  apply Rdiv_lt_0_compat; [apply exp_pos|].
  assert (exp (- w / (kB * T)) < 1).
  { replace (- w / (kB * T)) with (- (w / (kB * T))) by (field; lra).
    apply exp_neg_lt_1. apply Rdiv_lt_0_compat; lra. }
  lra.
Qed.

Lemma lder_sqrt_cube c T : 0 < c -> 0 < T -> lder (fun t => sqrt ((c * t) ^ 3)) T (3 / (2 * T)).
Proof.
  intros Hc HT. unfold lder.
  assert (H1 : 0 < c * T) by (apply Rmult_lt_0_compat; assumption).
  assert (H3 : 0 < (c * T) ^ 3) by (apply pow_lt; assumption).
  assert (E3 : c * T * (c * T * (c * T * 1)) = (c * T) ^ 3) by ring.
  assert (Hs : sqrt ((c * T) ^ 3) * sqrt ((c * T) ^ 3) = (c * T) ^ 3) by (apply sqrt_sqrt; lra).
  assert (Hs0 : 0 < sqrt ((c * T) ^ 3)) by (apply sqrt_lt_R0; assumption).
  auto_derive.
  - rewrite E3. exact H3.
  - rewrite E3. set (r := sqrt ((c * T) ^ 3)) in *.
    apply Rmult_eq_reg_r with (r := 2 * r * (2 * T)); [|nra].
    field_simplify; [|lra|lra].
    replace (r ^ 2) with ((c * T) ^ 3) by (rewrite <- Hs; ring).
    ring.
Qed.

(* ---- assembling: ln (Ztr * Zint) ---- *)
Section C08.
Variable U : Units R.
Notation kB := (k_b U).
Hypothesis HkB : 0 < kB.
Hypothesis HNa : 0 < N_a U.
Hypothesis Hh : h_pl U <> 0.

Lemma lder_Ztr (s : species R) T : 0 < molar_mass s -> 0 < T ->
  lder (fun t => translational_Z RNum U s t) T (3 / (2 * T)).
Proof.
  intros HM HT.
  set (c := 2 * PI * molar_mass s * kB / (N_a U * h_pl U ^ 2)).
  assert (Hc : 0 < c).
  { unfold c. apply Rdiv_lt_0_compat.
    - assert (HPI := PI_RGT_0).
      apply Rmult_lt_0_compat; [apply Rmult_lt_0_compat; [lra | assumption] | assumption].
    - apply Rmult_lt_0_compat; [assumption|]. cbn [pow]. rewrite Rmult_1_r.
      destruct (Rtotal_order (h_pl U) 0) as [Hn|[Hz|Hp]]; [nra|contradiction|nra]. }
  apply lder_ext with (f := fun t => Rpower (c * t) (3 / 2)).
  - (* through the C07 statement "kernel = documented formula", so that this proof does not depend on how the source spells it *)
    intros t. rewrite (translational_Z_eq_spec U s t (Rgt_not_eq _ _ HNa) Hh). unfold Ztr_spec. f_equal. unfold c. field.
    split; [lra | exact Hh].
  - apply lder_Rpower_32; assumption.
Qed.

Lemma Ztr_pos (s : species R) T : 0 < translational_Z RNum U s T.
Proof. unfold translational_Z. rnum. unfold Rpower. apply exp_pos. Qed.

Lemma lnZ_derive (s : species R) (g : R -> R) T b :
  0 < molar_mass s -> 0 < T -> lder g T b -> 0 < g T ->
  is_derive (fun t => ln (translational_Z RNum U s t * g t)) T (3 / (2 * T) + b).
Proof.
  intros HM HT Hg Hgp.
  apply (lder_ln (fun t => translational_Z RNum U s t * g t)).
  - apply lder_mult; [apply lder_Ztr; assumption | exact Hg].
  - apply Rmult_lt_0_compat; [apply Ztr_pos | exact Hgp].
Qed.

(* ---- monatomic ---- *)
Definition wE (T : R) (JE : R * R) : R := snd JE * level_weight kB T JE.

Lemma is_derive_levels (l : list (R * R)) T : 0 < T ->
  is_derive (fun t => Rsum (map (level_weight kB t) l)) T (Rsum (map (wE T) l) / (kB * T ^ 2)).
Proof.
  intros HT. induction l as [|[J E] l IH]; cbn [map Rsum].
  - unfold Rdiv. rewrite Rmult_0_l. apply (@is_derive_const R_AbsRing R_NormedModule).
  - replace ((wE T (J, E) + Rsum (map (wE T) l)) / (kB * T ^ 2))
      with (wE T (J, E) / (kB * T ^ 2) + Rsum (map (wE T) l) / (kB * T ^ 2)) by (field; lra).
    apply (is_derive_plus (fun t => level_weight kB t (J, E)) (fun t => Rsum (map (level_weight kB t) l))); [|exact IH].
    unfold level_weight, wE. cbn [fst snd]. auto_derive.
    + apply Rgt_not_eq, Rmult_lt_0_compat; assumption.
    + unfold level_weight; cbn [fst snd]; unfold Rdiv; field; lra.
Qed.

Lemma mono_U_eq_spec (s : species R) T dE :
  mono_U RNum U s T dE = Umono_spec kB (ionisation_energy s) (energy_levels s) T dE.
Proof.
  unfold mono_U, Umono_spec. cbv zeta. rewrite mono_Zint_eq_spec.
  assert (Hl : forall beta acc l,
     mono_U_loop1 RNum s dE beta acc l =
     acc + Rsum (map (fun JE => (2 * fst JE + 1) * snd JE * exp (- beta * snd JE))
                     (bound_levels (ionisation_energy s) dE l))).
  { intros beta acc l; revert acc; induction l as [|[J E] l IH]; intros acc;
      cbn [mono_U_loop1 bound_levels filter map Rsum]; [lra|].
    rnum. rewrite IH. unfold Rltb, bound_levels. cbn [snd fst].
    destruct (Rlt_dec E (ionisation_energy s - dE)); cbn [map Rsum fst snd]; lra. }
  rewrite Hl. rnum. rewrite Rplus_0_l. f_equal. f_equal.
  f_equal. apply map_ext. intros [J E]. unfold level_weight. cbn [fst snd].
  replace (- (1 / (kB * T)) * E) with (- E / (kB * T)) by (unfold Rdiv; ring). ring.
Qed.

Lemma U_is_kT2_dlnZ_mono (s : species R) T dE :
  0 < molar_mass s -> 0 < T -> 0 < mono_Zint RNum U s T dE ->
  is_derive (fun t => ln (translational_Z RNum U s t * mono_Zint RNum U s t dE)) T
            (mono_U RNum U s T dE / (kB * T ^ 2)).
Proof.
  intros HM HT HZ.
  set (bl := bound_levels (ionisation_energy s) dE (energy_levels s)).
  set (b := Rsum (map (wE T) bl) / Rsum (map (level_weight kB T) bl) / (kB * T ^ 2)).
  assert (HZ' : 0 < Rsum (map (level_weight kB T) bl)) by (rewrite mono_Zint_eq_spec in HZ; exact HZ).
  replace (mono_U RNum U s T dE / (kB * T ^ 2)) with (3 / (2 * T) + b).
  - apply lnZ_derive; try assumption.
    apply lder_ext with (f := fun t => Rsum (map (level_weight kB t) bl)).
    + intros t. rewrite mono_Zint_eq_spec. reflexivity.
    + unfold lder.
      replace (b * Rsum (map (level_weight kB T) bl)) with (Rsum (map (wE T) bl) / (kB * T ^ 2))
        by (unfold b; field; repeat split; lra).
      apply is_derive_levels; assumption.
  - rewrite mono_U_eq_spec. unfold Umono_spec, Zint_mono_spec, b, wE. fold bl. field. repeat split; lra.
Qed.

(* ---- diatomic ---- *)
Lemma U_is_kT2_dlnZ_di (s : species R) T dE :
  0 < molar_mass s -> 0 < T -> 0 < g0 s -> 0 < w_e s -> 0 < b_e s -> 0 < sigma_s s ->
  is_derive (fun t => ln (translational_Z RNum U s t * di_Zint RNum U s t dE)) T
            (di_U RNum U s T dE / (kB * T ^ 2)).
Proof.
  intros HM HT Hg Hw Hb Hs.
  assert (Hsb : 0 < sigma_s s * b_e s) by (apply Rmult_lt_0_compat; assumption).
  replace (di_U RNum U s T dE / (kB * T ^ 2)) with (3 / (2 * T) + (0 + Evib kB (w_e s) T / (kB * T ^ 2) + / T)).
  - apply lnZ_derive; try assumption.
    + apply lder_ext with (f := fun t => g0 s * Zvib_spec kB (w_e s) t * (kB / (sigma_s s * b_e s) * t)).
      * intros t. rewrite di_Zint_eq_spec. unfold Zint_di_spec, Zrot_linear_spec. field. lra.
      * apply lder_mult; [apply lder_mult; [apply lder_const | apply lder_Zvib; assumption]|].
        apply lder_linear; [|assumption]. apply Rgt_not_eq, Rdiv_lt_0_compat; assumption.
    + rewrite di_Zint_eq_spec. unfold Zint_di_spec, Zrot_linear_spec.
      apply Rmult_lt_0_compat; [apply Rmult_lt_0_compat; [assumption | apply Zvib_pos; assumption]|].
      apply Rdiv_lt_0_compat; [apply Rmult_lt_0_compat|]; assumption.
  - unfold di_U. rnum. fold (Evib kB (w_e s) T). set (ev := Evib _ _ _). field; try split; lra.
Qed.

(* ---- polyatomic ---- *)
Lemma vib_sum_eq (ws : list R) T :
  sum_list RNum (map (fun wi => ndiv RNum wi (nmul RNum (nofZ RNum 2%Z)
      (ntanh RNum (ndiv RNum wi (nmul RNum (nofZ RNum 2%Z) (nmul RNum kB T)))))) ws)
  = Rsum (map (fun w => Evib kB w T) ws).
Proof. rewrite sum_list_Rsum. reflexivity. Qed.

Lemma lder_vib_prod (ws : list R) T : 0 < T -> List.Forall (fun w => 0 < w) ws ->
  lder (fun t => Rprod (map (fun w => Zvib_spec kB w t) ws)) T
       (Rsum (map (fun w => Evib kB w T) ws) / (kB * T ^ 2)).
Proof.
  intros HT Hws. induction Hws as [|w ws Hw _ IH]; cbn [map Rprod Rsum].
  - unfold Rdiv. rewrite Rmult_0_l. apply lder_const.
  - replace ((Evib kB w T + Rsum (map (fun w0 => Evib kB w0 T) ws)) / (kB * T ^ 2))
      with (Evib kB w T / (kB * T ^ 2) + Rsum (map (fun w0 => Evib kB w0 T) ws) / (kB * T ^ 2)) by (field; lra).
    apply lder_mult; [apply lder_Zvib; assumption | exact IH].
Qed.

Lemma vib_prod_pos (ws : list R) T : 0 < T -> List.Forall (fun w => 0 < w) ws ->
  0 < Rprod (map (fun w => Zvib_spec kB w T) ws).
Proof.
  intros HT Hws. induction Hws as [|w ws Hw _ IH]; cbn [map Rprod]; [lra|].
  apply Rmult_lt_0_compat; [apply Zvib_pos; assumption | exact IH].
Qed.

Lemma U_is_kT2_dlnZ_poly_linear (s : species R) T dE :
  linear_yn s = true ->
  0 < molar_mass s -> 0 < T -> 0 < g0 s -> List.Forall (fun w => 0 < w) (wi_e s) ->
  0 < nth 1 (abc_e s) 0 -> 0 < sigma_s s ->
  is_derive (fun t => ln (translational_Z RNum U s t * poly_Zint RNum U s t dE)) T
            (poly_U RNum U s T dE / (kB * T ^ 2)).
Proof.
  intros Hl HM HT Hg Hw Hb Hs.
  set (B := nth 1 (abc_e s) 0) in *.
  assert (Hsb : 0 < sigma_s s * B) by (apply Rmult_lt_0_compat; assumption).
  replace (poly_U RNum U s T dE / (kB * T ^ 2))
    with (3 / (2 * T) + (0 + Rsum (map (fun w => Evib kB w T) (wi_e s)) / (kB * T ^ 2) + / T)).
  - apply lnZ_derive; try assumption.
    + apply lder_ext with (f := fun t => g0 s * Rprod (map (fun w => Zvib_spec kB w t) (wi_e s)) * (kB / (sigma_s s * B) * t)).
      * intros t. rewrite poly_Zint_eq_spec_linear by assumption.
        unfold Zint_poly_linear_spec, Zrot_linear_spec. fold B. field. lra.
      * apply lder_mult; [apply lder_mult; [apply lder_const | apply lder_vib_prod; assumption]|].
        apply lder_linear; [|assumption]. apply Rgt_not_eq, Rdiv_lt_0_compat; assumption.
    + rewrite poly_Zint_eq_spec_linear by assumption. unfold Zint_poly_linear_spec, Zrot_linear_spec. fold B.
      apply Rmult_lt_0_compat; [apply Rmult_lt_0_compat; [assumption | apply vib_prod_pos; assumption]|].
      apply Rdiv_lt_0_compat; [apply Rmult_lt_0_compat|]; assumption.
  - unfold poly_U. rewrite Hl. cbv zeta. rewrite vib_sum_eq. rnum. field. lra.
Qed.

Lemma U_is_kT2_dlnZ_poly_nonlinear (s : species R) T dE Ae Be Ce :
  linear_yn s = false -> abc_e s = [Ae; Be; Ce] ->
  0 < molar_mass s -> 0 < T -> 0 < g0 s -> List.Forall (fun w => 0 < w) (wi_e s) ->
  0 < Ae -> 0 < Be -> 0 < Ce -> 0 < sigma_s s ->
  is_derive (fun t => ln (translational_Z RNum U s t * poly_Zint RNum U s t dE)) T
            (poly_U RNum U s T dE / (kB * T ^ 2)).
Proof.
  intros Hl Habc HM HT Hg Hw HA HB HC Hs.
  assert (HABC : 0 < Ae * Be * Ce) by (repeat apply Rmult_lt_0_compat; assumption).
  assert (Hsq : 0 < sqrt (Ae * Be * Ce)) by (apply sqrt_lt_R0; assumption).
  assert (HsPI : 0 < sqrt PI) by (apply sqrt_lt_R0, PI_RGT_0).
  assert (Hrot : forall t, 0 < t -> Zrot_nonlinear_spec kB (sigma_s s) Ae Be Ce t =
                         sqrt PI / sigma_s s / sqrt (Ae * Be * Ce) * sqrt ((kB * t) ^ 3)).
  { intros t Ht. unfold Zrot_nonlinear_spec. rewrite sqrt_div_alt by assumption. field. split; lra. }
  replace (poly_U RNum U s T dE / (kB * T ^ 2))
    with (3 / (2 * T) + (0 + Rsum (map (fun w => Evib kB w T) (wi_e s)) / (kB * T ^ 2) + (0 + 3 / (2 * T)))).
  - apply (lder_ln (fun t => translational_Z RNum U s t * poly_Zint RNum U s t dE)).
    + apply lder_mult; [apply lder_Ztr; assumption|].
      unfold lder.
      (* the rewriting of the rotational factor is only valid for t > 0: use the local extension lemma *)
      apply (is_derive_ext_loc
               (fun t => g0 s * Rprod (map (fun w => Zvib_spec kB w t) (wi_e s))
                         * (sqrt PI / sigma_s s / sqrt (Ae * Be * Ce) * sqrt ((kB * t) ^ 3)))).
      * exists (mkposreal T HT). intros t Ht.
        assert (0 < t).
        { unfold ball in Ht; cbn in Ht. unfold AbsRing_ball, abs, minus, plus, opp in Ht; cbn in Ht.
          apply Rabs_def2 in Ht. lra. }
        rewrite (poly_Zint_eq_spec_nonlinear U s t dE Ae Be Ce) by assumption.
        unfold Zint_poly_nonlinear_spec. rewrite Hrot by assumption. reflexivity.
      * rewrite (poly_Zint_eq_spec_nonlinear U s T dE Ae Be Ce) by assumption.
        unfold Zint_poly_nonlinear_spec. rewrite Hrot by assumption.
        apply (lder_mult (fun t => g0 s * Rprod (map (fun w => Zvib_spec kB w t) (wi_e s)))
                         (fun t => sqrt PI / sigma_s s / sqrt (Ae * Be * Ce) * sqrt ((kB * t) ^ 3))).
        -- apply lder_mult; [apply lder_const | apply lder_vib_prod; assumption].
        -- apply lder_mult; [apply lder_const | apply lder_sqrt_cube; assumption].
    + apply Rmult_lt_0_compat; [apply Ztr_pos|].
      rewrite (poly_Zint_eq_spec_nonlinear U s T dE Ae Be Ce) by assumption.
      unfold Zint_poly_nonlinear_spec. rewrite Hrot by assumption.
      apply Rmult_lt_0_compat; [apply Rmult_lt_0_compat; [assumption | apply vib_prod_pos; assumption]|].
      apply Rmult_lt_0_compat.
      * apply Rdiv_lt_0_compat; [apply Rdiv_lt_0_compat|]; assumption.
      * apply sqrt_lt_R0, pow_lt, Rmult_lt_0_compat; assumption.
  - unfold poly_U. rewrite Hl. cbv zeta. rewrite vib_sum_eq. rnum. field. lra.
Qed.

(* ---- electron ---- *)
Lemma U_is_kT2_dlnZ_electron (s : species R) T dE :
  0 < molar_mass s -> 0 < T ->
  is_derive (fun t => ln (translational_Z RNum U s t * electron_Zint RNum s t dE)) T
            (electron_U RNum U s T dE / (kB * T ^ 2)).
Proof.
  intros HM HT.
  replace (electron_U RNum U s T dE / (kB * T ^ 2)) with (3 / (2 * T) + 0).
  - apply lnZ_derive; try assumption; [apply lder_const | unfold electron_Zint; rnum; lra].
  - unfold electron_U. rnum. field. lra.
Qed.

End C08.
