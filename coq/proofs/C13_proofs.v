(* Lemmas behind thm/C13.v: the collision-integral dispatch and kernels regenerated from functions_transport.py. *)
From Coq Require Import Reals List Lra Lia Arith ZArith Bool.
From Interval Require Import Tactic.
Import ListNotations.
From MPC Require Import Num Species RInst StatMech RVec RefEnergy TransportLib GenTransport.
Open Scope R_scope.

Section Dispatch.
Context {A : Type} (N : Num A) (U : Units A).
Variables (si sj : species A) (ni nj T : A) (l s : nat).
Notation zi := (charge_number si).
Notation zj := (charge_number sj).
Definition is_e (sp : species A) : bool := Nat.eqb (sname sp) 0.
(* electrons carry charge -1 (so a neutral species is never the electron) *)
Hypothesis Hei : is_e si = true -> zi = (-1)%Z.
Hypothesis Hej : is_e sj = true -> zj = (-1)%Z.
Notation cls := (Qij_class si ni sj nj l s T).

Definition tr_conditions : bool :=
  stoich_eqb (stoichiometry si) (stoichiometry sj) && (Z.eqb (Z.abs (zi - zj)) 1 && Z.eqb (Z.of_nat l mod 2) 1).

Ltac dtests :=
  unfold Qij_class, is_e, tr_conditions in *;
  destruct (Z.eqb_spec zi 0) as [Hzi|Hzi]; destruct (Z.eqb_spec zj 0) as [Hzj|Hzj];
  destruct (Nat.eqb_spec (sname si) 0) as [Hni|Hni]; destruct (Nat.eqb_spec (sname sj) 0) as [Hnj|Hnj];
  cbn [negb andb orb] in *;
  try (specialize (Hei eq_refl)); try (specialize (Hej eq_refl)); try lia; try reflexivity; try discriminate.

(* Coulomb for any two charged particles, and only for them *)
Lemma class_coulomb : (exists b, cls = CCall Qc_tag b) <-> (zi <> 0%Z /\ zj <> 0%Z).
Proof.
  split.
  - intros [b H]. dtests; try (split; assumption);
      repeat match type of H with context [if ?c then _ else _] => destruct c end; discriminate.
  - intros [H1 H2]. exists true. dtests.
Qed.

(* the electron-neutral fit iff one partner is the electron and the other is neutral; it receives the neutral *)
Lemma class_electron_neutral :
  (exists b, cls = CCall Qe_tag b) <-> ((is_e sj = true /\ zi = 0%Z) \/ (is_e si = true /\ zj = 0%Z)).
Proof.
  split.
  - intros [b H]. dtests; try (left; split; [reflexivity|assumption]); try (right; split; [reflexivity|assumption]);
      repeat match type of H with context [if ?c then _ else _] => destruct c end; try discriminate.
  - intros [[He Hz]|[He Hz]]; dtests; eauto.
Qed.
Lemma electron_neutral_argument :
  (is_e sj = true -> zi = 0%Z -> cls = CCall Qe_tag true) /\ (is_e si = true -> zj = 0%Z -> is_e sj = false -> cls = CCall Qe_tag false).
Proof. split; intros; dtests; try discriminate. Qed.

(* neutral-neutral iff both are neutral *)
Lemma class_neutral_neutral : (exists b, cls = CCall Qnn_tag b) <-> (zi = 0%Z /\ zj = 0%Z).
Proof.
  split.
  - intros [b H]. dtests; try (split; assumption);
      repeat match type of H with context [if ?c then _ else _] => destruct c end; try discriminate.
  - intros [H1 H2]. exists true. dtests.
Qed.

(* resonant charge transfer only between a species and its own ion differing by one charge, only for odd l,
   and only when exactly one partner is neutral and neither is the electron *)
Lemma class_charge_transfer :
  (exists b, cls = CCall Qtr_tag b) <->
  (tr_conditions = true /\ is_e si = false /\ is_e sj = false /\ ((zi = 0%Z /\ zj <> 0%Z) \/ (zi <> 0%Z /\ zj = 0%Z))).
Proof.
  split.
  - intros [b H]. dtests;
      destruct (stoich_eqb (stoichiometry si) (stoichiometry sj) && (Z.eqb (Z.abs (zi - zj)) 1 && Z.eqb (Z.of_nat l mod 2) 1)) eqn:?;
      try discriminate; repeat split; auto.
  - intros [Ht [H1 [H2 H3]]]. exists true. dtests; try discriminate; rewrite Ht; try reflexivity; destruct H3 as [[? ?]|[? ?]]; lia.
Qed.

(* ion-neutral elastic otherwise, and it receives (ion, neutral) *)
Lemma class_ion_neutral :
  (exists b, cls = CCall Qin_tag b) <->
  (tr_conditions = false /\ is_e si = false /\ is_e sj = false /\ ((zi = 0%Z /\ zj <> 0%Z) \/ (zi <> 0%Z /\ zj = 0%Z))).
Proof.
  split.
  - intros [b H]. dtests;
      destruct (stoich_eqb (stoichiometry si) (stoichiometry sj) && (Z.eqb (Z.abs (zi - zj)) 1 && Z.eqb (Z.of_nat l mod 2) 1)) eqn:?;
      try discriminate; repeat split; auto.
  - intros [Ht [H1 [H2 H3]]]. dtests; try discriminate; rewrite Ht; eauto; destruct H3 as [[? ?]|[? ?]]; lia.
Qed.
Lemma ion_neutral_argument :
  tr_conditions = false -> is_e si = false -> is_e sj = false ->
  (zi = 0%Z -> zj <> 0%Z -> cls = CCall Qin_tag false) /\ (zi <> 0%Z -> zj = 0%Z -> cls = CCall Qin_tag true).
Proof. intros Ht H1 H2. split; intros; dtests; try discriminate; rewrite Ht; reflexivity. Qed.

(* the `raise ValueError("Unknown collision type")` branch is unreachable *)
Lemma class_never_unknown : cls <> CUnknown.
Proof.
  dtests; repeat match goal with |- context [if ?c then _ else _] => destruct c end; discriminate.
Qed.

(* the value function follows the class *)
Lemma Qij_by_class :
  Qij N U si ni sj nj l s T =
  match cls with
  | CCall Qc_tag _ => Qc N U si ni sj nj l s T
  | CCall Qe_tag first => Qe N U (if first then si else sj) l s T
  | CCall Qnn_tag _ => Qnn N U si sj l s T
  | CCall Qtr_tag _ => Qtr N U si sj s T
  | CCall Qin_tag first => if first then Qin N U si sj l s T else Qin N U sj si l s T
  | CUnknown => ndiv N (nofZ N 0%Z) (nofZ N 0%Z)
  end.
Proof.
  unfold Qij, Qij_class.
  repeat match goal with |- context [if ?c then _ else _] => destruct c end; reflexivity.
Qed.
End Dispatch.

(* ---- the temperature-derivative recursion for orders beyond the fitted table ---- *)
Section Recursion.
Context {A : Type} (N : Num A).
Variables (guard : nat -> bool) (fit : nat -> A -> A).
Hypothesis guard0 : guard 0 = false.

Lemma Q_recursion_stable s : forall f1 f2 T, (s <= f1)%nat -> (s <= f2)%nat ->
  Q_recursion N guard fit f1 s T = Q_recursion N guard fit f2 s T.
Proof.
  induction s as [|s IH]; intros f1 f2 T H1 H2.
  - destruct f1, f2; cbn [Q_recursion]; rewrite guard0; reflexivity.
  - destruct f1 as [|f1]; [lia|]. destruct f2 as [|f2]; [lia|]. cbn [Q_recursion].
    destruct (guard (S s)); [|reflexivity]. replace (S s - 1)%nat with s by lia.
    rewrite (IH f1 f2 T), (IH f1 f2 (nadd N T _)), (IH f1 f2 (nsub N T _)) by lia. reflexivity.
Qed.

Lemma Q_recursion_S f s T :
  Q_recursion N guard fit (S f) s T =
  if guard s then
    nadd N (Q_recursion N guard fit f (s - 1) T)
           (nmul N (ndiv N T (nofZ N (Z.of_nat (s + 1))))
                   (nsub N (Q_recursion N guard fit f (s - 1) (nadd N T (ndiv N (nofZ N 1%Z) (nofZ N 2%Z))))
                           (Q_recursion N guard fit f (s - 1) (nsub N T (ndiv N (nofZ N 1%Z) (nofZ N 2%Z))))))
  else fit s T.
Proof. reflexivity. Qed.

(* Q(l,s,T) = Q(l,s-1,T) + T/(s+1) (Q(l,s-1,T+1/2) - Q(l,s-1,T-1/2)) whenever the guard selects the order *)
Lemma recursion_form fuel s T : guard s = true -> (s <= fuel)%nat ->
  let Qf := Q_recursion N guard fit fuel in
  let half := ndiv N (nofZ N 1%Z) (nofZ N 2%Z) in
  Qf s T = nadd N (Qf (s - 1)%nat T)
                  (nmul N (ndiv N T (nofZ N (Z.of_nat (s + 1)))) (nsub N (Qf (s - 1)%nat (nadd N T half)) (Qf (s - 1)%nat (nsub N T half)))).
Proof.
  intros Hg Hs Qf half. unfold Qf. destruct fuel as [|fuel].
  - assert (s = 0)%nat by lia. subst. rewrite guard0 in Hg. discriminate.
  - destruct s as [|s]; [rewrite guard0 in Hg; discriminate|].
    rewrite (Q_recursion_S fuel (S s) T), Hg. replace (S s - 1)%nat with s by lia. fold half.
    rewrite !(Q_recursion_stable s (S fuel) fuel) by lia. reflexivity.
Qed.
Lemma fitted_form fuel s T : guard s = false -> Q_recursion N guard fit fuel s T = fit s T.
Proof. intros Hg. destruct fuel; cbn [Q_recursion]; rewrite Hg; reflexivity. Qed.
End Recursion.

(* among the 16 orders the transport code consumes, the recursion is used exactly for (1,6) (1,7) (2,5) (2,6) (3,4) (3,5) *)
Definition consumed_orders : list (nat * nat) :=
  [(1,1);(1,2);(1,3);(1,4);(1,5);(1,6);(1,7);(2,2);(2,3);(2,4);(2,5);(2,6);(3,3);(3,4);(3,5);(4,4)]%nat.
Lemma guard_selects :
  filter (fun ls => Qnn_guard (fst ls) (snd ls)) consumed_orders = [(1,6);(1,7);(2,5);(2,6);(3,4);(3,5)]%nat /\
  filter (fun ls => Qin_guard (fst ls) (snd ls)) consumed_orders = [(1,6);(1,7);(2,5);(2,6);(3,4);(3,5)]%nat /\
  (forall l, Qnn_guard l 0 = false) /\ (forall l, Qin_guard l 0 = false).
Proof.
  split; [vm_compute; reflexivity|]. split; [vm_compute; reflexivity|].
  split; intros l; unfold Qnn_guard, Qin_guard; cbn [Z.of_nat Z.leb Z.compare]; rewrite !andb_false_r; reflexivity.
Qed.

Lemma pow2_gt_0 x : x <> 0 -> 0 < x ^ 2.
Proof. intros H. destruct (Rtotal_order x 0) as [Hn|[Hz|Hp]]; [nra | contradiction | nra]. Qed.

(* ---- real-valued clauses ---- *)
Section Reals.
Variable U : Units R.
Variable G : R -> R.                 (* stands for scipy.special.gamma *)
Notation RN := (RNumG G).

(* Coulomb integrals scale with (z_i z_j / T)^2 times the documented logarithmic bracket *)
Lemma Qc_scaling (si sj : species R) ni nj (l s : nat) T :
  (1 <= s)%nat -> T <> 0 -> k_b U <> 0 ->
  Qc RN U si ni sj nj l s T =
  (IZR (nth (Z.to_nat (Z.of_nat l - 1)) [4; 12; 12; 16]%Z 0%Z) * PI / IZR (Z.of_nat s * (Z.of_nat s + 1)))
  * (ke_c U * e_ch U ^ 2 / (2 * k_b U)) ^ 2 * (IZR (charge_number si) * IZR (charge_number sj) / T) ^ 2
  * (cl_charged RN U si sj ni nj T + ln 2 - nth (Z.to_nat (Z.of_nat l - 1)) [1/2; 1; 7/6; 4/3] 0 - 2 * egamma U + psiconst RN s).
Proof. intros Hs HT Hk. unfold Qc. cbv zeta. rnum. field. repeat split; try assumption. apply not_0_IZR. nia. Qed.

Lemma harm_nonneg p a n : (0 < a)%nat -> 0 <= harm RN p a n.
Proof.
  intros Ha. induction n as [|n IH]; cbn [harm]; rnum; [lra|].
  assert (0 < IZR (Z.of_nat (a + n))) by (apply IZR_lt; lia).
  assert (0 < / IZR (Z.of_nat (a + n)) ^ p) by (apply Rinv_0_lt_compat, pow_lt; assumption).
  unfold Rdiv. lra.
Qed.
Lemma psiconst_nonneg s : 0 <= psiconst RN s.
Proof. unfold psiconst. destruct (Nat.eqb s 1); [rnum; lra | apply harm_nonneg; lia]. Qed.

(* positive whenever the Coulomb logarithm is inside its validity range (above 2), for every consumed order *)
Lemma Qc_positive (si sj : species R) ni nj (l s : nat) T :
  (1 <= l <= 4)%nat -> (1 <= s)%nat -> T <> 0 -> k_b U <> 0 ->
  ke_c U * e_ch U ^ 2 <> 0 -> charge_number si <> 0%Z -> charge_number sj <> 0%Z ->
  577 / 1000 < egamma U < 5773 / 10000 ->
  2 < cl_charged RN U si sj ni nj T ->
  0 < Qc RN U si ni sj nj l s T.
Proof.
  intros Hl Hs HT Hk Hke Hzi Hzj Hg Hcl. rewrite Qc_scaling by assumption.
  assert (Hln2 : 69 / 100 < ln 2) by interval.
  pose proof (psiconst_nonneg s) as Hpsi.
  apply Rmult_lt_0_compat; [apply Rmult_lt_0_compat; [apply Rmult_lt_0_compat|]|].
  - apply Rdiv_lt_0_compat.
    + apply Rmult_lt_0_compat; [|apply PI_RGT_0].
      assert (Hc : (l = 1 \/ l = 2 \/ l = 3 \/ l = 4)%nat) by lia.
      destruct Hc as [->|[->|[->| ->]]];
        [ replace (nth _ _ _) with 4%Z by reflexivity | replace (nth _ _ _) with 12%Z by reflexivity
        | replace (nth _ _ _) with 12%Z by reflexivity | replace (nth _ _ _) with 16%Z by reflexivity ]; lra.
    + apply IZR_lt. nia.
  - apply pow2_gt_0. intros H. apply Hke. apply Rmult_eq_reg_r with (r := / (2 * k_b U)); [|apply Rinv_neq_0_compat; lra].
    unfold Rdiv in H. lra.
  - apply pow2_gt_0. unfold Rdiv. apply Rmult_integral_contrapositive_currified; [|apply Rinv_neq_0_compat; assumption].
    apply Rmult_integral_contrapositive_currified; apply not_0_IZR; assumption.
  - assert (Hc : (l = 1 \/ l = 2 \/ l = 3 \/ l = 4)%nat) by lia.
    destruct Hc as [->|[->|[->| ->]]];
      [ replace (nth _ _ _) with (1 / 2) by reflexivity | replace (nth _ _ _) with 1 by reflexivity
      | replace (nth _ _ _) with (7 / 6) by reflexivity | replace (nth _ _ _) with (4 / 3) by reflexivity ]; lra.
Qed.

(* charge transfer: the code's expression is (A - B/2 (L + zeta1))^2 + (B/2)^2 (pi^2/6 - zeta2) *)
Lemma Qtr_form (si sj : species R) (s : nat) T :
  let sp := if Z.ltb (charge_number si) (charge_number sj) then si else sj in
  let a := A_fit RN U (ionisation_energy sp) in
  let b := B_fit RN U (ionisation_energy sp) in
  let L := ln (4 * R_gas U * T / molar_mass sp) in
  Qtr RN U si sj s T = (a - b / 2 * (L + sum1 RN U s)) ^ 2 + (b / 2) ^ 2 * (PI ^ 2 / 6 - sum2 RN s).
Proof.
  cbv zeta. unfold Qtr. destruct (Z.ltb (charge_number si) (charge_number sj)); cbv zeta; rnum; field.
Qed.

Lemma basel_partial s : (s <= 7)%nat -> 0 < PI ^ 2 / 6 - sum2 RN s.
Proof.
  intros Hs. unfold sum2.
  assert (Hc : (s = 0 \/ s = 1 \/ s = 2 \/ s = 3 \/ s = 4 \/ s = 5 \/ s = 6 \/ s = 7)%nat) by lia.
  destruct Hc as [->|[->|[->|[->|[->|[->|[->| ->]]]]]]]; cbn [Nat.add harm Z.of_nat Pos.of_succ_nat Pos.succ]; rnum; interval.
Qed.

Lemma Qtr_positive (si sj : species R) (s : nat) T :
  (s <= 7)%nat ->
  B_fit RN U (ionisation_energy (if Z.ltb (charge_number si) (charge_number sj) then si else sj)) <> 0 ->
  0 < Qtr RN U si sj s T.
Proof.
  intros Hs Hb. rewrite Qtr_form. cbv zeta.
  set (b := B_fit RN U _) in *. set (x := _ - _ * _).
  assert (0 <= x ^ 2) by apply pow2_ge_0.
  assert (0 < (b / 2) ^ 2) by (apply pow2_gt_0; unfold Rdiv; apply Rmult_integral_contrapositive_currified; [assumption | lra]).
  pose proof (basel_partial s Hs). nra.
Qed.

(* neutral-neutral and ion-neutral fitted integrals: exp(..) * pi * sigma^2 * 1e-20 > 0 *)
Lemma Qnn_fit_positive (si sj : species R) (l s : nat) T :
  fst (pot_nn RN si sj) * x0_nn RN (beta_par RN si sj) <> 0 -> 0 < Qnn_fit RN U si sj l s T.
Proof.
  intros Hs. unfold Qnn_fit. destruct (pot_nn RN si sj) as [re eps] eqn:E. cbn [fst] in Hs. cbv zeta. rnum.
  apply Rmult_lt_0_compat; [|lra]. apply Rmult_lt_0_compat; [apply Rmult_lt_0_compat; [apply exp_pos | apply PI_RGT_0]|].
  apply pow2_gt_0. exact Hs.
Qed.
Lemma Qin_fit_positive (si sj : species R) (l s : nat) T :
  fst (pot_in RN si sj) * x0_in RN (beta_par RN si sj) <> 0 -> 0 < Qin_fit RN U si sj l s T.
Proof.
  intros Hs. unfold Qin_fit. destruct (pot_in RN si sj) as [re eps] eqn:E. cbn [fst] in Hs. cbv zeta. rnum.
  apply Rmult_lt_0_compat; [|lra]. apply Rmult_lt_0_compat; [apply Rmult_lt_0_compat; [apply exp_pos | apply PI_RGT_0]|].
  apply pow2_gt_0. exact Hs.
Qed.

(* electron-neutral closed form: at least D1, hence positive, for non-negative fit parameters *)
Lemma Qe_closed_lower (D1 D2 D3 D4 : R) (sp : species R) (l s : nat) T :
  0 <= D2 -> 0 <= D4 -> 0 < G (D3 / 2 + IZR (Z.of_nat s) + 2) -> 0 < G (IZR (Z.of_nat s + 2)) ->
  D1 <= Qe_closed RN U D1 D2 D3 D4 sp l s T.
Proof.
  intros H2 H4 Hg1 Hg2. unfold Qe_closed. cbv zeta. rnum.
  set (tau := sqrt _ / hbar U).
  assert (0 <= D2 * Rpower tau D3 * G (D3 / 2 + IZR (Z.of_nat s) + 2) / (G (IZR (Z.of_nat s + 2)) * Rpower (D4 * tau ^ 2 + 1) (D3 / 2 + IZR (Z.of_nat s) + 2))).
  { apply Rmult_le_pos.
    - apply Rmult_le_pos; [apply Rmult_le_pos; [assumption | left; apply exp_pos] | left; assumption].
    - left. apply Rinv_0_lt_compat. apply Rmult_lt_0_compat; [assumption | apply exp_pos]. }
  lra.
Qed.
(* hard-sphere case (D2 = 0): the closed form is the constant cross-section D1 — the thermal average of a constant *)
Lemma Qe_closed_hard_sphere (D1 D3 D4 : R) (sp : species R) (l s : nat) T :
  Qe_closed RN U D1 0 D3 D4 sp l s T = D1.
Proof. unfold Qe_closed. cbv zeta. rnum. unfold Rdiv. ring. Qed.
End Reals.

(* ---- symmetry: the collision integral is the same whichever species is named first ---- *)
Section Symmetry.
Variable U : Units R.
Variable G : R -> R.
Notation RN := (RNumG G).

Lemma stoich_eqb_sym a b : stoich_eqb a b = stoich_eqb b a.
Proof.
  revert b. induction a as [|[e1 c1] a IH]; intros [|[e2 c2] b]; cbn [stoich_eqb]; try reflexivity.
  rewrite (Nat.eqb_sym e1 e2), (Nat.eqb_sym c1 c2), IH. reflexivity.
Qed.

Lemma pot_nn_sym (si sj : species R) : pot_nn RN si sj = pot_nn RN sj si.
Proof.
  unfold pot_nn. cbv zeta. rewrite orb_comm.
  destruct (effective_electrons si) as [ei|]; destruct (effective_electrons sj) as [ej|]; cbn [orb]; try reflexivity.
  rnum.
  set (ai := polarisability si * _). set (aj := polarisability sj * _).
  replace (aj * ai) with (ai * aj) by ring.
  replace (Rpower aj (1 / 3) + Rpower ai (1 / 3)) with (Rpower ai (1 / 3) + Rpower aj (1 / 3)) by ring.
  replace (157 / 10 * aj * ai) with (157 / 10 * ai * aj) by ring.
  replace (sqrt (aj / ej) + sqrt (ai / ei)) with (sqrt (ai / ei) + sqrt (aj / ej)) by ring.
  reflexivity.
Qed.

Lemma beta_par_sym (si sj : species R) : beta_par RN si sj = beta_par RN sj si.
Proof. unfold beta_par. cbv zeta. rnum. f_equal. f_equal. ring. Qed.

Lemma Qnn_fit_sym (si sj : species R) l s T : Qnn_fit RN U si sj l s T = Qnn_fit RN U sj si l s T.
Proof. unfold Qnn_fit. rewrite (pot_nn_sym si sj), (beta_par_sym si sj). reflexivity. Qed.

Lemma Q_recursion_ext (guard : nat -> bool) (f g : nat -> R -> R) fuel :
  (forall s T, f s T = g s T) -> forall s T, Q_recursion RN guard f fuel s T = Q_recursion RN guard g fuel s T.
Proof.
  intros H. induction fuel as [|fuel IH]; intros s T; cbn [Q_recursion]; destruct (guard s); try reflexivity; try apply H.
  rewrite !IH. reflexivity.
Qed.

Lemma Qnn_sym (si sj : species R) l s T : Qnn RN U si sj l s T = Qnn RN U sj si l s T.
Proof. unfold Qnn. apply Q_recursion_ext. intros. apply Qnn_fit_sym. Qed.

Lemma Qtr_sym (si sj : species R) s T :
  charge_number si <> charge_number sj -> Qtr RN U si sj s T = Qtr RN U sj si s T.
Proof.
  intros Hne. rewrite !Qtr_form. cbv zeta.
  destruct (Z.ltb_spec (charge_number si) (charge_number sj)); destruct (Z.ltb_spec (charge_number sj) (charge_number si)); try lia; reflexivity.
Qed.

Lemma cl_charged_sym (si sj : species R) ni nj T :
  (sname si = 0%nat -> sname sj = 0%nat -> ni = nj) ->
  cl_charged RN U si sj ni nj T = cl_charged RN U sj si nj ni T.
Proof.
  intros Hee. unfold cl_charged. cbv zeta.
  destruct (Nat.eqb_spec (sname si) 0) as [Hi|Hi]; destruct (Nat.eqb_spec (sname sj) 0) as [Hj|Hj]; cbn [andb].
  - rewrite (Hee Hi Hj). reflexivity.
  - reflexivity.
  - reflexivity.
  - rnum. rewrite (Z.mul_comm (charge_number sj) (charge_number si)).
    f_equal. f_equal. f_equal. f_equal. ring.
Qed.

Lemma Qc_sym (si sj : species R) ni nj l s T :
  (sname si = 0%nat -> sname sj = 0%nat -> ni = nj) ->
  Qc RN U si ni sj nj l s T = Qc RN U sj nj si ni l s T.
Proof.
  intros Hee. unfold Qc. cbv zeta. rewrite (cl_charged_sym si sj ni nj T Hee). rnum.
  f_equal. f_equal. f_equal. f_equal. ring.
Qed.

Theorem Qij_symmetric (si sj : species R) ni nj l s T :
  (is_e si = true -> charge_number si = (-1)%Z) -> (is_e sj = true -> charge_number sj = (-1)%Z) ->
  (sname si = 0%nat -> sname sj = 0%nat -> ni = nj) ->
  Qij RN U si ni sj nj l s T = Qij RN U sj nj si ni l s T.
Proof.
  intros Hei Hej Hee. unfold Qij, is_e in *.
  rewrite (stoich_eqb_sym (stoichiometry sj) (stoichiometry si)).
  replace (Z.abs (charge_number sj - charge_number si)) with (Z.abs (charge_number si - charge_number sj)) by lia.
  destruct (Z.eqb_spec (charge_number si) 0) as [Hzi|Hzi]; destruct (Z.eqb_spec (charge_number sj) 0) as [Hzj|Hzj];
  destruct (Nat.eqb_spec (sname si) 0) as [Hni|Hni]; destruct (Nat.eqb_spec (sname sj) 0) as [Hnj|Hnj];
  cbn [negb andb orb]; try (specialize (Hei eq_refl)); try (specialize (Hej eq_refl)); try lia; try reflexivity.
  - apply Qnn_sym.
  - destruct (stoich_eqb (stoichiometry si) (stoichiometry sj) && ((Z.abs (charge_number si - charge_number sj) =? 1)%Z && (Z.of_nat l mod 2 =? 1)%Z)) eqn:Ht;
      [apply Qtr_sym; lia | reflexivity].
  - destruct (stoich_eqb (stoichiometry si) (stoichiometry sj) && ((Z.abs (charge_number si - charge_number sj) =? 1)%Z && (Z.of_nat l mod 2 =? 1)%Z)) eqn:Ht;
      [apply Qtr_sym; lia | reflexivity].
  - apply Qc_sym; assumption.
  - apply Qc_sym; assumption.
  - apply Qc_sym; assumption.
  - apply Qc_sym; assumption.
Qed.
End Symmetry.
