From Coq Require Import List Ascii NArith ZArith Bool Arith Lia.
Import ListNotations.
From MPC Require Import Parser NistFormat.
Open Scope char_scope.

Lemma digit_roundtrip d : digit_of_char (char_of_digit d) = Some d.
Proof. destruct d; reflexivity. Qed.
Lemma digit_not_strippable d : strippable (char_of_digit d) = false.
Proof. destruct d; reflexivity. Qed.
Lemma digit_not_bar d : Ascii.eqb (char_of_digit d) "|" = false.
Proof. destruct d; reflexivity. Qed.
Lemma digit_not_slash d : Ascii.eqb (char_of_digit d) "/" = false.
Proof. destruct d; reflexivity. Qed.

Lemma strip_app s t : strip (s ++ t) = strip s ++ strip t.
Proof. unfold strip. apply filter_app. Qed.
Lemma strip_digits ds : strip (render_digits ds) = render_digits ds.
Proof.
  induction ds as [|d ds IH]; [reflexivity|]. unfold strip, render_digits in *. cbn [map filter].
  rewrite digit_not_strippable. cbn [negb]. now rewrite IH.
Qed.
Lemma strip_sign neg plus : strip (render_sign neg plus) = if neg then ["-"] else [].
Proof. destruct neg, plus; reflexivity. Qed.

(* the rendering with decorations removed *)
Definition bare_num (n : pnum) : str :=
  (if p_neg n then ["-"] else []) ++ render_digits (p_int n)
  ++ match p_frac n with None => [] | Some fs => "." :: render_digits fs end
  ++ match p_exp n with
     | None => []
     | Some (up, (eneg, _), ed) => (if up then "E" else "e") :: (if eneg then ["-"] else []) ++ render_digits ed
     end.

Lemma strip_render_num n : strip (render_num n) = bare_num n.
Proof.
  unfold render_num, bare_num. rewrite !strip_app, strip_sign, strip_digits. f_equal. f_equal. f_equal.
  - destruct (p_frac n) as [fs|]; [|reflexivity].
    change ("." :: render_digits fs) with (["."] ++ render_digits fs). rewrite strip_app, strip_digits. reflexivity.
  - destruct (p_exp n) as [[[up [eneg eplus]] ed]|]; [|reflexivity].
    change ((if up then "E" else "e") :: render_sign eneg eplus ++ render_digits ed)
      with ([if up then "E" else "e"] ++ render_sign eneg eplus ++ render_digits ed).
    rewrite !strip_app, strip_sign, strip_digits. destruct up; reflexivity.
Qed.

Definition no_digit_head (s : str) : Prop :=
  match s with [] => True | c :: _ => digit_of_char c = None end.

Lemma span_digits_app ds rest : no_digit_head rest -> span_digits (render_digits ds ++ rest) = (ds, rest).
Proof.
  intros H. induction ds as [|d ds IH]; cbn [render_digits map app].
  - destruct rest as [|c r]; [reflexivity|]. cbn [span_digits]. cbn in H. now rewrite H.
  - cbn [span_digits]. rewrite digit_roundtrip. unfold render_digits in IH. now rewrite IH.
Qed.

Lemma span_digits_all ds : span_digits (render_digits ds) = (ds, []).
Proof. rewrite <- (app_nil_r (render_digits ds)). now apply span_digits_app. Qed.

Lemma take_minus_digits ds rest : take_minus (render_digits ds ++ rest) = (false, render_digits ds ++ rest) \/ ds = [].
Proof. destruct ds as [|d ds]; [now right|left]. destruct d; reflexivity. Qed.

Lemma digits_nonempty_length (ds : list digit) : ds <> [] -> exists d r, ds = d :: r.
Proof. destruct ds as [|d r]; [contradiction|]. intros _. now exists d, r. Qed.

Lemma parse_float_bare n : wf_num n -> parse_float (bare_num n) = Some (value_num n).
Proof.
  intros [Hne Hexp]. unfold bare_num, value_num, frac_digits in *.
  destruct n as [neg plus ip fr ex]. cbn [p_neg p_plus p_int p_frac p_exp] in *.
  (* the tail after the integer digits *)
  set (tail := (match fr with None => [] | Some fs => "." :: render_digits fs end
                ++ match ex with None => [] | Some (up, (eneg, _), ed) =>
                     (if up then "E" else "e") :: (if eneg then ["-"] else []) ++ render_digits ed end)).
  assert (Htail_nd : no_digit_head tail).
  { unfold tail. destruct fr as [fs|]; [exact eq_refl|]. destruct ex as [[[up [eneg ep]] ed]|]; [|exact I].
    destruct up; exact eq_refl. }
  assert (Hs1 : forall s, take_minus ((if neg then ["-"] else []) ++ render_digits ip ++ s)
                     = (neg, render_digits ip ++ s) \/ (neg = false /\ ip = [])).
  { intros s. destruct neg; [left; reflexivity|]. cbn [app].
    destruct (take_minus_digits ip s) as [H|H]; [left; exact H | right; split; [reflexivity|exact H]]. }
  unfold parse_float.
  assert (Htm : take_minus ((if neg then ["-"] else []) ++ render_digits ip ++ tail) = (neg, render_digits ip ++ tail)).
  { destruct (Hs1 tail) as [H|[Hn Hi]]; [exact H|]. subst. cbn [app render_digits map].
    unfold tail. destruct fr as [fs|]; [reflexivity|]. cbn [frac_digits] in Hne. destruct Hne as [H|H]; contradiction. }
  fold tail. rewrite Htm. rewrite (span_digits_app ip tail Htail_nd).
  (* exponent part *)
  set (epart := match ex with None => [] | Some (up, (eneg, _), ed) =>
                     (if up then "E" else "e") :: (if eneg then ["-"] else []) ++ render_digits ed end).
  assert (Hep_nd : no_digit_head epart).
  { unfold epart. destruct ex as [[[up [eneg ep]] ed]|]; [|exact I]. destruct up; exact eq_refl. }
  assert (Hexp_parse :
    forall (mant : N) (fl : Z),
    match epart with
    | [] => Some (mkDec neg mant (- fl))
    | c :: r =>
      if Ascii.eqb c "e" || Ascii.eqb c "E" then
        let (eneg, r1) := take_minus r in
        let (ed, r2) := span_digits r1 in
        match ed, r2 with
        | _ :: _, [] => let e := Z.of_N (N_of_digits ed) in Some (mkDec neg mant ((if eneg then - e else e) - fl))
        | _, _ => None
        end
      else None
    end = Some (mkDec neg mant
      (match ex with None => 0 | Some (_, (eneg, _), ed) => let v := Z.of_N (N_of_digits ed) in if eneg then - v else v end - fl)%Z)).
  { intros mant fl. unfold epart. destruct ex as [[[up [eneg ep]] ed]|]; [|reflexivity].
    destruct (digits_nonempty_length ed Hexp) as [d [r Hed]].
    assert (Heq : (Ascii.eqb (if up then "E" else "e") "e" || Ascii.eqb (if up then "E" else "e") "E") = true)
      by (destruct up; reflexivity).
    rewrite Heq.
    assert (Htm2 : take_minus ((if eneg then ["-"] else []) ++ render_digits ed) = (eneg, render_digits ed)).
    { destruct eneg; [reflexivity|]. cbn [app]. subst ed. destruct d; reflexivity. }
    rewrite Htm2, span_digits_all. subst ed. reflexivity. }
  destruct fr as [fs|].
  - (* a "." was printed *)
    assert (Ht : tail = "." :: render_digits fs ++ epart) by reflexivity.
    rewrite Ht. rewrite (span_digits_app fs epart Hep_nd).
    cbn [frac_digits] in *.
    destruct ip as [|i0 ip']; destruct fs as [|f0 fs'];
      try (destruct Hne as [H|H]; contradiction); apply Hexp_parse.
  - assert (Ht : tail = epart) by reflexivity. rewrite Ht. cbn [frac_digits] in *.
    destruct ip as [|i0 ip']; [destruct Hne as [H|H]; contradiction|].
    pose proof Hexp_parse as HP. clear Hexp_parse Ht Htm Hs1 Htail_nd. subst tail.
    unfold epart in *. clear epart.
    destruct ex as [[[up [eneg ep]] ed]|]; [destruct up|]; cbv beta iota; apply HP.
Qed.

(* ---- no separators inside a rendered number ---- *)
Definition free_of (sep : ascii) (s : str) : Prop := Forall (fun c => Ascii.eqb c sep = false) s.

Lemma free_app sep s t : free_of sep s -> free_of sep t -> free_of sep (s ++ t).
Proof. unfold free_of. intros; apply Forall_app; split; assumption. Qed.
Lemma free_digits_bar ds : free_of "|" (render_digits ds).
Proof. unfold free_of, render_digits. apply Forall_forall. intros c Hc. apply in_map_iff in Hc. destruct Hc as [d [<- _]]. apply digit_not_bar. Qed.
Lemma free_digits_slash ds : free_of "/" (render_digits ds).
Proof. unfold free_of, render_digits. apply Forall_forall. intros c Hc. apply in_map_iff in Hc. destruct Hc as [d [<- _]]. apply digit_not_slash. Qed.

Lemma bare_free sep n : (sep = "|" \/ sep = "/") -> free_of sep (bare_num n).
Proof.
  intros Hsep. unfold bare_num.
  assert (Hd : forall ds, free_of sep (render_digits ds)) by (destruct Hsep; subst; [apply free_digits_bar | apply free_digits_slash]).
  repeat apply free_app; try apply Hd.
  - destruct (p_neg n); [|constructor]. constructor; [|constructor]. destruct Hsep; subst; reflexivity.
  - destruct (p_frac n); [|constructor]. constructor; [destruct Hsep; subst; reflexivity | apply Hd].
  - destruct (p_exp n) as [[[up [eneg ep]] ed]|]; [|constructor].
    constructor; [destruct up, Hsep; subst; reflexivity|].
    apply free_app; [|apply Hd]. destruct eneg; [|constructor]. constructor; [|constructor]. destruct Hsep; subst; reflexivity.
Qed.

Lemma split_on_free sep r rest : free_of sep r -> split_on sep (r ++ sep :: rest) = r :: split_on sep rest.
Proof.
  induction 1 as [|c r Hc _ IH]; cbn [app split_on].
  - now rewrite Ascii.eqb_refl.
  - rewrite Hc, IH. reflexivity.
Qed.
Lemma split_on_free_end sep r : free_of sep r -> split_on sep r = [r].
Proof. induction 1 as [|c r Hc _ IH]; cbn [split_on]; [reflexivity|]. now rewrite Hc, IH. Qed.

Lemma has_slash_free s : free_of "/" s -> has_slash s = false.
Proof. unfold has_slash. induction 1 as [|c r Hc _ IH]; cbn [existsb]; [reflexivity|]. now rewrite Hc, IH. Qed.
Lemma has_slash_mid s t : has_slash (s ++ "/" :: t) = true.
Proof. unfold has_slash. rewrite existsb_app. cbn [existsb]. rewrite Ascii.eqb_refl. apply orb_true_r. Qed.

Definition bare_field (f : field) : str :=
  match f with FNum n => bare_num n | FFrac a b => bare_num a ++ "/" :: bare_num b end.

Lemma strip_render_field f : strip (render_field f) = bare_field f.
Proof.
  destruct f as [n|a b]; cbn [render_field bare_field]; [apply strip_render_num|].
  change ("/" :: render_num b) with (["/"] ++ render_num b). rewrite !strip_app, !strip_render_num. reflexivity.
Qed.

Lemma parse_record_bare f : wf_field f -> parse_record (bare_field f) = inr (value_field f).
Proof.
  destruct f as [n|a b]; cbn [wf_field bare_field value_field]; unfold parse_record.
  - intros Hw. rewrite has_slash_free by (apply bare_free; now right). now rewrite parse_float_bare.
  - intros [Ha [Hb Hnz]]. rewrite has_slash_mid.
    rewrite split_on_free by (apply bare_free; now right).
    rewrite split_on_free_end by (apply bare_free; now right).
    rewrite !parse_float_bare by assumption.
    destruct (N.eqb_spec (d_mant (value_num b)) 0); [contradiction | reflexivity].
Qed.

Lemma bare_field_free_bar f : free_of "|" (bare_field f).
Proof.
  destruct f as [n|a b]; cbn [bare_field]; [apply bare_free; now left|].
  apply free_app; [apply bare_free; now left|]. constructor; [reflexivity | apply bare_free; now left].
Qed.

Lemma strip_render_line fs : strip (render_line fs) = concat (map (fun f => bare_field f ++ ["|"]) fs).
Proof.
  unfold render_line. induction fs as [|f fs IH]; [reflexivity|]. cbn [map concat].
  rewrite !strip_app, IH, strip_render_field. reflexivity.
Qed.

Lemma split_line fs : split_on "|" (concat (map (fun f => bare_field f ++ ["|"]) fs)) = map bare_field fs ++ [[]].
Proof.
  induction fs as [|f fs IH]; [reflexivity|]. cbn [map concat app].
  rewrite <- app_assoc. cbn [app]. rewrite split_on_free by apply bare_field_free_bar. now rewrite IH.
Qed.

Lemma parse_records_fields fs : Forall wf_field fs -> parse_records (map bare_field fs) = inr (map value_field fs).
Proof.
  induction 1 as [|f fs Hf _ IH]; [reflexivity|]. cbn [map parse_records].
  rewrite parse_record_bare by assumption. now rewrite IH.
Qed.

Theorem nist_string_render (line : str) (fs : list field) :
  Forall wf_field fs -> same_up_to_decoration line (render_line fs) ->
  nist_string line = inr (map value_field fs).
Proof.
  intros Hw Hs. unfold nist_string, same_up_to_decoration in *. rewrite Hs, strip_render_line, split_line.
  rewrite removelast_last. now apply parse_records_fields.
Qed.

(* ---- level lists ---- *)
Definition good_line (l : str) (j e : value) : Prop := nist_string l = inr [j; e].
Definition bad_line (l : str) : Prop :=
  nist_string l = inl EValue \/ exists vs, nist_string l = inr vs /\ List.length vs <> 2%nat.

Lemma levels_from_ok i lines pairs :
  Forall2 (fun l p => good_line l (fst p) (snd p)) lines pairs -> levels_from i lines = inr pairs.
Proof.
  intros H. revert i. induction H as [|l [j e] lines pairs Hg _ IH]; intros i; [reflexivity|].
  cbn [levels_from]. unfold good_line in Hg. cbn [fst snd] in Hg. rewrite Hg, IH. reflexivity.
Qed.

Lemma levels_from_first_error i good pairs bad rest :
  Forall2 (fun l p => good_line l (fst p) (snd p)) good pairs -> bad_line bad ->
  levels_from i (good ++ bad :: rest) = inl (LineError (i + List.length good) bad).
Proof.
  intros H Hb. revert i. induction H as [|l [j e] lines ps Hg _ IH]; intros i.
  - cbn [app levels_from List.length]. rewrite Nat.add_0_r.
    destruct Hb as [Hb|[vs [Hb Hl]]]; rewrite Hb; [reflexivity|].
    destruct vs as [|v1 [|v2 [|v3 vs]]]; try reflexivity. cbn in Hl. contradiction.
  - cbn [app levels_from List.length]. unfold good_line in Hg. cbn [fst snd] in Hg. rewrite Hg, IH.
    f_equal. f_equal. lia.
Qed.
