(* Reference-energy chains do not depend on the listing order (C05): the model's E0_of picks, for every ion, the
   listed stage of the same stoichiometry with the nearest lower |charge|; with distinct (stoichiometry, charge)
   pairs that stage is determined by the SET of listed species. *)
From Coq Require Import ZArith List Bool Arith Lia Permutation.
Import ListNotations.
From MPC Require Import Num Species RefEnergy.

Lemma stoich_eqb_eq (a b : list (nat * nat)) : stoich_eqb a b = true <-> a = b.
Proof.
  revert b. induction a as [|[e1 c1] r1 IH]; intros [|[e2 c2] r2]; cbn [stoich_eqb]; split; intros H; try reflexivity; try discriminate.
  - apply andb_true_iff in H. destruct H as [H1 H3]. apply andb_true_iff in H1. destruct H1 as [H1 H2].
    apply Nat.eqb_eq in H1. apply Nat.eqb_eq in H2. apply IH in H3. subst. reflexivity.
  - injection H as -> -> ->. rewrite !Nat.eqb_refl. cbn. apply IH. reflexivity.
Qed.

Section Chain.
Context {A : Type}.
Notation ent := (species A * A)%type.

Definition same_key (q1 q2 : ent) : Prop :=
  stoichiometry (fst q1) = stoichiometry (fst q2) /\ charge_number (fst q1) = charge_number (fst q2).
(* distinct (stoichiometry, charge) pairs: two listed entries with the same key are the same entry *)
Definition keys_distinct (l : list ent) : Prop := forall q1 q2, In q1 l -> In q2 l -> same_key q1 q2 -> q1 = q2.

Lemma keys_distinct_perm l l' : Permutation l l' -> keys_distinct l -> keys_distinct l'.
Proof. intros HP H q1 q2 H1 H2. apply H; eapply Permutation_in; try apply Permutation_sym; eassumption. Qed.

Lemma has_neutral_perm l l' (sp : species A) : Permutation l l' -> has_neutral l sp = has_neutral l' sp.
Proof.
  intros HP. unfold has_neutral. destruct (existsb _ l) eqn:E; symmetry.
  - apply existsb_exists in E. destruct E as [q [Hq Hc]]. apply existsb_exists. exists q. split; [eapply Permutation_in; eassumption | exact Hc].
  - destruct (existsb _ l') eqn:E'; [|reflexivity]. apply existsb_exists in E'. destruct E' as [q [Hq Hc]].
    assert (X : existsb (fun q0 : ent => same_stoich (fst q0) sp && Z.eqb (charge_number (fst q0)) 0) l = true).
    { apply existsb_exists. exists q. split; [eapply Permutation_in; [apply Permutation_sym|]; eassumption | exact Hc]. }
    rewrite X in E. discriminate.
Qed.

(* ---- arg-max folds: characterisation ---- *)
Section Fold.
Variable cond : ent -> bool.
Variable better : ent -> ent -> bool.        (* better b q: q strictly improves on the incumbent b *)
Variable rank : ent -> Z.
Hypothesis better_spec : forall b q, better b q = Z.ltb (rank b) (rank q).

Definition pick (l : list ent) (best : option ent) : option ent :=
  fold_left (fun best q => if cond q then match best with Some b => if better b q then Some q else best | None => Some q end else best) l best.

Lemma pick_spec l : forall best,
  (forall b, best = Some b -> cond b = true) ->
  match pick l best with
  | None => best = None /\ forall q, In q l -> cond q = false
  | Some r => cond r = true /\ (In r l \/ best = Some r) /\
              (forall q, In q l -> cond q = true -> (rank q <= rank r)%Z) /\ (forall b, best = Some b -> (rank b <= rank r)%Z)
  end.
Proof.
  induction l as [|x l IH]; intros best Hb; cbn [pick fold_left].
  - destruct best as [b|]; [|split; [reflexivity | intros q []]].
    split; [apply Hb; reflexivity|]. split; [right; reflexivity|]. split; [intros q []|]. intros b' E. injection E as <-. lia.
  - fold (pick l). destruct (cond x) eqn:Cx.
    + destruct best as [b|].
      * rewrite better_spec. destruct (Z.ltb (rank b) (rank x)) eqn:Lt.
        -- specialize (IH (Some x)). fold (pick l (Some x)) in *.
           assert (Hx : forall b0, Some x = Some b0 -> cond b0 = true) by (intros b0 E; injection E as <-; exact Cx).
           specialize (IH Hx). unfold pick in *. destruct (fold_left _ l (Some x)) as [r|].
           ++ destruct IH as [C1 [C2 [C3 C4]]]. split; [exact C1|]. split.
              ** destruct C2 as [C2|C2]; [left; right; exact C2 | injection C2 as <-; left; left; reflexivity].
              ** split.
                 --- intros q [<-|Hq] Hc; [apply C4; reflexivity | apply C3; assumption].
                 --- intros b' E. injection E as <-. apply Z.ltb_lt in Lt. specialize (C4 x eq_refl). lia.
           ++ destruct IH as [C1 _]. discriminate.
        -- specialize (IH (Some b) Hb). unfold pick in *. destruct (fold_left _ l (Some b)) as [r|].
           ++ destruct IH as [C1 [C2 [C3 C4]]]. split; [exact C1|]. split.
              ** destruct C2 as [C2|C2]; [left; right; exact C2 | right; exact C2].
              ** split; [|exact C4].
                 intros q [<-|Hq] Hc; [|apply C3; assumption]. apply Z.ltb_ge in Lt. specialize (C4 b eq_refl). lia.
           ++ destruct IH as [C1 _]. discriminate.
      * assert (Hx : forall b0, Some x = Some b0 -> cond b0 = true) by (intros b0 E; injection E as <-; exact Cx).
        specialize (IH (Some x) Hx). unfold pick in *. destruct (fold_left _ l (Some x)) as [r|].
        -- destruct IH as [C1 [C2 [C3 C4]]]. split; [exact C1|]. split.
           ++ destruct C2 as [C2|C2]; [left; right; exact C2 | injection C2 as <-; left; left; reflexivity].
           ++ split; [|intros b' E; discriminate]. intros q [<-|Hq] Hc; [apply C4; reflexivity | apply C3; assumption].
        -- destruct IH as [C1 _]. discriminate.
    + specialize (IH best Hb). unfold pick in *. destruct (fold_left _ l best) as [r|].
      * destruct IH as [C1 [C2 [C3 C4]]]. split; [exact C1|]. split.
        -- destruct C2 as [C2|C2]; [left; right; exact C2 | right; exact C2].
        -- split; [|exact C4]. intros q [<-|Hq] Hc; [rewrite Cx in Hc; discriminate | apply C3; assumption].
      * destruct IH as [C1 C2]. split; [exact C1|]. intros q [<-|Hq]; [exact Cx | apply C2; exact Hq].
Qed.

(* two candidates of the same rank satisfying cond are the same entry *)
Hypothesis rank_inj : forall l q1 q2, keys_distinct l -> In q1 l -> In q2 l -> cond q1 = true -> cond q2 = true -> rank q1 = rank q2 -> q1 = q2.

Lemma pick_perm l l' : Permutation l l' -> keys_distinct l -> pick l None = pick l' None.
Proof.
  intros HP HD.
  assert (S1 := pick_spec l None (fun b E => ltac:(discriminate))).
  assert (S2 := pick_spec l' None (fun b E => ltac:(discriminate))).
  destruct (pick l None) as [r|], (pick l' None) as [r'|].
  - destruct S1 as [C1 [[I1|I1] [M1 _]]]; [|discriminate]. destruct S2 as [C2 [[I2|I2] [M2 _]]]; [|discriminate].
    f_equal. apply (rank_inj l); try assumption.
    + eapply Permutation_in; [apply Permutation_sym|]; eassumption.
    + assert (rank r' <= rank r)%Z by (apply M1; [eapply Permutation_in; [apply Permutation_sym|]; eassumption | exact C2]).
      assert (rank r <= rank r')%Z by (apply M2; [eapply Permutation_in; eassumption | exact C1]). lia.
  - destruct S1 as [C1 [[I1|I1] _]]; [|discriminate]. destruct S2 as [_ N2].
    rewrite (N2 r) in C1; [discriminate | eapply Permutation_in; eassumption].
  - destruct S2 as [C2 [[I2|I2] _]]; [|discriminate]. destruct S1 as [_ N1].
    rewrite (N1 r') in C2; [discriminate | eapply Permutation_in; [apply Permutation_sym|]; eassumption].
  - reflexivity.
Qed.
End Fold.

Lemma same_stoich_key (q1 q2 : ent) (sp : species A) :
  same_stoich (fst q1) sp = true -> same_stoich (fst q2) sp = true -> charge_number (fst q1) = charge_number (fst q2) -> same_key q1 q2.
Proof.
  unfold same_stoich. intros H1 H2 Hc. apply stoich_eqb_eq in H1. apply stoich_eqb_eq in H2. split; [congruence | exact Hc].
Qed.

Lemma pred_pos_perm l l' (sp : species A) : Permutation l l' -> keys_distinct l -> pred_pos l sp = pred_pos l' sp.
Proof.
  intros HP HD.
  set (cond := fun q : ent => same_stoich (fst q) sp && Z.leb 0 (charge_number (fst q)) && Z.ltb (charge_number (fst q)) (charge_number sp)).
  set (better := fun b q : ent => Z.ltb (charge_number (fst b)) (charge_number (fst q))).
  assert (E : forall l0, pred_pos l0 sp = pick cond better l0 None).
  { intros l0. unfold pred_pos, pick. generalize (@None ent). induction l0 as [|x l0 IH]; intros best; cbn [fold_left]; [reflexivity|].
    rewrite IH. f_equal. }
  rewrite !E. apply (pick_perm cond better (fun q => charge_number (fst q))); try assumption.
  - intros b q. reflexivity.
  - intros l0 q1 q2 HD0 I1 I2 C1 C2 Hr. apply HD0; try assumption. unfold cond in C1, C2.
    apply andb_true_iff in C1. destruct C1 as [C1 _]. apply andb_true_iff in C1. destruct C1 as [C1 _].
    apply andb_true_iff in C2. destruct C2 as [C2 _]. apply andb_true_iff in C2. destruct C2 as [C2 _].
    eapply same_stoich_key; eassumption.
Qed.

Lemma pred_neg_perm l l' (sp : species A) : Permutation l l' -> keys_distinct l -> pred_neg l sp = pred_neg l' sp.
Proof.
  intros HP HD.
  set (cond := fun q : ent => same_stoich (fst q) sp && Z.leb (charge_number (fst q)) 0 && Z.ltb (charge_number sp) (charge_number (fst q))).
  set (better := fun b q : ent => Z.ltb (charge_number (fst q)) (charge_number (fst b))).
  assert (E : forall l0, pred_neg l0 sp = pick cond better l0 None).
  { intros l0. unfold pred_neg, pick. generalize (@None ent). induction l0 as [|x l0 IH]; intros best; cbn [fold_left]; [reflexivity|].
    rewrite IH. f_equal. }
  rewrite !E. apply (pick_perm cond better (fun q => (- charge_number (fst q))%Z)); try assumption.
  - intros b q. unfold better. destruct (Z.ltb_spec (charge_number (fst q)) (charge_number (fst b))), (Z.ltb_spec (- charge_number (fst b)) (- charge_number (fst q))); try reflexivity; lia.
  - intros l0 q1 q2 HD0 I1 I2 C1 C2 Hr. apply HD0; try assumption. unfold cond in C1, C2.
    apply andb_true_iff in C1. destruct C1 as [C1 _]. apply andb_true_iff in C1. destruct C1 as [C1 _].
    apply andb_true_iff in C2. destruct C2 as [C2 _]. apply andb_true_iff in C2. destruct C2 as [C2 _].
    eapply same_stoich_key; try eassumption. lia.
Qed.

(* ---- the chain value of every species is the same for every listing order ---- *)
Variable N : Num A.
Theorem E0_of_perm l l' : Permutation l l' -> keys_distinct l -> forall fuel spd, E0_of N fuel l spd = E0_of N fuel l' spd.
Proof.
  intros HP HD fuel. induction fuel as [|fuel IH]; intros spd; cbn [E0_of]; [reflexivity|].
  rewrite (has_neutral_perm l l' (fst spd) HP), (pred_pos_perm l l' (fst spd) HP HD), (pred_neg_perm l l' (fst spd) HP HD).
  destruct (negb (has_neutral l' (fst spd))); [reflexivity|].
  destruct (Z.ltb 0 (charge_number (fst spd))).
  - destruct (pred_pos l' (fst spd)) as [p|]; [rewrite IH|]; reflexivity.
  - destruct (Z.ltb (charge_number (fst spd)) 0); [|reflexivity].
    destruct (pred_neg l' (fst spd)) as [p|]; [rewrite IH|]; reflexivity.
Qed.
End Chain.

(* list level: the reference energies computed for a permuted listing are the same values, species by species *)
Lemma E0_list_as_map {A} (N : Num A) (l : list (species A * A)) :
  E0_list N (map fst l) (map snd l) = map (E0_of N (List.length l) l) l.
Proof.
  unfold E0_list. cbv zeta.
  assert (C : combine (map fst l) (map snd l) = l) by (induction l as [|[a b] l IH]; cbn; [reflexivity | now rewrite IH]).
  rewrite C, map_length. reflexivity.
Qed.

Theorem E0_list_perm {A} (N : Num A) (l l' : list (species A * A)) :
  Permutation l l' -> keys_distinct l ->
  Permutation (combine (map fst l) (E0_list N (map fst l) (map snd l)))
              (combine (map fst l') (E0_list N (map fst l') (map snd l'))).
Proof.
  intros HP HD. rewrite !E0_list_as_map.
  assert (Z : forall (m : list (species A * A)) (f : species A * A -> A), combine (map fst m) (map f m) = map (fun q => (fst q, f q)) m)
    by (induction m as [|x m IH]; intros f; cbn; [reflexivity | now rewrite IH]).
  rewrite !Z. rewrite <- (Permutation_length HP).
  apply Permutation_trans with (l' := map (fun q => (fst q, E0_of N (List.length l) l q)) l'); [apply Permutation_map; exact HP|].
  apply Permutation_refl' , map_ext. intros q. f_equal. apply E0_of_perm; assumption.
Qed.
