From Coq Require Import List String ZArith Bool.
Import ListNotations.
From MPC Require Import SpeciesIO GenSpeciesIO SpeciesIOInst.
Open Scope string_scope.

(* induction principle for the nested type *)
Section PyvalInd.
Variable P : pyval -> Prop.
Hypotheses (HNone : P PNone) (HBool : forall b, P (PBool b)) (HInt : forall z, P (PInt z))
  (HFloat : forall f, P (PFloat f)) (HStr : forall s, P (PStr s))
  (HList : forall l, Forall P l -> P (PList l)) (HTuple : forall l, Forall P l -> P (PTuple l))
  (HDict : forall l, Forall (fun kv => P (snd kv)) l -> P (PDict l)).
Fixpoint pyval_ind' (v : pyval) : P v :=
  match v with
  | PNone => HNone | PBool b => HBool b | PInt z => HInt z | PFloat f => HFloat f | PStr s => HStr s
  | PList l => HList l ((fix go (l : list pyval) : Forall P l :=
                           match l with [] => Forall_nil _ | x :: r => Forall_cons _ (pyval_ind' x) (go r) end) l)
  | PTuple l => HTuple l ((fix go (l : list pyval) : Forall P l :=
                           match l with [] => Forall_nil _ | x :: r => Forall_cons _ (pyval_ind' x) (go r) end) l)
  | PDict l => HDict l ((fix go (l : list (string * pyval)) : Forall (fun kv => P (snd kv)) l :=
                           match l with [] => Forall_nil _ | x :: r => Forall_cons _ (pyval_ind' (snd x)) (go r) end) l)
  end.
End PyvalInd.

Lemma json_roundtrip v : of_json (to_json v) = normalize v.
Proof.
  induction v as [| | | | |l IH|l IH|l IH] using pyval_ind'; cbn [to_json of_json normalize]; try reflexivity.
  - f_equal. rewrite map_map. apply map_ext_Forall. exact IH.
  - f_equal. rewrite map_map. apply map_ext_Forall. exact IH.
  - f_equal. rewrite map_map. apply map_ext_Forall.
    eapply Forall_impl; [|exact IH]. intros [k x] H. cbn [fst snd] in *. now rewrite H.
Qed.

Lemma file_roundtrip_norm o : file_roundtrip o = norm_obj o.
Proof. unfold file_roundtrip, norm_obj. apply map_ext. intros [k v]. cbn [fst snd]. now rewrite json_roundtrip. Qed.

Definition stoich_of (o : obj) : option Z :=
  match lookup o "stoichiometry" with Some st => atom_count (normalize st) | None => None end.

Lemma sum_counts_norm l : sum_counts (map (fun kv => (fst kv, normalize (snd kv))) l) = sum_counts l.
Proof.
  induction l as [|[k v] l IH]; [reflexivity|]. cbn [map fst snd].
  destruct v; cbn [normalize sum_counts]; try reflexivity. now rewrite IH.
Qed.
Lemma atom_count_norm v : atom_count (normalize v) = atom_count v.
Proof. destruct v; cbn [normalize atom_count]; try reflexivity. apply sum_counts_norm. Qed.

Ltac name_normalized :=
  repeat match goal with
         | |- context [normalize ?x] => let q := fresh "q" in set (q := normalize x) in *; clearbody q
         end.

(* the common script: compute the constructed dictionary, then run from_file on its reloaded image *)
Ltac roundtrip_script Hc Hs Hd :=
  vm_compute in Hc; injection Hc as <-;
  unfold stoich_of in Hs; vm_compute lookup in Hs; cbv beta iota in Hs;
  cbn [norm_obj map fst snd]; name_normalized;
  unfold FromFile, from_file;
  match goal with
  | |- context [lookup ?d "stoichiometry"] =>
    match type of Hs with atom_count ?q = _ => replace (lookup d "stoichiometry") with (Some q) by (vm_compute; reflexivity) end
  end;
  rewrite Hs, Hd; vm_compute; reflexivity.

Lemma roundtrip_mono args o n :
  List.length args = List.length mono_params ->
  Construct Mono args = Some o -> stoich_of o = Some n -> dispatch dispatch_default n dispatch_table = "Monatomic" ->
  FromFile (file_roundtrip (to_file o)) = Some ("Monatomic", norm_obj o).
Proof.
  intros Hlen Hc Hs Hd. rewrite file_roundtrip_norm. unfold to_file.
  cbv [mono_params List.length] in Hlen.
  do 12 (destruct args as [|? args]; [discriminate|]). destruct args; [|discriminate].
  roundtrip_script Hc Hs Hd.
Qed.

Lemma roundtrip_di args o n :
  List.length args = List.length di_params ->
  Construct Di args = Some o -> stoich_of o = Some n -> dispatch dispatch_default n dispatch_table = "Diatomic" ->
  FromFile (file_roundtrip (to_file o)) = Some ("Diatomic", norm_obj o).
Proof.
  intros Hlen Hc Hs Hd. rewrite file_roundtrip_norm. unfold to_file.
  cbv [di_params List.length] in Hlen.
  do 16 (destruct args as [|? args]; [discriminate|]). destruct args; [|discriminate].
  roundtrip_script Hc Hs Hd.
Qed.

Lemma roundtrip_poly args o n :
  List.length args = List.length poly_params ->
  Construct Poly args = Some o -> stoich_of o = Some n -> dispatch dispatch_default n dispatch_table = "Polyatomic" ->
  FromFile (file_roundtrip (to_file o)) = Some ("Polyatomic", norm_obj o).
Proof.
  intros Hlen Hc Hs Hd. rewrite file_roundtrip_norm. unfold to_file.
  cbv [poly_params List.length] in Hlen.
  do 17 (destruct args as [|? args]; [discriminate|]). destruct args; [|discriminate].
  roundtrip_script Hc Hs Hd.
Qed.

(* the constructors accept exactly their parameter count, and every parameter reaches an attribute *)
Lemma construct_total_mono args : List.length args = List.length mono_params -> exists o, Construct Mono args = Some o.
Proof.
  intros Hlen. cbv [mono_params List.length] in Hlen.
  do 12 (destruct args as [|? args]; [discriminate|]). destruct args; [|discriminate]. eexists. vm_compute. reflexivity.
Qed.
Lemma construct_total_di args : List.length args = List.length di_params -> exists o, Construct Di args = Some o.
Proof.
  intros Hlen. cbv [di_params List.length] in Hlen.
  do 16 (destruct args as [|? args]; [discriminate|]). destruct args; [|discriminate]. eexists. vm_compute. reflexivity.
Qed.
Lemma construct_total_poly args : List.length args = List.length poly_params -> exists o, Construct Poly args = Some o.
Proof.
  intros Hlen. cbv [poly_params List.length] in Hlen.
  do 17 (destruct args as [|? args]; [discriminate|]). destruct args; [|discriminate]. eexists. vm_compute. reflexivity.
Qed.

(* dispatch thresholds as documented: 1 atom -> Monatomic, 2 -> Diatomic, otherwise Polyatomic *)
Lemma dispatch_documented n :
  dispatch dispatch_default n dispatch_table =
  if Z.eqb n 1 then "Monatomic" else if Z.eqb n 2 then "Diatomic" else "Polyatomic".
Proof. reflexivity. Qed.
