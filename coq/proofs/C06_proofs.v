From Coq Require Import List Arith Bool Lia.
Import ListNotations.
From MPC Require Import Retry.

Section C06.
Variables (max_iter n_gov : nat) (observe : nat -> nat -> obs).
Notation attempt := (attempt max_iter observe).
Notation inner := (inner observe).

(* an attempt converges exactly when its last observation is a finite number not above the tolerance,
   all earlier ones were finite and above it, and the iteration count stayed within max_iter *)
Lemma inner_converged g rem it k :
  inner g rem it = Converged k ->
  it < k /\ k <= it + rem /\ observe g (k - 1) = NotAbove /\ (forall j, it <= j < k - 1 -> observe g j = Above).
Proof.
  revert it. induction rem as [|rem IH]; intros it H; cbn [Retry.inner] in H.
  - destruct (observe g it); discriminate.
  - destruct (observe g it) eqn:Ho; try discriminate.
    + apply IH in H. destruct H as [H1 [H2 [H3 H4]]].
      split; [lia|]. split; [lia|]. split; [exact H3|].
      intros j Hj. destruct (Nat.eq_dec j it) as [->|Hne]; [exact Ho | apply H4; lia].
    + injection H as <-. replace (S it - 1) with it by lia.
      split; [lia|]. split; [lia|]. split; [exact Ho|]. intros j Hj. lia.
Qed.

Lemma attempt_converged g k :
  attempt g = Converged k ->
  1 <= k <= max_iter /\ observe g (k - 1) = NotAbove /\ (forall j, j < k - 1 -> observe g j = Above).
Proof.
  unfold Retry.attempt. intros H. apply inner_converged in H. destruct H as [H1 [H2 [H3 H4]]].
  split; [lia|]. split; [exact H3|]. intros j Hj. apply H4. lia.
Qed.

(* a failed attempt ended on a non-finite stopping quantity or on the iteration limit *)
Lemma inner_failed g rem it k :
  inner g rem it = Failed k ->
  it < k /\ k <= S (it + rem) /\ (observe g (k - 1) = NonFinite \/ k = S (it + rem)).
Proof.
  revert it. induction rem as [|rem IH]; intros it H; cbn [Retry.inner] in H.
  - destruct (observe g it) eqn:Ho; injection H as <-; replace (S it - 1) with it by lia; repeat split; lia.
  - destruct (observe g it) eqn:Ho; try discriminate.
    + apply IH in H. destruct H as [H1 [H2 H3]]. split; [lia|]. split; [lia|].
      destruct H3 as [H3|H3]; [left; exact H3 | right; lia].
    + injection H as <-. replace (S it - 1) with it by lia. split; [lia|]. split; [lia | left; exact Ho].
Qed.

Lemma outer_spec left g log res ok :
  outer max_iter observe left g log = (res, ok) ->
  (ok = true -> exists pre k, res = rev log ++ pre ++ [Converged k] /\
                              attempt (g + List.length pre) = Converged k /\ List.length pre < left /\
                              (forall i, i < List.length pre -> exists ki, attempt (g + i) = Failed ki)) /\
  (ok = false -> forall i, i < left -> exists ki, attempt (g + i) = Failed ki).
Proof.
  revert g log. induction left as [|left IH]; intros g log H; cbn [outer] in H.
  - injection H as <- <-. split; [discriminate|]. intros _ i Hi. lia.
  - destruct (attempt g) as [k|k] eqn:Ha.
    + injection H as <- <-. split; [|discriminate]. intros _. exists [], k. cbn [List.length app rev].
      rewrite Nat.add_0_r.
      split; [reflexivity|]. split; [exact Ha|]. split; [lia|]. intros i Hi. lia.
    + apply IH in H. destruct H as [Hs Hf]. split.
      * intros Hok. destruct (Hs Hok) as [pre [k' [Hres [Hatt [Hlen Hall]]]]].
        exists (Failed k :: pre), k'. cbn [List.length rev] in *.
        split; [rewrite Hres; cbn [app]; rewrite <- !app_assoc; reflexivity|].
        split; [replace (g + S (List.length pre)) with (S g + List.length pre) by lia; exact Hatt|].
        split; [lia|].
        intros i Hi. destruct i as [|i]; [rewrite Nat.add_0_r; eauto|].
        replace (g + S i) with (S g + i) by lia. apply Hall. lia.
      * intros Hok i Hi. destruct i as [|i]; [rewrite Nat.add_0_r; eauto|].
        replace (g + S i) with (S g + i) by lia. apply Hf; [exact Hok | lia].
Qed.

(* the warning is issued iff every governor attempt failed *)
Theorem warn_iff_exhausted :
  warns max_iter n_gov observe = true <-> (forall g, g < n_gov -> exists k, attempt g = Failed k).
Proof.
  unfold warns, solve_control. destruct (outer max_iter observe n_gov 0 []) as [res ok] eqn:H.
  apply outer_spec in H. destruct H as [Hs Hf]. cbn [snd]. split.
  - intros Hw. destruct ok; [discriminate|]. intros g Hg. apply (Hf eq_refl g Hg).
  - intros Hall. destruct ok; [|reflexivity]. destruct (Hs eq_refl) as [pre [k [_ [Hatt [Hlen _]]]]].
    destruct (Hall (List.length pre) Hlen) as [k' Hk']. cbn [Nat.add] in Hatt. rewrite Hatt in Hk'. discriminate.
Qed.

(* no warning => some governor attempt ended on a FINITE stopping quantity not above the tolerance,
   within the iteration limit, every earlier attempt having failed *)
Theorem no_warn_converged :
  warns max_iter n_gov observe = false ->
  exists g k, g < n_gov /\ 1 <= k <= max_iter /\ observe g (k - 1) = NotAbove /\
              (forall j, j < k - 1 -> observe g j = Above) /\
              (forall g', g' < g -> exists k', attempt g' = Failed k').
Proof.
  unfold warns, solve_control. destruct (outer max_iter observe n_gov 0 []) as [res ok] eqn:H.
  apply outer_spec in H. destruct H as [Hs _]. cbn [snd]. intros Hw. destruct ok; [|discriminate].
  destruct (Hs eq_refl) as [pre [k [_ [Hatt [Hlen Hall]]]]]. cbn [Nat.add] in Hatt.
  apply attempt_converged in Hatt. destruct Hatt as [H1 [H2 H3]].
  exists (List.length pre), k. split; [lia|]. split; [lia|]. split; [exact H2|]. split; [exact H3|]. intros g' Hg'. apply (Hall g' Hg').
Qed.

(* in particular a non-finite stopping quantity never ends an attempt as converged *)
Theorem nonfinite_never_converges g k :
  attempt g = Converged k -> forall j, j < k -> observe g j <> NonFinite.
Proof.
  intros H j Hj. apply attempt_converged in H. destruct H as [H1 [H2 H3]].
  destruct (Nat.eq_dec j (k - 1)) as [->|Hne]; [rewrite H2; discriminate | rewrite H3 by lia; discriminate].
Qed.

(* termination with a bound: every attempt performs at most max_iter + 1 iterations *)
Theorem attempt_bounded g : match attempt g with Converged k => k <= max_iter | Failed k => k <= S max_iter end.
Proof.
  destruct (attempt g) as [k|k] eqn:H.
  - apply attempt_converged in H. lia.
  - unfold Retry.attempt in H. apply inner_failed in H. lia.
Qed.
End C06.
