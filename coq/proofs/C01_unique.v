(* Uniqueness of the equilibrium of the ideal mixture: two positive states of the same species data at the same (T, P)
   that are each stationary against the direction to the other (as any two fixed points of the solver with the same
   constraint totals are, C10_kkt.kkt_is_stationary) have the same mole fractions, hence the same number densities
   x_i P / (k T).  Strict form of Gibbs' inequality.  Used by C01 (the mass-action state is THE minimiser), C04 / C05 / C06
   (what the solver converges to cannot depend on the starting estimate, the listing order or the representation of x0). *)
From Coq Require Import Reals List Lra Lia Arith ZArith.
Import ListNotations.
From MPC Require Import Num Species RInst StatMech RVec RSumIdx GenSpecies GenMixture RefEnergy Gibbs
                        C07_proofs C01_proofs C02_proofs C09_proofs C15_proofs C10_proofs C10_kkt.
Open Scope R_scope.

Lemma ln_lower_strict t : 0 < t -> t <> 1 -> 1 - / t < ln t.
Proof.
  intros Ht Hne.
  assert (Hl : ln t <> 0) by (intro H0; apply Hne; apply ln_inv; [assumption | lra | rewrite ln_1; exact H0]).
  assert (G := exp_ineq1 (- ln t) ltac:(lra)). rewrite exp_Ropp, exp_ln in G by assumption. lra.
Qed.

(* equality in one term of Gibbs' inequality forces equal fractions *)
Lemma kl_term_eq n n' S S' : 0 < n -> 0 < n' -> 0 < S -> 0 < S' ->
  n' - n * (S' / S) = n' * ln ((n' / S') / (n / S)) -> n' / S' = n / S.
Proof.
  intros Hn Hn' HS HS' He.
  assert (Hx : 0 < n / S) by (apply Rdiv_lt_0_compat; assumption).
  assert (Hx' : 0 < n' / S') by (apply Rdiv_lt_0_compat; assumption).
  set (t := (n' / S') / (n / S)) in *.
  assert (Ht : 0 < t) by (apply Rdiv_lt_0_compat; assumption).
  destruct (Req_dec t 1) as [E1|N1].
  - unfold t in E1. apply (Rmult_eq_compat_r (n / S)) in E1. unfold Rdiv at 1 in E1.
    rewrite Rmult_assoc, Rinv_l, Rmult_1_r, Rmult_1_l in E1 by lra. exact E1.
  - exfalso. assert (G := ln_lower_strict t Ht N1).
    assert (E : n' * (1 - / t) = n' - n * (S' / S)) by (unfold t; field; repeat split; lra).
    assert (n' * (1 - / t) < n' * ln t) by (apply Rmult_lt_compat_l; assumption). lra.
Qed.

Lemma sum_le_eq {X} (f g : X -> R) (l : list X) :
  (forall x, In x l -> f x <= g x) -> Rsum (map f l) = Rsum (map g l) -> forall x, In x l -> f x = g x.
Proof.
  induction l as [|y l IH]; intros Hle Hs x Hx; [destruct Hx|].
  assert (Ht : Rsum (map f l) <= Rsum (map g l)).
  { clear IH Hs x Hx. induction l as [|z l IHl]; cbn [map Rsum]; [lra|].
    assert (f z <= g z) by (apply Hle; right; left; reflexivity).
    assert (Rsum (map f l) <= Rsum (map g l)); [|lra].
    apply IHl. intros w [Hw|Hw]; apply Hle; [left; exact Hw | right; right; exact Hw]. }
  assert (Hy : f y <= g y) by (apply Hle; left; reflexivity).
  cbn [map Rsum] in Hs.
  destruct Hx as [<-|Hx]; [lra|].
  apply IH; [intros w Hw; apply Hle; right; exact Hw | lra | exact Hx].
Qed.

Section Unique.
Variable U : Units R.
Notation kB := (k_b U).

Definition KL (ps : list (entry * entry)) : R :=
  Rsum (map (fun p => e_n (snd p) * ln ((e_n (snd p) / Ntot (map snd ps)) / (e_n (fst p) / Ntot (map fst ps)))) ps).

(* zero relative entropy: the two states have the same mole fractions *)
Lemma KL_zero_fractions T (ps : list (entry * entry)) :
  ps <> [] -> Forall (pair_pos U T) ps -> KL ps = 0 ->
  forall p, In p ps -> e_n (snd p) / Ntot (map snd ps) = e_n (fst p) / Ntot (map fst ps).
Proof.
  intros Hne Hpos Hk. destruct (Ntot_pos_fst U T ps Hne Hpos) as [HS HS'].
  assert (Hn := pairs_pos_n U T ps Hpos). rewrite Forall_forall in Hn.
  unfold KL in Hk. set (S := Ntot (map fst ps)) in *. set (S' := Ntot (map snd ps)) in *.
  assert (E : Rsum (map (fun p : entry * entry => e_n (snd p) - e_n (fst p) * (S' / S)) ps) = 0).
  { assert (E0 : forall c l, Rsum (map (fun p : entry * entry => e_n (snd p) - e_n (fst p) * c) l)
                        = Rsum (map e_n (map snd l)) - Rsum (map e_n (map fst l)) * c).
    { intros c l. induction l as [|p l IH]; cbn [map Rsum]; [ring | rewrite IH; ring]. }
    rewrite E0. fold (Ntot (map snd ps)). fold (Ntot (map fst ps)). fold S S'. field. lra. }
  intros p Hp. destruct (Hn p Hp) as [H1 H2].
  apply kl_term_eq; try assumption.
  apply (sum_le_eq (fun p => e_n (snd p) - e_n (fst p) * (S' / S))
                   (fun p => e_n (snd p) * ln ((e_n (snd p) / S') / (e_n (fst p) / S))) ps); [| rewrite E, Hk; reflexivity | exact Hp].
  intros q Hq. destruct (Hn q Hq) as [Q1 Q2]. apply kl_term; assumption.
Qed.

Lemma swap_same_data (ps : list (entry * entry)) : Forall same_data ps -> Forall same_data (map swap ps).
Proof.
  intros HD. apply Forall_forall. intros q Hq. apply in_map_iff in Hq. destruct Hq as [p [<- Hp]]. rewrite Forall_forall in HD.
  destruct (HD p Hp) as [A1 [A2 A3]]. unfold same_data, swap. cbn [fst snd]. repeat split; congruence.
Qed.
Lemma swap_pair_pos T (ps : list (entry * entry)) : Forall (pair_pos U T) ps -> Forall (pair_pos U T) (map swap ps).
Proof.
  intros Hpos. apply Forall_forall. intros q Hq. apply in_map_iff in Hq. destruct Hq as [p [<- Hp]]. rewrite Forall_forall in Hpos.
  destruct (Hpos p Hp) as [A1 A2]. split; assumption.
Qed.
Lemma map_fst_swap (ps : list (entry * entry)) : map fst (map swap ps) = map snd ps.
Proof. rewrite map_map. reflexivity. Qed.
Lemma map_snd_swap (ps : list (entry * entry)) : map snd (map swap ps) = map fst ps.
Proof. rewrite map_map. reflexivity. Qed.

(* two mutually stationary states of the same ideal mixture at the same (T, P) have the same mole fractions *)
Theorem stationary_points_same_fractions T P (ps : list (entry * entry)) :
  0 < kB * T -> 0 < P -> ps <> [] -> Forall same_data ps -> Forall (pair_pos U T) ps ->
  stationary_against U T P ps -> stationary_against U T P (map swap ps) ->
  forall p, In p ps -> e_n (snd p) / Ntot (map snd ps) = e_n (fst p) / Ntot (map fst ps).
Proof.
  intros HkT HP Hne HD Hpos Hs1 Hs2.
  destruct (Ntot_pos_fst U T ps Hne Hpos) as [HS HS'].
  assert (Hne' : map swap ps <> []) by (destruct ps; [congruence | discriminate]).
  assert (G1 := first_order_gap U T P _ _ ps HkT HP HS HS' HD Hpos).
  assert (G2 := first_order_gap U T P _ _ (map swap ps) HkT HP HS' HS (swap_same_data ps HD) (swap_pair_pos T ps Hpos)).
  unfold stationary_against in Hs1, Hs2. rewrite map_fst_swap in Hs2.
  rewrite Hs1 in G1. rewrite map_fst_swap, map_snd_swap in G2. rewrite Hs2 in G2.
  assert (I1 := gibbs_inequality ps Hne (pairs_pos_n U T ps Hpos)).
  assert (I2 := gibbs_inequality (map swap ps) Hne' (pairs_pos_n U T _ (swap_pair_pos T ps Hpos))).
  rewrite map_fst_swap, map_snd_swap in I2.
  fold (KL ps) in I1, G1.
  match type of I2 with 0 <= ?k => set (K2 := k) in * end.
  assert (Hsum : kB * T * (KL ps + K2) = 0) by lra.
  assert (Hz : KL ps + K2 = 0).
  { apply Rmult_integral in Hsum. destruct Hsum; [lra | assumption]. }
  apply (KL_zero_fractions T ps Hne Hpos). lra.
Qed.

(* hence the same number densities N_i / V with V = (sum N) k T / P, which is what calculate_composition returns *)
Corollary stationary_points_same_densities T P (ps : list (entry * entry)) :
  0 < kB * T -> 0 < P -> ps <> [] -> Forall same_data ps -> Forall (pair_pos U T) ps ->
  stationary_against U T P ps -> stationary_against U T P (map swap ps) ->
  forall p, In p ps -> e_n (snd p) / (Ntot (map snd ps) * (kB * T) / P) = e_n (fst p) / (Ntot (map fst ps) * (kB * T) / P).
Proof.
  intros HkT HP Hne HD Hpos Hs1 Hs2 p Hp.
  destruct (Ntot_pos_fst U T ps Hne Hpos) as [HS HS'].
  assert (F := stationary_points_same_fractions T P ps HkT HP Hne HD Hpos Hs1 Hs2 p Hp).
  set (kt := kB * T) in *. clearbody kt.
  set (a := e_n (snd p)) in *. set (b := e_n (fst p)) in *. set (S' := Ntot (map snd ps)) in *. set (S := Ntot (map fst ps)) in *.
  clearbody a b S S'.
  replace (a / (S' * kt / P)) with (a / S' * (P / kt)) by (field; repeat split; lra).
  replace (b / (S * kt / P)) with (b / S * (P / kt)) by (field; repeat split; lra).
  rewrite F. reflexivity.
Qed.
Lemma dotR_swap_direction (c : list R) (ps : list (entry * entry)) :
  dotR c (map (fun p => e_n (snd p) - e_n (fst p)) (map swap ps)) = - dotR c (map (fun p => e_n (snd p) - e_n (fst p)) ps).
Proof.
  unfold dotR. revert c. induction ps as [|p ps IH]; intros [|x c]; cbn [map map2 Rsum swap fst snd]; try lra.
  specialize (IH c). cbn [swap fst snd] in IH. rewrite IH. ring.
Qed.

(* two fixed points of the solver (each with chemical potentials in the column space of the constraint matrix, each with its
   own multipliers) that carry the same constraint totals: same number densities *)
Theorem kkt_points_same_densities T P (ps : list (entry * entry)) cols lam1 lam2 :
  0 < kB * T -> 0 < P -> ps <> [] -> Forall same_data ps -> Forall (pair_pos U T) ps ->
  let nu := map (fun p => e_n (snd p) - e_n (fst p)) ps in
  let mu1 := map (fun p => mu_at U T (Ntot (map fst ps) * (kB * T) / P) (fst p)) ps in
  let mu2 := map (fun p => mu_at U T (Ntot (map snd ps) * (kB * T) / P) (snd p)) ps in
  Forall (fun c => List.length c = List.length nu) cols ->
  Forall2 (fun mi ai => mi = - ai) mu1 (alam RNum cols lam1 (repeat 0 (List.length nu))) ->
  Forall2 (fun mi ai => mi = - ai) mu2 (alam RNum cols lam2 (repeat 0 (List.length nu))) ->
  Forall (fun c => dotR c nu = 0) cols ->
  forall p, In p ps -> e_n (snd p) / (Ntot (map snd ps) * (kB * T) / P) = e_n (fst p) / (Ntot (map fst ps) * (kB * T) / P).
Proof.
  intros HkT HP Hne HD Hpos nu mu1 mu2 Hlen Hmu1 Hmu2 Hfeas.
  apply stationary_points_same_densities; try assumption.
  - eapply kkt_is_stationary; eassumption.
  - apply (kkt_is_stationary U T P (map swap ps) cols lam2).
    + rewrite !map_length. unfold nu in Hlen. rewrite map_length in Hlen. exact Hlen.
    + rewrite !map_length, map_fst_swap, map_map. cbn [swap fst snd]. unfold mu2, nu in Hmu2. rewrite map_length in Hmu2. exact Hmu2.
    + apply Forall_forall. intros c Hc. rewrite dotR_swap_direction. rewrite Forall_forall in Hfeas. fold nu. rewrite (Hfeas c Hc). lra.
Qed.
End Unique.
