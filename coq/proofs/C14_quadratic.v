(* C14: for ANY solution b of the viscosity system the viscosity is a fixed positive constant times the quadratic form
   sum_{(p,i),(p',j)} (b_pi / sqrt(m_i)) qhat_{(p,i),(p',j)} b_p'j  of the assembled matrix at b; positivity of the
   viscosity of a general mixture is therefore exactly positivity of that form at the solution. *)
From Coq Require Import Reals List Lra Lia Arith ZArith.
Import ListNotations.
From MPC Require Import Num Species RInst StatMech RVec RSumIdx GenTransport Transport C12_split.
Open Scope R_scope.

Section Quadratic.
Variable U : Units R.
Variable T : R.
Variables (masses nd : nat -> R) (nb : nat) (Q : @qints R).
Hypothesis Hm : forall i, 0 < masses i.
Hypothesis HkT : 0 < k_b U * T.

Definition qform (x : nat -> nat -> R) : R :=
  sumn 2 (fun p => sumn nb (fun i => x p i / sqrt (masses i) *
     (sumn nb (fun j => qhatblock RNum Q masses nb nd p 0%nat i j * x 0%nat j) + sumn nb (fun j => qhatblock RNum Q masses nb nd p 1%nat i j * x 1%nat j)))).

Theorem viscosity_is_quadratic_form (x : nat -> nat -> R) :
  visc_rows U T masses nd nb Q x ->
  visc_value RNum U T nd nb (x 0%nat) = k_b U * T / (10 * sqrt (2 * PI / (k_b U * T))) * qform x.
Proof.
  intros Hsys. unfold qform, sumn at 1. cbn [seq map Rsum].
  assert (E0 : sumn nb (fun i => x 0%nat i / sqrt (masses i) *
     (sumn nb (fun j => qhatblock RNum Q masses nb nd 0 0 i j * x 0%nat j) + sumn nb (fun j => qhatblock RNum Q masses nb nd 0 1 i j * x 1%nat j)))
     = 5 * sqrt (2 * PI / (k_b U * T)) * sumn nb (fun i => nd i * x 0%nat i)).
  { rewrite <- sumn_scal. apply sumn_ext. intros i Hi. rewrite (Hsys 0%nat i ltac:(lia) Hi). cbn [Nat.eqb].
    unfold visc_rhs0, kTv. rnum.
    assert (Hs : 0 < sqrt (masses i)) by (apply sqrt_lt_R0, Hm).
    replace (2 * PI * masses i / (k_b U * T)) with ((2 * PI / (k_b U * T)) * masses i) by (unfold Rdiv; ring).
    assert (Hpos : 0 <= 2 * PI / (k_b U * T)) by (left; apply Rdiv_lt_0_compat; [assert (G := PI_RGT_0); lra | exact HkT]).
    rewrite (sqrt_mult _ _ Hpos (Rlt_le _ _ (Hm i))).
    field. apply Rgt_not_eq; exact Hs. }
  assert (E1 : sumn nb (fun i => x 1%nat i / sqrt (masses i) *
     (sumn nb (fun j => qhatblock RNum Q masses nb nd 1 0 i j * x 0%nat j) + sumn nb (fun j => qhatblock RNum Q masses nb nd 1 1 i j * x 1%nat j))) = 0).
  { rewrite <- (sumn_zero nb). apply sumn_ext. intros i Hi. rewrite (Hsys 1%nat i ltac:(lia) Hi). cbn [Nat.eqb]. ring. }
  rewrite E0, E1. unfold visc_value, kTv. rewrite sum_left_R. rnum. fold (sumn nb (fun i => nd i * x 0%nat i)).
  assert (Hq : 0 < sqrt (2 * PI / (k_b U * T))).
  { apply sqrt_lt_R0, Rdiv_lt_0_compat; [assert (G := PI_RGT_0); lra | exact HkT]. }
  field. lra.
Qed.

Corollary viscosity_positive_iff_form_positive (x : nat -> nat -> R) :
  visc_rows U T masses nd nb Q x -> (0 < visc_value RNum U T nd nb (x 0%nat) <-> 0 < qform x).
Proof.
  intros Hsys. rewrite (viscosity_is_quadratic_form x Hsys).
  assert (Hc : 0 < k_b U * T / (10 * sqrt (2 * PI / (k_b U * T)))).
  { apply Rdiv_lt_0_compat; [exact HkT|]. apply Rmult_lt_0_compat; [lra|].
    apply sqrt_lt_R0, Rdiv_lt_0_compat; [assert (G := PI_RGT_0); lra | exact HkT]. }
  split; intros H.
  - apply Rmult_lt_reg_l with (r := k_b U * T / (10 * sqrt (2 * PI / (k_b U * T)))); [exact Hc | lra].
  - apply Rmult_lt_0_compat; assumption.
Qed.
End Quadratic.
