(* Lemmas behind thm/C01.v: fixed points of the Newton iteration are exactly the mass-action states. *)
From Coq Require Import Reals List Lra ZArith.
Import ListNotations.
From MPC Require Import Num Species RInst StatMech RVec GenSpecies RefEnergy Gibbs C02_proofs.
Open Scope R_scope.

Section C01.
Variable U : Units R.
Notation kB := (k_b U).

(* the chemical potential as coded depends on particle numbers only through the density n = N / V *)
Lemma mu_scale_free T V (sp : species R) n e0 de :
  V <> 0 -> n <> 0 ->
  mu_entry RNum U T V sp n e0 de =
  e0 - kB * T * ln (translational_Z RNum U sp T * Zint RNum U sp T de / (n / V)).
Proof.
  intros HV Hn. unfold mu_entry, total_Z, kT. rnum.
  replace (V * translational_Z RNum U sp T * Zint RNum U sp T de / n)
    with (translational_Z RNum U sp T * Zint RNum U sp T de / (n / V)) by (field; split; assumption).
  ring.
Qed.

Lemma mu_log_form T V (sp : species R) n e0 de :
  0 < V -> 0 < n -> 0 < translational_Z RNum U sp T * Zint RNum U sp T de ->
  mu_entry RNum U T V sp n e0 de =
  e0 - kB * T * (ln (translational_Z RNum U sp T * Zint RNum U sp T de) - ln (n / V)).
Proof.
  intros HV Hn Hq. rewrite mu_scale_free by lra. f_equal. f_equal.
  unfold Rdiv at 1. rewrite ln_mult; [|assumption | apply Rinv_0_lt_compat, Rdiv_lt_0_compat; assumption].
  rewrite ln_Rinv by (apply Rdiv_lt_0_compat; assumption). lra.
Qed.

(* each species row of the Newton system: the mass-action defect at the current iterate IS the relative
   Newton change of that species minus the relative change of the total *)
Lemma newton_residual_identity kt ntot sn n nn al m :
  kt <> 0 -> ntot <> 0 -> n <> 0 ->
  species_residual RNum kt ntot sn n nn al m = 0 ->
  (m + al) / kt = sn / ntot - nn / n.
Proof.
  intros Hk Ht Hn. unfold species_residual. rnum. intros H.
  apply Rmult_eq_reg_r with (r := kt); [|assumption].
  replace ((m + al) / kt * kt) with (m + al) by (field; assumption).
  replace ((sn / ntot - nn / n) * kt) with (kt / ntot * sn - kt / n * nn) by (field; split; assumption). lra.
Qed.

(* at a fixed point (proposal = current iterate) the row residual is exactly the mass-action defect *)
Lemma residual_at_fixed_point kt ntot n al m :
  kt <> 0 -> ntot <> 0 -> n <> 0 ->
  species_residual RNum kt ntot ntot n n al m = al + m.
Proof. intros Hk Ht Hn. unfold species_residual. rnum. field. split; assumption. Qed.

Lemma fixed_point_iff_equilibrium kt ntot n al m :
  kt <> 0 -> ntot <> 0 -> n <> 0 ->
  (species_residual RNum kt ntot ntot n n al m = 0 <-> m = - al).
Proof. intros Hk Ht Hn. rewrite residual_at_fixed_point by assumption. split; lra. Qed.

(* list level: with proposal = iterate the species residuals are (A lam)_i + mu_i *)
Lemma residuals_at_fixed_point T cols Ni mu lam :
  kB * T <> 0 -> Rsum Ni <> 0 -> Forall (fun x => x <> 0) Ni ->
  kkt_species_residuals RNum U T cols Ni mu Ni lam =
  map (fun q => let '(n, (nn, (a, m))) := q in a + m)
      (combine Ni (combine Ni (combine (alam RNum cols lam (map (fun _ => 0) Ni)) mu))).
Proof.
  intros Hk Hs Hn. unfold kkt_species_residuals, kT. cbv zeta. rewrite sum_list_Rsum. rnum.
  set (al := alam RNum cols lam (map (fun _ : R => 0) Ni)). clearbody al.
  apply map_ext_in. intros [n [nn [a m]]] Hin.
  assert (Hnn : nn = n /\ n <> 0).
  { clear -Hin Hn. revert al mu Hin. induction Ni as [|x Ni IH]; intros al mu Hin; [contradiction|].
    cbn [combine] in Hin. destruct al as [|a0 al]; [cbn [combine] in Hin; contradiction|].
    destruct mu as [|m0 mu]; [cbn [combine] in Hin; contradiction|].
    cbn [combine] in Hin. destruct Hin as [Heq|Hin].
    - injection Heq as -> -> _ _. split; [reflexivity | now inversion Hn].
    - apply (IH (Forall_inv_tail Hn) al mu Hin). }
  destruct Hnn as [-> Hn0]. apply residual_at_fixed_point; assumption.
Qed.

(* ---- mass action: mu in the column space of the constraint matrix => every reaction balances ---- *)
Lemma alam_length cols lam n :
  Forall (fun c => List.length c = n) cols -> List.length (alam RNum cols lam (repeat 0 n)) = n.
Proof.
  revert lam. induction cols as [|c cols IH]; intros lam H; cbn [alam]; [apply repeat_length|].
  destruct lam as [|l lam]; [apply repeat_length|]. inversion H as [|x y Hc Hr]; subst.
  rewrite map2_length; rewrite map_length; [reflexivity|]. now rewrite IH.
Qed.

Lemma dot_alam nu cols lam :
  Forall (fun c => List.length c = List.length nu) cols ->
  dotR nu (alam RNum cols lam (repeat 0 (List.length nu))) =
  Rsum (map2 (fun c l => l * dotR c nu) cols lam).
Proof.
  revert lam. induction cols as [|c cols IH]; intros lam H; cbn [alam map2 Rsum]; [apply dot_zero_r|].
  destruct lam as [|l lam]; [cbn [map2 Rsum]; apply dot_zero_r|]. inversion H as [|x y Hc Hr]; subst.
  cbn [map2 Rsum]. rnum. rewrite dot_plus_r by (rewrite map_length, alam_length; assumption).
  rewrite IH by assumption. f_equal.
  replace (map (fun x => x * l) c) with (map (fun x => l * x) c) by (apply map_ext; intros; lra).
  rewrite dot_scal_r, (dot_comm nu c). reflexivity.
Qed.

Lemma dot_opp nu a m : Forall2 (fun mi ai => mi = - ai) m a -> dotR nu m = - dotR nu a.
Proof.
  unfold dotR. intros H. revert nu. induction H as [|mi ai m a Hma _ IH]; intros [|x nu]; cbn [map2 Rsum]; try lra.
  rewrite IH, Hma. lra.
Qed.

(* law of mass action: if mu = -(A lam) then sum_i nu_i mu_i = 0 for every reaction nu (A^T nu = 0) *)
Lemma mass_action_reactions nu cols lam mu :
  Forall (fun c => List.length c = List.length nu) cols ->
  Forall2 (fun mi ai => mi = - ai) mu (alam RNum cols lam (repeat 0 (List.length nu))) ->
  Forall (fun c => dotR c nu = 0) cols ->
  dotR nu mu = 0.
Proof.
  intros Hlen Hmu Hreac. rewrite (dot_opp nu _ mu Hmu), dot_alam by assumption.
  assert (E : Rsum (map2 (fun c l => l * dotR c nu) cols lam) = 0).
  { clear Hmu Hlen. revert lam. induction Hreac as [|c cols Hc _ IH]; intros [|l lam]; cbn [map2 Rsum]; try lra.
    rewrite Hc, IH. lra. }
  rewrite E. lra.
Qed.

(* Saha / Guldberg-Waage form: with mu_i = E0_i - kT (ln q_i - ln n_i), a balanced reaction gives
   sum nu_i ln n_i = sum nu_i ln q_i - (sum nu_i E0_i) / kT *)
Lemma saha_form (kt : R) nu E0 lq ln_n mu :
  kt <> 0 ->
  mu = map (fun t => let '(e, (q, n)) := t in e - kt * (q - n)) (combine E0 (combine lq ln_n)) ->
  List.length E0 = List.length nu -> List.length lq = List.length nu -> List.length ln_n = List.length nu ->
  dotR nu mu = 0 ->
  dotR nu ln_n = dotR nu lq - dotR nu E0 / kt.
Proof.
  intros Hk -> H1 H2 H3 H.
  assert (E : forall nu E0 lq ln_n, List.length E0 = List.length nu -> List.length lq = List.length nu -> List.length ln_n = List.length nu ->
    dotR nu (map (fun t => let '(e, (q, n)) := t in e - kt * (q - n)) (combine E0 (combine lq ln_n)))
    = dotR nu E0 - kt * (dotR nu lq - dotR nu ln_n)).
  { unfold dotR. clear. induction nu as [|x nu IH]; intros [|e E0] [|q lq] [|n ln_n] H1 H2 H3; cbn in *; try discriminate; try lra.
    rewrite IH by (now injection H1 + now injection H2 + now injection H3). lra. }
  rewrite E in H by assumption.
  apply Rmult_eq_reg_l with (r := kt); [|assumption]. field_simplify; [|assumption]. lra.
Qed.
End C01.
