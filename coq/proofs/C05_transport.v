(* C05, transport part (viscosity): listing the species in another order leaves the viscosity unchanged.  From the
   first-principles row form of the qhat blocks (C11): row i of the permuted system is row (sigma i) of the original one,
   so x o sigma solves the permuted system whenever x solves the original one, and the final sum is a rearrangement. *)
From Coq Require Import Reals List Lra Lia Arith ZArith Permutation.
Import ListNotations.
From MPC Require Import Num Species RInst StatMech RVec RSumIdx BracketTables ChapmanEnskog GenTransport Transport
                        C07_proofs C11_base C11_proofs C12_split.
Open Scope R_scope.

Lemma NoDup_map_inj_in {B C} (f : B -> C) (l : list B) :
  (forall a b, In a l -> In b l -> f a = f b -> a = b) -> NoDup l -> NoDup (map f l).
Proof.
  intros Hinj Hnd. induction Hnd as [|x l Hx Hl IH]; cbn [map]; constructor.
  - intros Hin. apply in_map_iff in Hin. destruct Hin as [y [E Hy]]. apply Hx.
    rewrite (Hinj x y); [exact Hy | now left | now right | now symmetry].
  - apply IH. intros a b Ha Hb. apply Hinj; now right.
Qed.

Section Perm.
Variables (nb : nat) (sigma tau : nat -> nat).
Hypothesis Hs : forall i, (i < nb)%nat -> (sigma i < nb)%nat.
Hypothesis Ht : forall i, (i < nb)%nat -> (tau i < nb)%nat.
Hypothesis Hts : forall i, (i < nb)%nat -> tau (sigma i) = i.
Hypothesis Hst : forall i, (i < nb)%nat -> sigma (tau i) = i.

Lemma sigma_perm : Permutation (map sigma (seq 0 nb)) (seq 0 nb).
Proof.
  apply NoDup_Permutation_bis.
  - (* NoDup: sigma is injective on [0, nb) *)
    apply NoDup_map_inj_in; [|apply seq_NoDup].
    intros a b Ha Hb E. apply in_seq in Ha. apply in_seq in Hb.
    rewrite <- (Hts a), <- (Hts b) by lia. now rewrite E.
  - rewrite map_length. lia.
  - intros x Hx. apply in_map_iff in Hx. destruct Hx as [a [<- Ha]]. apply in_seq in Ha. apply in_seq. specialize (Hs a). lia.
Qed.

Lemma sumn_perm (g : nat -> R) : sumn nb (fun l => g (sigma l)) = sumn nb g.
Proof.
  unfold sumn. rewrite <- (map_map sigma g). apply Rsum_perm, Permutation_map, sigma_perm.
Qed.
End Perm.

Section Viscosity.
Variable U : Units R.
Variable T : R.
Variables (masses nd : nat -> R) (nb : nat) (sigma tau : nat -> nat).
Variable Qbar : nat -> nat -> nat -> nat -> R.
Hypothesis Hm : forall i, 0 < masses i.
Hypothesis Hs : forall i, (i < nb)%nat -> (sigma i < nb)%nat.
Hypothesis Ht : forall i, (i < nb)%nat -> (tau i < nb)%nat.
Hypothesis Hts : forall i, (i < nb)%nat -> tau (sigma i) = i.
Hypothesis Hst : forall i, (i < nb)%nat -> sigma (tau i) = i.

Definition masses_p (i : nat) : R := masses (sigma i).
Definition nd_p (i : nat) : R := nd (sigma i).
Definition Qbar_p (l s i j : nat) : R := Qbar l s (sigma i) (sigma j).

Lemma perm_row t11 t12 (y : nat -> R) i : (i < nb)%nat ->
  sumn nb (fun j => qhat_spec masses_p nd_p nb Qbar_p t11 t12 i j * y (sigma j))
  = sumn nb (fun j => qhat_spec masses nd nb Qbar t11 t12 (sigma i) j * y j).
Proof.
  intros Hi. rewrite (hspec_row masses_p nd_p nb Qbar_p t11 t12 (fun j => y (sigma j)) i Hi).
  rewrite (hspec_row masses nd nb Qbar t11 t12 y (sigma i) (Hs i Hi)).
  change (fun l => nd_p l * BR masses_p Qbar_p t11 i l) with (fun l => (fun l' => nd l' * BR masses Qbar t11 (sigma i) l') (sigma l)).
  rewrite (sumn_perm nb sigma tau Hs Hts).
  change (fun l => nd_p l * BR masses_p Qbar_p t12 i l * y (sigma l)) with (fun l => (fun l' => nd l' * BR masses Qbar t12 (sigma i) l' * y l') (sigma l)).
  rewrite (sumn_perm nb sigma tau Hs Hts). reflexivity.
Qed.

Theorem viscosity_perm_invariant (x : nat -> nat -> R) :
  visc_rows U T masses nd nb (qints_of Qbar) x ->
  visc_rows U T masses_p nd_p nb (qints_of Qbar_p) (fun p i => x p (sigma i)) /\
  visc_value RNum U T nd_p nb (fun i => x 0%nat (sigma i)) = visc_value RNum U T nd nb (x 0%nat).
Proof.
  intros Hsys. split.
  - intros p i Hp Hi. specialize (Hsys p (sigma i) Hp (Hs i Hi)).
    assert (Hmp : forall i0, 0 < masses_p i0) by (intros; apply Hm).
    assert (E' : forall p', (p' < 2)%nat ->
      sumn nb (fun j => qhatblock RNum (qints_of Qbar_p) masses_p nb nd_p p p' i j * x p' (sigma j))
      = sumn nb (fun j => qhat_spec masses_p nd_p nb Qbar_p (tab11 p p') (tab12 p p') i j * x p' (sigma j))).
    { intros p' Hp'. apply sumn_ext. intros j _. rewrite (block_spec masses_p nd_p nb Qbar_p Hmp p p' i j Hp Hp'). reflexivity. }
    assert (E : forall p', (p' < 2)%nat ->
      sumn nb (fun j => qhatblock RNum (qints_of Qbar) masses nb nd p p' (sigma i) j * x p' j)
      = sumn nb (fun j => qhat_spec masses nd nb Qbar (tab11 p p') (tab12 p p') (sigma i) j * x p' j)).
    { intros p' Hp'. apply sumn_ext. intros j _. rewrite (block_spec masses nd nb Qbar Hm p p' (sigma i) j Hp Hp'). reflexivity. }
    rewrite (E 0%nat), (E 1%nat) in Hsys by lia. rewrite (E' 0%nat), (E' 1%nat) by lia.
    rewrite (perm_row (tab11 p 0) (tab12 p 0) (x 0%nat) i Hi), (perm_row (tab11 p 1) (tab12 p 1) (x 1%nat) i Hi), Hsys.
    destruct (Nat.eqb p 0); reflexivity.
  - unfold visc_value. rewrite !sum_left_R. f_equal.
    change (sumn nb (fun i => (fun i' => nd i' * x 0%nat i') (sigma i)) = sumn nb (fun i => nd i * x 0%nat i)).
    apply (sumn_perm nb sigma tau Hs Hts).
Qed.
End Viscosity.
