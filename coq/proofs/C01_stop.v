(* The stopping quantity of calculate_composition (model Gibbs.stop_quantity, tied to the code by the recorded iterations)
   bounds the relative Newton step of EVERY resolved species -- every species whose proposed particle number exceeds 1e-7 of
   the largest one -- and of the most abundant species itself.  (Before the repair D5 only the latter was judged.) *)
From Coq Require Import Reals List Lra Lia.
Import ListNotations.
From MPC Require Import Num Species RInst StatMech RVec Gibbs.
Open Scope R_scope.

Section Stop.
Variables (thr : R).
Definition qstep (n nn : R) : R := Rabs (nn - n) / nn.
Definition stop_step (m : R) (t : R * R) : R :=
  let '(n, nn) := t in if Rltb thr nn then (if Rltb m (qstep n nn) then qstep n nn else m) else m.

Lemma stop_step_ge m t : m <= stop_step m t.
Proof.
  unfold stop_step. destruct t as [n nn]. destruct (Rltb thr nn); [|lra].
  destruct (Rltb m (qstep n nn)) eqn:E; [apply Rltb_true in E; lra | lra].
Qed.

Lemma fold_stop_ge l m : m <= fold_left stop_step l m.
Proof.
  revert m. induction l as [|t l IH]; intros m; cbn [fold_left]; [lra|].
  eapply Rle_trans; [apply stop_step_ge | apply IH].
Qed.

Lemma fold_stop_bounds l m n nn : In (n, nn) l -> thr < nn -> qstep n nn <= fold_left stop_step l m.
Proof.
  revert m. induction l as [|t l IH]; intros m Hin Hthr; [destruct Hin|]. cbn [fold_left].
  destruct Hin as [->|Hin]; [|apply IH; assumption].
  eapply Rle_trans; [|apply fold_stop_ge].
  unfold stop_step. apply Rltb_true in Hthr. rewrite Hthr.
  destruct (Rltb m (qstep n nn)) eqn:E; [lra | apply Rltb_false in E; exact E].
Qed.
End Stop.

Lemma stop_quantity_unfold (Ni Nn : list R) :
  stop_quantity RNum Ni Nn =
  let j := argmax RNum Nn in
  let nmax := nth j Nn 0 in
  fold_left (stop_step (1 / 10000000 * nmax)) (combine Ni Nn) (qstep (nth j Ni 0) nmax).
Proof. reflexivity. Qed.

(* every resolved species: |Nn_k - N_k| / Nn_k <= stopping quantity *)
Theorem stop_quantity_bounds_resolved (Ni Nn : list R) (n nn : R) :
  In (n, nn) (combine Ni Nn) ->
  1 / 10000000 * nth (argmax RNum Nn) Nn 0 < nn ->
  Rabs (nn - n) / nn <= stop_quantity RNum Ni Nn.
Proof. intros Hin Hthr. rewrite stop_quantity_unfold. cbv zeta. apply (fold_stop_bounds _ _ _ n nn Hin Hthr). Qed.

(* the most abundant species is always judged *)
Theorem stop_quantity_bounds_largest (Ni Nn : list R) :
  let j := argmax RNum Nn in
  Rabs (nth j Nn 0 - nth j Ni 0) / nth j Nn 0 <= stop_quantity RNum Ni Nn.
Proof. intros j. rewrite stop_quantity_unfold. cbv zeta. apply fold_stop_ge. Qed.

(* so a run that stops with stopping quantity <= rtol has moved no resolved species by more than rtol (relative) in its last
   Newton step *)
Corollary converged_resolved_steps_small (Ni Nn : list R) (rtol n nn : R) :
  stop_quantity RNum Ni Nn <= rtol -> In (n, nn) (combine Ni Nn) ->
  1 / 10000000 * nth (argmax RNum Nn) Nn 0 < nn -> Rabs (nn - n) / nn <= rtol.
Proof. intros Hs Hin Hthr. eapply Rle_trans; [apply stop_quantity_bounds_resolved; eassumption | exact Hs]. Qed.

(* ... and a species whose last relative Newton step is at most eps (< 1) sits within eps2 + eps / (1 - eps) (in units of kT) of
   mass action, mu_i + (A lam)_i = 0, where eps2 bounds the relative change of the total particle number in that step:
   the species row of the Newton system, (mu_i + (A lam)_i) / kT = sum(Nn) / sum(N) - Nn_i / N_i, read as an error bound *)
From MPC Require Import C01_proofs.
Theorem small_step_near_mass_action (kt ntot sn n nn al m eps eps2 : R) :
  0 < kt -> 0 < ntot -> 0 < n -> 0 < nn -> 0 <= eps < 1 ->
  species_residual RNum kt ntot sn n nn al m = 0 ->
  Rabs (nn - n) / nn <= eps -> Rabs (sn / ntot - 1) <= eps2 ->
  Rabs ((m + al) / kt) <= eps2 + eps / (1 - eps).
Proof.
  intros Hkt Hnt Hn Hnn [He0 He1] Hres Hstep Htot.
  rewrite (newton_residual_identity kt ntot sn n nn al m) by (try assumption; lra).
  assert (Hd : Rabs (nn - n) <= eps * nn).
  { apply (Rmult_le_compat_r nn) in Hstep; [|lra]. unfold Rdiv in Hstep. rewrite Rmult_assoc, Rinv_l, Rmult_1_r in Hstep by lra. exact Hstep. }
  assert (Hlo : nn * (1 - eps) <= n) by (destruct (Rabs_def2 (nn - n) (eps * nn + 1)) as [_ _]; [apply Rle_lt_trans with (eps * nn); lra|];
                                        assert (G := Rle_abs (nn - n)); lra).
  assert (Hhi : n <= nn * (1 + eps)) by (assert (G := Rle_abs (- (nn - n))); rewrite Rabs_Ropp in G; lra).
  assert (H1e : 0 < 1 - eps) by lra.
  assert (Hr_hi : nn / n - 1 <= eps / (1 - eps)).
  { assert (nn / n <= / (1 - eps)).
    { apply (Rmult_le_reg_r (n * (1 - eps))); [apply Rmult_lt_0_compat; lra|].
      replace (nn / n * (n * (1 - eps))) with (nn * (1 - eps)) by (field; lra).
      replace (/ (1 - eps) * (n * (1 - eps))) with n by (field; lra). exact Hlo. }
    replace (eps / (1 - eps)) with (/ (1 - eps) - 1) by (field; lra). lra. }
  assert (Hr_lo : - (eps / (1 - eps)) <= nn / n - 1).
  { assert (/ (1 + eps) <= nn / n).
    { apply (Rmult_le_reg_r (n * (1 + eps))); [apply Rmult_lt_0_compat; lra|].
      replace (nn / n * (n * (1 + eps))) with (nn * (1 + eps)) by (field; lra).
      replace (/ (1 + eps) * (n * (1 + eps))) with n by (field; lra). exact Hhi. }
    assert (eps / (1 + eps) <= eps / (1 - eps)).
    { unfold Rdiv. apply Rmult_le_compat_l; [lra|]. apply Rinv_le_contravar; lra. }
    assert (1 - / (1 + eps) = eps / (1 + eps)) by (field; lra). lra. }
  replace (sn / ntot - nn / n) with ((sn / ntot - 1) - (nn / n - 1)) by ring.
  eapply Rle_trans; [apply Rabs_triang|]. rewrite Rabs_Ropp.
  assert (Rabs (nn / n - 1) <= eps / (1 - eps)) by (apply Rabs_le; split; lra). lra.
Qed.

Example small_step_hypotheses_satisfiable :
  species_residual RNum 1 1 1 1 1 0 0 = 0 /\ Rabs (1 - 1) / 1 <= 0 /\ Rabs (1 / 1 - 1) <= 0.
Proof. unfold species_residual. rnum. replace (1 - 1) with 0 by ring. replace (1 / 1 - 1) with 0 by field. rewrite Rabs_R0. repeat split; lra. Qed.

(* ... so every reaction among such species (stoichiometric vector nu orthogonal to the constraint columns, hence
   sum nu_i (A lam)_i = 0) is balanced to within delta * sum |nu_i| in units of kT: the quantitative law of mass action
   for a converged composition.  Entries: (nu_i, mu_i, (A lam)_i). *)
Definition t_nu (t : R * R * R) : R := fst (fst t).
Definition t_mu (t : R * R * R) : R := snd (fst t).
Definition t_al (t : R * R * R) : R := snd t.

Lemma weighted_abs_bound (delta : R) (l : list (R * R * R)) (r : R * R * R -> R) :
  (forall t, In t l -> Rabs (r t) <= delta) ->
  Rabs (Rsum (map (fun t => t_nu t * r t) l)) <= delta * Rsum (map (fun t => Rabs (t_nu t)) l).
Proof.
  induction l as [|t l IH]; intros H; cbn [map Rsum].
  - rewrite Rabs_R0. lra.
  - eapply Rle_trans; [apply Rabs_triang|]. rewrite Rabs_mult.
    assert (H1 : Rabs (r t) <= delta) by (apply H; left; reflexivity).
    assert (H2 := IH (fun u Hu => H u (or_intror Hu))).
    assert (Rabs (t_nu t) * Rabs (r t) <= Rabs (t_nu t) * delta) by (apply Rmult_le_compat_l; [apply Rabs_pos | exact H1]).
    lra.
Qed.

Theorem reaction_balance_bound (kt delta : R) (l : list (R * R * R)) :
  0 < kt ->
  (forall t, In t l -> Rabs ((t_mu t + t_al t) / kt) <= delta) ->
  Rsum (map (fun t => t_nu t * t_al t) l) = 0 ->
  Rabs (Rsum (map (fun t => t_nu t * t_mu t) l) / kt) <= delta * Rsum (map (fun t => Rabs (t_nu t)) l).
Proof.
  intros Hkt Hb Hz.
  assert (E : Rsum (map (fun t => t_nu t * t_mu t) l) / kt
              = Rsum (map (fun t => t_nu t * ((t_mu t + t_al t) / kt)) l) - Rsum (map (fun t => t_nu t * t_al t) l) / kt).
  { clear Hb Hz. induction l as [|t l IH]; cbn [map Rsum]; [field; lra|].
    replace ((t_nu t * t_mu t + Rsum (map (fun t0 => t_nu t0 * t_mu t0) l)) / kt)
      with (t_nu t * t_mu t / kt + Rsum (map (fun t0 => t_nu t0 * t_mu t0) l) / kt) by (field; lra).
    rewrite IH. field. lra. }
  rewrite E, Hz. replace (0 / kt) with 0 by (field; lra). rewrite Rminus_0_r.
  apply weighted_abs_bound. exact Hb.
Qed.

(* non-vacuity: O2 <-> 2 O at exact mass action, mu = -(A lam) with lam = 1 on the O column *)
Example reaction_balance_example :
  let l := [((1, -2), 2); ((-2, -1), 1)] in
  (forall t, In t l -> Rabs ((t_mu t + t_al t) / 1) <= 0) /\ Rsum (map (fun t => t_nu t * t_al t) l) = 0.
Proof.
  cbv zeta. split.
  - intros t [<-|[<-|[]]]; unfold t_mu, t_al; cbn [fst snd]; [replace ((-2 + 2) / 1) with 0 by field | replace ((-1 + 1) / 1) with 0 by field]; rewrite Rabs_R0; lra.
  - unfold t_nu, t_al. cbn [map Rsum fst snd]. ring.
Qed.
