(* Lemmas behind thm/C14.v. *)
From Coq Require Import Reals List Lra Lia Arith ZArith.
Import ListNotations.
From MPC Require Import Num Species RInst StatMech RVec RSumIdx Radiation GenSpecies GenRadiation GenTransport Transport C12_proofs C15_proofs.
Open Scope R_scope.

(* ---- emission is strictly positive as soon as one line is listed ---- *)
Section Emission.
Variable U : Units R.
Notation spec := (emission_spec (k_b U) (h_pl U) (c_light U) (species R) (fun s T => Zint RNum U s T 0) (@emission_lines R)).

Definition line_ok (ln : R * R * R) : Prop := let '(lam, gA, E) := ln in 0 < lam /\ 0 < gA.
Definition entry_ok (T : R) (ns : R * species R) : Prop :=
  0 < fst ns /\ 0 < Zint RNum U (snd ns) T 0 /\ Forall line_ok (emission_lines (snd ns)).

Lemma line_term_pos T n Z ln : 0 < n -> 0 < Z -> line_ok ln -> 0 < line_term (k_b U) T n Z ln.
Proof.
  destruct ln as [[lam gA] E]. intros Hn HZ [Hl Hg]. unfold line_term.
  apply Rdiv_lt_0_compat; [|apply Rmult_lt_0_compat; assumption].
  apply Rmult_lt_0_compat; [apply Rmult_lt_0_compat; assumption | apply exp_pos].
Qed.

Lemma species_emission_nonneg T ns : entry_ok T ns ->
  0 <= species_emission (k_b U) (species R) (fun s T => Zint RNum U s T 0) (@emission_lines R) T ns.
Proof.
  intros [Hn [HZ Hl]]. unfold species_emission. induction Hl as [|ln l Hln _ IH]; cbn [map Rsum]; [lra|].
  pose proof (line_term_pos T (fst ns) (Zint RNum U (snd ns) T 0) ln Hn HZ Hln). lra.
Qed.
Lemma species_emission_pos T ns : entry_ok T ns -> emission_lines (snd ns) <> [] ->
  0 < species_emission (k_b U) (species R) (fun s T => Zint RNum U s T 0) (@emission_lines R) T ns.
Proof.
  intros [Hn [HZ Hl]] Hne. unfold species_emission. destruct (emission_lines (snd ns)) as [|ln l]; [contradiction|].
  inversion Hl as [|x y Hx Hy]; subst. cbn [map Rsum].
  pose proof (line_term_pos T (fst ns) (Zint RNum U (snd ns) T 0) ln Hn HZ Hx).
  assert (0 <= Rsum (map (line_term (k_b U) T (fst ns) (Zint RNum U (snd ns) T 0)) l)).
  { clear -Hn HZ Hy. induction Hy as [|z l Hz _ IH]; cbn [map Rsum]; [lra|].
    pose proof (line_term_pos T (fst ns) (Zint RNum U (snd ns) T 0) z Hn HZ Hz). lra. }
  lra.
Qed.

Lemma emission_positive T (heavy : list (R * species R)) :
  0 < h_pl U -> 0 < c_light U ->
  Forall (entry_ok T) heavy -> Exists (fun ns => emission_lines (snd ns) <> []) heavy ->
  0 < spec T heavy.
Proof.
  intros Hh Hc Hall Hex. unfold emission_spec.
  apply Rmult_lt_0_compat.
  - apply Rdiv_lt_0_compat; [apply Rmult_lt_0_compat; assumption|]. pose proof PI_RGT_0. lra.
  - induction Hall as [|ns l Hns Hl IH]; [inversion Hex|]. cbn [map Rsum].
    assert (Hrest : 0 <= Rsum (map (species_emission (k_b U) (species R) (fun s T => Zint RNum U s T 0) (@emission_lines R) T) l)).
    { clear -Hl. induction Hl as [|z l Hz _ IHl]; cbn [map Rsum]; [lra|]. pose proof (species_emission_nonneg T z Hz). lra. }
    inversion Hex as [x y Hx|x y Hy]; subst.
    + pose proof (species_emission_pos T ns Hns Hx). lra.
    + pose proof (species_emission_nonneg T ns Hns). specialize (IH Hy). lra.
Qed.
End Emission.

(* ---- no charges, no electrical conductivity ---- *)
Lemma sigma_zero_without_charges (U : Units R) rho ntot T (masses nd : nat -> R) nb (De : nat -> R) :
  sigma_value RNum U rho ntot T masses nd (fun _ => 0) nb De = 0.
Proof.
  unfold sigma_value. rewrite sum_left_R. rnum.
  replace (Rsum (map (fun j => nd j * masses j * 0 * De j) (seq 0 nb))) with 0; [ring|].
  induction (seq 0 nb) as [|x l IH]; cbn [map Rsum]; [reflexivity | rewrite <- IH; ring].
Qed.


(* sigma = e^2 n / (rho kT) sum_j n_j m_j z_j D_ej: non-negative when no listed species moves against its charge sign,
   i.e. z_j D_ej >= 0 for every species (in particular: positive ions only and a non-negative electron row of D) *)
Lemma sigma_nonneg (U : Units R) rho ntot T (masses nd charges : nat -> R) nb (De : nat -> R) :
  0 < rho -> 0 <= ntot -> 0 < k_b U * T ->
  (forall j, (j < nb)%nat -> 0 <= nd j /\ 0 <= masses j /\ 0 <= charges j * De j) ->
  0 <= sigma_value RNum U rho ntot T masses nd charges nb De.
Proof.
  intros Hr Hn HkT Hj. unfold sigma_value, kTv. rewrite sum_left_R. rnum.
  apply Rmult_le_pos.
  - apply Rmult_le_pos; [apply Rmult_le_pos; [nra | exact Hn] | left; apply Rinv_0_lt_compat; nra].
  - apply C15_proofs.Rsum_nonneg. intros x Hx. apply in_map_iff in Hx. destruct Hx as [j [<- Hin]].
    apply in_seq in Hin. destruct (Hj j) as [H1 [H2 H3]]; [lia|].
    replace (nd j * masses j * charges j * De j) with ((nd j * masses j) * (charges j * De j)) by ring.
    apply Rmult_le_pos; [apply Rmult_le_pos; assumption | exact H3].
Qed.

(* ... and the hypothesis cannot be dropped: with a negative ion carried by a positive D_ej the formula is negative
   (witness: one heavy species of charge -1, unit density / mass / coefficient) *)
Lemma sigma_negative_with_anion (U : Units R) :
  e_ch U <> 0 -> 0 < k_b U ->
  exists (masses nd charges De : nat -> R),
    (forall j, 0 < nd j /\ 0 < masses j /\ 0 < De j) /\
    sigma_value RNum U 1 1 1 masses nd charges 1 De < 0.
Proof.
  intros He Hk. exists (fun _ => 1), (fun _ => 1), (fun _ => -1), (fun _ => 1). split; [intros; lra|].
  unfold sigma_value, kTv. rewrite sum_left_R. rnum. cbn [seq map Rsum].
  assert (0 < e_ch U ^ 2) by (assert (G := pow2_ge_0 (e_ch U)); assert (e_ch U ^ 2 <> 0) by (apply pow_nonzero; exact He); lra).
  replace (e_ch U ^ 2 * 1 / (1 * (k_b U * 1)) * (1 * 1 * -1 * 1 + 0)) with (- (e_ch U ^ 2 / k_b U)) by (field; lra).
  assert (0 < e_ch U ^ 2 / k_b U) by (apply Rdiv_lt_0_compat; assumption). lra.
Qed.

(* ---- single-component un-ionised gas: second-order Chapman-Enskog viscosity from the gas's own integrals ---- *)
Section SingleGas.
Variable U : Units R.
Variables (m n T : R) (Q11 Q12 Q13 Q22 Q23 Q24 Q33 : R).
Hypothesis Hm : 0 < m.
Hypothesis Hn : 0 < n.
Hypothesis HkT : 0 < k_b U * T.
Notation ms := (fun _ : nat => m).
Notation ns := (fun _ : nat => n).
Notation c1 q := (fun _ _ : nat => q).
Notation x := (sqrt m).
Notation w := (sqrt (m + m)).

Lemma x_pos : 0 < x. Proof. now apply sqrt_lt_R0. Qed.
Lemma w_pos : 0 < w. Proof. apply sqrt_lt_R0. lra. Qed.
Lemma w_sq : w * w = 2 * (x * x). Proof. rewrite !sqrt_sqrt by lra. lra. Qed.
Lemma x_sq : x * x = m. Proof. apply sqrt_sqrt. lra. Qed.

Ltac single_block :=
  cbv zeta; rnum; rewrite sum_left_R; cbn [seq map Rsum]; change (@delta R RNum) with dlt; unfold dlt; cbn [Nat.eqb];
  repeat first [ rewrite Rpower_h1 by lra | rewrite Rpower_h3 by lra | rewrite Rpower_h5 by lra | rewrite Rpower_h7 by lra ];
  let Hx := fresh "Hx" in let Hw := fresh "Hw" in let Ex := fresh "Ex" in
  pose proof x_pos as Hx; pose proof w_pos as Hw; pose proof x_sq as Ex;
  set (xx := sqrt m) in *; set (ww := sqrt (m + m)) in *; clearbody ww; rewrite <- Ex; clearbody xx; field; split; lra.

Lemma h00_single : qhat00 RNum (c1 Q11) (c1 Q22) ms 1 ns 0 0 = 32 * n ^ 2 * x ^ 3 * Q22 / w ^ 3.
Proof. unfold qhat00. single_block. Qed.
Lemma h01_single : qhat01 RNum (c1 Q11) (c1 Q12) (c1 Q22) (c1 Q23) ms 1 ns 0 0 = 16 * n ^ 2 * x ^ 5 * (7 * Q22 - 8 * Q23) / w ^ 5.
Proof. unfold qhat01. single_block. Qed.
Lemma h11_single :
  qhat11 RNum (c1 Q11) (c1 Q12) (c1 Q13) (c1 Q22) (c1 Q23) (c1 Q24) (c1 Q33) ms 1 ns 0 0 =
  16 * n ^ 2 * x ^ 7 * (301 / 6 * Q22 - 56 * Q23 + 40 * Q24) / w ^ 7.
Proof. unfold qhat11. single_block. Qed.

(* Chapman-Cowling's b elements in terms of the reduced integrals *)
Definition b11 := 8 * Q22.
Definition b12 := 14 * Q22 - 16 * Q23.
Definition b22 := 301 / 6 * Q22 - 56 * Q23 + 40 * Q24.

Theorem viscosity_single_species_textbook (b0 b1 : R) :
  Q22 <> 0 -> b11 * b22 - b12 ^ 2 <> 0 ->
  (* the two equations the code solves for one species (qhat10 = (m/m) qhat01) *)
  qhat00 RNum (c1 Q11) (c1 Q22) ms 1 ns 0 0 * b0 + qhat01 RNum (c1 Q11) (c1 Q12) (c1 Q22) (c1 Q23) ms 1 ns 0 0 * b1
    = visc_rhs0 RNum U T ms ns 0 ->
  m / m * qhat01 RNum (c1 Q11) (c1 Q12) (c1 Q22) (c1 Q23) ms 1 ns 0 0 * b0
    + qhat11 RNum (c1 Q11) (c1 Q12) (c1 Q13) (c1 Q22) (c1 Q23) (c1 Q24) (c1 Q33) ms 1 ns 0 0 * b1 = 0 ->
  visc_value RNum U T ns 1 (fun _ => b0) =
  5 / 16 * sqrt (PI * m * (k_b U * T)) / Q22 * (1 + b12 ^ 2 / (b11 * b22 - b12 ^ 2)).
Proof.
  intros HQ HD E1 E2. rewrite h00_single, h01_single in E1. rewrite h01_single, h11_single in E2.
  unfold visc_rhs0, kTv in E1. unfold visc_value, kTv. rewrite sum_left_R. cbn [seq map Rsum]. rnum.
  pose proof x_pos as Hx. pose proof w_pos as Hw. pose proof w_sq as Ew.
  set (kT := k_b U * T) in *.
  set (r2 := sqrt 2). assert (Hr2 : 0 < r2) by (apply sqrt_lt_R0; lra). assert (Er2 : r2 * r2 = 2) by (apply sqrt_sqrt; lra).
  assert (Ewx : w = r2 * x) by (unfold r2; rewrite <- sqrt_mult by lra; f_equal; lra).
  set (g := sqrt (PI * m * kT)).
  assert (HPI := PI_RGT_0).
  assert (Hpm : 0 < PI * m * kT) by (apply Rmult_lt_0_compat; [apply Rmult_lt_0_compat|]; assumption).
  assert (Hg : 0 < g) by (apply sqrt_lt_R0; assumption).
  assert (Er : sqrt (2 * PI * m / kT) = r2 * g / kT).
  { unfold r2, g. rewrite <- sqrt_mult by lra.
    replace (2 * PI * m / kT) with ((2 * (PI * m * kT)) / (kT * kT)) by (field; lra).
    rewrite sqrt_div_alt by (apply Rmult_lt_0_compat; assumption). rewrite sqrt_square by lra. reflexivity. }
  rewrite Er in E1. rewrite Ewx in E1, E2. clear Ewx Ew Hw Er.
  assert (Emm : m / m = 1) by (field; lra). rewrite Emm in E2. clear Emm.
  set (xx := x) in *. clearbody xx g r2. unfold b11, b12, b22 in *.
  set (B22 := 301 / 6 * Q22 - 56 * Q23 + 40 * Q24) in *. set (D := 8 * Q22 * B22 - (14 * Q22 - 16 * Q23) ^ 2) in *.
  (* h_pq = (2 n^2 / r2) b_pq once w = r2 x and r2^2 = 2 *)
  assert (F1 : 8 * Q22 * b0 + (14 * Q22 - 16 * Q23) * b1 = 5 * r2 * r2 * g / (2 * n * kT)).
  { apply Rmult_eq_reg_l with (r := 2 * n ^ 2 / r2); [|apply Rgt_not_eq, Rdiv_lt_0_compat; [nra | lra]].
    transitivity (5 * n * (r2 * g / kT)); [|field; lra]. rewrite <- E1.
    replace ((r2 * xx) ^ 3) with (2 * r2 * xx ^ 3) by (ring_simplify; replace (r2 ^ 3) with (r2 * r2 * r2) by ring; rewrite Er2; ring).
    replace ((r2 * xx) ^ 5) with (4 * r2 * xx ^ 5) by (replace ((r2 * xx) ^ 5) with ((r2 * r2) * (r2 * r2) * r2 * xx ^ 5) by ring; rewrite Er2; ring).
    field. lra. }
  assert (F2 : (14 * Q22 - 16 * Q23) * b0 + B22 * b1 = 0).
  { apply Rmult_eq_reg_l with (r := 2 * n ^ 2 / r2); [|apply Rgt_not_eq, Rdiv_lt_0_compat; [nra | lra]].
    rewrite Rmult_0_r. rewrite <- E2.
    replace ((r2 * xx) ^ 5) with (4 * r2 * xx ^ 5) by (replace ((r2 * xx) ^ 5) with ((r2 * r2) * (r2 * r2) * r2 * xx ^ 5) by ring; rewrite Er2; ring).
    replace ((r2 * xx) ^ 7) with (8 * r2 * xx ^ 7) by (replace ((r2 * xx) ^ 7) with ((r2 * r2) * (r2 * r2) * (r2 * r2) * r2 * xx ^ 7) by ring; rewrite Er2; ring).
    field. lra. }
  (* eliminate b1 *)
  assert (F3 : D * b0 = B22 * (5 * r2 * r2 * g / (2 * n * kT))).
  { rewrite <- F1. unfold D. replace (B22 * (8 * Q22 * b0 + (14 * Q22 - 16 * Q23) * b1))
      with (8 * Q22 * B22 * b0 + (14 * Q22 - 16 * Q23) * (B22 * b1)) by ring.
    replace (B22 * b1) with (- ((14 * Q22 - 16 * Q23) * b0)) by lra. ring. }
  assert (Hb0 : b0 = B22 * (5 * r2 * r2 * g / (2 * n * kT)) / D) by (rewrite <- F3; field; exact HD).
  rewrite Hb0. rewrite Rmult_assoc in *. 
  replace (5 * r2 * r2 * g) with (10 * g) by (replace (5 * r2 * r2 * g) with (5 * (r2 * r2) * g) by ring; rewrite Er2; ring).
  assert (ED : (14 * Q22 - 16 * Q23) ^ 2 = 8 * Q22 * B22 - D) by (unfold D; ring).
  rewrite ED. clearbody D. field. repeat split; try lra; assumption.
Qed.

(* ... and it is strictly positive as soon as the (2,2) integral is positive and the 2x2 Sonine determinant is positive *)
Corollary viscosity_single_species_positive (b0 b1 : R) :
  0 < Q22 -> 0 < b11 * b22 - b12 ^ 2 ->
  qhat00 RNum (c1 Q11) (c1 Q22) ms 1 ns 0 0 * b0 + qhat01 RNum (c1 Q11) (c1 Q12) (c1 Q22) (c1 Q23) ms 1 ns 0 0 * b1
    = visc_rhs0 RNum U T ms ns 0 ->
  m / m * qhat01 RNum (c1 Q11) (c1 Q12) (c1 Q22) (c1 Q23) ms 1 ns 0 0 * b0
    + qhat11 RNum (c1 Q11) (c1 Q12) (c1 Q13) (c1 Q22) (c1 Q23) (c1 Q24) (c1 Q33) ms 1 ns 0 0 * b1 = 0 ->
  0 < visc_value RNum U T ns 1 (fun _ => b0).
Proof.
  intros HQ HD E1 E2. rewrite (viscosity_single_species_textbook b0 b1) by (try assumption; lra).
  apply Rmult_lt_0_compat.
  - apply Rdiv_lt_0_compat; [|exact HQ]. apply Rmult_lt_0_compat; [lra|]. apply sqrt_lt_R0.
    apply Rmult_lt_0_compat; [apply Rmult_lt_0_compat; [apply PI_RGT_0 | exact Hm] | exact HkT].
  - assert (0 <= b12 ^ 2 / (b11 * b22 - b12 ^ 2)).
    { apply Rmult_le_pos; [apply pow2_ge_0 | left; apply Rinv_0_lt_compat; exact HD]. }
    lra.
Qed.
End SingleGas.

(* ---- total thermal conductivity: what the assembly adds to the translational part ---- *)
Lemma idx_sum_R nb f : idx_sum RNum nb f = Rsum (map f (seq 0 nb)).
Proof. unfold idx_sum. apply sum_left_R. Qed.

Lemma Rsum_map_zero {B} (l : list B) f : (forall x, f x = 0) -> Rsum (map f l) = 0.
Proof. intros H. induction l as [|x l IH]; cbn [map Rsum]; [reflexivity | rewrite H, IH; ring]. Qed.

(* a composition that does not change with temperature (dx/dT = 0): the reaction parts vanish,
   k = k' + sum_i hv_i D^T_i / T with the thermal-diffusion terms, k = k' without them *)
Lemma kappa_frozen (U : Units R) dt rho ntot T lim (masses nd hv DT : nat -> R) (D : nat -> nat -> R) nb kdash :
  kappa_total RNum U dt rho ntot T lim masses nd hv DT (fun _ => 0) D nb kdash =
  kdash + (if dt then Rsum (map (fun i => hv i * DT i / T) (seq 0 nb)) else 0).
Proof.
  unfold kappa_total, kdt_value, krxn_enth_value, krxn_therm_value. rewrite !idx_sum_R. rnum.
  assert (E1 : Rsum (map (fun j => idx_sum RNum nb (fun i => masses j * masses i * hv i * D i j * 0)) (seq 0 nb)) = 0).
  { apply Rsum_map_zero. intros j. rewrite idx_sum_R. apply Rsum_map_zero. intros i. ring. }
  assert (E2 : Rsum (map (fun i => DT i * (if Rltb (nd i) lim then 0 else 0) / (nd i * masses i)) (seq 0 nb)) = 0).
  { apply Rsum_map_zero. intros i. destruct (Rltb (nd i) lim); unfold Rdiv; ring. }
  rewrite E1, E2. destruct dt; unfold Rdiv; ring.
Qed.

(* positivity of the total does NOT follow from positivity of the translational part: with the thermal-diffusion
   terms, a frozen two-species mixture whose thermal-diffusion coefficients sum to zero (C12) and whose species
   enthalpies differ gives a negative total (witness below); without those terms the frozen total is k' itself *)
Lemma kappa_negative_possible (U : Units R) :
  exists (masses nd hv DT : nat -> R) (D : nat -> nat -> R) (kdash : R),
    0 < kdash /\ (forall i, 0 < masses i /\ 0 < nd i) /\ DT 0%nat + DT 1%nat = 0 /\
    kappa_total RNum U true 1 1 1 0 masses nd hv DT (fun _ => 0) D 2 kdash < 0 /\
    kappa_total RNum U false 1 1 1 0 masses nd hv DT (fun _ => 0) D 2 kdash = kdash.
Proof.
  exists (fun _ => 1), (fun _ => 1), (fun i => match i with O => -2 | _ => 0 end),
         (fun i => match i with O => 1 | _ => -1 end), (fun _ _ => 0), 1.
  split; [lra|]. split; [intros; lra|]. split; [lra|]. rewrite !kappa_frozen. cbn [seq map Rsum]. split; lra.
Qed.
