(* Lemmas behind thm/C09.v: density, species enthalpy and mixture enthalpy kernels (regenerated from mixture.py)
   equal the documented formulae. *)
From Coq Require Import Reals List Lra ZArith Lia.
Import ListNotations.
From MPC Require Import Num Species RInst StatMech RVec GenSpecies GenMixture.
Open Scope R_scope.

Section C09.
Variable U : Units R.
Notation kB := (k_b U).
Notation NA := (N_a U).

(* one entry per species: (species, (number density, (reference energy, lowering))) *)
Definition entry := (species R * (R * (R * R)))%type.
Definition e_sp (e : entry) := fst e.
Definition e_n (e : entry) := fst (snd e).
Definition e_E0 (e : entry) := fst (snd (snd e)).
Definition e_dE (e : entry) := snd (snd (snd e)).

(* documented formulae *)
Definition density_spec (l : list entry) : R := Rsum (map (fun e => e_n e * molar_mass (e_sp e)) l) / NA.
(* enthalpy per particle: internal energy + reference energy + kT *)
Definition h_particle (T : R) (e : entry) : R := Uint RNum U (e_sp e) T (e_dE e) + e_E0 e + kB * T.
(* enthalpy per unit mass of species i: per-particle enthalpy divided by the particle mass M / N_A *)
Definition H_mass (T : R) (e : entry) : R := h_particle T e / (molar_mass (e_sp e) / NA).

Lemma density_eq_spec (l : list entry) :
  density RNum U (map e_sp l) (map e_n l) = density_spec l.
Proof.
  unfold density, density_spec. cbv zeta. rnum. rewrite sum_list_Rsum. f_equal.
  (* robust against commuting the product in the source: termwise by ring, not by syntactic identity *)
  induction l as [|e l IH]; [reflexivity|]. cbn [map combine Rsum]. rewrite IH. cbn [e_n e_sp fst snd]. ring.
Qed.

Lemma species_enthalpies_eq_spec (T : R) (l : list entry) :
  species_enthalpies RNum U T (map e_sp l) (map e_n l) (map e_E0 l) (map e_dE l) = map (H_mass T) l.
Proof.
  unfold species_enthalpies. cbv zeta.
  induction l as [|e l IH]; [reflexivity|]. cbn [map combine map2]. rewrite IH. f_equal.
Qed.

Lemma map2_mul_masses (T : R) (l : list entry) :
  Forall (fun e => molar_mass (e_sp e) <> 0) l -> NA <> 0 ->
  map2 Rmult (map (H_mass T) l) (map (fun sp => molar_mass sp / NA) (map e_sp l)) = map (h_particle T) l.
Proof.
  intros HM HN. induction HM as [|e l He _ IH]; [reflexivity|]. cbn [map map2]. rewrite IH. f_equal.
  unfold H_mass. field. split; assumption.
Qed.

(* the reference shift used by the mixture enthalpy: N_A * E0_min / M_min at the first species of minimal E0 *)
Definition shift (l : list entry) : R :=
  let i := argmin RNum (map e_E0 l) in
  NA * (nth i (map e_E0 l) 0 / molar_mass (nth i (map e_sp l) (dummy_species 0))).

Lemma weighted_sum (c : R) (ns hs Ms : list R) :
  List.length ns = List.length hs -> List.length hs = List.length Ms ->
  Rsum (map (fun t => let '(n, (h, M)) := t in n * (h - c * M)) (combine ns (combine hs Ms)))
  = Rsum (map2 Rmult ns hs) - c * Rsum (map2 Rmult ns Ms).
Proof.
  revert hs Ms. induction ns as [|n ns IH]; intros [|h hs] [|M Ms] H1 H2; cbn in *; try discriminate; try lra.
  rewrite IH by (now injection H1 + now injection H2). lra.
Qed.

Lemma map2_map {B} (f g : B -> R) (l : list B) : map2 Rmult (map f l) (map g l) = map (fun x => f x * g x) l.
Proof. induction l as [|x l IH]; [reflexivity|]. cbn [map map2]. now rewrite IH. Qed.

(* mixture enthalpy = sum_i n_i h_i / rho  -  N_A E0_min / M_min *)
Lemma enthalpy_eq_spec (T : R) (l : list entry) :
  Forall (fun e => molar_mass (e_sp e) <> 0) l -> NA <> 0 -> density_spec l <> 0 ->
  enthalpy RNum U T (map e_sp l) (map e_n l) (map e_E0 l) (map e_dE l) =
  Rsum (map (fun e => e_n e * h_particle T e) l) / density_spec l - shift l.
Proof.
  intros HM HN Hrho. unfold enthalpy. cbv zeta.
  rewrite density_eq_spec, species_enthalpies_eq_spec. rnum. rewrite sum_list_Rsum.
  change (map2 (nmul RNum)) with (map2 Rmult). rewrite map2_mul_masses by assumption.
  rewrite weighted_sum by (now rewrite !map_length).
  rewrite !map2_map, (map_map e_sp), map2_map. unfold shift. cbv zeta.
  set (i := argmin RNum (map e_E0 l)).
  set (c := nth i (map e_E0 l) 0 / molar_mass (nth i (map e_sp l) (dummy_species 0))).
  assert (E : Rsum (map (fun x => e_n x * molar_mass (e_sp x)) l) = density_spec l * NA)
    by (unfold density_spec; field; assumption).
  rewrite E. field. assumption.
Qed.

(* enthalpy DIFFERENCES between two states of the same species set with the same shift are those of the
   independent formula sum n_i h_i / rho *)
Lemma enthalpy_difference (T1 T2 : R) (l1 l2 : list entry) :
  Forall (fun e => molar_mass (e_sp e) <> 0) l1 -> Forall (fun e => molar_mass (e_sp e) <> 0) l2 ->
  NA <> 0 -> density_spec l1 <> 0 -> density_spec l2 <> 0 -> shift l1 = shift l2 ->
  enthalpy RNum U T2 (map e_sp l2) (map e_n l2) (map e_E0 l2) (map e_dE l2)
  - enthalpy RNum U T1 (map e_sp l1) (map e_n l1) (map e_E0 l1) (map e_dE l1)
  = Rsum (map (fun e => e_n e * h_particle T2 e) l2) / density_spec l2
  - Rsum (map (fun e => e_n e * h_particle T1 e) l1) / density_spec l1.
Proof. intros. rewrite !enthalpy_eq_spec by assumption. lra. Qed.
End C09.

(* ---- reference energies: the recursion the (hand-written, correspondence-tied) model implements ---- *)
From MPC Require Import RefEnergy.
Section RefE.
Variable U : Units R.

(* neutral species: 0 for atoms, -D for molecules *)
Lemma E0_neutral fuel l (spd : species R * R) :
  charge_number (fst spd) = 0%Z ->
  E0_of RNum fuel l spd = if Nat.leb 2 (atoms (fst spd)) then - dissociation_energy (fst spd) else 0.
Proof.
  intros Hz. destruct fuel as [|fuel]; cbn [E0_of]; [reflexivity|].
  destruct (negb (has_neutral l (fst spd))); [reflexivity|]. rewrite Hz. cbn [Z.ltb Z.compare]. reflexivity.
Qed.

(* a positive ion whose neutral parent is listed: previous listed stage + its ionisation energy - its lowering *)
Lemma E0_positive_step fuel l (spd p : species R * R) :
  (0 < charge_number (fst spd))%Z -> has_neutral l (fst spd) = true -> pred_pos l (fst spd) = Some p ->
  E0_of RNum (S fuel) l spd = E0_of RNum fuel l p + ionisation_energy (fst p) - snd p.
Proof.
  intros Hz Hn Hp. cbn [E0_of]. rewrite Hn. cbn [negb]. apply Z.ltb_lt in Hz. rewrite Hz, Hp. reflexivity.
Qed.

(* a negative ion: next listed stage towards neutral - its own ionisation energy (electron affinity) + its own lowering *)
Lemma E0_negative_step fuel l (spd p : species R * R) :
  (charge_number (fst spd) < 0)%Z -> has_neutral l (fst spd) = true -> pred_neg l (fst spd) = Some p ->
  E0_of RNum (S fuel) l spd = E0_of RNum fuel l p - ionisation_energy (fst spd) + snd spd.
Proof.
  intros Hz Hn Hp. cbn [E0_of]. rewrite Hn. cbn [negb].
  assert (H0 : Z.ltb 0 (charge_number (fst spd)) = false) by (apply Z.ltb_ge; lia).
  apply Z.ltb_lt in Hz. rewrite H0, Hz, Hp. reflexivity.
Qed.
End RefE.

(* ---- heat capacity: `heat_capacity` is regenerated from LTE.calculate_heat_capacity (enthalpy oracle H) ---- *)
Section HeatCapacity.
(* the documented centred difference: (H(T(1+d)) - H(T(1-d))) / (2 d T) *)
Definition heat_capacity_spec (H : R -> R) (T d : R) : R := (H (T * (1 + d)) - H (T * (1 - d))) / (2 * d * T).

Lemma heat_capacity_eq_spec (H : R -> R) (T d : R) :
  heat_capacity RNum H T d = heat_capacity_spec H T d.
Proof.
  unfold heat_capacity, heat_capacity_spec. cbv zeta. rnum.
  f_equal; try ring.
Qed.

Lemma heat_capacity_default_delta_value : heat_capacity_default_delta RNum = 1 / 1000.
Proof. unfold heat_capacity_default_delta. rnum. reflexivity. Qed.

(* exact on enthalpies that are quadratic in T: the centred difference is the derivative *)
Lemma heat_capacity_quadratic (a b c T d : R) : T <> 0 -> d <> 0 ->
  heat_capacity RNum (fun x => a * x * x + b * x + c) T d = 2 * a * T + b.
Proof. intros HT Hd. rewrite heat_capacity_eq_spec. unfold heat_capacity_spec. field. split; assumption. Qed.

(* positive exactly when the enthalpy at the upper perturbed temperature exceeds the one at the lower *)
Lemma heat_capacity_pos_iff (H : R -> R) (T d : R) : 0 < T -> 0 < d ->
  (0 < heat_capacity RNum H T d <-> H (T * (1 - d)) < H (T * (1 + d))).
Proof.
  intros HT Hd. rewrite heat_capacity_eq_spec. unfold heat_capacity_spec.
  assert (Hp : 0 < 2 * d * T) by (apply Rmult_lt_0_compat; [lra | assumption]).
  split; intros Hx.
  - set (D := H (T * (1 + d)) - H (T * (1 - d))) in *.
    assert (HD : D = D / (2 * d * T) * (2 * d * T)) by (field; lra).
    assert (0 < D); [|unfold D in *; lra].
    rewrite HD. apply Rmult_lt_0_compat; assumption.
  - apply Rdiv_lt_0_compat; lra.
Qed.

Lemma heat_capacity_pos_of_increasing (H : R -> R) (T d : R) : 0 < T -> 0 < d ->
  (forall x y, x < y -> H x < H y) -> 0 < heat_capacity RNum H T d.
Proof.
  intros HT Hd Hinc. apply heat_capacity_pos_iff; try assumption. apply Hinc.
  apply Rmult_lt_compat_l; lra.
Qed.

(* mean-value form: for a differentiable enthalpy the centred difference is the derivative at an intermediate temperature *)
Lemma heat_capacity_mean_value (H H' : R -> R) (T d : R) : 0 < T -> 0 < d ->
  (forall x, T * (1 - d) <= x <= T * (1 + d) -> derivable_pt_lim H x (H' x)) ->
  exists xi, T * (1 - d) < xi < T * (1 + d) /\ heat_capacity RNum H T d = H' xi.
Proof.
  intros HT Hd Hder. rewrite heat_capacity_eq_spec. unfold heat_capacity_spec.
  assert (Hlt : T * (1 - d) < T * (1 + d)) by (apply Rmult_lt_compat_l; lra).
  destruct (MVT_cor2 H H' _ _ Hlt Hder) as [xi [Hxi Hin]].
  exists xi. split; [exact Hin|]. rewrite Hxi. field. split; lra.
Qed.
End HeatCapacity.
