From Coq Require Import List Bool Arith.
Import ListNotations.
From MPC Require Import Cache GenEffects.

(* invariant between calls: a set flag means both caches were computed at the current inputs *)
Definition inv_b (h : hs) : bool := implb (hvalid h) (hn h && he h).
Definition all_hs : list hs :=
  [mkHs false false false; mkHs false false true; mkHs false true false; mkHs false true true;
   mkHs true false false; mkHs true false true; mkHs true true false; mkHs true true true].

Lemma all_hs_complete h : In h all_hs.
Proof. destruct h as [[|] [|] [|]]; cbn; tauto. Qed.

Definition out_ok (o : outcome) : bool := o_clean o && o_inputs_preserved o.

Definition method_ok (m : nat) (dt : bool) (h : hs) : bool :=
  match hstep body h (Calc m dt) with
  | Some (h', Some o) => out_ok o && inv_b h'
  | _ => false
  end.

(* every public method, for both values of the boolean parameter, from every state satisfying the invariant:
   terminates within the fuel, reads only current caches, restores T, and re-establishes the invariant *)
Definition check_all : bool :=
  forallb (fun m => forallb (fun dt => forallb (fun h => implb (inv_b h) (method_ok m dt h)) all_hs) [true; false])
          public_methods.

Lemma check_all_true : check_all = true.
Proof. vm_compute. reflexivity. Qed.

(* lifted case by case so that every leaf is a closed computation checked by the VM *)
Lemma method_ok_of_check m dt h : In m public_methods -> inv_b h = true -> method_ok m dt h = true.
Proof.
  intros Hm Hi. unfold public_methods in Hm. cbn [In] in Hm.
  destruct h as [[|] [|] [|]]; try discriminate Hi; destruct dt;
    repeat (destruct Hm as [<-|Hm]; [vm_compute; reflexivity|]); contradiction.
Qed.

Definition public_op (o : op) : Prop := match o with Calc m _ => In m public_methods | _ => True end.

Lemma method_ok_spec m dt h :
  method_ok m dt h = true ->
  exists h' o, hstep body h (Calc m dt) = Some (h', Some o) /\ out_ok o = true /\ inv_b h' = true.
Proof.
  unfold method_ok. destruct (hstep body h (Calc m dt)) as [[h' [o|]]|]; try discriminate.
  intros H. apply andb_true_iff in H. destruct H as [H1 H2]. exists h', o. repeat split; assumption.
Qed.

Lemma hrun_cons h o r :
  hrun body h (o :: r) =
  match hstep body h o with
  | None => None
  | Some (h', out) =>
    match hrun body h' r with
    | None => None
    | Some (h'', outs) => Some (h'', match out with Some x => x :: outs | None => outs end)
    end
  end.
Proof. reflexivity. Qed.

Lemma hstep_set h o : (o = SetT \/ o = SetP \/ o = SetX0) -> hstep body h o = Some (mkHs false false false, None).
Proof. intros [->|[->| ->]]; reflexivity. Qed.

Definition n_calcs (ops : list op) : nat :=
  List.length (filter (fun o => match o with Calc _ _ => true | _ => false end) ops).

Lemma history_purity_from h ops :
  inv_b h = true -> Forall public_op ops ->
  exists h' outs, hrun body h ops = Some (h', outs) /\ inv_b h' = true /\ Forall (fun o => out_ok o = true) outs
                  /\ List.length outs = n_calcs ops.
Proof.
  intros Hi Hops. revert h Hi. induction Hops as [|o ops Ho _ IH]; intros h Hi.
  - exists h, []. split; [reflexivity|]. split; [exact Hi|]. split; [constructor | reflexivity].
  - rewrite hrun_cons.
    assert (Hcase : (o = SetT \/ o = SetP \/ o = SetX0) \/ exists m dt, o = Calc m dt)
      by (destruct o; [left; tauto | left; tauto | left; tauto | right; eauto]).
    destruct Hcase as [Hset | [m [dt ->]]].
    + rewrite (hstep_set h o Hset).
      destruct (IH (mkHs false false false) eq_refl) as [h' [outs [Hr [Hi' [Hf Hn]]]]].
      exists h', outs. rewrite Hr. split; [reflexivity|]. split; [assumption|]. split; [assumption|].
      rewrite Hn. destruct Hset as [->|[->| ->]]; reflexivity.
    + destruct (method_ok_spec m dt h (method_ok_of_check m dt h Ho Hi)) as [h1 [o1 [Hs [Ho1 Hi1]]]].
      rewrite Hs. destruct (IH h1 Hi1) as [h' [outs [Hr [Hi' [Hf Hn]]]]].
      exists h', (o1 :: outs). rewrite Hr. split; [reflexivity|]. split; [exact Hi'|]. split; [constructor; assumption|].
      cbn [List.length]. rewrite Hn. reflexivity.
Qed.

Theorem history_purity ops :
  Forall public_op ops ->
  exists h' outs, hrun body h_init ops = Some (h', outs) /\ Forall (fun o => out_ok o = true) outs
                  /\ List.length outs = n_calcs ops.
Proof.
  intros H. destruct (history_purity_from h_init ops eq_refl H) as [h' [outs [Hr [_ [Hf Hn]]]]]. now exists h', outs.
Qed.

(* two mixtures (possibly sharing species objects): operations on one leave the other's model state untouched.
   This holds by construction of the model; its content for the code is the generator's syntactic check that no
   summarised function writes shared state (flag below), plus the correspondence check on shared species. *)
Inductive who := A | B.
Definition step2 (s : option (hs * hs)) (wo : who * op) : option (hs * hs) :=
  match s with
  | None => None
  | Some (a, b) =>
    match wo with
    | (A, o) => match hstep body a o with Some (a', _) => Some (a', b) | None => None end
    | (B, o) => match hstep body b o with Some (b', _) => Some (a, b') | None => None end
    end
  end.
Fixpoint state_after (h : hs) (ops : list op) : option hs :=
  match ops with
  | [] => Some h
  | o :: r => match hstep body h o with Some (h', _) => state_after h' r | None => None end
  end.
Definition only (w : who) (l : list (who * op)) : list op :=
  map snd (filter (fun wo => match fst wo, w with A, A | B, B => true | _, _ => false end) l).

Lemma no_cross_talk l a b :
  fold_left step2 l (Some (a, b)) =
  match state_after a (only A l), state_after b (only B l) with
  | Some a', Some b' => Some (a', b')
  | _, _ => None
  end
  \/ fold_left step2 l (Some (a, b)) = None.
Proof.
  revert a b. induction l as [|[w o] l IH]; intros a b.
  - left. reflexivity.
  - cbn [fold_left step2]. destruct w.
    + destruct (hstep body a o) as [[a' out]|] eqn:Hs.
      * destruct (IH a' b) as [H|H]; [left|right; exact H].
        rewrite H. unfold only. cbn [filter fst map snd state_after]. rewrite Hs. reflexivity.
      * right. clear. induction l as [|x l IHl]; [reflexivity | exact IHl].
    + destruct (hstep body b o) as [[b' out]|] eqn:Hs.
      * destruct (IH a b') as [H|H]; [left|right; exact H].
        rewrite H. unfold only. cbn [filter fst map snd state_after]. rewrite Hs. reflexivity.
      * right. clear. induction l as [|x l IHl]; [reflexivity | exact IHl].
Qed.
