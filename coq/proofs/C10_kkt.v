(* C10, continued: for the ideal mixture a stationary point of the solver (chemical potentials in the column space of
   the constraint matrix, C01) is a GLOBAL minimiser of the Gibbs function over the feasible set (Gibbs' inequality),
   so the pressure response of C10_proofs applies to the solver's fixed points themselves. *)
From Coq Require Import Reals List Lra Lia Arith ZArith.
Import ListNotations.
From MPC Require Import Num Species RInst StatMech RVec RSumIdx GenSpecies GenMixture RefEnergy Gibbs
                        C07_proofs C01_proofs C02_proofs C09_proofs C15_proofs C10_proofs.
Open Scope R_scope.

Lemma ln_upper t : 0 < t -> ln t <= t - 1.
Proof.
  intros Ht. assert (G := exp_ineq1_le (ln t)). rewrite exp_ln in G by assumption. lra.
Qed.

Lemma ln_lower t : 0 < t -> 1 - / t <= ln t.
Proof.
  intros Ht. assert (G := ln_upper (/ t) (Rinv_0_lt_compat _ Ht)). rewrite ln_Rinv in G by assumption. lra.
Qed.

(* one term of Gibbs' inequality *)
Lemma kl_term n n' S S' : 0 < n -> 0 < n' -> 0 < S -> 0 < S' ->
  n' - n * (S' / S) <= n' * ln ((n' / S') / (n / S)).
Proof.
  intros Hn Hn' HS HS'.
  assert (Ht : 0 < (n' / S') / (n / S)) by (apply Rdiv_lt_0_compat; apply Rdiv_lt_0_compat; assumption).
  assert (G := ln_lower _ Ht).
  assert (E : n' * (1 - / ((n' / S') / (n / S))) = n' - n * (S' / S)) by (field; repeat split; lra).
  rewrite <- E. apply Rmult_le_compat_l; lra.
Qed.

Section KKT.
Variable U : Units R.
Notation kB := (k_b U).

Definition same_data (p : entry * entry) : Prop :=
  e_sp (fst p) = e_sp (snd p) /\ e_E0 (fst p) = e_E0 (snd p) /\ e_dE (fst p) = e_dE (snd p).
Definition pair_pos (T : R) (p : entry * entry) : Prop := entry_pos U T (fst p) /\ entry_pos U T (snd p).
Definition mu_at (T V : R) (e : entry) : R := mu_entry RNum U T V (e_sp e) (e_n e) (e_E0 e) (e_dE e).

(* per species: n' mu'(n') - n mu(n) - mu(n) (n' - n) = kT n' ln( x' / x ) *)
Lemma first_order_term T P S S' (p : entry * entry) :
  0 < kB * T -> 0 < P -> 0 < S -> 0 < S' -> same_data p -> pair_pos T p ->
  e_n (snd p) * mu_at T (S' * (kB * T) / P) (snd p) - e_n (fst p) * mu_at T (S * (kB * T) / P) (fst p)
  - mu_at T (S * (kB * T) / P) (fst p) * (e_n (snd p) - e_n (fst p))
  = kB * T * (e_n (snd p) * ln ((e_n (snd p) / S') / (e_n (fst p) / S))).
Proof.
  intros HkT HP HS HS' [D1 [D2 D3]] [[Hn Hq] [Hn' Hq']]. unfold mu_at. rewrite <- D1, <- D2, <- D3 in *.
  assert (HV : 0 < S * (kB * T) / P) by (apply Rdiv_lt_0_compat; [apply Rmult_lt_0_compat|]; assumption).
  assert (HV' : 0 < S' * (kB * T) / P) by (apply Rdiv_lt_0_compat; [apply Rmult_lt_0_compat|]; assumption).
  rewrite !(mu_log_form U) by assumption.
  set (kt := kB * T) in *. clearbody kt.
  set (n := e_n (fst p)) in *. set (n' := e_n (snd p)) in *. clearbody n n'.
  set (lq := ln (translational_Z RNum U (e_sp (fst p)) T * Zint RNum U (e_sp (fst p)) T (e_dE (fst p)))). clearbody lq.
  assert (E : ln ((n' / S') / (n / S)) = ln (n' / (S' * kt / P)) - ln (n / (S * kt / P))).
  { assert (A1 : 0 < n' / (S' * kt / P)) by (apply Rdiv_lt_0_compat; assumption).
    assert (A2 : 0 < n / (S * kt / P)) by (apply Rdiv_lt_0_compat; assumption).
    replace ((n' / S') / (n / S)) with ((n' / (S' * kt / P)) * / (n / (S * kt / P))) by (field; repeat split; lra).
    rewrite ln_mult by (try assumption; apply Rinv_0_lt_compat; assumption). rewrite ln_Rinv by assumption. ring. }
  rewrite E. ring.
Qed.

Definition G_at (T V : R) (l : list entry) : R := Rsum (map (fun e => e_n e * mu_at T V e) l).

Lemma Gibbs_fn_G_at T P l : Gibbs_fn U T P l = G_at T (Ntot l * (kB * T) / P) l.
Proof. unfold Gibbs_fn, G_at, mu_at, Ntot. rewrite volume_R. reflexivity. Qed.

(* G(N') - G(N) - grad G(N) . (N' - N) = kT sum N'_i ln(x'_i / x_i)   (Euler: G = sum N_i mu_i) *)
Lemma first_order_gap T P S S' (ps : list (entry * entry)) :
  0 < kB * T -> 0 < P -> 0 < S -> 0 < S' -> Forall same_data ps -> Forall (pair_pos T) ps ->
  G_at T (S' * (kB * T) / P) (map snd ps) - G_at T (S * (kB * T) / P) (map fst ps)
  - Rsum (map (fun p => mu_at T (S * (kB * T) / P) (fst p) * (e_n (snd p) - e_n (fst p))) ps)
  = kB * T * Rsum (map (fun p => e_n (snd p) * ln ((e_n (snd p) / S') / (e_n (fst p) / S))) ps).
Proof.
  intros HkT HP HS HS' HD Hpos. unfold G_at.
  induction HD as [|p ps Hd _ IH]; cbn [map Rsum]; [ring|].
  inversion Hpos as [|? ? Hp Hps]; subst. specialize (IH Hps).
  assert (G := first_order_term T P S S' p HkT HP HS HS' Hd Hp). lra.
Qed.

(* Gibbs' inequality: sum N'_i ln(x'_i / x_i) >= 0 *)
Lemma gibbs_inequality (ps : list (entry * entry)) :
  ps <> [] -> Forall (fun p => 0 < e_n (fst p) /\ 0 < e_n (snd p)) ps ->
  0 <= Rsum (map (fun p => e_n (snd p) * ln ((e_n (snd p) / Ntot (map snd ps)) / (e_n (fst p) / Ntot (map fst ps)))) ps).
Proof.
  intros Hne Hpos.
  assert (HS : 0 < Ntot (map fst ps)).
  { unfold Ntot. apply Forall_pos_sum; [destruct ps; [congruence | discriminate]|].
    apply Forall_forall. intros x Hx. apply in_map_iff in Hx. destruct Hx as [e [<- He]]. apply in_map_iff in He. destruct He as [p [<- Hp]].
    rewrite Forall_forall in Hpos. apply (Hpos p Hp). }
  assert (HS' : 0 < Ntot (map snd ps)).
  { unfold Ntot. apply Forall_pos_sum; [destruct ps; [congruence | discriminate]|].
    apply Forall_forall. intros x Hx. apply in_map_iff in Hx. destruct Hx as [e [<- He]]. apply in_map_iff in He. destruct He as [p [<- Hp]].
    rewrite Forall_forall in Hpos. apply (Hpos p Hp). }
  set (S := Ntot (map fst ps)) in *. set (S' := Ntot (map snd ps)) in *.
  assert (L : Rsum (map (fun p => e_n (snd p) - e_n (fst p) * (S' / S)) ps)
              <= Rsum (map (fun p => e_n (snd p) * ln ((e_n (snd p) / S') / (e_n (fst p) / S))) ps)).
  { clearbody S S'. clear Hne. induction Hpos as [|p ps [H1 H2] _ IH]; cbn [map Rsum]; [lra|].
    assert (G := kl_term (e_n (fst p)) (e_n (snd p)) S S' H1 H2 HS HS'). lra. }
  assert (E : forall c, Rsum (map (fun p : entry * entry => e_n (snd p) - e_n (fst p) * c) ps)
                        = Rsum (map e_n (map snd ps)) - Rsum (map e_n (map fst ps)) * c).
  { intros c. clear. induction ps as [|p ps IH]; cbn [map Rsum]; [ring | rewrite IH; ring]. }
  rewrite E in L. fold (Ntot (map snd ps)) in L. fold (Ntot (map fst ps)) in L. fold S S' in L.
  replace (S' - S * (S' / S)) with 0 in L by (field; lra). exact L.
Qed.

(* a point that is stationary against the direction towards another feasible point has the smaller Gibbs energy *)
Definition stationary_against (T P : R) (ps : list (entry * entry)) : Prop :=
  Rsum (map (fun p => mu_at T (Ntot (map fst ps) * (kB * T) / P) (fst p) * (e_n (snd p) - e_n (fst p))) ps) = 0.

Lemma pairs_pos_n T (ps : list (entry * entry)) :
  Forall (pair_pos T) ps -> Forall (fun p => 0 < e_n (fst p) /\ 0 < e_n (snd p)) ps.
Proof. intros H. eapply Forall_impl; [|exact H]. intros p [[H1 _] [H2 _]]. split; assumption. Qed.

Lemma Ntot_pos_fst T (ps : list (entry * entry)) : ps <> [] -> Forall (pair_pos T) ps -> 0 < Ntot (map fst ps) /\ 0 < Ntot (map snd ps).
Proof.
  intros Hne H. apply pairs_pos_n in H. split; unfold Ntot; (apply Forall_pos_sum; [destruct ps; [congruence | discriminate]|]);
    apply Forall_forall; intros x Hx; apply in_map_iff in Hx; destruct Hx as [e [<- He]]; apply in_map_iff in He; destruct He as [p [<- Hp]];
    rewrite Forall_forall in H; apply (H p Hp).
Qed.

Theorem stationary_point_is_minimiser T P (ps : list (entry * entry)) :
  0 < kB * T -> 0 < P -> ps <> [] -> Forall same_data ps -> Forall (pair_pos T) ps -> stationary_against T P ps ->
  Gibbs_fn U T P (map fst ps) <= Gibbs_fn U T P (map snd ps).
Proof.
  intros HkT HP Hne HD Hpos Hst. destruct (Ntot_pos_fst T ps Hne Hpos) as [HS HS'].
  rewrite !Gibbs_fn_G_at.
  assert (G := first_order_gap T P _ _ ps HkT HP HS HS' HD Hpos). unfold stationary_against in Hst. rewrite Hst in G.
  assert (I := gibbs_inequality ps Hne (pairs_pos_n T ps Hpos)).
  assert (0 <= kB * T * Rsum (map (fun p => e_n (snd p) * ln ((e_n (snd p) / Ntot (map snd ps)) / (e_n (fst p) / Ntot (map fst ps)))) ps))
    by (apply Rmult_le_pos; lra).
  lra.
Qed.

(* the solver's fixed points are such stationary points: chemical potentials in the column space of the constraint
   matrix (mu = -(A lam), C01) and a feasible direction (every constraint column orthogonal to N' - N) *)
Lemma kkt_is_stationary T P (ps : list (entry * entry)) cols lam :
  let nu := map (fun p => e_n (snd p) - e_n (fst p)) ps in
  let mu := map (fun p => mu_at T (Ntot (map fst ps) * (kB * T) / P) (fst p)) ps in
  Forall (fun c => List.length c = List.length nu) cols ->
  Forall2 (fun mi ai => mi = - ai) mu (alam RNum cols lam (repeat 0 (List.length nu))) ->
  Forall (fun c => dotR c nu = 0) cols ->
  stationary_against T P ps.
Proof.
  intros nu mu Hlen Hmu Hfeas. unfold stationary_against.
  assert (G := mass_action_reactions nu cols lam mu Hlen Hmu Hfeas).
  unfold dotR, nu, mu in G. rewrite map2_map in G. rewrite <- G. f_equal. apply map_ext. intros p. ring.
Qed.

Theorem kkt_point_is_minimiser T P (ps : list (entry * entry)) cols lam :
  0 < kB * T -> 0 < P -> ps <> [] -> Forall same_data ps -> Forall (pair_pos T) ps ->
  let nu := map (fun p => e_n (snd p) - e_n (fst p)) ps in
  let mu := map (fun p => mu_at T (Ntot (map fst ps) * (kB * T) / P) (fst p)) ps in
  Forall (fun c => List.length c = List.length nu) cols ->
  Forall2 (fun mi ai => mi = - ai) mu (alam RNum cols lam (repeat 0 (List.length nu))) ->
  Forall (fun c => dotR c nu = 0) cols ->
  Gibbs_fn U T P (map fst ps) <= Gibbs_fn U T P (map snd ps).
Proof.
  intros HkT HP Hne HD Hpos nu mu Hlen Hmu Hfeas.
  apply stationary_point_is_minimiser; try assumption. eapply kkt_is_stationary; eassumption.
Qed.

(* Le Chatelier for fixed points: a stationary point at P1 and a stationary point at P2 > P1 of the same ideal mixture
   (same species data, same constraint totals): the total particle number does not increase with pressure *)
Definition swap (p : entry * entry) : entry * entry := (snd p, fst p).
Theorem pressure_response_stationary T P1 P2 (ps : list (entry * entry)) :
  0 < kB * T -> 0 < P1 -> P1 < P2 -> ps <> [] -> Forall same_data ps -> Forall (pair_pos T) ps ->
  stationary_against T P1 ps -> stationary_against T P2 (map swap ps) ->
  Ntot (map snd ps) <= Ntot (map fst ps).
Proof.
  intros HkT HP1 HP Hne HD Hpos Hs1 Hs2.
  assert (Hne' : map swap ps <> []) by (destruct ps; [congruence | discriminate]).
  assert (HD' : Forall same_data (map swap ps)).
  { apply Forall_forall. intros q Hq. apply in_map_iff in Hq. destruct Hq as [p [<- Hp]]. rewrite Forall_forall in HD.
    destruct (HD p Hp) as [A1 [A2 A3]]. unfold same_data, swap. cbn [fst snd]. repeat split; congruence. }
  assert (Hpos' : Forall (pair_pos T) (map swap ps)).
  { apply Forall_forall. intros q Hq. apply in_map_iff in Hq. destruct Hq as [p [<- Hp]]. rewrite Forall_forall in Hpos.
    destruct (Hpos p Hp) as [A1 A2]. split; assumption. }
  assert (M1 := stationary_point_is_minimiser T P1 ps HkT HP1 Hne HD Hpos Hs1).
  assert (M2 := stationary_point_is_minimiser T P2 (map swap ps) HkT ltac:(lra) Hne' HD' Hpos' Hs2).
  rewrite !map_map in M2. cbn [swap fst snd] in M2.
  change (map (fun x : entry * entry => snd x) ps) with (map snd ps) in M2.
  change (map (fun x : entry * entry => fst x) ps) with (map fst ps) in M2.
  apply (pressure_response_ideal U T P1 P2 (map fst ps) (map snd ps)); try assumption.
  - destruct ps; [congruence | discriminate].
  - destruct ps; [congruence | discriminate].
  - apply Forall_forall. intros e He. apply in_map_iff in He. destruct He as [p [<- Hp]]. rewrite Forall_forall in Hpos. apply (Hpos p Hp).
  - apply Forall_forall. intros e He. apply in_map_iff in He. destruct He as [p [<- Hp]]. rewrite Forall_forall in Hpos. apply (Hpos p Hp).
Qed.
End KKT.
