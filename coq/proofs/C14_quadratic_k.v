(* C14: the translational thermal conductivity of ANY solution of the 4 nu x 4 nu system is a positive constant times the
   quadratic form of the assembled q matrix at that solution. *)
From Coq Require Import Reals List Lra Lia Arith ZArith Bool.
Import ListNotations.
From MPC Require Import Num Species RInst StatMech RVec RSumIdx GenTransport Transport C12_split C05_blocks C12_split_q.
Open Scope R_scope.

Section QuadraticK.
Variable U : Units R.
Variable T : R.
Variables (masses nd : nat -> R) (nb : nat) (Q : @qints R).
Hypothesis Hm : forall i, 0 < masses i.
Hypothesis HkT : 0 < k_b U * T.
Hypothesis Hk : 0 < k_b U.

Definition qform_k (x : nat -> nat -> R) : R :=
  sumn 4 (fun p => sumn nb (fun i => x p i / sqrt (masses i) *
     sumn 4 (fun p' => sumn nb (fun j => qblock RNum Q masses nb nd p p' i j * x p' j)))).

Theorem kdash_is_quadratic_form (x : nat -> nat -> R) :
  q_rows nb masses nd Q (kdash_rhs nd) x ->
  kdash_value RNum U T masses nd nb (x 1%nat) = k_b U * sqrt (2 * (k_b U * T)) / (6 * sqrt PI) * qform_k x.
Proof.
  intros Hsys. unfold qform_k.
  assert (E : forall p, (p < 4)%nat ->
    sumn nb (fun i => x p i / sqrt (masses i) * sumn 4 (fun p' => sumn nb (fun j => qblock RNum Q masses nb nd p p' i j * x p' j)))
    = if Nat.eqb p 1 then - (15 / 2) * sqrt PI * sumn nb (fun i => nd i * x 1%nat i / sqrt (masses i)) else 0).
  { intros p Hp. destruct (Nat.eqb p 1) eqn:Ep.
    - apply Nat.eqb_eq in Ep. subst p. rewrite <- sumn_scal. apply sumn_ext. intros i Hi.
      rewrite (Hsys 1%nat i ltac:(lia) Hi). unfold kdash_rhs. cbn [Nat.eqb]. unfold DTi_rhs1. rnum. unfold Rdiv. ring.
    - rewrite <- (sumn_zero nb). apply sumn_ext. intros i Hi. rewrite (Hsys p i Hp Hi). unfold kdash_rhs. rewrite Ep. ring. }
  unfold sumn at 1. cbn [seq map Rsum]. rewrite (E 0%nat), (E 1%nat), (E 2%nat), (E 3%nat) by lia. cbn [Nat.eqb].
  unfold kdash_value, kTv. rewrite sum_left_R. rnum.
  assert (HP : 0 < sqrt PI) by (apply sqrt_lt_R0, PI_RGT_0).
  assert (Hs2 : 0 < sqrt (2 * (k_b U * T))) by (apply sqrt_lt_R0; lra).
  transitivity (- 5 / 4 * k_b U * (sqrt (2 * (k_b U * T)) * sumn nb (fun i => nd i * x 1%nat i / sqrt (masses i)))).
  - f_equal. rewrite <- sumn_scal. apply sumn_ext. intros i _.
    assert (Hsm : 0 < sqrt (masses i)) by (apply sqrt_lt_R0, Hm).
    replace (2 * (k_b U * T) / masses i) with ((2 * (k_b U * T)) * / masses i) by (unfold Rdiv; ring).
    rewrite sqrt_mult; [| lra | left; apply Rinv_0_lt_compat, Hm].
    rewrite sqrt_inv. field. lra.
  - field. lra.
Qed.

Corollary kdash_positive_iff_form_positive (x : nat -> nat -> R) :
  q_rows nb masses nd Q (kdash_rhs nd) x -> (0 < kdash_value RNum U T masses nd nb (x 1%nat) <-> 0 < qform_k x).
Proof.
  intros Hsys. rewrite (kdash_is_quadratic_form x Hsys).
  assert (Hc : 0 < k_b U * sqrt (2 * (k_b U * T)) / (6 * sqrt PI)).
  { apply Rdiv_lt_0_compat; [apply Rmult_lt_0_compat; [exact Hk | apply sqrt_lt_R0; lra]|].
    apply Rmult_lt_0_compat; [lra | apply sqrt_lt_R0, PI_RGT_0]. }
  split; intros H.
  - apply Rmult_lt_reg_l with (r := k_b U * sqrt (2 * (k_b U * T)) / (6 * sqrt PI)); [exact Hc | lra].
  - apply Rmult_lt_0_compat; assumption.
Qed.
End QuadraticK.
