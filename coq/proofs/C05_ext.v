(* C05: the blocks read the collision-integral arrays only at index pairs inside the mixture (extensionality), so the
   re-listing theorems of C05_blocks apply to the matrices Qmix actually builds from a re-listed species list. *)
From Coq Require Import Reals List Lra Lia Arith ZArith.
Import ListNotations.
From MPC Require Import Num Species RInst StatMech RVec RSumIdx GenTransport Transport C05_transport C05_blocks.
Open Scope R_scope.

Section Ext.
Variables (masses nd : nat -> R) (nb : nat).
Definition agree (Q Q' : nat -> nat -> R) : Prop := forall i l, (i < nb)%nat -> (l < nb)%nat -> Q i l = Q' i l.

Ltac ext_block Hi :=
  cbv zeta; rnum; rewrite !sum_left_R, !Rplus_0_l; f_equal;
  apply Rsum_map_ext_in; intros l Hl; apply in_seq in Hl;
  repeat match goal with H : agree ?Q ?Q' |- context [?Q ?a l] => rewrite (H a l Hi ltac:(lia)) end; reflexivity.

Lemma q00_ext Q11 Q11' i j : (i < nb)%nat -> agree Q11 Q11' ->
  q00 RNum Q11 masses nb nd i j = q00 RNum Q11' masses nb nd i j.
Proof. intros Hi H0. unfold q00. ext_block Hi. Qed.
Lemma q01_ext Q11 Q11' Q12 Q12' i j : (i < nb)%nat -> agree Q11 Q11' -> agree Q12 Q12' ->
  q01 RNum Q11 Q12 masses nb nd i j = q01 RNum Q11' Q12' masses nb nd i j.
Proof. intros Hi H0 H1. unfold q01. ext_block Hi. Qed.
Lemma q02_ext Q11 Q11' Q12 Q12' Q13 Q13' i j : (i < nb)%nat -> agree Q11 Q11' -> agree Q12 Q12' -> agree Q13 Q13' ->
  q02 RNum Q11 Q12 Q13 masses nb nd i j = q02 RNum Q11' Q12' Q13' masses nb nd i j.
Proof. intros Hi H0 H1 H2. unfold q02. ext_block Hi. Qed.
Lemma q03_ext Q11 Q11' Q12 Q12' Q13 Q13' Q14 Q14' i j : (i < nb)%nat -> agree Q11 Q11' -> agree Q12 Q12' -> agree Q13 Q13' -> agree Q14 Q14' ->
  q03 RNum Q11 Q12 Q13 Q14 masses nb nd i j = q03 RNum Q11' Q12' Q13' Q14' masses nb nd i j.
Proof. intros Hi H0 H1 H2 H3. unfold q03. ext_block Hi. Qed.
Lemma q11_ext Q11 Q11' Q12 Q12' Q13 Q13' Q22 Q22' i j : (i < nb)%nat -> agree Q11 Q11' -> agree Q12 Q12' -> agree Q13 Q13' -> agree Q22 Q22' ->
  q11 RNum Q11 Q12 Q13 Q22 masses nb nd i j = q11 RNum Q11' Q12' Q13' Q22' masses nb nd i j.
Proof. intros Hi H0 H1 H2 H3. unfold q11. ext_block Hi. Qed.
Lemma q12_ext Q11 Q11' Q12 Q12' Q13 Q13' Q14 Q14' Q22 Q22' Q23 Q23' i j : (i < nb)%nat -> agree Q11 Q11' -> agree Q12 Q12' -> agree Q13 Q13' -> agree Q14 Q14' -> agree Q22 Q22' -> agree Q23 Q23' ->
  q12 RNum Q11 Q12 Q13 Q14 Q22 Q23 masses nb nd i j = q12 RNum Q11' Q12' Q13' Q14' Q22' Q23' masses nb nd i j.
Proof. intros Hi H0 H1 H2 H3 H4 H5. unfold q12. ext_block Hi. Qed.
Lemma q13_ext Q11 Q11' Q12 Q12' Q13 Q13' Q14 Q14' Q15 Q15' Q22 Q22' Q23 Q23' Q24 Q24' i j : (i < nb)%nat -> agree Q11 Q11' -> agree Q12 Q12' -> agree Q13 Q13' -> agree Q14 Q14' -> agree Q15 Q15' -> agree Q22 Q22' -> agree Q23 Q23' -> agree Q24 Q24' ->
  q13 RNum Q11 Q12 Q13 Q14 Q15 Q22 Q23 Q24 masses nb nd i j = q13 RNum Q11' Q12' Q13' Q14' Q15' Q22' Q23' Q24' masses nb nd i j.
Proof. intros Hi H0 H1 H2 H3 H4 H5 H6 H7. unfold q13. ext_block Hi. Qed.
Lemma q22_ext Q11 Q11' Q12 Q12' Q13 Q13' Q14 Q14' Q15 Q15' Q22 Q22' Q23 Q23' Q24 Q24' Q33 Q33' i j : (i < nb)%nat -> agree Q11 Q11' -> agree Q12 Q12' -> agree Q13 Q13' -> agree Q14 Q14' -> agree Q15 Q15' -> agree Q22 Q22' -> agree Q23 Q23' -> agree Q24 Q24' -> agree Q33 Q33' ->
  q22 RNum Q11 Q12 Q13 Q14 Q15 Q22 Q23 Q24 Q33 masses nb nd i j = q22 RNum Q11' Q12' Q13' Q14' Q15' Q22' Q23' Q24' Q33' masses nb nd i j.
Proof. intros Hi H0 H1 H2 H3 H4 H5 H6 H7 H8. unfold q22. ext_block Hi. Qed.
Lemma q23_ext Q11 Q11' Q12 Q12' Q13 Q13' Q14 Q14' Q15 Q15' Q16 Q16' Q22 Q22' Q23 Q23' Q24 Q24' Q25 Q25' Q33 Q33' Q34 Q34' i j : (i < nb)%nat -> agree Q11 Q11' -> agree Q12 Q12' -> agree Q13 Q13' -> agree Q14 Q14' -> agree Q15 Q15' -> agree Q16 Q16' -> agree Q22 Q22' -> agree Q23 Q23' -> agree Q24 Q24' -> agree Q25 Q25' -> agree Q33 Q33' -> agree Q34 Q34' ->
  q23 RNum Q11 Q12 Q13 Q14 Q15 Q16 Q22 Q23 Q24 Q25 Q33 Q34 masses nb nd i j = q23 RNum Q11' Q12' Q13' Q14' Q15' Q16' Q22' Q23' Q24' Q25' Q33' Q34' masses nb nd i j.
Proof. intros Hi H0 H1 H2 H3 H4 H5 H6 H7 H8 H9 H10 H11. unfold q23. ext_block Hi. Qed.
Lemma q33_ext Q11 Q11' Q12 Q12' Q13 Q13' Q14 Q14' Q15 Q15' Q16 Q16' Q17 Q17' Q22 Q22' Q23 Q23' Q24 Q24' Q25 Q25' Q26 Q26' Q33 Q33' Q34 Q34' Q35 Q35' Q44 Q44' i j : (i < nb)%nat -> agree Q11 Q11' -> agree Q12 Q12' -> agree Q13 Q13' -> agree Q14 Q14' -> agree Q15 Q15' -> agree Q16 Q16' -> agree Q17 Q17' -> agree Q22 Q22' -> agree Q23 Q23' -> agree Q24 Q24' -> agree Q25 Q25' -> agree Q26 Q26' -> agree Q33 Q33' -> agree Q34 Q34' -> agree Q35 Q35' -> agree Q44 Q44' ->
  q33 RNum Q11 Q12 Q13 Q14 Q15 Q16 Q17 Q22 Q23 Q24 Q25 Q26 Q33 Q34 Q35 Q44 masses nb nd i j = q33 RNum Q11' Q12' Q13' Q14' Q15' Q16' Q17' Q22' Q23' Q24' Q25' Q26' Q33' Q34' Q35' Q44' masses nb nd i j.
Proof. intros Hi H0 H1 H2 H3 H4 H5 H6 H7 H8 H9 H10 H11 H12 H13 H14 H15. unfold q33. ext_block Hi. Qed.
Lemma qhat00_ext Q11 Q11' Q22 Q22' i j : (i < nb)%nat -> agree Q11 Q11' -> agree Q22 Q22' ->
  qhat00 RNum Q11 Q22 masses nb nd i j = qhat00 RNum Q11' Q22' masses nb nd i j.
Proof. intros Hi H0 H1. unfold qhat00. ext_block Hi. Qed.
Lemma qhat01_ext Q11 Q11' Q12 Q12' Q22 Q22' Q23 Q23' i j : (i < nb)%nat -> agree Q11 Q11' -> agree Q12 Q12' -> agree Q22 Q22' -> agree Q23 Q23' ->
  qhat01 RNum Q11 Q12 Q22 Q23 masses nb nd i j = qhat01 RNum Q11' Q12' Q22' Q23' masses nb nd i j.
Proof. intros Hi H0 H1 H2 H3. unfold qhat01. ext_block Hi. Qed.
Lemma qhat11_ext Q11 Q11' Q12 Q12' Q13 Q13' Q22 Q22' Q23 Q23' Q24 Q24' Q33 Q33' i j : (i < nb)%nat -> agree Q11 Q11' -> agree Q12 Q12' -> agree Q13 Q13' -> agree Q22 Q22' -> agree Q23 Q23' -> agree Q24 Q24' -> agree Q33 Q33' ->
  qhat11 RNum Q11 Q12 Q13 Q22 Q23 Q24 Q33 masses nb nd i j = qhat11 RNum Q11' Q12' Q13' Q22' Q23' Q24' Q33' masses nb nd i j.
Proof. intros Hi H0 H1 H2 H3 H4 H5 H6. unfold qhat11. ext_block Hi. Qed.

Definition qints_agree (Q Q' : @qints R) : Prop :=
  agree (I11 Q) (I11 Q') /\ agree (I12 Q) (I12 Q') /\ agree (I13 Q) (I13 Q') /\ agree (I14 Q) (I14 Q') /\ agree (I15 Q) (I15 Q') /\
  agree (I16 Q) (I16 Q') /\ agree (I17 Q) (I17 Q') /\ agree (I22 Q) (I22 Q') /\ agree (I23 Q) (I23 Q') /\ agree (I24 Q) (I24 Q') /\
  agree (I25 Q) (I25 Q') /\ agree (I26 Q) (I26 Q') /\ agree (I33 Q) (I33 Q') /\ agree (I34 Q) (I34 Q') /\ agree (I35 Q) (I35 Q') /\ agree (I44 Q) (I44 Q').

Lemma qblock_ext Q Q' p p' i j : (i < nb)%nat -> qints_agree Q Q' ->
  qblock RNum Q masses nb nd p p' i j = qblock RNum Q' masses nb nd p p' i j.
Proof.
  intros Hi [A11 [A12 [A13 [A14 [A15 [A16 [A17 [A22 [A23 [A24 [A25 [A26 [A33 [A34 [A35 A44]]]]]]]]]]]]]]].
  unfold qblock, b00, b01, b02, b03, b11, b12, b13, b22, b23, b33.
  destruct p as [|[|[|[|p]]]], p' as [|[|[|[|p']]]]; try reflexivity;
    rewrite ?(q00_ext (I11 Q) (I11 Q')), ?(q01_ext (I11 Q) (I11 Q') (I12 Q) (I12 Q')), ?(q02_ext (I11 Q) (I11 Q') (I12 Q) (I12 Q') (I13 Q) (I13 Q')),
            ?(q03_ext (I11 Q) (I11 Q') (I12 Q) (I12 Q') (I13 Q) (I13 Q') (I14 Q) (I14 Q')),
            ?(q11_ext (I11 Q) (I11 Q') (I12 Q) (I12 Q') (I13 Q) (I13 Q') (I22 Q) (I22 Q')),
            ?(q12_ext (I11 Q) (I11 Q') (I12 Q) (I12 Q') (I13 Q) (I13 Q') (I14 Q) (I14 Q') (I22 Q) (I22 Q') (I23 Q) (I23 Q')),
            ?(q13_ext (I11 Q) (I11 Q') (I12 Q) (I12 Q') (I13 Q) (I13 Q') (I14 Q) (I14 Q') (I15 Q) (I15 Q') (I22 Q) (I22 Q') (I23 Q) (I23 Q') (I24 Q) (I24 Q')),
            ?(q22_ext (I11 Q) (I11 Q') (I12 Q) (I12 Q') (I13 Q) (I13 Q') (I14 Q) (I14 Q') (I15 Q) (I15 Q') (I22 Q) (I22 Q') (I23 Q) (I23 Q') (I24 Q) (I24 Q') (I33 Q) (I33 Q')),
            ?(q23_ext (I11 Q) (I11 Q') (I12 Q) (I12 Q') (I13 Q) (I13 Q') (I14 Q) (I14 Q') (I15 Q) (I15 Q') (I16 Q) (I16 Q') (I22 Q) (I22 Q') (I23 Q) (I23 Q') (I24 Q) (I24 Q') (I25 Q) (I25 Q') (I33 Q) (I33 Q') (I34 Q) (I34 Q')),
            ?(q33_ext (I11 Q) (I11 Q') (I12 Q) (I12 Q') (I13 Q) (I13 Q') (I14 Q) (I14 Q') (I15 Q) (I15 Q') (I16 Q) (I16 Q') (I17 Q) (I17 Q') (I22 Q) (I22 Q') (I23 Q) (I23 Q') (I24 Q) (I24 Q') (I25 Q) (I25 Q') (I26 Q) (I26 Q') (I33 Q) (I33 Q') (I34 Q) (I34 Q') (I35 Q) (I35 Q') (I44 Q) (I44 Q'))
      by assumption; reflexivity.
Qed.

Lemma qhatblock_ext Q Q' p p' i j : (i < nb)%nat -> qints_agree Q Q' ->
  qhatblock RNum Q masses nb nd p p' i j = qhatblock RNum Q' masses nb nd p p' i j.
Proof.
  intros Hi [A11 [A12 [A13 [A14 [A15 [A16 [A17 [A22 [A23 [A24 [A25 [A26 [A33 [A34 [A35 A44]]]]]]]]]]]]]]].
  unfold qhatblock, h00, h01, h11.
  destruct p as [|[|p]], p' as [|[|p']]; try reflexivity;
    rewrite ?(qhat00_ext (I11 Q) (I11 Q') (I22 Q) (I22 Q')), ?(qhat01_ext (I11 Q) (I11 Q') (I12 Q) (I12 Q') (I22 Q) (I22 Q') (I23 Q) (I23 Q')),
            ?(qhat11_ext (I11 Q) (I11 Q') (I12 Q) (I12 Q') (I13 Q) (I13 Q') (I22 Q) (I22 Q') (I23 Q) (I23 Q') (I24 Q) (I24 Q') (I33 Q) (I33 Q'))
      by assumption; reflexivity.
Qed.
End Ext.

(* ---- from a re-listed species list to the blocks ---- *)
Lemma nth_map_seq {B} (f : nat -> B) (nb k : nat) (d : B) : (k < nb)%nat -> nth k (map f (seq 0 nb)) d = f k.
Proof.
  intros Hk. rewrite (nth_indep (map f (seq 0 nb)) d (f 0%nat)) by (rewrite map_length, seq_length; exact Hk).
  rewrite (map_nth f (seq 0 nb) 0%nat k), seq_nth by exact Hk. reflexivity.
Qed.

Section Relisting.
Variable U : Units R.
Variable G : R -> R.                      (* the Gamma function of the real instance (scipy.special.gamma) *)
Variables (sps : list (species R)) (nd : list R) (nb : nat) (sigma tau : nat -> nat) (T : R).
Hypothesis Hs : forall i, (i < nb)%nat -> (sigma i < nb)%nat.
Hypothesis Hts : forall i, (i < nb)%nat -> tau (sigma i) = i.

Definition relist {B} (l : list B) (d : B) : list B := map (fun k => nth (sigma k) l d) (seq 0 nb).
Definition Q_of (sl : list (species R)) (nl : list R) : @qints R :=
  mkQints (Qmix (RNumG G) U sl nl 1 1 T) (Qmix (RNumG G) U sl nl 1 2 T) (Qmix (RNumG G) U sl nl 1 3 T) (Qmix (RNumG G) U sl nl 1 4 T)
          (Qmix (RNumG G) U sl nl 1 5 T) (Qmix (RNumG G) U sl nl 1 6 T) (Qmix (RNumG G) U sl nl 1 7 T)
          (Qmix (RNumG G) U sl nl 2 2 T) (Qmix (RNumG G) U sl nl 2 3 T) (Qmix (RNumG G) U sl nl 2 4 T) (Qmix (RNumG G) U sl nl 2 5 T) (Qmix (RNumG G) U sl nl 2 6 T)
          (Qmix (RNumG G) U sl nl 3 3 T) (Qmix (RNumG G) U sl nl 3 4 T) (Qmix (RNumG G) U sl nl 3 5 T) (Qmix (RNumG G) U sl nl 4 4 T).

Lemma Qmix_relisting l s i j : (i < nb)%nat -> (j < nb)%nat ->
  Qmix (RNumG G) U (relist sps (dummy_species 0)) (relist nd 0) l s T i j = Qmix (RNumG G) U sps nd l s T (sigma i) (sigma j).
Proof.
  intros Hi Hj. unfold Qmix, relist. cbn [nofZ RNumG].
  rewrite !(nth_map_seq _ nb i _ Hi), !(nth_map_seq _ nb j _ Hj). reflexivity.
Qed.

Lemma Q_of_relisting : qints_agree nb (Q_of (relist sps (dummy_species 0)) (relist nd 0)) (qints_p sigma (Q_of sps nd)).
Proof.
  unfold qints_agree, agree, Q_of, qints_p. cbn [I11 I12 I13 I14 I15 I16 I17 I22 I23 I24 I25 I26 I33 I34 I35 I44].
  repeat split; intros i l Hi Hl; apply Qmix_relisting; assumption.
Qed.

(* the assembled blocks of the re-listed mixture are the blocks of the original mixture at the re-indexed positions *)
Theorem blocks_of_relisted_mixture (masses ndf : nat -> R) p p' i j : (i < nb)%nat -> (j < nb)%nat ->
  qblock RNum (Q_of (relist sps (dummy_species 0)) (relist nd 0)) (fun k => masses (sigma k)) nb (fun k => ndf (sigma k)) p p' i j
  = qblock RNum (Q_of sps nd) masses nb ndf p p' (sigma i) (sigma j) /\
  qhatblock RNum (Q_of (relist sps (dummy_species 0)) (relist nd 0)) (fun k => masses (sigma k)) nb (fun k => ndf (sigma k)) p p' i j
  = qhatblock RNum (Q_of sps nd) masses nb ndf p p' (sigma i) (sigma j).
Proof.
  intros Hi Hj. split.
  - rewrite (qblock_ext (fun k => masses (sigma k)) (fun k => ndf (sigma k)) nb _ _ p p' i j Hi Q_of_relisting).
    apply (qblock_perm nb sigma tau Hs Hts); assumption.
  - rewrite (qhatblock_ext (fun k => masses (sigma k)) (fun k => ndf (sigma k)) nb _ _ p p' i j Hi Q_of_relisting).
    apply (qhatblock_perm nb sigma tau Hs Hts); assumption.
Qed.
End Relisting.
