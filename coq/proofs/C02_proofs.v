(* Lemmas behind thm/C02.v: invariants of the relaxed Newton iteration (over R). *)
From Coq Require Import Reals List Lra ZArith.
Import ListNotations.
From MPC Require Import Num Species RInst StatMech RVec GenSpecies RefEnergy Gibbs.
Open Scope R_scope.

Lemma dot_R u v : dot RNum u v = dotR u v.
Proof. unfold dot, dotR. now rewrite sum_list_Rsum. Qed.

(* ---- any proposal that satisfies the constraint rows satisfies the constraints ---- *)
Lemma constraint_rows_zero cols b Nn :
  List.length cols = List.length b ->
  Forall (fun x => x = 0) (kkt_constraint_residuals RNum cols b Nn) ->
  Forall2 (fun c bk => dotR c Nn = bk) cols b.
Proof.
  unfold kkt_constraint_residuals. revert b. induction cols as [|c cols IH]; intros [|bk b] Hl H; cbn in *; try discriminate.
  - constructor.
  - inversion H as [|x l Hx Hr]; subst. constructor.
    + rnum. rewrite dot_R in Hx. lra.
    + apply IH; [now injection Hl | exact Hr].
Qed.

(* ---- the relaxed update contracts the constraint residual by exactly (1 - r) ---- *)
Lemma relaxed_R r Ni Nn : relaxed RNum r Ni Nn = map2 (fun n nn => (1 - r) * n + r * nn) Ni Nn.
Proof. reflexivity. Qed.

Lemma relax_contracts_residual (c Ni Nn : list R) (bk r : R) :
  List.length c = List.length Ni -> List.length Ni = List.length Nn ->
  dotR c Nn = bk ->
  dotR c (relaxed RNum r Ni Nn) - bk = (1 - r) * (dotR c Ni - bk).
Proof. intros H1 H2 Hb. rewrite relaxed_R, dot_affine by assumption. rewrite Hb. lra. Qed.

Corollary full_step_exact (c Ni Nn : list R) (bk : R) :
  List.length c = List.length Ni -> List.length Ni = List.length Nn ->
  dotR c Nn = bk -> dotR c (relaxed RNum 1 Ni Nn) = bk.
Proof. intros H1 H2 Hb. pose proof (relax_contracts_residual c Ni Nn bk 1 H1 H2 Hb). lra. Qed.

Corollary constraints_preserved (c Ni Nn : list R) (bk r : R) :
  List.length c = List.length Ni -> List.length Ni = List.length Nn ->
  dotR c Nn = bk -> dotR c Ni = bk -> dotR c (relaxed RNum r Ni Nn) = bk.
Proof. intros H1 H2 Hb Hn. pose proof (relax_contracts_residual c Ni Nn bk r H1 H2 Hb). rewrite Hn in H. lra. Qed.

(* ---- positivity of every iterate ---- *)
Lemma relax_term_bounds g n nn : 0 < g -> 0 < n ->
  0 < relax_term RNum g n nn <= 1 /\ relax_term RNum g n nn * Rabs (nn - n) <= g * n.
Proof.
  intros Hg Hn. unfold relax_term. rnum. unfold Rltb.
  assert (Hm : 0 < g * n) by (apply Rmult_lt_0_compat; assumption).
  assert (Ha := Rabs_pos (nn - n)).
  destruct (Rlt_dec (Rabs (nn - n)) (g * n)) as [Hlt|Hge].
  - replace (g * n / (g * n)) with 1 by (field; lra). split; [lra|]. lra.
  - assert (Hd : 0 < Rabs (nn - n)) by lra. split.
    + split; [apply Rdiv_lt_0_compat; assumption|]. apply Rmult_le_reg_r with (r := Rabs (nn - n)); [assumption|].
      replace (g * n / Rabs (nn - n) * Rabs (nn - n)) with (g * n) by (field; lra). lra.
    + replace (g * n / Rabs (nn - n) * Rabs (nn - n)) with (g * n) by (field; lra). lra.
Qed.

Definition minR (d : R) (l : list R) : R := fold_left (fun m x => if Rltb x m then x else m) l d.
Lemma min_list_minR d l : min_list RNum d l = minR d l.
Proof. reflexivity. Qed.

Lemma minR_le d l : minR d l <= d /\ Forall (fun x => minR d l <= x) l /\ (minR d l = d \/ In (minR d l) l).
Proof.
  revert d. induction l as [|x l IH]; intros d.
  - cbn. split; [lra|]. split; [constructor | now left].
  - assert (E : minR d (x :: l) = minR (if Rltb x d then x else d) l) by reflexivity. rewrite E. clear E.
    unfold Rltb. destruct (Rlt_dec x d) as [Hlt|Hge].
    + destruct (IH x) as [H1 [H2 H3]]. split; [lra|]. split; [constructor; assumption|].
      destruct H3 as [H3|H3]; right; [left; now rewrite H3 | right; exact H3].
    + destruct (IH d) as [H1 [H2 H3]]. split; [exact H1|]. split; [constructor; [lra | assumption]|].
      destruct H3 as [H3|H3]; [now left | right; right; exact H3].
Qed.

Lemma min_list_le d l : min_list RNum d l <= d /\ Forall (fun x => min_list RNum d l <= x) l /\ (min_list RNum d l = d \/ In (min_list RNum d l) l).
Proof. rewrite min_list_minR. apply minR_le. Qed.

Lemma scale_bound (r g : R) Ni Nn :
  Forall2 (fun n nn => 0 < relax_term RNum g n nn <= 1 /\ relax_term RNum g n nn * Rabs (nn - n) <= g * n) Ni Nn ->
  Forall (fun x => r <= x) (map2 (relax_term RNum g) Ni Nn) ->
  Forall2 (fun n nn => r * Rabs (nn - n) <= g * n) Ni Nn.
Proof.
  induction 1 as [|a b l1 l2 [Hab1 Hab2] _ IH]; intros H2; cbn [map2] in *; constructor.
  - inversion H2 as [|x0 l0 Hx0 Hl0]; subst.
    apply Rle_trans with (relax_term RNum g a b * Rabs (b - a)); [apply Rmult_le_compat_r; [apply Rabs_pos | exact Hx0] | exact Hab2].
  - apply IH. now inversion H2.
Qed.

Lemma relax_factor_bounds g Ni Nn :
  0 < g -> Forall (fun x => 0 < x) Ni -> List.length Ni = List.length Nn ->
  0 < relax_factor RNum g Ni Nn <= 1 /\
  Forall2 (fun n nn => relax_factor RNum g Ni Nn * Rabs (nn - n) <= g * n) Ni Nn.
Proof.
  intros Hg Hpos Hlen. unfold relax_factor.
  assert (Hterms : Forall2 (fun n nn => 0 < relax_term RNum g n nn <= 1 /\ relax_term RNum g n nn * Rabs (nn - n) <= g * n) Ni Nn).
  { revert Nn Hlen. induction Hpos as [|n Ni Hn _ IH]; intros [|nn Nn] Hlen; cbn in *; try discriminate; constructor.
    - apply relax_term_bounds; assumption.
    - apply IH. now injection Hlen. }
  destruct Ni as [|n Ni]; destruct Nn as [|nn Nn]; cbn in Hlen; try discriminate.
  - cbn [map2]. rnum. split; [lra | constructor].
  - cbn [map2]. set (f := relax_term RNum g n nn). set (fs := map2 (relax_term RNum g) Ni Nn).
    destruct (min_list_le f fs) as [H1 [H2 H3]]. set (r := min_list RNum f fs) in *.
    inversion Hterms as [|a b l1 l2 [Hf1 Hf2] Hrest]; subst.
    assert (Hall : Forall (fun x => 0 < x <= 1) (f :: fs)).
    { constructor; [exact Hf1|]. unfold fs. clear -Hrest. induction Hrest as [|a b l1 l2 [Hab _] _ IH]; cbn [map2]; constructor; assumption. }
    assert (Hr : 0 < r <= 1).
    { destruct H3 as [H3|H3]; [rewrite H3; exact Hf1|]. rewrite Forall_forall in Hall. apply Hall. right. exact H3. }
    split; [exact Hr|]. constructor.
    + fold f in Hf2. apply Rle_trans with (f * Rabs (nn - n)); [apply Rmult_le_compat_r; [apply Rabs_pos | exact H1] | exact Hf2].
    + apply scale_bound; [exact Hrest | exact H2].
Qed.

Lemma iterates_positive g Ni Nn :
  0 < g < 1 -> Forall (fun x => 0 < x) Ni -> List.length Ni = List.length Nn ->
  Forall (fun x => 0 < x) (relaxed RNum (relax_factor RNum g Ni Nn) Ni Nn).
Proof.
  intros [Hg0 Hg1] Hpos Hlen. destruct (relax_factor_bounds g Ni Nn Hg0 Hpos Hlen) as [Hr Hb].
  rewrite relaxed_R. remember (relax_factor RNum g Ni Nn) as r eqn:Er. clear Er Hlen.
  revert Hpos. induction Hb as [|n nn Ni' Nn' Hb1 _ IH]; intros Hpos; cbn [map2]; constructor.
  - inversion Hpos as [|x0 l0 Hn0 Hl0]; subst.
    assert (Habs : - Rabs (nn - n) <= nn - n).
    { pose proof (Rle_abs (- (nn - n))) as Hle. rewrite Rabs_Ropp in Hle. lra. }
    assert (Hm : r * (- Rabs (nn - n)) <= r * (nn - n)) by (apply Rmult_le_compat_l; lra).
    assert (Hgn : g * n < n) by nra.
    replace ((1 - r) * n + r * nn) with (n + r * (nn - n)) by ring. lra.
  - apply IH. now inversion Hpos.
Qed.

(* ---- ideal gas: total number density P / kT, every density positive ---- *)
Lemma densities_R (U : Units R) T P Ni :
  densities RNum U T P Ni = map (fun x => x / (Rsum Ni * (k_b U * T) / P)) Ni.
Proof. unfold densities, volume, kT. rnum. now rewrite sum_list_Rsum. Qed.

Lemma ideal_gas (U : Units R) T P Ni :
  Rsum Ni <> 0 -> k_b U * T <> 0 -> P <> 0 ->
  Rsum (densities RNum U T P Ni) = P / (k_b U * T).
Proof.
  intros H1 H2 H3. rewrite densities_R, Rsum_map_div. field.
  assert (T <> 0) by (intros ->; apply H2; ring). assert (k_b U <> 0) by (intros E; apply H2; rewrite E; ring). auto.
Qed.

Lemma densities_positive (U : Units R) T P Ni :
  0 < k_b U * T -> 0 < P -> Ni <> [] -> Forall (fun x => 0 < x) Ni ->
  Forall (fun x => 0 < x) (densities RNum U T P Ni).
Proof.
  intros HkT HP Hne Hpos. rewrite densities_R. assert (HS : 0 < Rsum Ni) by (apply Forall_pos_sum; assumption).
  assert (HV : 0 < Rsum Ni * (k_b U * T) / P) by (apply Rdiv_lt_0_compat; [apply Rmult_lt_0_compat|]; assumption).
  apply Forall_forall. intros y Hy. apply in_map_iff in Hy. destruct Hy as [x [<- Hx]].
  rewrite Forall_forall in Hpos. apply Rdiv_lt_0_compat; [apply Hpos, Hx | exact HV].
Qed.

(* densities carry the constraint ratios: dividing by the volume scales every constraint total alike *)
Lemma densities_constraint (U : Units R) T P c Ni bk :
  dotR c Ni = bk -> dotR c (densities RNum U T P Ni) = bk / (Rsum Ni * (k_b U * T) / P).
Proof.
  intros H. rewrite densities_R. unfold Rdiv at 1.
  replace (map (fun x => x * / (Rsum Ni * (k_b U * T) / P)) Ni) with (map (fun x => / (Rsum Ni * (k_b U * T) / P) * x) Ni)
    by (apply map_ext; intros; lra).
  rewrite dot_scal_r, H. unfold Rdiv. lra.
Qed.

(* ---- every reachable iterate: any number of relaxed updates, any proposals, any governor factors in (0, 1) ---- *)
Definition run_iterates (N0 : list R) (steps : list (R * list R)) : list R :=
  fold_left (fun Ni st => relaxed RNum (relax_factor RNum (fst st) Ni (snd st)) Ni (snd st)) steps N0.

Lemma run_iterates_positive (steps : list (R * list R)) : forall N0,
  Forall (fun x => 0 < x) N0 ->
  Forall (fun st => 0 < fst st < 1 /\ List.length (snd st) = List.length N0) steps ->
  Forall (fun x => 0 < x) (run_iterates N0 steps) /\ List.length (run_iterates N0 steps) = List.length N0.
Proof.
  induction steps as [|[g Nn] steps IH]; intros N0 Hpos Hst; cbn [run_iterates fold_left]; [split; [exact Hpos | reflexivity]|].
  inversion Hst as [|st l [Hg Hl] Hrest]; subst. cbn [fst snd] in *.
  assert (Hp1 := iterates_positive g N0 Nn Hg Hpos (eq_sym Hl)).
  assert (Hl1 : List.length (relaxed RNum (relax_factor RNum g N0 Nn) N0 Nn) = List.length N0)
    by (rewrite relaxed_R; apply map2_length; now symmetry).
  fold (run_iterates (relaxed RNum (relax_factor RNum g N0 Nn) N0 Nn) steps).
  destruct (IH _ Hp1) as [A B].
  - eapply Forall_impl; [|exact Hrest]. intros st [H1 H2]. split; [exact H1 | now rewrite Hl1].
  - split; [exact A | now rewrite B].
Qed.

(* along any run whose proposals satisfy a constraint row, the residual of that row is the initial one times a factor in [0, 1):
   it never grows, never changes sign, and is exactly zero from the first full step (r = 1) on *)
Lemma run_residual_contracts (c : list R) (bk : R) (steps : list (R * list R)) : forall N0,
  Forall (fun x => 0 < x) N0 -> List.length c = List.length N0 ->
  Forall (fun st => 0 < fst st < 1 /\ List.length (snd st) = List.length N0 /\ dotR c (snd st) = bk) steps ->
  exists rho, 0 <= rho <= 1 /\ dotR c (run_iterates N0 steps) - bk = rho * (dotR c N0 - bk).
Proof.
  induction steps as [|[g Nn] steps IH]; intros N0 Hpos Hc Hst; cbn [run_iterates fold_left].
  - exists 1. split; [lra | ring].
  - assert (Hhd := Forall_inv Hst). assert (Hrest := Forall_inv_tail Hst). cbn [fst snd] in Hhd. destruct Hhd as [Hg [Hl Hb]].
    set (r := relax_factor RNum g N0 Nn). set (N1 := relaxed RNum r N0 Nn).
    assert (Hr : 0 < r <= 1) by (apply (relax_factor_bounds g N0 Nn (proj1 Hg) Hpos (eq_sym Hl))).
    assert (Hp1 : Forall (fun x => 0 < x) N1) by (apply iterates_positive; [exact Hg | exact Hpos | now symmetry]).
    assert (Hl1 : List.length N1 = List.length N0) by (unfold N1; rewrite relaxed_R; apply map2_length; now symmetry).
    change (exists rho, 0 <= rho <= 1 /\ dotR c (run_iterates N1 steps) - bk = rho * (dotR c N0 - bk)).
    destruct (IH N1 Hp1) as [rho [Hrho E]].
    + now rewrite Hl1.
    + eapply Forall_impl; [|exact Hrest]. intros st [H1 [H2 H3]]. split; [exact H1 | split; [now rewrite Hl1 | exact H3]].
    + exists (rho * (1 - r)). split; [nra|].
      rewrite E. unfold N1. rewrite (relax_contracts_residual c N0 Nn bk r Hc (eq_sym Hl) Hb). ring.
Qed.
