From Coq Require Import Reals List Lra Lia Arith ZArith Permutation.
Import ListNotations.
From MPC Require Import Num Species RInst StatMech RVec RSumIdx GenTransport Transport C07_proofs C05_transport.
Open Scope R_scope.

(* every regenerated block is equivariant under re-listing of the species: straight from the generated definitions *)
Section BlocksPerm.
Variables (nb : nat) (sigma tau : nat -> nat).
Hypothesis Hs : forall i, (i < nb)%nat -> (sigma i < nb)%nat.
Hypothesis Hts : forall i, (i < nb)%nat -> tau (sigma i) = i.
Variables (masses nd : nat -> R).
Variables Q11 Q12 Q13 Q14 Q15 Q16 Q17 Q22 Q23 Q24 Q25 Q26 Q33 Q34 Q35 Q44 : nat -> nat -> R.
Notation mp := (fun i => masses (sigma i)).
Notation np := (fun i => nd (sigma i)).
Notation "'P' Q" := (fun i j => Q (sigma i) (sigma j)) (at level 0, Q at level 0).

Lemma delta_sigma i j : (i < nb)%nat -> (j < nb)%nat -> delta RNum i j = delta RNum (sigma i) (sigma j).
Proof.
  intros Hi Hj. rewrite (delta_R i j), (delta_R (sigma i) (sigma j)). unfold dlt.
  destruct (Nat.eqb_spec i j) as [E1|N1].
  - subst j. rewrite Nat.eqb_refl. reflexivity.
  - destruct (Nat.eqb_spec (sigma i) (sigma j)) as [E2|N2]; [|reflexivity].
    exfalso. apply N1. rewrite <- (Hts i Hi), <- (Hts j Hj). now rewrite E2.
Qed.

Ltac perm_block i j Hi Hj :=
  cbv zeta; rnum; rewrite !sum_left_R, !Rplus_0_l;
  rewrite (delta_sigma i j Hi Hj);
  f_equal;
  match goal with |- Rsum (map ?F (seq 0 nb)) = Rsum (map ?G (seq 0 nb)) =>
    change (sumn nb F = sumn nb G); rewrite <- (sumn_perm nb sigma tau Hs Hts G);
    apply sumn_ext; intros l Hl; cbv beta;
    rewrite ?(delta_sigma j l Hj Hl), ?(delta_sigma i l Hi Hl); reflexivity
  end.

Lemma q01_perm i j : (i < nb)%nat -> (j < nb)%nat ->
  q01 RNum (P Q11) (P Q12) mp nb np i j = q01 RNum Q11 Q12 masses nb nd (sigma i) (sigma j).
Proof. intros Hi Hj. unfold q01. perm_block i j Hi Hj. Qed.
Lemma q00_perm i j : (i < nb)%nat -> (j < nb)%nat ->
  q00 RNum (P Q11) mp nb np i j = q00 RNum Q11 masses nb nd (sigma i) (sigma j).
Proof. intros Hi Hj. unfold q00. perm_block i j Hi Hj. Qed.
Lemma q02_perm i j : (i < nb)%nat -> (j < nb)%nat ->
  q02 RNum (P Q11) (P Q12) (P Q13) mp nb np i j = q02 RNum Q11 Q12 Q13 masses nb nd (sigma i) (sigma j).
Proof. intros Hi Hj. unfold q02. perm_block i j Hi Hj. Qed.
Lemma q03_perm i j : (i < nb)%nat -> (j < nb)%nat ->
  q03 RNum (P Q11) (P Q12) (P Q13) (P Q14) mp nb np i j = q03 RNum Q11 Q12 Q13 Q14 masses nb nd (sigma i) (sigma j).
Proof. intros Hi Hj. unfold q03. perm_block i j Hi Hj. Qed.
Lemma q11_perm i j : (i < nb)%nat -> (j < nb)%nat ->
  q11 RNum (P Q11) (P Q12) (P Q13) (P Q22) mp nb np i j = q11 RNum Q11 Q12 Q13 Q22 masses nb nd (sigma i) (sigma j).
Proof. intros Hi Hj. unfold q11. perm_block i j Hi Hj. Qed.
Lemma q12_perm i j : (i < nb)%nat -> (j < nb)%nat ->
  q12 RNum (P Q11) (P Q12) (P Q13) (P Q14) (P Q22) (P Q23) mp nb np i j = q12 RNum Q11 Q12 Q13 Q14 Q22 Q23 masses nb nd (sigma i) (sigma j).
Proof. intros Hi Hj. unfold q12. perm_block i j Hi Hj. Qed.
Lemma q13_perm i j : (i < nb)%nat -> (j < nb)%nat ->
  q13 RNum (P Q11) (P Q12) (P Q13) (P Q14) (P Q15) (P Q22) (P Q23) (P Q24) mp nb np i j = q13 RNum Q11 Q12 Q13 Q14 Q15 Q22 Q23 Q24 masses nb nd (sigma i) (sigma j).
Proof. intros Hi Hj. unfold q13. perm_block i j Hi Hj. Qed.
Lemma q22_perm i j : (i < nb)%nat -> (j < nb)%nat ->
  q22 RNum (P Q11) (P Q12) (P Q13) (P Q14) (P Q15) (P Q22) (P Q23) (P Q24) (P Q33) mp nb np i j = q22 RNum Q11 Q12 Q13 Q14 Q15 Q22 Q23 Q24 Q33 masses nb nd (sigma i) (sigma j).
Proof. intros Hi Hj. unfold q22. perm_block i j Hi Hj. Qed.
Lemma q23_perm i j : (i < nb)%nat -> (j < nb)%nat ->
  q23 RNum (P Q11) (P Q12) (P Q13) (P Q14) (P Q15) (P Q16) (P Q22) (P Q23) (P Q24) (P Q25) (P Q33) (P Q34) mp nb np i j = q23 RNum Q11 Q12 Q13 Q14 Q15 Q16 Q22 Q23 Q24 Q25 Q33 Q34 masses nb nd (sigma i) (sigma j).
Proof. intros Hi Hj. unfold q23. perm_block i j Hi Hj. Qed.
Lemma q33_perm i j : (i < nb)%nat -> (j < nb)%nat ->
  q33 RNum (P Q11) (P Q12) (P Q13) (P Q14) (P Q15) (P Q16) (P Q17) (P Q22) (P Q23) (P Q24) (P Q25) (P Q26) (P Q33) (P Q34) (P Q35) (P Q44) mp nb np i j = q33 RNum Q11 Q12 Q13 Q14 Q15 Q16 Q17 Q22 Q23 Q24 Q25 Q26 Q33 Q34 Q35 Q44 masses nb nd (sigma i) (sigma j).
Proof. intros Hi Hj. unfold q33. perm_block i j Hi Hj. Qed.
Lemma qhat00_perm i j : (i < nb)%nat -> (j < nb)%nat ->
  qhat00 RNum (P Q11) (P Q22) mp nb np i j = qhat00 RNum Q11 Q22 masses nb nd (sigma i) (sigma j).
Proof. intros Hi Hj. unfold qhat00. perm_block i j Hi Hj. Qed.
Lemma qhat01_perm i j : (i < nb)%nat -> (j < nb)%nat ->
  qhat01 RNum (P Q11) (P Q12) (P Q22) (P Q23) mp nb np i j = qhat01 RNum Q11 Q12 Q22 Q23 masses nb nd (sigma i) (sigma j).
Proof. intros Hi Hj. unfold qhat01. perm_block i j Hi Hj. Qed.
Lemma qhat11_perm i j : (i < nb)%nat -> (j < nb)%nat ->
  qhat11 RNum (P Q11) (P Q12) (P Q13) (P Q22) (P Q23) (P Q24) (P Q33) mp nb np i j = qhat11 RNum Q11 Q12 Q13 Q22 Q23 Q24 Q33 masses nb nd (sigma i) (sigma j).
Proof. intros Hi Hj. unfold qhat11. perm_block i j Hi Hj. Qed.
End BlocksPerm.

(* ---- assembled blocks, linear systems and every transport output ---- *)
Section SystemsPerm.
Variables (nb : nat) (sigma tau : nat -> nat).
Hypothesis Hs : forall i, (i < nb)%nat -> (sigma i < nb)%nat.
Hypothesis Hts : forall i, (i < nb)%nat -> tau (sigma i) = i.
Variables (masses nd : nat -> R) (Q : @qints R).
Variable U : Units R.
Variable T : R.

Notation mp := (fun i => masses (sigma i)).
Notation np := (fun i => nd (sigma i)).
Definition qints_p : @qints R :=
  mkQints (fun i j => I11 Q (sigma i) (sigma j)) (fun i j => I12 Q (sigma i) (sigma j)) (fun i j => I13 Q (sigma i) (sigma j))
          (fun i j => I14 Q (sigma i) (sigma j)) (fun i j => I15 Q (sigma i) (sigma j)) (fun i j => I16 Q (sigma i) (sigma j))
          (fun i j => I17 Q (sigma i) (sigma j)) (fun i j => I22 Q (sigma i) (sigma j)) (fun i j => I23 Q (sigma i) (sigma j))
          (fun i j => I24 Q (sigma i) (sigma j)) (fun i j => I25 Q (sigma i) (sigma j)) (fun i j => I26 Q (sigma i) (sigma j))
          (fun i j => I33 Q (sigma i) (sigma j)) (fun i j => I34 Q (sigma i) (sigma j)) (fun i j => I35 Q (sigma i) (sigma j))
          (fun i j => I44 Q (sigma i) (sigma j)).

Lemma qblock_perm p p' i j : (i < nb)%nat -> (j < nb)%nat ->
  qblock RNum qints_p mp nb np p p' i j = qblock RNum Q masses nb nd p p' (sigma i) (sigma j).
Proof.
  intros Hi Hj. unfold qblock, b00, b01, b02, b03, b11, b12, b13, b22, b23, b33, mr, qints_p.
  cbn [I11 I12 I13 I14 I15 I16 I17 I22 I23 I24 I25 I26 I33 I34 I35 I44].
  destruct p as [|[|[|[|p]]]], p' as [|[|[|[|p']]]]; try reflexivity;
    rewrite ?(q00_perm nb sigma tau Hs Hts), ?(q01_perm nb sigma tau Hs Hts), ?(q02_perm nb sigma tau Hs Hts), ?(q03_perm nb sigma tau Hs Hts),
            ?(q11_perm nb sigma tau Hs Hts), ?(q12_perm nb sigma tau Hs Hts), ?(q13_perm nb sigma tau Hs Hts), ?(q22_perm nb sigma tau Hs Hts),
            ?(q23_perm nb sigma tau Hs Hts), ?(q33_perm nb sigma tau Hs Hts) by assumption; reflexivity.
Qed.

Lemma qhatblock_perm p p' i j : (i < nb)%nat -> (j < nb)%nat ->
  qhatblock RNum qints_p mp nb np p p' i j = qhatblock RNum Q masses nb nd p p' (sigma i) (sigma j).
Proof.
  intros Hi Hj. unfold qhatblock, h00, h01, h11, mr, qints_p. cbn [I11 I12 I13 I22 I23 I24 I33].
  destruct p as [|[|p]], p' as [|[|p']]; try reflexivity;
    rewrite ?(qhat00_perm nb sigma tau Hs Hts), ?(qhat01_perm nb sigma tau Hs Hts), ?(qhat11_perm nb sigma tau Hs Hts) by assumption; reflexivity.
Qed.

(* the 4 nu x 4 nu system  q x = rhs  in block form (rows (p, i), unknowns x p' j) *)
Definition q_rows (ms ns : nat -> R) (Qs : @qints R) (rhs x : nat -> nat -> R) : Prop :=
  forall p i, (p < 4)%nat -> (i < nb)%nat ->
    sumn 4 (fun p' => sumn nb (fun j => qblock RNum Qs ms nb ns p p' i j * x p' j)) = rhs p i.
Definition qhat_rows (ms ns : nat -> R) (Qs : @qints R) (rhs x : nat -> nat -> R) : Prop :=
  forall p i, (p < 2)%nat -> (i < nb)%nat ->
    sumn 2 (fun p' => sumn nb (fun j => qhatblock RNum Qs ms nb ns p p' i j * x p' j)) = rhs p i.

Theorem q_rows_perm rhs x :
  q_rows masses nd Q rhs x -> q_rows mp np qints_p (fun p i => rhs p (sigma i)) (fun p i => x p (sigma i)).
Proof.
  intros H p i Hp Hi. rewrite <- (H p (sigma i) Hp (Hs i Hi)). apply sumn_ext. intros p' _.
  rewrite <- (sumn_perm nb sigma tau Hs Hts (fun j => qblock RNum Q masses nb nd p p' (sigma i) j * x p' j)).
  apply sumn_ext. intros j Hj. cbv beta. rewrite (qblock_perm p p' i j Hi Hj). reflexivity.
Qed.

Theorem qhat_rows_perm rhs x :
  qhat_rows masses nd Q rhs x -> qhat_rows mp np qints_p (fun p i => rhs p (sigma i)) (fun p i => x p (sigma i)).
Proof.
  intros H p i Hp Hi. rewrite <- (H p (sigma i) Hp (Hs i Hi)). apply sumn_ext. intros p' _.
  rewrite <- (sumn_perm nb sigma tau Hs Hts (fun j => qhatblock RNum Q masses nb nd p p' (sigma i) j * x p' j)).
  apply sumn_ext. intros j Hj. cbv beta. rewrite (qhatblock_perm p p' i j Hi Hj). reflexivity.
Qed.

(* right-hand sides used by the code are equivariant *)
Lemma visc_rhs_perm i : visc_rhs0 RNum U T mp np i = visc_rhs0 RNum U T masses nd (sigma i).
Proof. reflexivity. Qed.
Lemma DTi_rhs_perm i : DTi_rhs1 RNum np i = DTi_rhs1 RNum nd (sigma i).
Proof. reflexivity. Qed.
Lemma Dij_rhs_perm i j h : (i < nb)%nat -> (j < nb)%nat -> (h < nb)%nat ->
  Dij_rhs RNum i j h = Dij_rhs RNum (sigma i) (sigma j) (sigma h).
Proof.
  intros Hi Hj Hh. unfold Dij_rhs. rewrite (delta_sigma nb sigma tau Hts h i Hh Hi), (delta_sigma nb sigma tau Hts h j Hh Hj). reflexivity.
Qed.

(* final formulae *)
Lemma idx_sum_perm (g : nat -> R) : idx_sum RNum nb (fun i => g (sigma i)) = idx_sum RNum nb g.
Proof. unfold idx_sum. rewrite !sum_left_R. apply (sumn_perm nb sigma tau Hs Hts). Qed.

Theorem visc_value_perm b0 : visc_value RNum U T np nb (fun i => b0 (sigma i)) = visc_value RNum U T nd nb b0.
Proof.
  unfold visc_value. f_equal. change (idx_sum RNum nb (fun i => (fun i' => nd i' * b0 i') (sigma i)) = idx_sum RNum nb (fun i => nd i * b0 i)).
  apply idx_sum_perm.
Qed.
Theorem kdash_value_perm a1 : kdash_value RNum U T mp np nb (fun i => a1 (sigma i)) = kdash_value RNum U T masses nd nb a1.
Proof.
  unfold kdash_value. f_equal.
  change (idx_sum RNum nb (fun i => (fun i' => nmul RNum (nmul RNum (nd i') (nsqrt RNum (ndiv RNum (nmul RNum (nofZ RNum 2) (kTv RNum U T)) (masses i')))) (a1 i')) (sigma i))
          = idx_sum RNum nb (fun i' => nmul RNum (nmul RNum (nd i') (nsqrt RNum (ndiv RNum (nmul RNum (nofZ RNum 2) (kTv RNum U T)) (masses i')))) (a1 i'))).
  apply idx_sum_perm.
Qed.
Theorem DTi_value_perm a0 i : DTi_value RNum U T mp np i (a0 (sigma i)) = DTi_value RNum U T masses nd (sigma i) (a0 (sigma i)).
Proof. reflexivity. Qed.
Theorem Dij_value_perm rho ntot i j c0 : Dij_value RNum U rho ntot T mp np i j c0 = Dij_value RNum U rho ntot T masses nd (sigma i) (sigma j) c0.
Proof. reflexivity. Qed.
Theorem sigma_value_perm rho ntot charges De :
  sigma_value RNum U rho ntot T mp np (fun j => charges (sigma j)) nb (fun j => De (sigma j)) = sigma_value RNum U rho ntot T masses nd charges nb De.
Proof.
  unfold sigma_value. f_equal.
  change (idx_sum RNum nb (fun j => (fun j' => nmul RNum (nmul RNum (nmul RNum (nd j') (masses j')) (charges j')) (De j')) (sigma j))
          = idx_sum RNum nb (fun j' => nmul RNum (nmul RNum (nmul RNum (nd j') (masses j')) (charges j')) (De j'))).
  apply idx_sum_perm.
Qed.
Theorem kappa_total_perm dt rho ntot lim hv DT dxdT (D : nat -> nat -> R) kdash :
  kappa_total RNum U dt rho ntot T lim mp np (fun i => hv (sigma i)) (fun i => DT (sigma i)) (fun i => dxdT (sigma i))
              (fun i j => D (sigma i) (sigma j)) nb kdash
  = kappa_total RNum U dt rho ntot T lim masses nd hv DT dxdT D nb kdash.
Proof.
  unfold kappa_total, kdt_value, krxn_enth_value, krxn_therm_value, idx_sum. rewrite !sum_left_R. rnum.
  assert (E1 : Rsum (map (fun i => hv (sigma i) * DT (sigma i) / T) (seq 0 nb)) = Rsum (map (fun i => hv i * DT i / T) (seq 0 nb)))
    by (apply (sumn_perm nb sigma tau Hs Hts (fun i' => hv i' * DT i' / T))).
  assert (E2 : Rsum (map (fun i => DT (sigma i) * (if Rltb (nd (sigma i)) lim then 0 else dxdT (sigma i)) / (nd (sigma i) * masses (sigma i))) (seq 0 nb))
               = Rsum (map (fun i => DT i * (if Rltb (nd i) lim then 0 else dxdT i) / (nd i * masses i)) (seq 0 nb)))
    by (apply (sumn_perm nb sigma tau Hs Hts (fun i' => DT i' * (if Rltb (nd i') lim then 0 else dxdT i') / (nd i' * masses i')))).
  rewrite E1, E2.
  assert (E : Rsum (map (fun j => sum_left RNum (map (fun i => masses (sigma j) * masses (sigma i) * hv (sigma i) * D (sigma i) (sigma j) * dxdT (sigma j)) (seq 0 nb))) (seq 0 nb))
              = Rsum (map (fun j => sum_left RNum (map (fun i => masses j * masses i * hv i * D i j * dxdT j) (seq 0 nb))) (seq 0 nb))).
  { change (sumn nb (fun j => sum_left RNum (map (fun i => masses (sigma j) * masses (sigma i) * hv (sigma i) * D (sigma i) (sigma j) * dxdT (sigma j)) (seq 0 nb)))
            = sumn nb (fun j => sum_left RNum (map (fun i => masses j * masses i * hv i * D i j * dxdT j) (seq 0 nb)))).
    rewrite <- (sumn_perm nb sigma tau Hs Hts (fun j => sum_left RNum (map (fun i => masses j * masses i * hv i * D i j * dxdT j) (seq 0 nb)))).
    apply sumn_ext. intros j _. cbv beta. rewrite !sum_left_R.
    apply (sumn_perm nb sigma tau Hs Hts (fun i => masses (sigma j) * masses i * hv i * D i (sigma j) * dxdT (sigma j))). }
  rewrite E. reflexivity.
Qed.
End SystemsPerm.
