(* C12, species splitting, translational thermal conductivity: the theorem (row forms are in C12_forms.v). *)
From Coq Require Import Reals List Lra Lia Arith ZArith Bool.
Import ListNotations.
From MPC Require Import Num Species RInst StatMech RVec RSumIdx BracketTables ChapmanEnskog GenTransport Transport C12_proofs C11_base C11_proofs C12_split C12_forms.
Open Scope R_scope.

(* ---- splitting ---- *)
From MPC Require Import C07_proofs C05_transport C05_blocks.

Section SplitQ.
Variables (masses nd : nat -> R) (nb k : nat) (f : R).
Variable Qbar : nat -> nat -> nat -> nat -> R.
Hypothesis Hk : (k < nb)%nat.
Notation m' := (masses' masses nb k).
Notation n' := (nd' nd nb k f).
Notation Q' := (Qbar' nb k Qbar).
Notation o := (origin nb k).

Lemma gen_split_row (K1 K2 K1' K2' : nat -> nat -> R) (y : nat -> R) i :
  (forall a b, K1' a b = K1 (o a) (o b)) -> (forall a b, K2' a b = K2 (o a) (o b)) -> (i < S nb)%nat ->
  nd (o i) * sumn (S nb) (fun j => gen_spec m' n' (S nb) K1' K2' i j * y (o j))
  = n' i * sumn nb (fun j => gen_spec masses nd nb K1 K2 (o i) j * y j).
Proof.
  intros H1 H2 Hi. rewrite (gen_row m' n' (S nb) K1' K2' (fun j => y (o j)) i Hi).
  rewrite (gen_row masses nd nb K1 K2 y (o i) (origin_lt nb k Hk i Hi)).
  rewrite (sumn_ext (S nb) (fun l => n' l * K1' i l) (fun l => n' l * K1 (o i) (o l))) by (intros; rewrite H1; reflexivity).
  rewrite (split_sum nd nb k f Hk (fun l => K1 (o i) l)).
  rewrite (sumn_ext (S nb) (fun l => n' l * K2' i l * y (o l)) (fun l => n' l * (K2 (o i) (o l) * y (o l)))) by (intros; rewrite H2; ring).
  rewrite (split_sum nd nb k f Hk (fun l => K2 (o i) l * y l)).
  rewrite (sumn_ext nb (fun l => nd l * (K2 (o i) l * y l)) (fun l => nd l * K2 (o i) l * y l)) by (intros; ring).
  unfold masses'. ring.
Qed.

Lemma spec_split_row t11 t12 (y : nat -> R) i : (i < S nb)%nat ->
  nd (o i) * sumn (S nb) (fun j => q_spec m' n' (S nb) Q' t11 t12 i j * y (o j))
  = n' i * sumn nb (fun j => q_spec masses nd nb Qbar t11 t12 (o i) j * y j).
Proof.
  intros Hi. apply (gen_split_row (BR masses Qbar t11) (BRv12 masses Qbar t12) (BR m' Q' t11) (BRv12 m' Q' t12) y i); [reflexivity | reflexivity | exact Hi].
Qed.

Variable U : Units R.
Variable T : R.
Hypothesis Hm : forall i, 0 < masses i.
Hypothesis Hn : forall i, (i < nb)%nat -> nd i <> 0.

Definition kdash_rhs (ns : nat -> R) (p i : nat) : R := if Nat.eqb p 1 then DTi_rhs1 RNum ns i else 0.

Theorem kdash_split_invariant (x : nat -> nat -> R) :
  q_rows nb masses nd (qints_of Qbar) (kdash_rhs nd) x ->
  sumn nb (fun j => nd j * sqrt (masses j) * x 0%nat j) = 0 ->
  q_rows (S nb) m' n' (qints_of Q') (kdash_rhs n') (fun p i => x p (o i)) /\
  kdash_value RNum U T m' n' (S nb) (fun i => x 1%nat (o i)) = kdash_value RNum U T masses nd nb (x 1%nat).
Proof.
  intros Hsys Hmom. destruct qblock_form as [T11 [T12 Hform]]. split.
  - intros p i Hp Hi. specialize (Hsys p (o i) Hp (origin_lt nb k Hk i Hi)).
    assert (Hm' : forall i0, 0 < m' i0) by (intros; apply Hm).
    (* momentum sums vanish in both systems *)
    assert (Hmom' : sumn (S nb) (fun j => n' j * sqrt (m' j) * x 0%nat (o j)) = 0).
    { rewrite (sumn_ext (S nb) _ (fun j => n' j * (fun l => sqrt (masses l) * x 0%nat l) (o j))) by (intros; unfold masses'; ring).
      rewrite (split_sum nd nb k f Hk (fun l => sqrt (masses l) * x 0%nat l)). rewrite <- Hmom. apply sumn_ext. intros; ring. }
    (* each block row: first-principles part + (for the first block) the constraint part, which vanishes *)
    assert (R' : forall p', (p' < 4)%nat ->
      sumn (S nb) (fun j => qblock RNum (qints_of Q') m' (S nb) n' p p' i j * x p' (o j))
      = sumn (S nb) (fun j => q_spec m' n' (S nb) Q' (T11 p p') (T12 p p') i j * x p' (o j))).
    { intros p' Hp'. rewrite (sumn_ext (S nb) _ (fun j => q_spec m' n' (S nb) Q' (T11 p p') (T12 p p') i j * x p' (o j)
                 + (if (Nat.eqb p 0 && Nat.eqb p' 0)%bool then q00_constraint m' n' (S nb) Q' i j * x p' (o j) else 0))).
      - rewrite sumn_plus. destruct (Nat.eqb p 0 && Nat.eqb p' 0)%bool eqn:E; [|rewrite sumn_zero; ring].
        apply andb_true_iff in E. destruct E as [_ E2]. apply Nat.eqb_eq in E2. subst p'.
        rewrite (constraint_row m' n' (S nb) Q' (fun j => x 0%nat (o j)) i), Hmom'. ring.
      - intros j _. rewrite (Hform m' n' (S nb) Hm' Q' p p' i j Hp Hp'). destruct (Nat.eqb p 0 && Nat.eqb p' 0)%bool; ring. }
    assert (R : forall p', (p' < 4)%nat ->
      sumn nb (fun j => qblock RNum (qints_of Qbar) masses nb nd p p' (o i) j * x p' j)
      = sumn nb (fun j => q_spec masses nd nb Qbar (T11 p p') (T12 p p') (o i) j * x p' j)).
    { intros p' Hp'. rewrite (sumn_ext nb _ (fun j => q_spec masses nd nb Qbar (T11 p p') (T12 p p') (o i) j * x p' j
                 + (if (Nat.eqb p 0 && Nat.eqb p' 0)%bool then q00_constraint masses nd nb Qbar (o i) j * x p' j else 0))).
      - rewrite sumn_plus. destruct (Nat.eqb p 0 && Nat.eqb p' 0)%bool eqn:E; [|rewrite sumn_zero; ring].
        apply andb_true_iff in E. destruct E as [_ E2]. apply Nat.eqb_eq in E2. subst p'.
        rewrite (constraint_row masses nd nb Qbar (x 0%nat) (o i)), Hmom. ring.
      - intros j _. rewrite (Hform masses nd nb Hm Qbar p p' (o i) j Hp Hp'). destruct (Nat.eqb p 0 && Nat.eqb p' 0)%bool; ring. }
    unfold sumn at 1. cbn [seq map Rsum]. unfold sumn at 1 in Hsys. cbn [seq map Rsum] in Hsys.
    rewrite (R 0%nat), (R 1%nat), (R 2%nat), (R 3%nat) in Hsys by lia. rewrite (R' 0%nat), (R' 1%nat), (R' 2%nat), (R' 3%nat) by lia.
    apply Rmult_eq_reg_l with (r := nd (o i)); [|apply Hn, (origin_lt nb k Hk i Hi)].
    rewrite !Rmult_plus_distr_l, Rmult_0_r.
    rewrite (spec_split_row (T11 p 0%nat) (T12 p 0%nat) (x 0%nat) i Hi), (spec_split_row (T11 p 1%nat) (T12 p 1%nat) (x 1%nat) i Hi),
            (spec_split_row (T11 p 2%nat) (T12 p 2%nat) (x 2%nat) i Hi), (spec_split_row (T11 p 3%nat) (T12 p 3%nat) (x 3%nat) i Hi).
    transitivity (n' i * kdash_rhs nd p (o i)); [rewrite <- Hsys; ring|].
    unfold kdash_rhs. destruct (Nat.eqb p 1); [|ring]. unfold DTi_rhs1. rnum. ring.
  - unfold kdash_value. rewrite !sum_left_R. f_equal.
    transitivity (sumn (S nb) (fun i => n' i * (fun l => nsqrt RNum (nofZ RNum 2 * kTv RNum U T / masses l) * x 1%nat l) (o i))).
    + apply sumn_ext. intros i _. cbv beta. unfold masses'. rnum. ring.
    + rewrite (split_sum nd nb k f Hk (fun l => nsqrt RNum (nofZ RNum 2 * kTv RNum U T / masses l) * x 1%nat l)).
      apply sumn_ext. intros i _. rnum. ring.
Qed.
End SplitQ.
