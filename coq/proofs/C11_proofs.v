(* Lemmas behind thm/C11.v: each Devoto block regenerated from functions_transport.py equals the first-principles
   matrix element built from the bracket-integral tables (q22 and q23: see C11_q22_*.v, C11_q23_*.v). *)
From Coq Require Import Reals List Lra Lia Arith ZArith.
Import ListNotations.
From MPC Require Import Num Species RInst StatMech RVec RSumIdx BracketTables ChapmanEnskog GenTransport Transport C12_proofs C11_base.
Open Scope R_scope.

Section C11.
Variables (masses nd : nat -> R) (nb : nat).
Hypothesis Hm : forall i, 0 < masses i.
Variable Qbar : nat -> nat -> nat -> nat -> R.

Lemma q01_eq_spec i j :
  q01 RNum (Qbar 1 1) (Qbar 1 2) masses nb nd i j = q_spec masses nd nb Qbar v11_01 v12_01 i j.
Proof.
  unfold q01. block_start.
  block_cases masses Hm i j l ltac:(unfold v11_01, v12_01).
Qed.
Lemma q02_eq_spec i j :
  q02 RNum (Qbar 1 1) (Qbar 1 2) (Qbar 1 3) masses nb nd i j = q_spec masses nd nb Qbar v11_02 v12_02 i j.
Proof.
  unfold q02. block_start.
  block_cases masses Hm i j l ltac:(unfold v11_02, v12_02).
Qed.

Lemma q03_eq_spec i j :
  q03 RNum (Qbar 1 1) (Qbar 1 2) (Qbar 1 3) (Qbar 1 4) masses nb nd i j = q_spec masses nd nb Qbar v11_03 v12_03 i j.
Proof.
  unfold q03. block_start.
  block_cases masses Hm i j l ltac:(unfold v11_03, v12_03).
Qed.

Lemma q11_eq_spec i j :
  q11 RNum (Qbar 1 1) (Qbar 1 2) (Qbar 1 3) (Qbar 2 2) masses nb nd i j = q_spec masses nd nb Qbar v11_11 v12_11 i j.
Proof.
  unfold q11. block_start.
  block_cases masses Hm i j l ltac:(unfold v11_11, v12_11).
Qed.

Lemma q12_eq_spec i j :
  q12 RNum (Qbar 1 1) (Qbar 1 2) (Qbar 1 3) (Qbar 1 4) (Qbar 2 2) (Qbar 2 3) masses nb nd i j = q_spec masses nd nb Qbar v11_12 v12_12 i j.
Proof.
  unfold q12. block_start.
  block_cases masses Hm i j l ltac:(unfold v11_12, v12_12).
Qed.

Lemma q13_eq_spec i j :
  q13 RNum (Qbar 1 1) (Qbar 1 2) (Qbar 1 3) (Qbar 1 4) (Qbar 1 5) (Qbar 2 2) (Qbar 2 3) (Qbar 2 4) masses nb nd i j = q_spec masses nd nb Qbar v11_13 v12_13 i j.
Proof.
  unfold q13. block_start.
  block_cases masses Hm i j l ltac:(unfold v11_13, v12_13).
Qed.

Lemma q33_eq_spec i j :
  q33 RNum (Qbar 1 1) (Qbar 1 2) (Qbar 1 3) (Qbar 1 4) (Qbar 1 5) (Qbar 1 6) (Qbar 1 7) (Qbar 2 2) (Qbar 2 3) (Qbar 2 4) (Qbar 2 5) (Qbar 2 6) (Qbar 3 3) (Qbar 3 4) (Qbar 3 5) (Qbar 4 4) masses nb nd i j = q_spec masses nd nb Qbar v11_33 v12_33 i j.
Proof.
  unfold q33. block_start.
  block_cases masses Hm i j l ltac:(unfold v11_33, v12_33).
Qed.

Lemma qhat00_eq_spec i j :
  qhat00 RNum (Qbar 1 1) (Qbar 2 2) masses nb nd i j = qhat_spec masses nd nb Qbar t11_00 t12_00 i j.
Proof.
  unfold qhat00. block_start.
  block_cases masses Hm i j l ltac:(unfold t11_00, t12_00).
Qed.

Lemma qhat01_eq_spec i j :
  qhat01 RNum (Qbar 1 1) (Qbar 1 2) (Qbar 2 2) (Qbar 2 3) masses nb nd i j = qhat_spec masses nd nb Qbar t11_01 t12_01 i j.
Proof.
  unfold qhat01. block_start.
  block_cases masses Hm i j l ltac:(unfold t11_01, t12_01).
Qed.

Lemma qhat11_eq_spec i j :
  qhat11 RNum (Qbar 1 1) (Qbar 1 2) (Qbar 1 3) (Qbar 2 2) (Qbar 2 3) (Qbar 2 4) (Qbar 3 3) masses nb nd i j = qhat_spec masses nd nb Qbar t11_11 t12_11 i j.
Proof.
  unfold qhat11. block_start.
  block_cases masses Hm i j l ltac:(unfold t11_11, t12_11).
Qed.

(* q00: first-principles element plus Devoto's mass-flux constraint term *)
Lemma q00_eq_spec i j :
  q00 RNum (Qbar 1 1) masses nb nd i j = q_spec masses nd nb Qbar v11_00 v12_00 i j + q00_constraint masses nd nb Qbar i j.
Proof.
  rewrite (q00_form masses nd nb Hm). unfold q00_constraint, Rminus. f_equal.
  unfold q_spec, sumn. rewrite <- !Rsum_map_scal, ?map_map.
  apply Rsum_map_ext_in; intros l _; unfold dlt.
  block_cases masses Hm i j l ltac:(unfold v11_00, v12_00).
Qed.

(* the lower blocks obtained from the upper ones by powers of the mass ratio are the first-principles elements with p, q exchanged
   (the rule is the symmetry [F, G] = [G, F] of the bracket integrals) *)
Lemma q10_eq_spec i j :
  masses j / masses i * q01 RNum (Qbar 1 1) (Qbar 1 2) masses nb nd i j = q_spec masses nd nb Qbar v11_10 v12_10 i j.
Proof.
  unfold q01. cbv zeta; rnum; rewrite sum_left_R, Rplus_0_l.
  unfold q_spec, qhat_spec, sumn. rewrite <- !Rsum_map_scal, ?map_map.
  apply Rsum_map_ext_in; intros l _; change (@delta R RNum) with dlt; unfold dlt.
  block_cases masses Hm i j l ltac:(unfold v11_10, v12_10).
Qed.

Lemma q20_eq_spec i j :
  (masses j / masses i) ^ 2 * q02 RNum (Qbar 1 1) (Qbar 1 2) (Qbar 1 3) masses nb nd i j = q_spec masses nd nb Qbar v11_20 v12_20 i j.
Proof.
  unfold q02. cbv zeta; rnum; rewrite sum_left_R, Rplus_0_l.
  unfold q_spec, qhat_spec, sumn. rewrite <- !Rsum_map_scal, ?map_map.
  apply Rsum_map_ext_in; intros l _; change (@delta R RNum) with dlt; unfold dlt.
  block_cases masses Hm i j l ltac:(unfold v11_20, v12_20).
Qed.

Lemma q30_eq_spec i j :
  (masses j / masses i) ^ 3 * q03 RNum (Qbar 1 1) (Qbar 1 2) (Qbar 1 3) (Qbar 1 4) masses nb nd i j = q_spec masses nd nb Qbar v11_30 v12_30 i j.
Proof.
  unfold q03. cbv zeta; rnum; rewrite sum_left_R, Rplus_0_l.
  unfold q_spec, qhat_spec, sumn. rewrite <- !Rsum_map_scal, ?map_map.
  apply Rsum_map_ext_in; intros l _; change (@delta R RNum) with dlt; unfold dlt.
  block_cases masses Hm i j l ltac:(unfold v11_30, v12_30).
Qed.

Lemma q21_eq_spec i j :
  masses j / masses i * q12 RNum (Qbar 1 1) (Qbar 1 2) (Qbar 1 3) (Qbar 1 4) (Qbar 2 2) (Qbar 2 3) masses nb nd i j = q_spec masses nd nb Qbar v11_21 v12_21 i j.
Proof.
  unfold q12. cbv zeta; rnum; rewrite sum_left_R, Rplus_0_l.
  unfold q_spec, qhat_spec, sumn. rewrite <- !Rsum_map_scal, ?map_map.
  apply Rsum_map_ext_in; intros l _; change (@delta R RNum) with dlt; unfold dlt.
  block_cases masses Hm i j l ltac:(unfold v11_21, v12_21).
Qed.

Lemma q31_eq_spec i j :
  (masses j / masses i) ^ 2 * q13 RNum (Qbar 1 1) (Qbar 1 2) (Qbar 1 3) (Qbar 1 4) (Qbar 1 5) (Qbar 2 2) (Qbar 2 3) (Qbar 2 4) masses nb nd i j = q_spec masses nd nb Qbar v11_31 v12_31 i j.
Proof.
  unfold q13. cbv zeta; rnum; rewrite sum_left_R, Rplus_0_l.
  unfold q_spec, qhat_spec, sumn. rewrite <- !Rsum_map_scal, ?map_map.
  apply Rsum_map_ext_in; intros l _; change (@delta R RNum) with dlt; unfold dlt.
  block_cases masses Hm i j l ltac:(unfold v11_31, v12_31).
Qed.

Lemma qhat10_eq_spec i j :
  masses j / masses i * qhat01 RNum (Qbar 1 1) (Qbar 1 2) (Qbar 2 2) (Qbar 2 3) masses nb nd i j = qhat_spec masses nd nb Qbar t11_10 t12_10 i j.
Proof.
  unfold qhat01. cbv zeta; rnum; rewrite sum_left_R, Rplus_0_l.
  unfold q_spec, qhat_spec, sumn. rewrite <- !Rsum_map_scal, ?map_map.
  apply Rsum_map_ext_in; intros l _; change (@delta R RNum) with dlt; unfold dlt.
  block_cases masses Hm i j l ltac:(unfold t11_10, t12_10).
Qed.

End C11.
