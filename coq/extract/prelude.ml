(* driver.ml — runs the extracted kernels at IEEE doubles.
   stdin: first line "units <13 floats>", then one case per line: <kernel> <tokens...>.
   stdout: one line per case: space-separated results (floats as %h).
   The double instance of Num is built here and passed as an ordinary argument. *)

external tgamma : float -> float = "caml_tgamma_byte" "tgamma" [@@unboxed] [@@noalloc]

let rec pos_to_float = function
  | XH -> 1.0
  | XO p -> 2.0 *. pos_to_float p
  | XI p -> 2.0 *. pos_to_float p +. 1.0
let z_to_float = function Z0 -> 0.0 | Zpos p -> pos_to_float p | Zneg p -> -. pos_to_float p
let rec pos_of_int n = if n = 1 then XH else if n land 1 = 0 then XO (pos_of_int (n lsr 1)) else XI (pos_of_int (n lsr 1))
let z_of_int n = if n = 0 then Z0 else if n > 0 then Zpos (pos_of_int n) else Zneg (pos_of_int (-n))
let rec nat_of_int n = if n <= 0 then O else S (nat_of_int (n - 1))
let rec int_of_nat = function O -> 0 | S n -> 1 + int_of_nat n
let rec fpow x n = match n with O -> 1.0 | S m -> x *. fpow x m

let num : float num = {
  nadd = ( +. ); nsub = ( -. ); nmul = ( *. ); ndiv = ( /. );
  nopp = (fun x -> -. x); nabs = Float.abs; nexp = Stdlib.exp; nln = Stdlib.log;
  nsqrt = Stdlib.sqrt; ntanh = Stdlib.tanh; nrpow = ( ** ); npow = fpow; ngamma = tgamma;
  nofZ = z_to_float; npi = 4.0 *. atan 1.0;
  nltb = (fun x y -> x < y); nleb = (fun x y -> x <= y); neqb = (fun x y -> x = y) }

(* ---- token stream ---- *)
let toks = ref [||] and pos = ref 0
let next () = let t = !toks.(!pos) in incr pos; t
let fl () = float_of_string (next ())
let it () = int_of_string (next ())
let lst f = let n = it () in Stdlib.List.init n (fun _ -> f ())
let opt f = if it () = 0 then None else Some (f ())

let species () : float species =
  let kind = (match it () with 0 -> KMono | 1 -> KDi | 2 -> KPoly | _ -> KElectron) in
  let sname = nat_of_int (it ()) in
  let stoich = lst (fun () -> let a = nat_of_int (it ()) in let b = nat_of_int (it ()) in (a, b)) in
  let m = fl () in
  let z = z_of_int (it ()) in
  let ie = fl () in
  let de = fl () in
  let levels = lst (fun () -> let j = fl () in let e = fl () in (j, e)) in
  let g0 = fl () in let we = fl () in let be = fl () in let sg = fl () in
  let lin = (it () <> 0) in
  let wi = lst fl in
  let abc = lst fl in
  let pol = fl () in let mult = fl () in
  let eff = opt fl in
  let ecs = opt (fun () -> let a = fl () in let b = fl () in let c = fl () in let d = fl () in (((a, b), c), d)) in
  let lines = lst (fun () -> let a = fl () in let b = fl () in let c = fl () in ((a, b), c)) in
  { kind = kind; sname = sname; stoichiometry = stoich; molar_mass = m; charge_number = z;
    ionisation_energy = ie; dissociation_energy = de; energy_levels = levels; g0 = g0; w_e = we; b_e = be;
    sigma_s = sg; linear_yn = lin; wi_e = wi; abc_e = abc; polarisability = pol; multiplicity = mult;
    effective_electrons = eff; electron_cross_section = ecs; emission_lines = lines }

let units_of_line () : float units =
  let k_b = fl () in let n_a = fl () in let h = fl () in let hbar = fl () in let c = fl () in
  let e = fl () in let m_e = fl () in let eps = fl () in let r = fl () in let k2e = fl () in
  let j2e = fl () in let ke = fl () in let eg = fl () in
  { k_b = k_b; n_a = n_a; h_pl = h; hbar = hbar; c_light = c; e_ch = e; m_e = m_e; epsilon_0 = eps;
    r_gas = r; k_to_eV = k2e; j_to_eV = j2e; ke_c = ke; egamma = eg }


let pf x = Printf.sprintf "%h" x
let out_floats l = print_endline (String.concat " " (Stdlib.List.map pf l))
let split s = Array.of_list (Stdlib.List.filter (fun x -> x <> "") (String.split_on_char ' ' s))
let main dispatch =
  let first = input_line stdin in
  toks := split first; pos := 0;
  if next () <> "units" then failwith "first line must be units";
  let u = units_of_line () in
  (try
    while true do
      let line = input_line stdin in
      toks := split line; pos := 0;
      let k = next () in
      (try dispatch u k with
       | Failure m -> print_endline ("ERROR " ^ m)
       | Invalid_argument m -> print_endline ("ERROR " ^ m))
    done
  with End_of_file -> ())
