(* Extraction of the hand-written exact models (parser, JSON round trip, cache machine).
   ExtrOcamlBasic only; ascii / nat / N / Z stay extracted inductive datatypes. *)
From Coq Require Extraction.
From Coq Require Import ExtrOcamlBasic.
From MPC Require Import Parser.
Extraction "kernels_models.ml" nist_string nist_energy_levels.
