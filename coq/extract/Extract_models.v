(* Extraction of the hand-written exact models (parser, species I/O).
   ExtrOcamlBasic only; ascii / string / nat / N / Z stay extracted inductive datatypes. *)
From Coq Require Extraction.
From Coq Require Import ExtrOcamlBasic.
From MPC Require Import Parser SpeciesIO SpeciesIOInst.
Extraction "kernels_models.ml" nist_string nist_energy_levels SaveLoad Construct class_by_name norm_obj.
