(* Extraction of the cache state machine at the regenerated effect summaries. ExtrOcamlBasic only. *)
From Coq Require Extraction.
From Coq Require Import ExtrOcamlBasic.
From MPC Require Import Cache GenEffects.
Definition hrun_gen := hrun body.
Definition hstep_gen := hstep body.
Extraction "kernels_cache.ml" hrun_gen hstep_gen h_init public_methods method_names.
