let arr2 nb l = let a = Array.of_list l in fun i j -> a.(int_of_nat i * nb + int_of_nat j)
let arr1 l = let a = Array.of_list l in fun i -> a.(int_of_nat i)
let () = main (fun u k -> match k with
  | "qmatrix" | "qhatmatrix" ->
    (* nb masses nd then the 16 arrays (each nb*nb, row-major) in the order 11..17,22..26,33..35,44 *)
    let nb = it () in
    let ms = arr1 (Stdlib.List.init nb (fun _ -> fl ())) in
    let nd = arr1 (Stdlib.List.init nb (fun _ -> fl ())) in
    let rd () = arr2 nb (Stdlib.List.init (nb * nb) (fun _ -> fl ())) in
    let a11 = rd () in let a12 = rd () in let a13 = rd () in let a14 = rd () in let a15 = rd () in let a16 = rd () in let a17 = rd () in
    let a22 = rd () in let a23 = rd () in let a24 = rd () in let a25 = rd () in let a26 = rd () in
    let a33 = rd () in let a34 = rd () in let a35 = rd () in let a44 = rd () in
    let q = { i11 = a11; i12 = a12; i13 = a13; i14 = a14; i15 = a15; i16 = a16; i17 = a17; i22 = a22; i23 = a23; i24 = a24;
              i25 = a25; i26 = a26; i33 = a33; i34 = a34; i35 = a35; i44 = a44 } in
    let dim = (if k = "qmatrix" then 4 else 2) * nb in
    let f = if k = "qmatrix" then qentry num q ms (nat_of_int nb) nd else qhatentry num q ms (nat_of_int nb) nd in
    let out = ref [] in
    for r = dim - 1 downto 0 do for c = dim - 1 downto 0 do out := f (nat_of_int r) (nat_of_int c) :: !out done done;
    out_floats !out
  | "rhs" ->
    (* nb T masses nd -> Dij_rhs(i,j,h) for all i,j,h ; DTi_rhs1(i) ; visc_rhs0(i) *)
    let nb = it () in let t = fl () in
    let ms = arr1 (Stdlib.List.init nb (fun _ -> fl ())) in
    let nd = arr1 (Stdlib.List.init nb (fun _ -> fl ())) in
    let out = ref [] in
    let n = nat_of_int in
    for i = 0 to nb - 1 do for j = 0 to nb - 1 do for h = 0 to nb - 1 do out := dij_rhs num (n i) (n j) (n h) :: !out done done done;
    for i = 0 to nb - 1 do out := dTi_rhs1 num nd (n i) :: !out done;
    for i = 0 to nb - 1 do out := visc_rhs0 num u t ms nd (n i) :: !out done;
    out_floats (Stdlib.List.rev !out)
  | "values" ->
    (* nb T rho ntot masses nd charges | c0[i][j] (c^{ij}_{0,i}) nb*nb | a0 nb | a1 nb | b0 nb  ->  D (nb*nb), DT (nb), eta, kdash, sigma *)
    let nb = it () in let t = fl () in let rho = fl () in let ntot = fl () in
    let rd1 () = arr1 (Stdlib.List.init nb (fun _ -> fl ())) in
    let ms = rd1 () in let nd = rd1 () in let ch = rd1 () in
    let c0 = arr2 nb (Stdlib.List.init (nb * nb) (fun _ -> fl ())) in
    let a0 = rd1 () in let a1 = rd1 () in let b0 = rd1 () in
    let n = nat_of_int in
    let d = Array.make_matrix nb nb 0.0 in
    for i = 0 to nb - 1 do for j = 0 to nb - 1 do d.(i).(j) <- dij_value num u rho ntot t ms nd (n i) (n j) (c0 (n i) (n j)) done done;
    let dl = Stdlib.List.concat (Stdlib.List.map Array.to_list (Array.to_list d)) in
    let dt = Stdlib.List.init nb (fun i -> dTi_value num u t ms nd (n i) (a0 (n i))) in
    let de = (fun j -> d.(nb - 1).(int_of_nat j)) in
    out_floats (dl @ dt @ [visc_value num u t nd (n nb) b0; kdash_value num u t ms nd (n nb) a1; sigma_value num u rho ntot t ms nd ch (n nb) de])
  | "kappa" ->
    (* dt nb T delta ni_limit rho ntot kdash | masses nd h DT npos nneg (nb each) | D (nb*nb)  ->  total *)
    let dt = it () <> 0 in let nb = it () in let t = fl () in let delta = fl () in let lim = fl () in
    let rho = fl () in let ntot = fl () in let kdash = fl () in
    let rd1 () = arr1 (Stdlib.List.init nb (fun _ -> fl ())) in
    let ms = rd1 () in let nd = rd1 () in let h = rd1 () in let dti = rd1 () in let npos = rd1 () in let nneg = rd1 () in
    let d = arr2 nb (Stdlib.List.init (nb * nb) (fun _ -> fl ())) in
    let n = nat_of_int nb in
    let hv = hv_rescaled num rho ntot ms h in
    let dx = dxdT_value num t delta n npos nneg in
    out_floats [kappa_total num u dt rho ntot t lim ms nd hv dti dx d n kdash]
  | "Qij" ->
    (* species_i ni species_j nj l s T -> value class *)
    let si = species () in let ni = fl () in let sj = species () in let nj = fl () in
    let l = nat_of_int (it ()) in let s = nat_of_int (it ()) in let t = fl () in
    let v = qij num u si ni sj nj l s t in
    let c = (match qij_class si ni sj nj l s t with
             | CCall (f, first) -> (match f with Qc_tag -> "Qc" | Qe_tag -> "Qe" | Qnn_tag -> "Qnn" | Qtr_tag -> "Qtr" | Qin_tag -> "Qin") ^ (if first then ":ij" else ":ji")
             | CUnknown -> "unknown") in
    print_endline (pf v ^ " " ^ c)
  | _ -> failwith ("unknown kernel " ^ k))
