(* driver for the exact models: input lines are "<cmd> <hex-encoded bytes>..." *)
let ascii_of_int n =
  let b i = (n lsr i) land 1 = 1 in
  Ascii (b 0, b 1, b 2, b 3, b 4, b 5, b 6, b 7)
let str_of_hex h =
  let n = String.length h / 2 in
  Stdlib.List.init n (fun i -> ascii_of_int (int_of_string ("0x" ^ String.sub h (2 * i) 2)))
let rec pos_bits = function XH -> "1" | XO p -> pos_bits p ^ "0" | XI p -> pos_bits p ^ "1"
let n_bits = function N0 -> "0" | Npos p -> pos_bits p
let z_bits = function Z0 -> "0" | Zpos p -> pos_bits p | Zneg p -> "-" ^ pos_bits p
let dec_s d = Printf.sprintf "%s:%s:%s" (if d.d_neg then "1" else "0") (n_bits d.d_mant) (z_bits d.d_exp)
let value_s = function VNum d -> "N" ^ dec_s d | VFrac (a, b) -> "F" ^ dec_s a ^ "/" ^ dec_s b
let () = main_with (fun () -> ()) (fun _ k -> match k with
  | "nist_string" ->
    let s = if !pos < Array.length !toks then str_of_hex (next ()) else [] in
    (match nist_string s with
     | Inl EValue -> print_endline "ValueError"
     | Inl EZeroDiv -> print_endline "ZeroDivisionError"
     | Inr vs -> print_endline ("ok " ^ String.concat " " (Stdlib.List.map value_s vs)))
  | "levels" ->
    let n = it () in
    let lines = Stdlib.List.init n (fun _ -> let t = next () in if t = "-" then [] else str_of_hex t) in
    (match nist_energy_levels lines with
     | Inl (LineError (i, _)) -> print_endline ("LineError " ^ string_of_int (int_of_nat i))
     | Inl ZeroDivEscapes -> print_endline "ZeroDivisionError"
     | Inr ps -> print_endline ("ok " ^ String.concat " " (Stdlib.List.map (fun (a, b) -> value_s a ^ "," ^ value_s b) ps)))
  | _ -> failwith ("unknown command " ^ k))
