(* driver for the exact models: input lines are "<cmd> <hex-encoded bytes>..." *)
let ascii_of_int n =
  let b i = (n lsr i) land 1 = 1 in
  Ascii (b 0, b 1, b 2, b 3, b 4, b 5, b 6, b 7)
let str_of_hex h =
  let n = String.length h / 2 in
  Stdlib.List.init n (fun i -> ascii_of_int (int_of_string ("0x" ^ String.sub h (2 * i) 2)))
let rec pos_bits = function XH -> "1" | XO p -> pos_bits p ^ "0" | XI p -> pos_bits p ^ "1"
let n_bits = function N0 -> "0" | Npos p -> pos_bits p
let z_bits = function Z0 -> "0" | Zpos p -> pos_bits p | Zneg p -> "-" ^ pos_bits p
let dec_s d = Printf.sprintf "%s:%s:%s" (if d.d_neg then "1" else "0") (n_bits d.d_mant) (z_bits d.d_exp)
let value_s = function VNum d -> "N" ^ dec_s d | VFrac (a, b) -> "F" ^ dec_s a ^ "/" ^ dec_s b

(* ---- pyval token encoding (prefix): N | B0 | B1 | I<int> | F<k> | Fp | Fm | S<hex> | L<n> v.. | T<n> v.. | D<n> (khex v).. ---- *)
let rec cstring_of_list = function [] -> EmptyString | c :: r -> String (c, cstring_of_list r)
let rec list_of_cstring = function EmptyString -> [] | String (c, r) -> c :: list_of_cstring r
let int_of_ascii (Ascii (b0, b1, b2, b3, b4, b5, b6, b7)) =
  let v b i = if b then 1 lsl i else 0 in
  v b0 0 + v b1 1 + v b2 2 + v b3 3 + v b4 4 + v b5 5 + v b6 6 + v b7 7
let hex_of_cstring s =
  let l = list_of_cstring s in
  if l = [] then "-" else String.concat "" (Stdlib.List.map (fun c -> Printf.sprintf "%02x" (int_of_ascii c)) l)
let cstring_of_hex h = if h = "-" then EmptyString else cstring_of_list (str_of_hex h)
let rec int_of_pos = function XH -> 1 | XO p -> 2 * int_of_pos p | XI p -> 2 * int_of_pos p + 1
let int_of_z = function Z0 -> 0 | Zpos p -> int_of_pos p | Zneg p -> - (int_of_pos p)
let tl1 t = String.sub t 1 (String.length t - 1)
let rec read_val () : pyval =
  let t = next () in
  match t.[0] with
  | 'N' -> PNone
  | 'B' -> PBool (t = "B1")
  | 'I' -> PInt (z_of_int (int_of_string (tl1 t)))
  | 'F' -> if t = "Fp" then PFloat PosInf else if t = "Fm" then PFloat NegInf else PFloat (Fin (z_of_int (int_of_string (tl1 t))))
  | 'S' -> PStr (cstring_of_hex (tl1 t))
  | 'L' -> let n = int_of_string (tl1 t) in PList (Stdlib.List.init n (fun _ -> read_val ()))
  | 'T' -> let n = int_of_string (tl1 t) in PTuple (Stdlib.List.init n (fun _ -> read_val ()))
  | 'D' -> let n = int_of_string (tl1 t) in PDict (Stdlib.List.init n (fun _ -> let k = cstring_of_hex (next ()) in let v = read_val () in (k, v)))
  | _ -> failwith ("bad value token " ^ t)
let rec show_val (v : pyval) : Stdlib.String.t =
  match v with
  | PNone -> "N"
  | PBool b -> if b then "B1" else "B0"
  | PInt z -> "I" ^ string_of_int (int_of_z z)
  | PFloat PosInf -> "Fp" | PFloat NegInf -> "Fm" | PFloat (Fin z) -> "F" ^ string_of_int (int_of_z z)
  | PStr s -> "S" ^ hex_of_cstring s
  | PList l -> String.concat " " (("L" ^ string_of_int (Stdlib.List.length l)) :: Stdlib.List.map show_val l)
  | PTuple l -> String.concat " " (("T" ^ string_of_int (Stdlib.List.length l)) :: Stdlib.List.map show_val l)
  | PDict l -> String.concat " " (("D" ^ string_of_int (Stdlib.List.length l)) :: Stdlib.List.map (fun (k, v) -> hex_of_cstring k ^ " " ^ show_val v) l)
let dict_of = function PDict l -> l | _ -> failwith "expected a dict"
let () = main_with (fun () -> ()) (fun _ k -> match k with
  | "nist_string" ->
    let s = if !pos < Array.length !toks then str_of_hex (next ()) else [] in
    (match nist_string s with
     | Inl EValue -> print_endline "ValueError"
     | Inl EZeroDiv -> print_endline "ZeroDivisionError"
     | Inr vs -> print_endline ("ok " ^ String.concat " " (Stdlib.List.map value_s vs)))
  | "levels" ->
    let n = it () in
    let lines = Stdlib.List.init n (fun _ -> let t = next () in if t = "-" then [] else str_of_hex t) in
    (match nist_energy_levels lines with
     | Inl (LineError (i, _)) -> print_endline ("LineError " ^ string_of_int (int_of_nat i))
     | Inl ZeroDivEscapes -> print_endline "ZeroDivisionError"
     | Inr ps -> print_endline ("ok " ^ String.concat " " (Stdlib.List.map (fun (a, b) -> value_s a ^ "," ^ value_s b) ps)))
  | "saveload" ->
    let o = dict_of (read_val ()) in
    (match saveLoad o with
     | None -> print_endline "none"
     | Some (c, o') -> print_endline ("ok " ^ hex_of_cstring c ^ " " ^ show_val (PDict o') ^ " | " ^ show_val (PDict (norm_obj o))))
  | "construct" ->
    let cn = cstring_of_hex (next ()) in
    let args = (match read_val () with PList l -> l | _ -> failwith "expected a list") in
    (match class_by_name cn with
     | None -> print_endline "noclass"
     | Some c -> (match construct0 c args with None -> print_endline "none" | Some o -> print_endline ("ok " ^ show_val (PDict o))))
  | _ -> failwith ("unknown command " ^ k))
