(* Extraction of the mixture kernels (generated) and the solver-step models (hand-written). ExtrOcamlBasic only. *)
From Coq Require Extraction.
From Coq Require Import ExtrOcamlBasic.
From MPC Require Import Num Species GenSpecies GenMixture RefEnergy Gibbs Retry.
Extraction "kernels_mix.ml"
  mkNum mkUnits mkSpecies
  density species_enthalpies enthalpy heat_capacity heat_capacity_default_delta
  dE_list E0_list reference_energies
  constraint_cols bvec mu_list kkt_species_residuals kkt_constraint_residuals
  relax_factor relaxed stop_quantity number_densities elements solve_control.
