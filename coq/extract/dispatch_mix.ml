let out_list l = out_floats l
let () = main (fun u k -> match k with
  | "density" -> let sp = lst species in let nd = lst fl in out_floats [density num u sp nd]
  | "species_enthalpies" ->
    let t = fl () in let sp = lst species in let nd = lst fl in let e0 = lst fl in let de = lst fl in
    out_floats (species_enthalpies num u t sp nd e0 de)
  | "enthalpy" ->
    let t = fl () in let sp = lst species in let nd = lst fl in let e0 = lst fl in let de = lst fl in
    out_floats [enthalpy num u t sp nd e0 de]
  | "heat_capacity" ->
    (* T d Hlo Hhi -> cp | default step | the temperatures at which the model asks its enthalpy oracle (ascending) *)
    let t = fl () in let d = fl () in let hlo = fl () in let hhi = fl () in
    let seen = ref [] in
    let h x = (seen := x :: !seen; if x < t then hlo else hhi) in
    let cp = heat_capacity num h t d in
    out_floats ([cp; heat_capacity_default_delta num] @ Stdlib.List.sort compare !seen)
  | "refenergy" ->
    let t = fl () in let p = fl () in let sp = lst species in let ni = lst fl in
    let (e0, de) = reference_energies num u t p sp ni in
    out_floats (e0 @ de)
  | "setup" ->   (* constraint columns (flattened, row-major per column) then b *)
    let sp = lst species in let x0 = lst fl in
    let cols = constraint_cols num sp in
    out_floats (Stdlib.List.concat cols @ bvec num sp x0)
  | "step" ->
    (* T P species x0 gov Ni Nn lam  ->  mu | species residuals | constraint residuals | r | stop | relaxed | densities(relaxed) *)
    let t = fl () in let p = fl () in let sp = lst species in let x0 = lst fl in let g = fl () in
    let ni = lst fl in let nn = lst fl in let lam = lst fl in
    let (e0, de) = reference_energies num u t p sp ni in
    let mu = mu_list num u t p sp ni e0 de in
    let cols = constraint_cols num sp in
    let b = bvec num sp x0 in
    let rs = kkt_species_residuals num u t cols ni mu nn lam in
    let rc = kkt_constraint_residuals num cols b nn in
    let r = relax_factor num g ni nn in
    let nx = relaxed num r ni nn in
    out_floats (mu @ rs @ rc @ [r; stop_quantity num ni nn] @ nx @ number_densities num u t p nx)
  | "control" ->
    (* max_iter n (gov obs)*n : replay recorded observations through the control model *)
    let mi = it () in let n = it () in
    let tbl = Hashtbl.create 64 in
    let cnt = Hashtbl.create 16 in
    for _ = 1 to n do
      let g = it () in let o = it () in
      let k = (try Hashtbl.find cnt g with Not_found -> 0) in
      Hashtbl.replace tbl (g, k) o; Hashtbl.replace cnt g (k + 1)
    done;
    let observe g i = (match (try Hashtbl.find tbl (int_of_nat g, int_of_nat i) with Not_found -> 2) with
                       | 0 -> Above | 1 -> NotAbove | _ -> NonFinite) in
    let (log, ok) = solve_control (nat_of_int mi) (nat_of_int 9) observe in
    let s = String.concat " " (Stdlib.List.map (function Converged k -> "C" ^ string_of_int (int_of_nat k)
                                                       | Failed k -> "F" ^ string_of_int (int_of_nat k)) log) in
    print_endline (s ^ " | " ^ (if ok then "ok" else "warn"))
  | _ -> failwith ("unknown kernel " ^ k))
