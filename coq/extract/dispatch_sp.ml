
let () = main (fun u k -> match k with
  | "translational_Z" -> let s = species () in let t = fl () in out_floats [translational_Z num u s t]
  | "total_Z" -> let s = species () in let v = fl () in let t = fl () in let de = fl () in out_floats [total_Z num u s v t de]
  | "Zint" -> let s = species () in let t = fl () in let de = fl () in out_floats [zint num u s t de]
  | "Uint" -> let s = species () in let t = fl () in let de = fl () in out_floats [uint num u s t de]
  | "emission" -> let t = fl () in let sp = lst species in let nd = lst fl in
                  out_floats [total_emission_coefficient num u t sp nd]
  | _ -> failwith ("unknown kernel " ^ k))
