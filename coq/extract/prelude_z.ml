(* conversions for the extracted positive / Z datatypes *)
let rec pos_to_float = function
  | XH -> 1.0
  | XO p -> 2.0 *. pos_to_float p
  | XI p -> 2.0 *. pos_to_float p +. 1.0
let z_to_float = function Z0 -> 0.0 | Zpos p -> pos_to_float p | Zneg p -> -. pos_to_float p
let rec pos_of_int n = if n = 1 then XH else if n land 1 = 0 then XO (pos_of_int (n lsr 1)) else XI (pos_of_int (n lsr 1))
let z_of_int n = if n = 0 then Z0 else if n > 0 then Zpos (pos_of_int n) else Zneg (pos_of_int (-n))
