external tgamma : float -> float = "caml_tgamma_byte" "tgamma" [@@unboxed] [@@noalloc]
let num : float num = {
  nadd = ( +. ); nsub = ( -. ); nmul = ( *. ); ndiv = ( /. );
  nopp = (fun x -> -. x); nabs = Float.abs; nexp = Stdlib.exp; nln = Stdlib.log;
  nsqrt = Stdlib.sqrt; ntanh = Stdlib.tanh; nrpow = ( ** ); npow = fpow; ngamma = tgamma;
  nofZ = z_to_float; npi = 4.0 *. atan 1.0;
  nltb = (fun x y -> x < y); nleb = (fun x y -> x <= y); neqb = (fun x y -> x = y) }

let species () : float species =
  let kind = (match it () with 0 -> KMono | 1 -> KDi | 2 -> KPoly | _ -> KElectron) in
  let sname = nat_of_int (it ()) in
  let stoich = lst (fun () -> let a = nat_of_int (it ()) in let b = nat_of_int (it ()) in (a, b)) in
  let m = fl () in
  let z = z_of_int (it ()) in
  let ie = fl () in
  let de = fl () in
  let levels = lst (fun () -> let j = fl () in let e = fl () in (j, e)) in
  let g0 = fl () in let we = fl () in let be = fl () in let sg = fl () in
  let lin = (it () <> 0) in
  let wi = lst fl in
  let abc = lst fl in
  let pol = fl () in let mult = fl () in
  let eff = opt fl in
  let ecs = opt (fun () -> let a = fl () in let b = fl () in let c = fl () in let d = fl () in (((a, b), c), d)) in
  let lines = lst (fun () -> let a = fl () in let b = fl () in let c = fl () in ((a, b), c)) in
  { kind = kind; sname = sname; stoichiometry = stoich; molar_mass = m; charge_number = z;
    ionisation_energy = ie; dissociation_energy = de; energy_levels = levels; g0 = g0; w_e = we; b_e = be;
    sigma_s = sg; linear_yn = lin; wi_e = wi; abc_e = abc; polarisability = pol; multiplicity = mult;
    effective_electrons = eff; electron_cross_section = ecs; emission_lines = lines }

let units_of_line () : float units =
  let k_b = fl () in let n_a = fl () in let h = fl () in let hbar = fl () in let c = fl () in
  let e = fl () in let m_e = fl () in let eps = fl () in let r = fl () in let k2e = fl () in
  let j2e = fl () in let ke = fl () in let eg = fl () in
  { k_b = k_b; n_a = n_a; h_pl = h; hbar = hbar; c_light = c; e_ch = e; m_e = m_e; epsilon_0 = eps;
    r_gas = r; k_to_eV = k2e; j_to_eV = j2e; ke_c = ke; egamma = eg }



let main dispatch = main_with units_of_line dispatch
