(* Extraction of the transport kernels (generated) and the assembly model (hand-written). ExtrOcamlBasic only. *)
From Coq Require Extraction.
From Coq Require Import ExtrOcamlBasic.
From MPC Require Import Num Species GenSpecies GenTransport Transport.
Extraction "kernels_tr.ml" mkNum mkUnits mkSpecies mkQints qentry qhatentry
  Dij_rhs Dij_value DTi_rhs1 DTi_value visc_rhs0 visc_value kdash_value sigma_value
  hv_rescaled dxdT_value kappa_total
  Qij Qij_class Qe Qnn Qin Qtr Qc cl_charged.
