(* driver.ml — runs the extracted kernels at IEEE doubles.
   stdin: first line "units <13 floats>", then one case per line: <kernel> <tokens...>.
   stdout: one line per case: space-separated results (floats as %h).
   The double instance of Num is built here and passed as an ordinary argument. *)


let rec nat_of_int n = if n <= 0 then O else S (nat_of_int (n - 1))
let rec int_of_nat = function O -> 0 | S n -> 1 + int_of_nat n
let rec fpow x n = match n with O -> 1.0 | S m -> x *. fpow x m

(* ---- token stream ---- *)
let toks = ref [||] and pos = ref 0
let next () = let t = !toks.(!pos) in incr pos; t
let fl () = float_of_string (next ())
let it () = int_of_string (next ())
let lst f = let n = it () in Stdlib.List.init n (fun _ -> f ())
let opt f = if it () = 0 then None else Some (f ())


let pf x = Printf.sprintf "%h" x
let out_floats l = print_endline (String.concat " " (Stdlib.List.map pf l))
let split s = Array.of_list (Stdlib.List.filter (fun x -> x <> "") (String.split_on_char ' ' s))
(* main: the first input line is "units ..." and is handed to read_units *)
let main_with read_units dispatch =
  let first = input_line stdin in
  toks := split first; pos := 0;
  if next () <> "units" then failwith "first line must be units";
  let u = read_units () in
  (try
    while true do
      let line = input_line stdin in
      toks := split line; pos := 0;
      let k = next () in
      (try dispatch u k with
       | Failure m -> print_endline ("ERROR " ^ m)
       | Invalid_argument m -> print_endline ("ERROR " ^ m))
    done
  with End_of_file -> ())
