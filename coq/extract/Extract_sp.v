(* Extraction of the species / radiation kernels.  ExtrOcamlBasic only (bool, option, unit,
   list, prod, sumbool): no Extract Constant, no Extract Inductive of ours.
   nat / positive / Z stay the extracted inductive datatypes. *)
From Coq Require Extraction.
From Coq Require Import ExtrOcamlBasic.
From MPC Require Import Num Species GenSpecies GenRadiation.
Extraction "kernels_sp.ml"
  mkNum mkUnits mkSpecies
  translational_Z total_Z Zint Uint mono_Zint mono_U di_Zint di_U poly_Zint poly_U electron_Zint electron_U
  total_emission_coefficient.
