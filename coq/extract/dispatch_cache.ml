(* driver for the cache machine: "history <n> <op>..." with op = T | P | X | C<m>:<dt>;
   prints, per op, the predicted flag / cache currency after it and (for calls) clean/preserved *)
let () = main_with (fun () -> ()) (fun _ k -> match k with
  | "history" ->
    let n = it () in
    let ops = Stdlib.List.init n (fun _ ->
      let t = next () in
      match t.[0] with
      | 'T' -> SetT | 'P' -> SetP | 'X' -> SetX0
      | 'C' -> (match String.split_on_char ':' (String.sub t 1 (String.length t - 1)) with
                | [m; d] -> Calc (nat_of_int (int_of_string m), d = "1")
                | _ -> failwith "bad op")
      | _ -> failwith "bad op") in
    let b x = if x then "1" else "0" in
    let rec go h = function
      | [] -> []
      | o :: r ->
        (match hstep_gen h o with
         | None -> ["stuck"]
         | Some (h', out) ->
           let s = b h'.hvalid ^ b h'.hn ^ b h'.he ^
                   (match out with None -> "--" | Some x -> b x.o_clean ^ b x.o_inputs_preserved) in
           s :: go h' r) in
    print_endline (String.concat " " (go h_init ops))
  | _ -> failwith ("unknown command " ^ k))
