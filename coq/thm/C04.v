(* C04 — only elemental abundances matter: equivalent x0 give identical plasmas.
   What is a theorem: x0 enters the problem only through the element totals b (generator check + structure of the
   model), b is linear in x0, and scaling all particle numbers leaves densities and chemical potentials unchanged —
   so the fixed points for c*b are c times those for b, with the SAME densities.  the fixed point is unique (strict Gibbs inequality, ideal mixture), so two runs
   that converge for equivalent x0 converge to the same densities.  NOT a theorem: that both runs converge; validated on pairs of equivalent x0 on the implementation. *)
From Coq Require Import Reals List ZArith.
Import ListNotations.
From MPC Require Import Num Species RInst StatMech RVec GenSpecies RefEnergy Gibbs GenEffects C02_proofs C04_proofs C09_proofs C10_proofs C10_kkt C01_unique.
Open Scope R_scope.

(* the code reads x0 only to form the element totals (checked syntactically on every run), and in the model
   only `bvec` takes x0: equal right-hand sides give the same linear system at every iterate *)
Theorem C04_x0_only_through_b : x0_read_only_for_element_totals = true /\
  forall (sps : list (species R)) (x0 x0' Nn : list R),
  bvec RNum sps x0 = bvec RNum sps x0' ->
  kkt_constraint_residuals RNum (constraint_cols RNum sps) (bvec RNum sps x0) Nn =
  kkt_constraint_residuals RNum (constraint_cols RNum sps) (bvec RNum sps x0') Nn.
Proof. split; [reflexivity|]. intros sps x0 x0' Nn H. now rewrite H. Qed.
Print Assumptions C04_x0_only_through_b.

(* b_k = 1e24 * sum_i c_ik x0_i *)
Theorem C04_element_totals : forall (el : nat) (sps : list (species R)) (x0 : list R),
  el_total el sps x0 = IZR (10 ^ 24) * Rsum (map (fun cx => IZR (Z.of_nat (coeff el (stoichiometry (fst cx)))) * snd cx) (combine sps x0)).
Proof. exact el_total_spec. Qed.
Print Assumptions C04_element_totals.

(* multiplying x0 by a constant multiplies every right-hand side by it *)
Theorem C04_bvec_scal : forall (sps : list (species R)) (x0 : list R) (c : R),
  bvec RNum sps (map (fun x => c * x) x0) = map (fun y => c * y) (bvec RNum sps x0).
Proof. exact bvec_scal. Qed.
Print Assumptions C04_bvec_scal.

(* scaling all particle numbers: same densities, same chemical potentials; constraint totals scale *)
Theorem C04_fixed_points_scale :
  (forall (U : Units R) (T P : R) (Ni : list R) (c : R),
     c <> 0 -> Rsum Ni <> 0 -> k_b U * T <> 0 -> P <> 0 ->
     number_densities RNum U T P (map (fun x => c * x) Ni) = number_densities RNum U T P Ni) /\
  (forall (U : Units R) (T V : R) (sp : species R) (n e0 de c : R),
     c <> 0 -> V <> 0 -> n <> 0 ->
     mu_entry RNum U T (c * V) sp (c * n) e0 de = mu_entry RNum U T V sp n e0 de) /\
  (forall (col Ni : list R) (c : R), dotR col (map (fun x => c * x) Ni) = c * dotR col Ni).
Proof. split; [exact densities_scal | split; [exact mu_entry_scal | exact dot_scal_r]]. Qed.
Print Assumptions C04_fixed_points_scale.

(* two fixed points with the same constraint totals (after the scaling above: for equivalent x0) have the same number densities:
   the fixed point is unique (ideal mixture: reference energies and lowerings equal in the two states) *)
Theorem C04_fixed_point_unique :
  forall (U : Units R) (T P : R) (ps : list (entry * entry)) (cols : list (list R)) (lam1 lam2 : list R),
  0 < k_b U * T -> 0 < P -> ps <> [] -> Forall same_data ps -> Forall (pair_pos U T) ps ->
  let nu := map (fun p => e_n (snd p) - e_n (fst p)) ps in
  let mu1 := map (fun p => mu_at U T (Ntot (map fst ps) * (k_b U * T) / P) (fst p)) ps in
  let mu2 := map (fun p => mu_at U T (Ntot (map snd ps) * (k_b U * T) / P) (snd p)) ps in
  Forall (fun c => List.length c = List.length nu) cols ->
  Forall2 (fun mi ai => mi = - ai) mu1 (alam RNum cols lam1 (repeat 0 (List.length nu))) ->
  Forall2 (fun mi ai => mi = - ai) mu2 (alam RNum cols lam2 (repeat 0 (List.length nu))) ->
  Forall (fun c => dotR c nu = 0) cols ->
  forall p, In p ps ->
    e_n (snd p) / (Ntot (map snd ps) * (k_b U * T) / P) = e_n (fst p) / (Ntot (map fst ps) * (k_b U * T) / P).
Proof. exact kkt_points_same_densities. Qed.
Print Assumptions C04_fixed_point_unique.
