(* C09 — density, enthalpy and heat capacity follow the documented formulae.
   `density`, `species_enthalpies`, `enthalpy` are regenerated from mixture.py on every run; they take the
   composition and the cached reference energies / lowerings as parameters (their freshness is C03).
   Reference energies: hand-written model RefEnergy.v tied to the code by recorded iterations; its recursion is
   restated below.  Heat capacity: the centred difference, by the C03 effect summary + numerical comparison. *)
From Coq Require Import Reals List ZArith Lra.
Import ListNotations.
From MPC Require Import Num Species RInst StatMech RVec GenSpecies GenMixture RefEnergy C09_proofs.
Open Scope R_scope.

(* rho = sum n_i M_i / N_A *)
Theorem C09_density_eq_spec : forall (U : Units R) (l : list entry),
  density RNum U (map e_sp l) (map e_n l) = Rsum (map (fun e => e_n e * molar_mass (e_sp e)) l) / N_a U.
Proof. exact density_eq_spec. Qed.
Print Assumptions C09_density_eq_spec.

(* H_i = (U_i(T, dE_i) + E0_i + kT) / (M_i / N_A) *)
Theorem C09_species_enthalpy_eq_spec : forall (U : Units R) (T : R) (l : list entry),
  species_enthalpies RNum U T (map e_sp l) (map e_n l) (map e_E0 l) (map e_dE l) =
  map (fun e => (Uint RNum U (e_sp e) T (e_dE e) + e_E0 e + k_b U * T) / (molar_mass (e_sp e) / N_a U)) l.
Proof. exact species_enthalpies_eq_spec. Qed.
Print Assumptions C09_species_enthalpy_eq_spec.

(* H_mix = sum n_i h_i / rho - N_A E0_min / M_min : the independent formula minus a reference constant *)
Theorem C09_enthalpy_eq_spec : forall (U : Units R) (T : R) (l : list entry),
  Forall (fun e => molar_mass (e_sp e) <> 0) l -> N_a U <> 0 -> density_spec U l <> 0 ->
  enthalpy RNum U T (map e_sp l) (map e_n l) (map e_E0 l) (map e_dE l) =
  Rsum (map (fun e => e_n e * h_particle U T e) l) / density_spec U l - shift U l.
Proof. exact enthalpy_eq_spec. Qed.
Print Assumptions C09_enthalpy_eq_spec.

(* enthalpy differences between states with the same reference shift are those of the independent formula *)
Theorem C09_enthalpy_difference : forall (U : Units R) (T1 T2 : R) (l1 l2 : list entry),
  Forall (fun e => molar_mass (e_sp e) <> 0) l1 -> Forall (fun e => molar_mass (e_sp e) <> 0) l2 ->
  N_a U <> 0 -> density_spec U l1 <> 0 -> density_spec U l2 <> 0 -> shift U l1 = shift U l2 ->
  enthalpy RNum U T2 (map e_sp l2) (map e_n l2) (map e_E0 l2) (map e_dE l2)
  - enthalpy RNum U T1 (map e_sp l1) (map e_n l1) (map e_E0 l1) (map e_dE l1)
  = Rsum (map (fun e => e_n e * h_particle U T2 e) l2) / density_spec U l2
  - Rsum (map (fun e => e_n e * h_particle U T1 e) l1) / density_spec U l1.
Proof. exact enthalpy_difference. Qed.
Print Assumptions C09_enthalpy_difference.

(* reference energies (model): neutral atoms 0, neutral molecules -D; each positive ion = previous listed stage +
   its ionisation energy - its lowering; each negative ion = next stage towards neutral - own ionisation energy + own lowering *)
Theorem C09_E0_neutral : forall fuel l (spd : species R * R),
  charge_number (fst spd) = 0%Z ->
  E0_of RNum fuel l spd = if Nat.leb 2 (atoms (fst spd)) then - dissociation_energy (fst spd) else 0.
Proof. exact E0_neutral. Qed.
Theorem C09_E0_positive_step : forall fuel l (spd p : species R * R),
  (0 < charge_number (fst spd))%Z -> has_neutral l (fst spd) = true -> pred_pos l (fst spd) = Some p ->
  E0_of RNum (S fuel) l spd = E0_of RNum fuel l p + ionisation_energy (fst p) - snd p.
Proof. exact E0_positive_step. Qed.
Theorem C09_E0_negative_step : forall fuel l (spd p : species R * R),
  (charge_number (fst spd) < 0)%Z -> has_neutral l (fst spd) = true -> pred_neg l (fst spd) = Some p ->
  E0_of RNum (S fuel) l spd = E0_of RNum fuel l p - ionisation_energy (fst spd) + snd spd.
Proof. exact E0_negative_step. Qed.
Print Assumptions C09_E0_positive_step.

(* heat capacity: `heat_capacity` is regenerated from LTE.calculate_heat_capacity on every run, with the enthalpy of the
   mixture re-solved at a given temperature as an oracle H (that the two evaluations are of the *current* inputs at the
   perturbed temperatures, and that T is restored, is the C03 effect summary: save T, T(1-d), enthalpy, T(1+d), enthalpy, restore).
   It is the centred temperature difference of the enthalpy ... *)
Theorem C09_heat_capacity_eq_spec : forall (H : R -> R) (T d : R),
  heat_capacity RNum H T d = (H (T * (1 + d)) - H (T * (1 - d))) / (2 * d * T).
Proof. exact heat_capacity_eq_spec. Qed.
Print Assumptions C09_heat_capacity_eq_spec.
(* ... with the documented default relative step 0.001 ... *)
Theorem C09_heat_capacity_default_step : heat_capacity_default_delta RNum = 1 / 1000.
Proof. exact heat_capacity_default_delta_value. Qed.
(* ... which is the exact derivative for enthalpies quadratic in T (second-order accuracy) ... *)
Theorem C09_heat_capacity_exact_on_quadratics : forall a b c T d : R, T <> 0 -> d <> 0 ->
  heat_capacity RNum (fun x => a * x * x + b * x + c) T d = 2 * a * T + b.
Proof. exact heat_capacity_quadratic. Qed.
(* ... and, for any differentiable enthalpy, the derivative dH/dT at some temperature inside (T(1-d), T(1+d)). *)
Theorem C09_heat_capacity_mean_value : forall (H H' : R -> R) (T d : R), 0 < T -> 0 < d ->
  (forall x, T * (1 - d) <= x <= T * (1 + d) -> derivable_pt_lim H x (H' x)) ->
  exists xi, T * (1 - d) < xi < T * (1 + d) /\ heat_capacity RNum H T d = H' xi.
Proof. exact heat_capacity_mean_value. Qed.
Print Assumptions C09_heat_capacity_mean_value.
Example C09_heat_capacity_nonvacuous : heat_capacity RNum (fun x => 3 * x * x + 5 * x + 7) 1000 (1 / 1000) = 6005.
Proof. rewrite heat_capacity_quadratic; lra. Qed.
