(* C05 — results do not depend on the order in which species are listed.
   What is a theorem: every species sum is permutation invariant (density, element totals, Stewart-Pyatt effective
   charge, emission); the relaxation factor is a minimum and the constraint residuals are sums.  NOT a theorem:
   equivariance of the whole converged solve (as C04) and of the linear transport solves; validated on permuted
   species lists on the implementation. *)
From Coq Require Import Reals List ZArith Permutation.
Import ListNotations.
From MPC Require Import Num Species RInst StatMech RVec Radiation GenSpecies GenRadiation RefEnergy Gibbs C04_proofs C07_proofs C15_proofs.
Open Scope R_scope.

Theorem C05_density_perm : forall (U : Units R) (l l' : list (R * species R)),
  Permutation l l' ->
  Rsum (map (fun ns => fst ns * molar_mass (snd ns)) l) / N_a U = Rsum (map (fun ns => fst ns * molar_mass (snd ns)) l') / N_a U.
Proof. exact density_perm. Qed.
Print Assumptions C05_density_perm.

Theorem C05_element_totals_perm : forall (el : nat) (l l' : list (species R * R)),
  Permutation l l' ->
  Rsum (map (fun cx => IZR (Z.of_nat (coeff el (stoichiometry (fst cx)))) * snd cx) l)
  = Rsum (map (fun cx => IZR (Z.of_nat (coeff el (stoichiometry (fst cx)))) * snd cx) l').
Proof. exact el_total_perm. Qed.
Print Assumptions C05_element_totals_perm.

Theorem C05_effective_charge_perm : forall (l l' : list (species R * R)),
  Permutation l l' -> z_star RNum (map fst l) (map snd l) = z_star RNum (map fst l') (map snd l').
Proof. exact z_star_perm. Qed.
Print Assumptions C05_effective_charge_perm.

Theorem C05_emission_perm : forall (U : Units R) (T : R) (l l' : list (R * species R)),
  Permutation l l' ->
  emission_spec (k_b U) (h_pl U) (c_light U) (species R) (fun s T => Zint RNum U s T 0) (@emission_lines R) T l =
  emission_spec (k_b U) (h_pl U) (c_light U) (species R) (fun s T => Zint RNum U s T 0) (@emission_lines R) T l'.
Proof. exact emission_perm_invariant. Qed.
Print Assumptions C05_emission_perm.

Theorem C05_level_sum_perm : forall (U : Units R) (IE : R) (l l' : list (R * R)) (T dE : R),
  Permutation l l' -> Zint_mono_spec (k_b U) IE l T dE = Zint_mono_spec (k_b U) IE l' T dE.
Proof. exact Zint_mono_spec_perm. Qed.
Print Assumptions C05_level_sum_perm.
