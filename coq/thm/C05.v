(* C05 — results do not depend on the order in which species are listed.
   What is a theorem: every species sum is permutation invariant (density, element totals, Stewart-Pyatt effective
   charge, emission); the reference-energy chains (model RefEnergy.E0_of / E0_list, tied to the code by recorded iterations)
   give every species the same value for every listing order as soon as (stoichiometry, charge) pairs are distinct; the
   viscosity system in another listing order is solved by the re-indexed solution and gives the same viscosity; every
   regenerated transport block, both assembled systems, their right-hand sides and every final formula (viscosity, k',
   D_ij, D^T_i, electrical conductivity, total thermal conductivity assembly) are equivariant / invariant under re-listing.  NOT a theorem:
   equivariance of the whole converged solve (as C04) and of the linear transport solves; validated on permuted
   species lists on the implementation. *)
From Coq Require Import Reals List ZArith Permutation.
Import ListNotations.
From MPC Require Import Num Species RInst StatMech RVec RSumIdx Radiation GenSpecies GenRadiation GenTransport Transport RefEnergy Gibbs C04_proofs C05_chain C07_proofs C15_proofs C12_split C05_transport C05_blocks C05_ext C09_proofs C10_proofs C10_kkt C01_unique.
Open Scope R_scope.

Theorem C05_density_perm : forall (U : Units R) (l l' : list (R * species R)),
  Permutation l l' ->
  Rsum (map (fun ns => fst ns * molar_mass (snd ns)) l) / N_a U = Rsum (map (fun ns => fst ns * molar_mass (snd ns)) l') / N_a U.
Proof. exact density_perm. Qed.
Print Assumptions C05_density_perm.

Theorem C05_element_totals_perm : forall (el : nat) (l l' : list (species R * R)),
  Permutation l l' ->
  Rsum (map (fun cx => IZR (Z.of_nat (coeff el (stoichiometry (fst cx)))) * snd cx) l)
  = Rsum (map (fun cx => IZR (Z.of_nat (coeff el (stoichiometry (fst cx)))) * snd cx) l').
Proof. exact el_total_perm. Qed.
Print Assumptions C05_element_totals_perm.

Theorem C05_effective_charge_perm : forall (l l' : list (species R * R)),
  Permutation l l' -> z_star RNum (map fst l) (map snd l) = z_star RNum (map fst l') (map snd l').
Proof. exact z_star_perm. Qed.
Print Assumptions C05_effective_charge_perm.

Theorem C05_emission_perm : forall (U : Units R) (T : R) (l l' : list (R * species R)),
  Permutation l l' ->
  emission_spec (k_b U) (h_pl U) (c_light U) (species R) (fun s T => Zint RNum U s T 0) (@emission_lines R) T l =
  emission_spec (k_b U) (h_pl U) (c_light U) (species R) (fun s T => Zint RNum U s T 0) (@emission_lines R) T l'.
Proof. exact emission_perm_invariant. Qed.
Print Assumptions C05_emission_perm.

Theorem C05_level_sum_perm : forall (U : Units R) (IE : R) (l l' : list (R * R)) (T dE : R),
  Permutation l l' -> Zint_mono_spec (k_b U) IE l T dE = Zint_mono_spec (k_b U) IE l' T dE.
Proof. exact Zint_mono_spec_perm. Qed.
Print Assumptions C05_level_sum_perm.

(* reference-energy chains: the value attached to every species is the same for every listing order *)
Theorem C05_reference_chain_perm : forall (l l' : list (species R * R)),
  Permutation l l' -> keys_distinct l ->
  (forall fuel spd, E0_of RNum fuel l spd = E0_of RNum fuel l' spd) /\
  Permutation (combine (map fst l) (E0_list RNum (map fst l) (map snd l)))
              (combine (map fst l') (E0_list RNum (map fst l') (map snd l'))).
Proof. intros l l' HP HD. split; [apply E0_of_perm; assumption | apply E0_list_perm; assumption]. Qed.
Print Assumptions C05_reference_chain_perm.

(* transport, viscosity: any re-listing sigma (a bijection of the index range with inverse tau) of masses, densities and
   collision integrals; blocks as assembled by the code (Transport.qhatblock); any solution x *)
Theorem C05_viscosity_perm_invariant :
  forall (U : Units R) (T : R) (masses nd : nat -> R) (nb : nat) (sigma tau : nat -> nat) (Qbar : nat -> nat -> nat -> nat -> R),
  (forall i, 0 < masses i) -> (forall i, (i < nb)%nat -> (sigma i < nb)%nat) -> (forall i, (i < nb)%nat -> tau (sigma i) = i) ->
  forall x : nat -> nat -> R,
  visc_rows U T masses nd nb (qints_of Qbar) x ->
  visc_rows U T (masses_p masses sigma) (nd_p nd sigma) nb (qints_of (Qbar_p sigma Qbar)) (fun p i => x p (sigma i)) /\
  visc_value RNum U T (nd_p nd sigma) nb (fun i => x 0%nat (sigma i)) = visc_value RNum U T nd nb (x 0%nat).
Proof. intros U T masses nd nb sigma tau Qbar Hm Hs Hts x. apply (viscosity_perm_invariant U T masses nd nb sigma tau Qbar Hm Hs Hts). Qed.
Print Assumptions C05_viscosity_perm_invariant.

(* all regenerated blocks as assembled by the code, straight from the generated definitions (q22 / q23 as they stand) *)
Theorem C05_blocks_equivariant : forall (nb : nat) (sigma tau : nat -> nat),
  (forall i, (i < nb)%nat -> (sigma i < nb)%nat) -> (forall i, (i < nb)%nat -> tau (sigma i) = i) ->
  forall (masses nd : nat -> R) (Q : @qints R) (p p' i j : nat), (i < nb)%nat -> (j < nb)%nat ->
  qblock RNum (qints_p sigma Q) (fun i => masses (sigma i)) nb (fun i => nd (sigma i)) p p' i j = qblock RNum Q masses nb nd p p' (sigma i) (sigma j) /\
  qhatblock RNum (qints_p sigma Q) (fun i => masses (sigma i)) nb (fun i => nd (sigma i)) p p' i j = qhatblock RNum Q masses nb nd p p' (sigma i) (sigma j).
Proof. intros nb sigma tau Hs Hts masses nd Q p p' i j Hi Hj. split; [apply (qblock_perm nb sigma tau Hs Hts) | apply (qhatblock_perm nb sigma tau Hs Hts)]; assumption. Qed.
Print Assumptions C05_blocks_equivariant.

(* any solution of either linear system, re-indexed, solves the re-listed system with the re-indexed right-hand side *)
Theorem C05_systems_equivariant : forall (nb : nat) (sigma tau : nat -> nat),
  (forall i, (i < nb)%nat -> (sigma i < nb)%nat) -> (forall i, (i < nb)%nat -> tau (sigma i) = i) ->
  forall (masses nd : nat -> R) (Q : @qints R) (rhs x : nat -> nat -> R),
  (q_rows nb masses nd Q rhs x ->
   q_rows nb (fun i => masses (sigma i)) (fun i => nd (sigma i)) (qints_p sigma Q) (fun p i => rhs p (sigma i)) (fun p i => x p (sigma i))) /\
  (qhat_rows nb masses nd Q rhs x ->
   qhat_rows nb (fun i => masses (sigma i)) (fun i => nd (sigma i)) (qints_p sigma Q) (fun p i => rhs p (sigma i)) (fun p i => x p (sigma i))).
Proof. intros nb sigma tau Hs Hts masses nd Q rhs x. split; [apply (q_rows_perm nb sigma tau Hs Hts) | apply (qhat_rows_perm nb sigma tau Hs Hts)]. Qed.
Print Assumptions C05_systems_equivariant.

(* ... and every final formula returns the same number *)
Theorem C05_outputs_invariant : forall (nb : nat) (sigma tau : nat -> nat),
  (forall i, (i < nb)%nat -> (sigma i < nb)%nat) -> (forall i, (i < nb)%nat -> tau (sigma i) = i) ->
  forall (masses nd : nat -> R) (U : Units R) (T rho ntot lim kdash : R) (dt : bool) (b0 a1 charges De hv DT dxdT : nat -> R) (D : nat -> nat -> R),
  visc_value RNum U T (fun i => nd (sigma i)) nb (fun i => b0 (sigma i)) = visc_value RNum U T nd nb b0 /\
  kdash_value RNum U T (fun i => masses (sigma i)) (fun i => nd (sigma i)) nb (fun i => a1 (sigma i)) = kdash_value RNum U T masses nd nb a1 /\
  sigma_value RNum U rho ntot T (fun i => masses (sigma i)) (fun i => nd (sigma i)) (fun j => charges (sigma j)) nb (fun j => De (sigma j))
    = sigma_value RNum U rho ntot T masses nd charges nb De /\
  kappa_total RNum U dt rho ntot T lim (fun i => masses (sigma i)) (fun i => nd (sigma i)) (fun i => hv (sigma i)) (fun i => DT (sigma i))
              (fun i => dxdT (sigma i)) (fun i j => D (sigma i) (sigma j)) nb kdash
    = kappa_total RNum U dt rho ntot T lim masses nd hv DT dxdT D nb kdash.
Proof.
  intros nb sigma tau Hs Hts masses nd U T rho ntot lim kdash dt b0 a1 charges De hv DT dxdT D. repeat split.
  - apply (visc_value_perm nb sigma tau Hs Hts).
  - apply (kdash_value_perm nb sigma tau Hs Hts).
  - apply (sigma_value_perm nb sigma tau Hs Hts).
  - apply (kappa_total_perm nb sigma tau Hs Hts).
Qed.
Print Assumptions C05_outputs_invariant.

(* from the species list itself: the collision-integral matrices built (model Transport.Qmix of functions_transport.Qij_mix) for
   a re-listed species list, fed to the block assembly, give the blocks of the original listing at the re-indexed positions *)
Theorem C05_blocks_of_relisted_mixture :
  forall (U : Units R) (G : R -> R) (sps : list (species R)) (nd : list R) (nb : nat) (sigma tau : nat -> nat) (T : R),
  (forall i, (i < nb)%nat -> (sigma i < nb)%nat) -> (forall i, (i < nb)%nat -> tau (sigma i) = i) ->
  forall (masses ndf : nat -> R) (p p' i j : nat), (i < nb)%nat -> (j < nb)%nat ->
  qblock RNum (Q_of U G T (relist nb sigma sps (dummy_species 0)) (relist nb sigma nd 0)) (fun k => masses (sigma k)) nb (fun k => ndf (sigma k)) p p' i j
  = qblock RNum (Q_of U G T sps nd) masses nb ndf p p' (sigma i) (sigma j) /\
  qhatblock RNum (Q_of U G T (relist nb sigma sps (dummy_species 0)) (relist nb sigma nd 0)) (fun k => masses (sigma k)) nb (fun k => ndf (sigma k)) p p' i j
  = qhatblock RNum (Q_of U G T sps nd) masses nb ndf p p' (sigma i) (sigma j).
Proof. intros U G sps nd nb sigma tau T Hs Hts masses ndf p p' i j Hi Hj. apply (blocks_of_relisted_mixture U G sps nd nb sigma tau T Hs Hts); assumption. Qed.
Print Assumptions C05_blocks_of_relisted_mixture.

(* the converged composition: the fixed point of the solver is unique (ideal mixture), and the statement is per species -- so for
   any two listings of the same species, each solved to a fixed point with the same constraint totals, every species has the same
   number density in both (pair the species of the two listings in any order: the theorem does not depend on the order of `ps`) *)
Theorem C05_equilibrium_independent_of_listing :
  forall (U : Units R) (T P : R) (ps : list (entry * entry)) (cols : list (list R)) (lam1 lam2 : list R),
  0 < k_b U * T -> 0 < P -> ps <> [] -> Forall same_data ps -> Forall (pair_pos U T) ps ->
  let nu := map (fun p => e_n (snd p) - e_n (fst p)) ps in
  let mu1 := map (fun p => mu_at U T (Ntot (map fst ps) * (k_b U * T) / P) (fst p)) ps in
  let mu2 := map (fun p => mu_at U T (Ntot (map snd ps) * (k_b U * T) / P) (snd p)) ps in
  Forall (fun c => List.length c = List.length nu) cols ->
  Forall2 (fun mi ai => mi = - ai) mu1 (alam RNum cols lam1 (repeat 0 (List.length nu))) ->
  Forall2 (fun mi ai => mi = - ai) mu2 (alam RNum cols lam2 (repeat 0 (List.length nu))) ->
  Forall (fun c => dotR c nu = 0) cols ->
  forall p, In p ps ->
    e_n (snd p) / (Ntot (map snd ps) * (k_b U * T) / P) = e_n (fst p) / (Ntot (map fst ps) * (k_b U * T) / P).
Proof. exact kkt_points_same_densities. Qed.
Print Assumptions C05_equilibrium_independent_of_listing.
