(* C17 — the NIST table parser returns exactly the numbers printed in the table.
   Exact model (model/Parser.v, hand-written, tied to parsers.py by an exact differential check);
   printed format spec/NistFormat.v.  No real numbers, no axioms. *)
From Coq Require Import List Ascii String NArith ZArith.
Import ListNotations.
From MPC Require Import Parser NistFormat C17_proofs.

(* every line that is the rendering of well-formed fields, up to inserted blanks and annotation
   characters + x ? [ ] ( ) anywhere, parses to exactly the printed values, one per field, a/b as a fraction *)
Theorem C17_nist_string_render : forall (line : str) (fs : list field),
  Forall wf_field fs -> same_up_to_decoration line (render_line fs) ->
  nist_string line = inr (map value_field fs).
Proof. exact nist_string_render. Qed.
Print Assumptions C17_nist_string_render.

(* level lists: (J, E) pairs in input order *)
Theorem C17_levels_ok : forall (lines : list str) (pairs : list (value * value)),
  Forall2 (fun l p => good_line l (fst p) (snd p)) lines pairs ->
  nist_energy_levels lines = inr pairs.
Proof. intros. now apply levels_from_ok. Qed.
Print Assumptions C17_levels_ok.

(* the first malformed line (ValueError or a field count other than 2) is reported with its index and text *)
Theorem C17_levels_first_error : forall (good : list str) (pairs : list (value * value)) (bad : str) (rest : list str),
  Forall2 (fun l p => good_line l (fst p) (snd p)) good pairs -> bad_line bad ->
  nist_energy_levels (good ++ bad :: rest) = inl (LineError (List.length good) bad).
Proof. intros. unfold nist_energy_levels. now rewrite (levels_from_first_error 0 good pairs bad rest). Qed.
Print Assumptions C17_levels_first_error.

(* a well-formed two-field line is a good line — links the two theorems above to the first *)
Theorem C17_rendered_line_good : forall (l : str) (j e : field),
  wf_field j -> wf_field e -> same_up_to_decoration l (render_line [j; e]) ->
  good_line l (value_field j) (value_field e).
Proof. intros l j e Hj He Hs. unfold good_line. now rewrite (nist_string_render l [j; e]) by (try assumption; repeat constructor; assumption). Qed.
Print Assumptions C17_rendered_line_good.

(* non-vacuity / sanity: concrete decorated lines *)
Example C17_example_fraction_and_exponent :
  nist_string (list_ascii_of_string "  [3/2] | 12.5e+3? | (-0.25) x|") =
  inr [VFrac (mkDec false 3 0) (mkDec false 2 0); VNum (mkDec false 125 2); VNum (mkDec true 25 (-2))].
Proof. vm_compute. reflexivity. Qed.
Example C17_example_malformed_second_line :
  nist_energy_levels (map list_ascii_of_string ["1/2 | 0.0 |"; "3/2 | 1.5.3 |"; "2 | 7 |"]%string) =
  inl (LineError 1 (list_ascii_of_string "3/2 | 1.5.3 |")).
Proof. vm_compute. reflexivity. Qed.
