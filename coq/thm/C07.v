(* C07 — species partition functions equal their documented statistical-mechanics sums.
   Property theorems only: each is closed by `exact` of a lemma in proofs/C07_proofs.v and
   followed by Print Assumptions.  The kernels (`mono_Zint`, …) are regenerated from
   /repo/src/minplascalc/species.py on every run; the right-hand sides are spec/StatMech.v. *)
From Coq Require Import Reals List Permutation.
Import ListNotations.
From MPC Require Import Num Species RInst StatMech GenSpecies C07_proofs.
Open Scope R_scope.

(* atoms and atomic ions: the sum over exactly the listed levels below the lowered
   ionisation energy — no hypothesis on the order of the level list *)
Theorem C07_mono_Zint_eq_spec : forall (U : Units R) (s : species R) (T dE : R),
  mono_Zint RNum U s T dE = Zint_mono_spec (k_b U) (ionisation_energy s) (energy_levels s) T dE.
Proof. exact mono_Zint_eq_spec. Qed.
Print Assumptions C07_mono_Zint_eq_spec.

(* "regardless of the order in which levels are listed" *)
Theorem C07_mono_Zint_perm_invariant : forall (U : Units R) (s : species R) (l' : list (R * R)) (T dE : R),
  Permutation (energy_levels s) l' ->
  mono_Zint RNum U s T dE = mono_Zint RNum U (with_levels s l') T dE.
Proof. exact mono_Zint_perm_invariant. Qed.
Print Assumptions C07_mono_Zint_perm_invariant.

Theorem C07_translational_Z_eq_spec : forall (U : Units R) (s : species R) (T : R),
  N_a U <> 0 -> h_pl U <> 0 ->
  translational_Z RNum U s T = Ztr_spec (k_b U) (N_a U) (h_pl U) (molar_mass s) T.
Proof. exact translational_Z_eq_spec. Qed.
Print Assumptions C07_translational_Z_eq_spec.

Theorem C07_total_Z_eq_spec : forall (U : Units R) (s : species R) (V T dE : R),
  total_Z RNum U s V T dE = V * translational_Z RNum U s T * Zint RNum U s T dE.
Proof. exact total_Z_eq_spec. Qed.
Print Assumptions C07_total_Z_eq_spec.

Theorem C07_di_Zint_eq_spec : forall (U : Units R) (s : species R) (T dE : R),
  di_Zint RNum U s T dE = Zint_di_spec (k_b U) (g0 s) (w_e s) (b_e s) (sigma_s s) T.
Proof. exact di_Zint_eq_spec. Qed.
Print Assumptions C07_di_Zint_eq_spec.

Theorem C07_poly_Zint_eq_spec_linear : forall (U : Units R) (s : species R) (T dE : R),
  linear_yn s = true ->
  poly_Zint RNum U s T dE =
  Zint_poly_linear_spec (k_b U) (g0 s) (wi_e s) (nth 1 (abc_e s) 0) (sigma_s s) T.
Proof. exact poly_Zint_eq_spec_linear. Qed.
Print Assumptions C07_poly_Zint_eq_spec_linear.

Theorem C07_poly_Zint_eq_spec_nonlinear : forall (U : Units R) (s : species R) (T dE Ae Be Ce : R),
  linear_yn s = false -> abc_e s = [Ae; Be; Ce] ->
  poly_Zint RNum U s T dE =
  Zint_poly_nonlinear_spec (k_b U) (g0 s) (wi_e s) Ae Be Ce (sigma_s s) T.
Proof. exact poly_Zint_eq_spec_nonlinear. Qed.
Print Assumptions C07_poly_Zint_eq_spec_nonlinear.

Theorem C07_electron_Zint_eq_2 : forall (s : species R) (T dE : R), electron_Zint RNum s T dE = 2.
Proof. exact electron_Zint_eq_2. Qed.
Print Assumptions C07_electron_Zint_eq_2.

(* lowering the ionisation energy further never increases an internal partition function
   (all four classes; degeneracies 2J+1 >= 1, i.e. J >= 0) *)
Theorem C07_Zint_antitone_in_dE : forall (U : Units R) (s : species R) (T dE dE' : R),
  (forall JE, In JE (energy_levels s) -> 0 <= fst JE) -> dE <= dE' ->
  Zint RNum U s T dE' <= Zint RNum U s T dE.
Proof. exact Zint_antitone_in_dE. Qed.
Print Assumptions C07_Zint_antitone_in_dE.
